// Differential test for the validating entry points (garde / validator) of serde-saphyr.
//
// Every case renders its outcome (value, error kind, error text with locations, reported
// `location()` / `locations()`) into one string; the strings are compared with literals that were
// generated on the unmodified tree (run with DEMO_PRINT=1 and `--nocapture` to print them).
#![cfg(all(feature = "garde", feature = "validator"))]
#![allow(dead_code, deprecated)]

use std::collections::HashMap;
use std::fmt::Debug;
use std::io::{Cursor, Read};

use garde::Validate as GardeValidate;
use serde::{Deserialize, Deserializer};
use serde_saphyr::{Error, Options, RenderOptions, SnippetMode, UserMessageFormatter};
use validator::Validate as ValidatorValidate;

// ---------------------------------------------------------------------------------------------
// garde types
// ---------------------------------------------------------------------------------------------

#[derive(Debug, Deserialize, GardeValidate, PartialEq)]
struct GItem {
    #[garde(length(min = 2))]
    name: String,
    #[garde(range(min = 1, max = 9))]
    qty: u32,
}

#[derive(Debug, Deserialize, GardeValidate, PartialEq)]
#[serde(rename_all = "camelCase")]
struct GInner {
    #[garde(length(min = 3))]
    user_id: String,
    #[garde(range(max = 100))]
    sha256_sum: u32,
}

#[derive(Debug, Deserialize, GardeValidate, PartialEq)]
struct GRoot {
    #[garde(length(min = 2))]
    name: String,
    #[garde(range(min = 1, max = 100))]
    port: u16,
    #[garde(dive)]
    inner: GInner,
    #[garde(dive)]
    #[serde(default)]
    items: Vec<GItem>,
}

#[derive(Debug, Deserialize, GardeValidate, PartialEq)]
struct GSimple {
    #[garde(length(min = 2))]
    a: String,
}

#[derive(Debug, Deserialize, GardeValidate, PartialEq)]
#[serde(rename_all = "kebab-case")]
struct GKebab {
    #[garde(length(min = 2))]
    first_name: String,
    #[garde(length(min = 2))]
    r#type: String,
    #[garde(range(min = 10))]
    http_server_port: u32,
}

// Two YAML keys that both tokenize to ["my", "field"]: the lookup must stay ambiguous.
#[derive(Debug, Deserialize, GardeValidate, PartialEq)]
struct GAmbiguous {
    #[serde(rename = "myField")]
    #[garde(length(min = 3))]
    my_field: String,
    #[serde(rename = "MyField")]
    #[garde(skip)]
    other: String,
}

// Collapsed match only: `userid` vs `userId`.
#[derive(Debug, Deserialize, GardeValidate, PartialEq)]
struct GCollapsed {
    #[serde(rename = "userid")]
    #[garde(length(min = 3))]
    user_id: String,
}

// Case-insensitive whole-path match only.
#[derive(Debug, Deserialize, GardeValidate, PartialEq)]
struct GUpper {
    #[serde(rename = "NAME")]
    #[garde(length(min = 3))]
    name: String,
}

#[derive(Debug, Deserialize, GardeValidate, PartialEq)]
struct GOptional {
    #[garde(required)]
    needed: Option<String>,
    #[garde(dive)]
    nested: Option<GOptionalInner>,
}

#[derive(Debug, Deserialize, GardeValidate, PartialEq)]
struct GOptionalInner {
    #[garde(required)]
    deep: Option<String>,
    #[garde(skip)]
    other: u8,
}

#[derive(Debug, Deserialize, GardeValidate, PartialEq)]
#[garde(transparent)]
struct GNewtype(#[garde(length(min = 3))] String);

#[derive(Debug, Deserialize, GardeValidate, PartialEq)]
struct GTuple(
    #[garde(length(min = 3))] String,
    #[garde(range(min = 5))] u8,
);

fn seq_to_map<'de, D>(de: D) -> Result<HashMap<String, GItem>, D::Error>
where
    D: Deserializer<'de>,
{
    let items = Vec::<GItem>::deserialize(de)?;
    Ok(items
        .into_iter()
        .enumerate()
        .map(|(i, it)| (format!("id{i}"), it))
        .collect())
}

#[derive(Debug, Deserialize, GardeValidate)]
struct GSeqAsMap {
    #[serde(deserialize_with = "seq_to_map")]
    #[garde(dive)]
    entries: HashMap<String, GItem>,
}

#[derive(Debug, Deserialize, GardeValidate, PartialEq)]
struct GMapOfItems {
    #[garde(dive)]
    by_name: std::collections::BTreeMap<String, GItem>,
}

struct Limits {
    max: usize,
}

#[derive(Debug, Deserialize, GardeValidate, PartialEq)]
#[garde(context(Limits as ctx))]
struct GCtx {
    #[garde(length(max = ctx.max))]
    text: String,
}

// ---------------------------------------------------------------------------------------------
// validator types
// ---------------------------------------------------------------------------------------------

#[derive(Debug, Deserialize, ValidatorValidate, PartialEq)]
struct VItem {
    #[validate(length(min = 2))]
    name: String,
    #[validate(range(min = 1, max = 9))]
    qty: u32,
}

#[derive(Debug, Deserialize, ValidatorValidate, PartialEq)]
#[serde(rename_all = "camelCase")]
struct VInner {
    #[validate(length(min = 3, message = "user id too short"))]
    user_id: String,
    #[validate(range(max = 100))]
    sha256_sum: u32,
}

#[derive(Debug, Deserialize, ValidatorValidate, PartialEq)]
struct VRoot {
    #[validate(length(min = 2))]
    name: String,
    #[validate(range(min = 1, max = 100))]
    port: u16,
    #[validate(nested)]
    inner: VInner,
    #[validate(nested)]
    #[serde(default)]
    items: Vec<VItem>,
}

#[derive(Debug, Deserialize, ValidatorValidate, PartialEq)]
struct VSimple {
    #[validate(length(min = 2))]
    a: String,
}

#[derive(Debug, Deserialize, ValidatorValidate, PartialEq)]
struct VAmbiguous {
    #[serde(rename = "myField")]
    #[validate(length(min = 3))]
    my_field: String,
    #[serde(rename = "MyField")]
    other: String,
}

#[derive(Debug, Deserialize, ValidatorValidate, PartialEq)]
#[serde(rename_all = "kebab-case")]
struct VKebab {
    #[validate(length(min = 2))]
    first_name: String,
    #[validate(length(min = 2))]
    r#type: String,
}

// ---------------------------------------------------------------------------------------------
// rendering helpers
// ---------------------------------------------------------------------------------------------

fn kind(e: &Error) -> &'static str {
    match e {
        Error::WithSnippet { .. } => "WithSnippet",
        Error::ValidationError { .. } => "ValidationError",
        Error::ValidationErrors { .. } => "ValidationErrors",
        Error::ValidatorError { .. } => "ValidatorError",
        Error::ValidatorErrors { .. } => "ValidatorErrors",
        Error::Eof { .. } => "Eof",
        Error::MultipleDocuments { .. } => "MultipleDocuments",
        Error::InvalidUtf8Input => "InvalidUtf8Input",
        Error::IOError { .. } => "IOError",
        _ => "Other",
    }
}

fn show_err(e: &Error) -> String {
    let user = UserMessageFormatter;
    let mut off = RenderOptions::new(&user);
    off.snippets = SnippetMode::Off;
    format!(
        "ERR kind={}/{}\nlocation={:?}\nlocations={:?}\n--- display\n{}\n--- user\n{}\n--- user, snippets off\n{}\n--- end",
        kind(e),
        kind(e.without_snippet()),
        e.location().map(|l| (l.line(), l.column())),
        e.locations().map(|l| (
            (l.reference_location.line(), l.reference_location.column()),
            (l.defined_location.line(), l.defined_location.column())
        )),
        e,
        e.render_with_formatter(&user),
        e.render_with_options(off),
    )
}

fn show<T: Debug>(r: Result<T, Error>) -> String {
    match r {
        Ok(v) => format!("OK {v:?}"),
        Err(e) => show_err(&e),
    }
}

/// Validated and plain entry point must agree when validation passes.
fn agree<T: Debug + PartialEq>(valid: Result<T, Error>, plain: Result<T, Error>) -> String {
    match (&valid, &plain) {
        (Ok(a), Ok(b)) => assert_eq!(a, b, "validated and plain entry point disagree"),
        (Err(a), Err(b)) => {
            // A deserialization failure is reported the same way by both.
            if !matches!(
                a.without_snippet(),
                Error::ValidationError { .. }
                    | Error::ValidationErrors { .. }
                    | Error::ValidatorError { .. }
                    | Error::ValidatorErrors { .. }
            ) {
                assert_eq!(a.to_string(), b.to_string());
            }
        }
        _ => {}
    }
    show(valid)
}

fn show_stream<T: Debug>(it: impl Iterator<Item = Result<T, Error>>) -> String {
    let mut out = String::new();
    for (i, r) in it.enumerate() {
        if i > 20 {
            out.push_str("... (cut)\n");
            break;
        }
        out.push_str(&format!("#{i}: {}\n", show(r)));
    }
    out.push_str("<end of stream>");
    out
}

fn opts(with_snippet: bool, crop_radius: usize) -> Options {
    serde_saphyr::options! {
        with_snippet: with_snippet,
        crop_radius: crop_radius,
    }
}

/// A reader that fails after its content is exhausted.
struct FailingReader {
    data: Cursor<Vec<u8>>,
}

impl Read for FailingReader {
    fn read(&mut self, buf: &mut [u8]) -> std::io::Result<usize> {
        let n = self.data.read(buf)?;
        if n == 0 {
            Err(std::io::Error::other("disk on fire"))
        } else {
            Ok(n)
        }
    }
}

/// Localizer that renames every label and records the order in which it is consulted.
struct TracingLocalizer {
    log: std::cell::RefCell<Vec<String>>,
}

impl TracingLocalizer {
    fn note(&self, what: String) {
        self.log.borrow_mut().push(what);
    }
}

impl serde_saphyr::Localizer for TracingLocalizer {
    fn root_path_label(&self) -> std::borrow::Cow<'static, str> {
        self.note("root_path_label".into());
        "(top)".into()
    }
    fn defined(&self) -> std::borrow::Cow<'static, str> {
        self.note("defined".into());
        "[def]".into()
    }
    fn defined_here(&self) -> std::borrow::Cow<'static, str> {
        self.note("defined_here".into());
        "[def here]".into()
    }
    fn value_used_here(&self) -> std::borrow::Cow<'static, str> {
        self.note("value_used_here".into());
        "[used]".into()
    }
    fn defined_window(&self) -> std::borrow::Cow<'static, str> {
        self.note("defined_window".into());
        "[window]".into()
    }
    fn validation_base_message(&self, entry: &str, resolved_path: &str) -> String {
        self.note(format!("validation_base_message({entry}, {resolved_path})"));
        format!("BAD {resolved_path}: {entry}")
    }
    fn invalid_here(&self, base: &str) -> String {
        self.note(format!("invalid_here({base})"));
        format!("HERE {base}")
    }
    fn value_comes_from_the_anchor(&self, def: serde_saphyr::Location) -> String {
        self.note(format!("value_comes_from_the_anchor({}:{})", def.line(), def.column()));
        format!("  | from anchor {}:{}", def.line(), def.column())
    }
    fn override_external_message<'a>(
        &self,
        msg: serde_saphyr::ExternalMessage<'a>,
    ) -> Option<std::borrow::Cow<'a, str>> {
        self.note(format!(
            "override_external_message({:?}, {}, {:?}, {:?})",
            msg.source, msg.original, msg.code, msg.params
        ));
        if msg.original.contains("lower than") || msg.code == Some("length") {
            Some(format!("too short <{}>", msg.original).into())
        } else {
            None
        }
    }
}

struct TracingFormatter {
    l10n: TracingLocalizer,
}

impl serde_saphyr::MessageFormatter for TracingFormatter {
    fn localizer(&self) -> &dyn serde_saphyr::Localizer {
        &self.l10n
    }
    fn format_message<'a>(&self, err: &'a Error) -> std::borrow::Cow<'a, str> {
        UserMessageFormatter.format_message(err)
    }
}

fn show_traced<T: Debug>(r: Result<T, Error>) -> String {
    let fmt = TracingFormatter {
        l10n: TracingLocalizer {
            log: Default::default(),
        },
    };
    match r {
        Ok(v) => format!("OK {v:?}"),
        Err(e) => {
            let rendered = e.render_with_formatter(&fmt);
            let log = fmt.l10n.log.borrow().join("\n");
            format!("--- rendered\n{rendered}\n--- localizer calls\n{log}\n--- end")
        }
    }
}

const GOOD_ROOT: &str = "name: abc\nport: 80\ninner:\n  userId: alice\n  sha256Sum: 7\nitems:\n  - name: bolt\n    qty: 3\n  - {name: nut, qty: 9}\n";

const BAD_ROOT: &str = "name: a\nport: 0\ninner:\n  userId: al\n  sha256Sum: 700\nitems:\n  - name: bolt\n    qty: 3\n  - {name: n, qty: 10}\n";

const ANCHOR_ROOT: &str = "defs:\n  - &short x\n  - &big 5000\nname: *short\nport: 80\ninner:\n  userId: *short\n  sha256Sum: *big\nitems:\n  - &it {name: y, qty: 0}\n  - *it\n";

const MERGE_ROOT: &str = "base: &base\n  userId: zz\n  sha256Sum: 101\nname: ok\nport: 101\ninner:\n  <<: *base\nitems: []\n";

fn long_doc(bad_line_value: &str) -> String {
    let mut s = String::new();
    s.push_str("name: &n q\nport: 80\ninner:\n  userId: alice\n  sha256Sum: 7\nitems:\n");
    for i in 0..40 {
        s.push_str(&format!("  - name: item{i}\n    qty: 1\n"));
    }
    s.push_str(&format!("  - name: {bad_line_value}\n    qty: 1\n"));
    for i in 0..40 {
        s.push_str(&format!("  - name: tail{i}\n    qty: 2\n"));
    }
    s
}

#[derive(Debug, Deserialize, GardeValidate, PartialEq)]
struct GRootWithDefs {
    #[garde(skip)]
    #[serde(default)]
    defs: Vec<serde_json::Value>,
    #[garde(skip)]
    #[serde(default)]
    base: Option<serde_json::Value>,
    #[garde(length(min = 2))]
    name: String,
    #[garde(range(min = 1, max = 100))]
    port: u16,
    #[garde(dive)]
    inner: GInner,
    #[garde(dive)]
    #[serde(default)]
    items: Vec<GItem>,
}

#[derive(Debug, Deserialize, ValidatorValidate, PartialEq)]
struct VRootWithDefs {
    #[serde(default)]
    defs: Vec<serde_json::Value>,
    #[serde(default)]
    base: Option<serde_json::Value>,
    #[validate(length(min = 2))]
    name: String,
    #[validate(range(min = 1, max = 100))]
    port: u16,
    #[validate(nested)]
    inner: VInner,
    #[validate(nested)]
    #[serde(default)]
    items: Vec<VItem>,
}

#[derive(Debug, Deserialize, GardeValidate, PartialEq)]
struct GMixed {
    #[garde(length(min = 3))]
    aaa: String,
    #[garde(required)]
    needed: Option<String>,
    #[garde(required)]
    zzz: Option<u8>,
}

#[derive(Debug, Deserialize, ValidatorValidate, PartialEq)]
struct VMixed {
    #[validate(length(min = 3))]
    aaa: String,
    #[validate(required)]
    needed: Option<String>,
    #[validate(required)]
    zzz: Option<u8>,
}

fn cases() -> Vec<(&'static str, String)> {
    let mut out: Vec<(&'static str, String)> = Vec::new();
    let mut add = |name: &'static str, s: String| out.push((name, s));

    // ----- garde, single document from a string --------------------------------------------
    add(
        "g01 good root agrees with from_str",
        agree(
            serde_saphyr::from_str_valid::<GRoot>(GOOD_ROOT),
            serde_saphyr::from_str::<GRoot>(GOOD_ROOT),
        ),
    );
    add(
        "g02 bad root, all fields located",
        show(serde_saphyr::from_str_valid::<GRoot>(BAD_ROOT)),
    );
    add(
        "g03 bad root, no snippet",
        show(serde_saphyr::from_str_with_options_valid::<GRoot>(
            BAD_ROOT,
            opts(false, 64),
        )),
    );
    add(
        "g04 bad root, crop radius 0",
        show(serde_saphyr::from_str_with_options_valid::<GRoot>(
            BAD_ROOT,
            opts(true, 0),
        )),
    );
    add(
        "g05 bad root, crop radius 1",
        show(serde_saphyr::from_str_with_options_valid::<GRoot>(
            BAD_ROOT,
            opts(true, 1),
        )),
    );
    add(
        "g06 anchors: use site and definition site",
        show(serde_saphyr::from_str_valid::<GRootWithDefs>(ANCHOR_ROOT)),
    );
    add(
        "g07 anchors without snippet",
        show(serde_saphyr::from_str_with_options_valid::<GRootWithDefs>(
            ANCHOR_ROOT,
            opts(false, 5),
        )),
    );
    add(
        "g08 merge key: values replayed from the merged mapping",
        show(serde_saphyr::from_str_valid::<GRootWithDefs>(MERGE_ROOT)),
    );
    add(
        "g09 kebab-case, raw identifier, acronym tokens",
        show(serde_saphyr::from_str_valid::<GKebab>(
            "first-name: x\ntype: y\nhttp-server-port: 3\n",
        )),
    );
    add(
        "g10 ambiguous tokenized match stays unlocated",
        show(serde_saphyr::from_str_valid::<GAmbiguous>(
            "myField: ab\nMyField: whatever\n",
        )),
    );
    add(
        "g11 collapsed match",
        show(serde_saphyr::from_str_valid::<GCollapsed>("userid: ab\n")),
    );
    add(
        "g12 case-insensitive match",
        show(serde_saphyr::from_str_valid::<GUpper>("NAME: ab\n")),
    );
    add(
        "g13 required fields absent: root and nested ancestor fallback",
        show(serde_saphyr::from_str_valid::<GOptional>(
            "nested:\n  other: 1\n",
        )),
    );
    add(
        "g14 only nested required field absent",
        show(serde_saphyr::from_str_valid::<GOptional>(
            "needed: yes\nnested:\n  other: 1\n",
        )),
    );
    add(
        "g15 transparent newtype at the root",
        show(serde_saphyr::from_str_valid::<GNewtype>("ab\n")),
    );
    add(
        "g16 tuple struct at the root (index paths)",
        show(serde_saphyr::from_str_valid::<GTuple>("- ab\n- 1\n")),
    );
    add(
        "g17 sequence at the root",
        show(serde_saphyr::from_str_valid::<Vec<GItem>>(
            "- {name: ok, qty: 1}\n- {name: x, qty: 2}\n- &a {name: okay, qty: 77}\n- *a\n",
        )),
    );
    add(
        "g18 sequence turned into a map: key-to-index fallback, unique",
        show(serde_saphyr::from_str_valid::<GSeqAsMap>(
            "entries:\n  - name: x\n    qty: 1\n",
        )),
    );
    add(
        "g19 sequence turned into a map: key-to-index fallback, ambiguous",
        show(
            serde_saphyr::from_str_valid::<GSeqAsMap>(
                "entries:\n  - name: x\n    qty: 1\n  - name: fine\n    qty: 1\n",
            )
            .map(|v| v.entries.len()),
        ),
    );
    add(
        "g20 map of items keyed by odd spellings",
        show(serde_saphyr::from_str_valid::<GMapOfItems>(
            "by_name:\n  Some Key: {name: a, qty: 1}\n  some_key: {name: b, qty: 0}\n  \"\": {name: c, qty: 1}\n",
        )),
    );
    add(
        "g21 context: passes",
        show(serde_saphyr::from_str_with_options_context_valid::<GCtx>(
            "text: hello\n",
            Options::default(),
            &Limits { max: 5 },
        )),
    );
    add(
        "g22 context: fails",
        show(serde_saphyr::from_str_with_options_context_valid::<GCtx>(
            "# comment\ntext: &t hello world\nignored: *t\n",
            Options::default(),
            &Limits { max: 5 },
        )),
    );
    add(
        "g23 long document, default crop",
        show(serde_saphyr::from_str_valid::<GRoot>(&long_doc("*n"))),
    );
    add(
        "g24 long document, crop radius 2",
        show(serde_saphyr::from_str_with_options_valid::<GRoot>(
            &long_doc("*n"),
            opts(true, 2),
        )),
    );
    add(
        "g25 BOM before the document",
        show(serde_saphyr::from_str_valid::<GSimple>("\u{feff}a: x\n")),
    );
    add(
        "g26 CRLF and unicode before the value",
        show(serde_saphyr::from_str_valid::<GSimple>(
            "# h\u{e9}llo \u{1F600}\r\na:   \"\u{e9}\"\r\n",
        )),
    );

    // ----- garde, failures that are not validation failures -----------------------------------
    add(
        "g30 empty input",
        agree(
            serde_saphyr::from_str_valid::<GSimple>(""),
            serde_saphyr::from_str::<GSimple>(""),
        ),
    );
    add(
        "g31 two documents given to the single-document entry point",
        show(serde_saphyr::from_str_valid::<GSimple>("a: xx\n---\na: yy\n")),
    );
    add(
        "g32 garbage after document end marker is ignored",
        show(serde_saphyr::from_str_valid::<GSimple>(
            "a: x\n...\n]]] garbage {{{\n",
        )),
    );
    add(
        "g33 garbage without document end marker",
        agree(
            serde_saphyr::from_str_valid::<GSimple>("a: xx\n]]] garbage\n"),
            serde_saphyr::from_str::<GSimple>("a: xx\n]]] garbage\n"),
        ),
    );
    add(
        "g34 type error beats validation",
        agree(
            serde_saphyr::from_str_valid::<GRoot>("name: a\nport: notanumber\n"),
            serde_saphyr::from_str::<GRoot>("name: a\nport: notanumber\n"),
        ),
    );
    add(
        "g35 type error, no snippet",
        show(serde_saphyr::from_str_with_options_valid::<GRoot>(
            "name: a\nport: [1]\n",
            opts(false, 64),
        )),
    );
    add(
        "g36 missing field",
        show(serde_saphyr::from_str_valid::<GRoot>("name: abc\nport: 1\n")),
    );
    add(
        "g37 unknown anchor",
        show(serde_saphyr::from_str_valid::<GSimple>("a: *nope\n")),
    );
    add(
        "g38 invalid UTF-8 slice",
        show(serde_saphyr::from_slice_valid::<GSimple>(b"a: \xff\xfe\n")),
    );
    add(
        "g39 slice with options, fails validation",
        show(serde_saphyr::from_slice_with_options_valid::<GSimple>(
            b"a: ''\n",
            opts(true, 3),
        )),
    );
    add(
        "g40 scalar null document into a struct",
        show(serde_saphyr::from_str_valid::<GSimple>("~\n")),
    );

    // ----- garde, several documents from a string ---------------------------------------------
    add(
        "g50 multiple: all pass, agrees with from_multiple",
        agree(
            serde_saphyr::from_multiple_valid::<GSimple>("a: xx\n---\na: yy\n---\na: zz\n"),
            serde_saphyr::from_multiple::<GSimple>("a: xx\n---\na: yy\n---\na: zz\n"),
        ),
    );
    add(
        "g51 multiple: every failing document is reported",
        show(serde_saphyr::from_multiple_valid::<GSimple>(
            "a: x\n---\na: fine\n---\n~\n---\nk: &k z\na: *k\n---\na: ''\n...\n",
        )),
    );
    add(
        "g52 multiple: deserialization error wins over collected validation errors",
        show(serde_saphyr::from_multiple_valid::<GSimple>(
            "a: x\n---\na: [1, 2]\n---\na: y\n",
        )),
    );
    add(
        "g53 multiple: null documents are skipped",
        show(serde_saphyr::from_multiple_valid::<GSimple>(
            "---\n~\n---\nnull\n---\na: ok\n---\n",
        )),
    );
    add(
        "g54 multiple: empty input",
        show(serde_saphyr::from_multiple_valid::<GSimple>("")),
    );
    add(
        "g55 multiple: failures without snippet, anchors",
        show(serde_saphyr::from_multiple_with_options_valid::<GRootWithDefs>(
            &format!("{ANCHOR_ROOT}---\n{MERGE_ROOT}---\n{GOOD_ROOT}"),
            opts(false, 64),
        )),
    );
    add(
        "g56 multiple: failures with snippet radius 1, anchors",
        show(serde_saphyr::from_multiple_with_options_valid::<GRootWithDefs>(
            &format!("{ANCHOR_ROOT}---\n{MERGE_ROOT}---\n{GOOD_ROOT}"),
            opts(true, 1),
        )),
    );
    add(
        "g57 multiple: syntax error after a failed document",
        show(serde_saphyr::from_multiple_valid::<GSimple>(
            "a: x\n---\na: [unclosed\n",
        )),
    );
    add(
        "g58 multiple from slice: invalid UTF-8 and a failing one",
        format!(
            "{}\n{}",
            show(serde_saphyr::from_slice_multiple_with_options_valid::<GSimple>(
                b"a: \xc3\x28\n",
                Options::default()
            )),
            show(serde_saphyr::from_slice_multiple_with_options_valid::<GSimple>(
                b"a: ok\n---\na: n\n",
                Options::default()
            )),
        ),
    );
    add(
        "g59 multiple: alias to an anchor of an earlier document",
        show(serde_saphyr::from_multiple_valid::<GSimple>(
            "a: &x ok\n---\na: *x\n",
        )),
    );

    // ----- garde, readers ---------------------------------------------------------------------
    add(
        "g60 reader: passes, agrees with from_reader",
        agree(
            serde_saphyr::from_reader_valid::<_, GRoot>(Cursor::new(GOOD_ROOT.as_bytes())),
            serde_saphyr::from_reader::<_, GRoot>(Cursor::new(GOOD_ROOT.as_bytes())),
        ),
    );
    add(
        "g61 reader: fails validation (anchors, no snippet possible)",
        show(serde_saphyr::from_reader_valid::<_, GRootWithDefs>(
            Cursor::new(ANCHOR_ROOT.as_bytes()),
        )),
    );
    add(
        "g62 reader: second document present",
        show(serde_saphyr::from_reader_valid::<_, GSimple>(Cursor::new(
            b"a: xx\n---\na: yy\n".as_slice(),
        ))),
    );
    add(
        "g63 reader: invalid first document followed by a second one",
        show(serde_saphyr::from_reader_valid::<_, GSimple>(Cursor::new(
            b"a: x\n---\na: yy\n".as_slice(),
        ))),
    );
    add(
        "g64 reader: empty",
        agree(
            serde_saphyr::from_reader_valid::<_, GSimple>(Cursor::new(b"".as_slice())),
            serde_saphyr::from_reader::<_, GSimple>(Cursor::new(b"".as_slice())),
        ),
    );
    add(
        "g65 reader: garbage after document end",
        show(serde_saphyr::from_reader_valid::<_, GSimple>(Cursor::new(
            b"a: xx\n...\n]]] }}}\n".as_slice(),
        ))),
    );
    add(
        "g66 reader: garbage without document end",
        show(serde_saphyr::from_reader_valid::<_, GSimple>(Cursor::new(
            b"a: xx\n]]] }}}\n".as_slice(),
        ))),
    );
    add(
        "g67 reader: type error",
        show(serde_saphyr::from_reader_with_options_valid::<_, GRoot>(
            Cursor::new(b"name: [a]\n".as_slice()),
            opts(true, 4),
        )),
    );
    add(
        "g68 reader: I/O failure at the end",
        show(serde_saphyr::from_reader_valid::<_, GSimple>(FailingReader {
            data: Cursor::new(b"a: xx\n".to_vec()),
        })),
    );
    {
        let text = "a: ok\n---\na: x\n---\n~\n---\na: [1]\nb: 2\n---\na: fine\n---\na: &q y\nextra: *q\n---\n";
        let mut r1 = Cursor::new(text.as_bytes());
        let mut r2 = Cursor::new(text.as_bytes());
        let validated = show_stream(serde_saphyr::read_valid::<_, GSimple>(&mut r1));
        let plain = show_stream(serde_saphyr::read::<_, GSimple>(&mut r2));
        add("g70 stream: every failing document reported, recovery", validated);
        add("g71 stream: the plain iterator on the same input", plain);
    }
    {
        let mut r = Cursor::new(b"a: ok\n---\na: [unclosed\n---\na: yy\n".as_slice());
        add(
            "g72 stream: syntax error ends the stream",
            show_stream(serde_saphyr::read_valid::<_, GSimple>(&mut r)),
        );
    }
    {
        let mut r = FailingReader {
            data: Cursor::new(b"a: x\n---\na: yy\n".to_vec()),
        };
        add(
            "g73 stream: I/O failure",
            show_stream(serde_saphyr::read_with_options_valid::<_, GSimple>(
                &mut r,
                Options::default(),
            )),
        );
    }
    {
        let mut r = Cursor::new(b"".as_slice());
        add(
            "g74 stream: empty",
            show_stream(serde_saphyr::read_valid::<_, GSimple>(&mut r)),
        );
    }
    {
        let mut r = Cursor::new(b"~\n---\nnull\n---\n\n---\na: z\n---\n'null'\n".as_slice());
        add(
            "g75 stream: null documents skipped, quoted null is not",
            show_stream(serde_saphyr::read_valid::<_, GSimple>(&mut r)),
        );
    }
    {
        let mut r = Cursor::new(b"a: {b: [1, 2\n".as_slice());
        add(
            "g76 stream: truncated document",
            show_stream(serde_saphyr::read_valid::<_, GSimple>(&mut r)),
        );
    }

    // ----- validator ----------------------------------------------------------------------------
    add(
        "v01 good root agrees with from_str",
        agree(
            serde_saphyr::from_str_validate::<VRoot>(GOOD_ROOT),
            serde_saphyr::from_str::<VRoot>(GOOD_ROOT),
        ),
    );
    add(
        "v02 bad root, all fields located",
        show(serde_saphyr::from_str_validate::<VRoot>(BAD_ROOT)),
    );
    add(
        "v03 bad root, no snippet",
        show(serde_saphyr::from_str_with_options_validate::<VRoot>(
            BAD_ROOT,
            opts(false, 64),
        )),
    );
    add(
        "v04 bad root, crop radius 0 and 1",
        format!(
            "{}\n{}",
            show(serde_saphyr::from_str_with_options_validate::<VRoot>(
                BAD_ROOT,
                opts(true, 0)
            )),
            show(serde_saphyr::from_str_with_options_validate::<VRoot>(
                BAD_ROOT,
                opts(true, 1)
            )),
        ),
    );
    add(
        "v05 anchors: use site and definition site",
        show(serde_saphyr::from_str_validate::<VRootWithDefs>(ANCHOR_ROOT)),
    );
    add(
        "v06 merge key",
        show(serde_saphyr::from_str_validate::<VRootWithDefs>(MERGE_ROOT)),
    );
    add(
        "v07 ambiguous tokenized match stays unlocated",
        show(serde_saphyr::from_str_validate::<VAmbiguous>(
            "myField: ab\nMyField: whatever\n",
        )),
    );
    add(
        "v08 kebab-case and raw identifier",
        show(serde_saphyr::from_str_validate::<VKebab>(
            "first-name: x\ntype: y\n",
        )),
    );
    add(
        "v09 long document, crop radius 2",
        show(serde_saphyr::from_str_with_options_validate::<VRoot>(
            &long_doc("*n"),
            opts(true, 2),
        )),
    );
    add(
        "v10 two documents / empty / type error / invalid utf-8",
        format!(
            "{}\n{}\n{}\n{}\n{}",
            show(serde_saphyr::from_str_validate::<VSimple>(
                "a: xx\n---\na: yy\n"
            )),
            agree(
                serde_saphyr::from_str_validate::<VSimple>(""),
                serde_saphyr::from_str::<VSimple>("")
            ),
            agree(
                serde_saphyr::from_str_validate::<VSimple>("a: {x: 1}\n"),
                serde_saphyr::from_str::<VSimple>("a: {x: 1}\n")
            ),
            show(serde_saphyr::from_slice_validate::<VSimple>(b"a: \xff\n")),
            show(serde_saphyr::from_slice_with_options_validate::<VSimple>(
                b"\xef\xbb\xbfa: ''\n",
                opts(true, 2)
            )),
        ),
    );
    add(
        "v20 multiple: all pass",
        agree(
            serde_saphyr::from_multiple_validate::<VSimple>("a: xx\n---\na: yy\n"),
            serde_saphyr::from_multiple::<VSimple>("a: xx\n---\na: yy\n"),
        ),
    );
    add(
        "v21 multiple: every failing document is reported",
        show(serde_saphyr::from_multiple_validate::<VSimple>(
            "a: x\n---\na: fine\n---\n~\n---\nk: &k z\na: *k\n---\na: ''\n...\n",
        )),
    );
    add(
        "v22 multiple: deserialization error wins",
        show(serde_saphyr::from_multiple_validate::<VSimple>(
            "a: x\n---\na: [1, 2]\n---\na: y\n",
        )),
    );
    add(
        "v23 multiple: anchors, with and without snippets",
        format!(
            "{}\n{}",
            show(serde_saphyr::from_multiple_with_options_validate::<VRootWithDefs>(
                &format!("{ANCHOR_ROOT}---\n{MERGE_ROOT}---\n{GOOD_ROOT}"),
                opts(false, 64),
            )),
            show(serde_saphyr::from_slice_multiple_with_options_validate::<VRootWithDefs>(
                format!("{ANCHOR_ROOT}---\n{MERGE_ROOT}---\n{GOOD_ROOT}").as_bytes(),
                opts(true, 1),
            )),
        ),
    );
    add(
        "v24 multiple: syntax error / empty / invalid utf-8",
        format!(
            "{}\n{}\n{}",
            show(serde_saphyr::from_multiple_validate::<VSimple>(
                "a: x\n---\na: [unclosed\n"
            )),
            show(serde_saphyr::from_multiple_validate::<VSimple>("")),
            show(serde_saphyr::from_slice_multiple_with_options_validate::<VSimple>(
                b"\xff",
                Options::default()
            )),
        ),
    );
    add(
        "v30 reader: passes / fails / second document / invalid then second / empty",
        format!(
            "{}\n{}\n{}\n{}\n{}",
            agree(
                serde_saphyr::from_reader_validate::<_, VRoot>(Cursor::new(GOOD_ROOT.as_bytes())),
                serde_saphyr::from_reader::<_, VRoot>(Cursor::new(GOOD_ROOT.as_bytes()))
            ),
            show(serde_saphyr::from_reader_validate::<_, VRootWithDefs>(
                Cursor::new(ANCHOR_ROOT.as_bytes())
            )),
            show(serde_saphyr::from_reader_validate::<_, VSimple>(Cursor::new(
                b"a: xx\n---\na: yy\n".as_slice()
            ))),
            show(serde_saphyr::from_reader_validate::<_, VSimple>(Cursor::new(
                b"a: x\n---\na: yy\n".as_slice()
            ))),
            show(serde_saphyr::from_reader_validate::<_, VSimple>(Cursor::new(
                b"".as_slice()
            ))),
        ),
    );
    add(
        "v31 reader: garbage after end / without end / type error / io failure",
        format!(
            "{}\n{}\n{}\n{}",
            show(serde_saphyr::from_reader_validate::<_, VSimple>(Cursor::new(
                b"a: xx\n...\n]]] }}}\n".as_slice()
            ))),
            show(serde_saphyr::from_reader_validate::<_, VSimple>(Cursor::new(
                b"a: xx\n]]] }}}\n".as_slice()
            ))),
            show(serde_saphyr::from_reader_with_options_validate::<_, VRoot>(
                Cursor::new(b"name: [a]\n".as_slice()),
                opts(true, 4)
            )),
            show(serde_saphyr::from_reader_validate::<_, VSimple>(FailingReader {
                data: Cursor::new(b"a: xx\n".to_vec()),
            })),
        ),
    );
    {
        let text = "a: ok\n---\na: x\n---\n~\n---\na: [1]\nb: 2\n---\na: fine\n---\na: &q y\nextra: *q\n---\n";
        let mut r1 = Cursor::new(text.as_bytes());
        add(
            "v40 stream: every failing document reported, recovery",
            show_stream(serde_saphyr::read_validate::<_, VSimple>(&mut r1)),
        );
        let mut r = Cursor::new(b"a: ok\n---\na: [unclosed\n---\na: yy\n".as_slice());
        add(
            "v41 stream: syntax error ends the stream",
            show_stream(serde_saphyr::read_validate::<_, VSimple>(&mut r)),
        );
        let mut r = FailingReader {
            data: Cursor::new(b"a: x\n---\na: yy\n".to_vec()),
        };
        add(
            "v42 stream: I/O failure",
            show_stream(serde_saphyr::read_with_options_validate::<_, VSimple>(
                &mut r,
                Options::default(),
            )),
        );
        let mut r = Cursor::new(b"~\n---\nnull\n---\n\n---\na: z\n---\n'null'\n".as_slice());
        add(
            "v43 stream: null documents skipped, quoted null is not",
            show_stream(serde_saphyr::read_validate::<_, VSimple>(&mut r)),
        );
        let mut r = Cursor::new(b"a: {b: [1, 2\n".as_slice());
        add(
            "v44 stream: truncated document",
            show_stream(serde_saphyr::read_validate::<_, VSimple>(&mut r)),
        );
    }

    // ----- custom localizer: labels and the order in which they are requested -------------------
    add(
        "t01 garde, anchors, traced localizer",
        show_traced(serde_saphyr::from_str_valid::<GRootWithDefs>(ANCHOR_ROOT)),
    );
    add(
        "t02 validator, anchors, traced localizer",
        show_traced(serde_saphyr::from_str_validate::<VRootWithDefs>(ANCHOR_ROOT)),
    );
    add(
        "t03 garde, root label and unlocated issue, traced localizer",
        format!(
            "{}\n{}",
            show_traced(serde_saphyr::from_str_valid::<GNewtype>("ab\n")),
            show_traced(serde_saphyr::from_str_valid::<GAmbiguous>(
                "myField: ab\nMyField: whatever\n"
            )),
        ),
    );
    add(
        "t04 multiple documents and reader, traced localizer",
        format!(
            "{}\n{}\n{}",
            show_traced(serde_saphyr::from_multiple_with_options_valid::<GRootWithDefs>(
                &format!("{ANCHOR_ROOT}---\n{MERGE_ROOT}"),
                opts(true, 1),
            )),
            show_traced(serde_saphyr::from_multiple_validate::<VRootWithDefs>(
                &format!("{MERGE_ROOT}---\n{ANCHOR_ROOT}"),
            )),
            show_traced(serde_saphyr::from_reader_validate::<_, VRootWithDefs>(
                Cursor::new(ANCHOR_ROOT.as_bytes())
            )),
        ),
    );

    add(
        "t05 located and unlocated issues in one report",
        format!(
            "{}\n{}\n{}\n{}",
            show(serde_saphyr::from_str_valid::<GMixed>("# c\naaa: ab\n")),
            show_traced(serde_saphyr::from_str_valid::<GMixed>("# c\naaa: ab\n")),
            show(serde_saphyr::from_str_validate::<VMixed>("# c\naaa: ab\n")),
            show_traced(serde_saphyr::from_str_validate::<VMixed>("# c\naaa: ab\n")),
        ),
    );

    out
}

#[test]
fn validating_entry_points_behave_exactly_as_recorded() {
    let got = cases();
    if std::env::var_os("DEMO_PRINT").is_some() {
        println!("@@BEGIN");
        for (name, text) in &got {
            assert!(!text.contains("\"######"));
            println!("    (\n        {name:?},\n        r######\"{text}\"######,\n    ),");
        }
        println!("@@END");
        return;
    }
    assert!(got.len() >= 30);
    assert_eq!(got.len(), EXPECTED.len(), "number of cases");
    let mut failures = Vec::new();
    for ((name, text), (exp_name, exp_text)) in got.iter().zip(EXPECTED.iter()) {
        assert_eq!(name, exp_name, "case order");
        if text != exp_text {
            failures.push(format!(
                "=== {name}\n--- expected\n{exp_text}\n--- got\n{text}\n"
            ));
        }
    }
    assert!(failures.is_empty(), "{}", failures.join("\n"));
}

// Generated on the unmodified tree with DEMO_PRINT=1 (see README.md).
const EXPECTED: &[(&str, &str)] = &[
    (
        "g01 good root agrees with from_str",
        r######"OK GRoot { name: "abc", port: 80, inner: GInner { user_id: "alice", sha256_sum: 7 }, items: [GItem { name: "bolt", qty: 3 }, GItem { name: "nut", qty: 9 }] }"######,
    ),
    (
        "g02 bad root, all fields located",
        r######"ERR kind=WithSnippet/ValidationError
location=Some((5, 14))
locations=Some(((5, 14), (5, 14)))
--- display
error: line 5 column 14: validation error: greater than 100 for `inner.sha256Sum`
 --> (defined):5:14
  |
3 | inner:
4 |   userId: al
5 |   sha256Sum: 700
  |              ^ validation error: greater than 100 for `inner.sha256Sum`
6 | items:
7 |   - name: bolt
  |
error: line 4 column 11: validation error: length is lower than 3 for `inner.userId`
 --> (defined):4:11
  |
3 | inner:
4 |   userId: al
  |           ^ validation error: length is lower than 3 for `inner.userId`
5 |   sha256Sum: 700
6 | items:
  |
error: line 9 column 12: validation error: length is lower than 2 for `items[1].name`
 --> (defined):9:12
  |
7 |   - name: bolt
8 |     qty: 3
9 |   - {name: n, qty: 10}
  |            ^ validation error: length is lower than 2 for `items[1].name`
error: line 9 column 20: validation error: greater than 9 for `items[1].qty`
 --> (defined):9:20
  |
7 |   - name: bolt
8 |     qty: 3
9 |   - {name: n, qty: 10}
  |                    ^ validation error: greater than 9 for `items[1].qty`
error: line 1 column 7: validation error: length is lower than 2 for `name`
 --> (defined):1:7
  |
1 | name: a
  |       ^ validation error: length is lower than 2 for `name`
2 | port: 0
3 | inner:
  |
error: line 2 column 7: validation error: lower than 1 for `port`
 --> (defined):2:7
  |
2 | port: 0
  |       ^ validation error: lower than 1 for `port`
3 | inner:
4 |   userId: al
  |
--- user
error: line 5 column 14: validation error: greater than 100 for `inner.sha256Sum`
 --> (defined):5:14
  |
3 | inner:
4 |   userId: al
5 |   sha256Sum: 700
  |              ^ validation error: greater than 100 for `inner.sha256Sum`
6 | items:
7 |   - name: bolt
  |
error: line 4 column 11: validation error: length is lower than 3 for `inner.userId`
 --> (defined):4:11
  |
3 | inner:
4 |   userId: al
  |           ^ validation error: length is lower than 3 for `inner.userId`
5 |   sha256Sum: 700
6 | items:
  |
error: line 9 column 12: validation error: length is lower than 2 for `items[1].name`
 --> (defined):9:12
  |
7 |   - name: bolt
8 |     qty: 3
9 |   - {name: n, qty: 10}
  |            ^ validation error: length is lower than 2 for `items[1].name`
error: line 9 column 20: validation error: greater than 9 for `items[1].qty`
 --> (defined):9:20
  |
7 |   - name: bolt
8 |     qty: 3
9 |   - {name: n, qty: 10}
  |                    ^ validation error: greater than 9 for `items[1].qty`
error: line 1 column 7: validation error: length is lower than 2 for `name`
 --> (defined):1:7
  |
1 | name: a
  |       ^ validation error: length is lower than 2 for `name`
2 | port: 0
3 | inner:
  |
error: line 2 column 7: validation error: lower than 1 for `port`
 --> (defined):2:7
  |
2 | port: 0
  |       ^ validation error: lower than 1 for `port`
3 | inner:
4 |   userId: al
  |
--- user, snippets off
validation error at inner.sha256Sum: greater than 100 at line 5, column 14
validation error at inner.userId: length is lower than 3 at line 4, column 11
validation error at items[1].name: length is lower than 2 at line 9, column 12
validation error at items[1].qty: greater than 9 at line 9, column 20
validation error at name: length is lower than 2 at line 1, column 7
validation error at port: lower than 1 at line 2, column 7
--- end"######,
    ),
    (
        "g03 bad root, no snippet",
        r######"ERR kind=ValidationError/ValidationError
location=Some((5, 14))
locations=Some(((5, 14), (5, 14)))
--- display
validation error at inner.sha256Sum: greater than 100 at line 5, column 14
validation error at inner.userId: length is lower than 3 at line 4, column 11
validation error at items[1].name: length is lower than 2 at line 9, column 12
validation error at items[1].qty: greater than 9 at line 9, column 20
validation error at name: length is lower than 2 at line 1, column 7
validation error at port: lower than 1 at line 2, column 7
--- user
validation error at inner.sha256Sum: greater than 100 at line 5, column 14
validation error at inner.userId: length is lower than 3 at line 4, column 11
validation error at items[1].name: length is lower than 2 at line 9, column 12
validation error at items[1].qty: greater than 9 at line 9, column 20
validation error at name: length is lower than 2 at line 1, column 7
validation error at port: lower than 1 at line 2, column 7
--- user, snippets off
validation error at inner.sha256Sum: greater than 100 at line 5, column 14
validation error at inner.userId: length is lower than 3 at line 4, column 11
validation error at items[1].name: length is lower than 2 at line 9, column 12
validation error at items[1].qty: greater than 9 at line 9, column 20
validation error at name: length is lower than 2 at line 1, column 7
validation error at port: lower than 1 at line 2, column 7
--- end"######,
    ),
    (
        "g04 bad root, crop radius 0",
        r######"ERR kind=ValidationError/ValidationError
location=Some((5, 14))
locations=Some(((5, 14), (5, 14)))
--- display
validation error at inner.sha256Sum: greater than 100 at line 5, column 14
validation error at inner.userId: length is lower than 3 at line 4, column 11
validation error at items[1].name: length is lower than 2 at line 9, column 12
validation error at items[1].qty: greater than 9 at line 9, column 20
validation error at name: length is lower than 2 at line 1, column 7
validation error at port: lower than 1 at line 2, column 7
--- user
validation error at inner.sha256Sum: greater than 100 at line 5, column 14
validation error at inner.userId: length is lower than 3 at line 4, column 11
validation error at items[1].name: length is lower than 2 at line 9, column 12
validation error at items[1].qty: greater than 9 at line 9, column 20
validation error at name: length is lower than 2 at line 1, column 7
validation error at port: lower than 1 at line 2, column 7
--- user, snippets off
validation error at inner.sha256Sum: greater than 100 at line 5, column 14
validation error at inner.userId: length is lower than 3 at line 4, column 11
validation error at items[1].name: length is lower than 2 at line 9, column 12
validation error at items[1].qty: greater than 9 at line 9, column 20
validation error at name: length is lower than 2 at line 1, column 7
validation error at port: lower than 1 at line 2, column 7
--- end"######,
    ),
    (
        "g05 bad root, crop radius 1",
        r######"ERR kind=WithSnippet/ValidationError
location=Some((5, 14))
locations=Some(((5, 14), (5, 14)))
--- display
error: line 5 column 14: validation error: greater than 100 for `inner.sha256Sum`
 --> (defined):5:3
  |
3 | inner:
4 |   userId: al
5 | … 70…
  |   ^ validation error: greater than 100 for `inner.sha256Sum`
6 | items:
7 | …lt
  |
error: line 4 column 11: validation error: length is lower than 3 for `inner.userId`
 --> (defined):4:3
  |
3 | inner:
4 | … al
  |   ^ validation error: length is lower than 3 for `inner.userId`
5 | …um:…
6 | items:
  |
error: line 9 column 12: validation error: length is lower than 2 for `items[1].name`
 --> (defined):9:3
  |
7 | …bol…
8 |     qty: 3
9 | … n,…
  |   ^ validation error: length is lower than 2 for `items[1].name`
error: line 9 column 20: validation error: greater than 9 for `items[1].qty`
 --> (defined):9:3
  |
7 |   - name: bolt
8 |     qty: 3
9 | … 10…
  |   ^ validation error: greater than 9 for `items[1].qty`
error: line 1 column 7: validation error: length is lower than 2 for `name`
 --> (defined):1:3
  |
1 | … a
  |   ^ validation error: length is lower than 2 for `name`
2 | … 0
3 | …:
  |
error: line 2 column 7: validation error: lower than 1 for `port`
 --> (defined):2:3
  |
2 | … 0
  |   ^ validation error: lower than 1 for `port`
3 | …:
4 | …rId…
  |
--- user
error: line 5 column 14: validation error: greater than 100 for `inner.sha256Sum`
 --> (defined):5:3
  |
3 | inner:
4 |   userId: al
5 | … 70…
  |   ^ validation error: greater than 100 for `inner.sha256Sum`
6 | items:
7 | …lt
  |
error: line 4 column 11: validation error: length is lower than 3 for `inner.userId`
 --> (defined):4:3
  |
3 | inner:
4 | … al
  |   ^ validation error: length is lower than 3 for `inner.userId`
5 | …um:…
6 | items:
  |
error: line 9 column 12: validation error: length is lower than 2 for `items[1].name`
 --> (defined):9:3
  |
7 | …bol…
8 |     qty: 3
9 | … n,…
  |   ^ validation error: length is lower than 2 for `items[1].name`
error: line 9 column 20: validation error: greater than 9 for `items[1].qty`
 --> (defined):9:3
  |
7 |   - name: bolt
8 |     qty: 3
9 | … 10…
  |   ^ validation error: greater than 9 for `items[1].qty`
error: line 1 column 7: validation error: length is lower than 2 for `name`
 --> (defined):1:3
  |
1 | … a
  |   ^ validation error: length is lower than 2 for `name`
2 | … 0
3 | …:
  |
error: line 2 column 7: validation error: lower than 1 for `port`
 --> (defined):2:3
  |
2 | … 0
  |   ^ validation error: lower than 1 for `port`
3 | …:
4 | …rId…
  |
--- user, snippets off
validation error at inner.sha256Sum: greater than 100 at line 5, column 14
validation error at inner.userId: length is lower than 3 at line 4, column 11
validation error at items[1].name: length is lower than 2 at line 9, column 12
validation error at items[1].qty: greater than 9 at line 9, column 20
validation error at name: length is lower than 2 at line 1, column 7
validation error at port: lower than 1 at line 2, column 7
--- end"######,
    ),
    (
        "g06 anchors: use site and definition site",
        r######"ERR kind=WithSnippet/ValidationError
location=Some((8, 14))
locations=Some(((8, 14), (3, 10)))
--- display
error: line 8 column 14: invalid here, validation error: greater than 100 for `inner.sha256Sum`
  --> the value is used here:8:14
   |
 6 | inner:
 7 |   userId: *short
 8 |   sha256Sum: *big
   |              ^ invalid here, validation error: greater than 100 for `inner.sha256Sum`
 9 | items:
10 |   - &it {name: y, qty: 0}
   |
  | This value comes indirectly from the anchor at line 3 column 10:
  |
1 | defs:
2 |   - &short x
3 |   - &big 5000
  |          ^ defined here
4 | name: *short
5 | port: 80
  |

error: line 7 column 11: invalid here, validation error: length is lower than 3 for `inner.userId`
 --> the value is used here:7:11
  |
6 | inner:
7 |   userId: *short
  |           ^ invalid here, validation error: length is lower than 3 for `inner.userId`
8 |   sha256Sum: *big
9 | items:
  |
  | This value comes indirectly from the anchor at line 2 column 12:
  |
1 | defs:
2 |   - &short x
  |            ^ defined here
3 |   - &big 5000
4 | name: *short
  |

error: line 10 column 16: validation error: length is lower than 2 for `items[0].name`
  --> (defined):10:16
   |
 8 |   sha256Sum: *big
 9 | items:
10 |   - &it {name: y, qty: 0}
   |                ^ validation error: length is lower than 2 for `items[0].name`
error: line 10 column 24: validation error: lower than 1 for `items[0].qty`
  --> (defined):10:24
   |
 8 |   sha256Sum: *big
 9 | items:
10 |   - &it {name: y, qty: 0}
   |                        ^ validation error: lower than 1 for `items[0].qty`
invalid here, validation error: length is lower than 2 for `items[1].name` at line 11, column 5
  | This value comes indirectly from the anchor at line 10 column 16:
   |
 8 |   sha256Sum: *big
 9 | items:
10 |   - &it {name: y, qty: 0}
   |                ^ defined here
11 |
   |

invalid here, validation error: lower than 1 for `items[1].qty` at line 11, column 5
  | This value comes indirectly from the anchor at line 10 column 24:
   |
 8 |   sha256Sum: *big
 9 | items:
10 |   - &it {name: y, qty: 0}
   |                        ^ defined here
11 |
   |

error: line 4 column 7: invalid here, validation error: length is lower than 2 for `name`
 --> the value is used here:4:7
  |
2 |   - &short x
3 |   - &big 5000
4 | name: *short
  |       ^ invalid here, validation error: length is lower than 2 for `name`
5 | port: 80
  |
  | This value comes indirectly from the anchor at line 2 column 12:
  |
1 | defs:
2 |   - &short x
  |            ^ defined here
3 |   - &big 5000
4 | name: *short
  |

--- user
error: line 8 column 14: invalid here, validation error: greater than 100 for `inner.sha256Sum`
  --> the value is used here:8:14
   |
 6 | inner:
 7 |   userId: *short
 8 |   sha256Sum: *big
   |              ^ invalid here, validation error: greater than 100 for `inner.sha256Sum`
 9 | items:
10 |   - &it {name: y, qty: 0}
   |
  | This value comes indirectly from the anchor at line 3 column 10:
  |
1 | defs:
2 |   - &short x
3 |   - &big 5000
  |          ^ defined here
4 | name: *short
5 | port: 80
  |

error: line 7 column 11: invalid here, validation error: length is lower than 3 for `inner.userId`
 --> the value is used here:7:11
  |
6 | inner:
7 |   userId: *short
  |           ^ invalid here, validation error: length is lower than 3 for `inner.userId`
8 |   sha256Sum: *big
9 | items:
  |
  | This value comes indirectly from the anchor at line 2 column 12:
  |
1 | defs:
2 |   - &short x
  |            ^ defined here
3 |   - &big 5000
4 | name: *short
  |

error: line 10 column 16: validation error: length is lower than 2 for `items[0].name`
  --> (defined):10:16
   |
 8 |   sha256Sum: *big
 9 | items:
10 |   - &it {name: y, qty: 0}
   |                ^ validation error: length is lower than 2 for `items[0].name`
error: line 10 column 24: validation error: lower than 1 for `items[0].qty`
  --> (defined):10:24
   |
 8 |   sha256Sum: *big
 9 | items:
10 |   - &it {name: y, qty: 0}
   |                        ^ validation error: lower than 1 for `items[0].qty`
invalid here, validation error: length is lower than 2 for `items[1].name` at line 11, column 5
  | This value comes indirectly from the anchor at line 10 column 16:
   |
 8 |   sha256Sum: *big
 9 | items:
10 |   - &it {name: y, qty: 0}
   |                ^ defined here
11 |
   |

invalid here, validation error: lower than 1 for `items[1].qty` at line 11, column 5
  | This value comes indirectly from the anchor at line 10 column 24:
   |
 8 |   sha256Sum: *big
 9 | items:
10 |   - &it {name: y, qty: 0}
   |                        ^ defined here
11 |
   |

error: line 4 column 7: invalid here, validation error: length is lower than 2 for `name`
 --> the value is used here:4:7
  |
2 |   - &short x
3 |   - &big 5000
4 | name: *short
  |       ^ invalid here, validation error: length is lower than 2 for `name`
5 | port: 80
  |
  | This value comes indirectly from the anchor at line 2 column 12:
  |
1 | defs:
2 |   - &short x
  |            ^ defined here
3 |   - &big 5000
4 | name: *short
  |

--- user, snippets off
validation error at inner.sha256Sum: greater than 100 at line 8, column 14
validation error at inner.userId: length is lower than 3 at line 7, column 11
validation error at items[0].name: length is lower than 2 at line 10, column 16
validation error at items[0].qty: lower than 1 at line 10, column 24
validation error at items[1].name: length is lower than 2 at line 11, column 5
validation error at items[1].qty: lower than 1 at line 11, column 5
validation error at name: length is lower than 2 at line 4, column 7
--- end"######,
    ),
    (
        "g07 anchors without snippet",
        r######"ERR kind=ValidationError/ValidationError
location=Some((8, 14))
locations=Some(((8, 14), (3, 10)))
--- display
validation error at inner.sha256Sum: greater than 100 at line 8, column 14
validation error at inner.userId: length is lower than 3 at line 7, column 11
validation error at items[0].name: length is lower than 2 at line 10, column 16
validation error at items[0].qty: lower than 1 at line 10, column 24
validation error at items[1].name: length is lower than 2 at line 11, column 5
validation error at items[1].qty: lower than 1 at line 11, column 5
validation error at name: length is lower than 2 at line 4, column 7
--- user
validation error at inner.sha256Sum: greater than 100 at line 8, column 14
validation error at inner.userId: length is lower than 3 at line 7, column 11
validation error at items[0].name: length is lower than 2 at line 10, column 16
validation error at items[0].qty: lower than 1 at line 10, column 24
validation error at items[1].name: length is lower than 2 at line 11, column 5
validation error at items[1].qty: lower than 1 at line 11, column 5
validation error at name: length is lower than 2 at line 4, column 7
--- user, snippets off
validation error at inner.sha256Sum: greater than 100 at line 8, column 14
validation error at inner.userId: length is lower than 3 at line 7, column 11
validation error at items[0].name: length is lower than 2 at line 10, column 16
validation error at items[0].qty: lower than 1 at line 10, column 24
validation error at items[1].name: length is lower than 2 at line 11, column 5
validation error at items[1].qty: lower than 1 at line 11, column 5
validation error at name: length is lower than 2 at line 4, column 7
--- end"######,
    ),
    (
        "g08 merge key: values replayed from the merged mapping",
        r######"ERR kind=WithSnippet/ValidationError
location=Some((7, 7))
locations=Some(((7, 7), (3, 14)))
--- display
error: line 7 column 7: invalid here, validation error: greater than 100 for `inner.sha256Sum`
 --> the value is used here:7:7
  |
5 | port: 101
6 | inner:
7 |   <<: *base
  |       ^ invalid here, validation error: greater than 100 for `inner.sha256Sum`
8 | items: []
  |
  | This value comes indirectly from the anchor at line 3 column 14:
  |
1 | base: &base
2 |   userId: zz
3 |   sha256Sum: 101
  |              ^ defined here
4 | name: ok
5 | port: 101
  |

error: line 7 column 7: invalid here, validation error: length is lower than 3 for `inner.userId`
 --> the value is used here:7:7
  |
5 | port: 101
6 | inner:
7 |   <<: *base
  |       ^ invalid here, validation error: length is lower than 3 for `inner.userId`
8 | items: []
  |
  | This value comes indirectly from the anchor at line 2 column 11:
  |
1 | base: &base
2 |   userId: zz
  |           ^ defined here
3 |   sha256Sum: 101
4 | name: ok
  |

error: line 5 column 7: validation error: greater than 100 for `port`
 --> (defined):5:7
  |
5 | port: 101
  |       ^ validation error: greater than 100 for `port`
6 | inner:
7 |   <<: *base
  |
--- user
error: line 7 column 7: invalid here, validation error: greater than 100 for `inner.sha256Sum`
 --> the value is used here:7:7
  |
5 | port: 101
6 | inner:
7 |   <<: *base
  |       ^ invalid here, validation error: greater than 100 for `inner.sha256Sum`
8 | items: []
  |
  | This value comes indirectly from the anchor at line 3 column 14:
  |
1 | base: &base
2 |   userId: zz
3 |   sha256Sum: 101
  |              ^ defined here
4 | name: ok
5 | port: 101
  |

error: line 7 column 7: invalid here, validation error: length is lower than 3 for `inner.userId`
 --> the value is used here:7:7
  |
5 | port: 101
6 | inner:
7 |   <<: *base
  |       ^ invalid here, validation error: length is lower than 3 for `inner.userId`
8 | items: []
  |
  | This value comes indirectly from the anchor at line 2 column 11:
  |
1 | base: &base
2 |   userId: zz
  |           ^ defined here
3 |   sha256Sum: 101
4 | name: ok
  |

error: line 5 column 7: validation error: greater than 100 for `port`
 --> (defined):5:7
  |
5 | port: 101
  |       ^ validation error: greater than 100 for `port`
6 | inner:
7 |   <<: *base
  |
--- user, snippets off
validation error at inner.sha256Sum: greater than 100 at line 7, column 7
validation error at inner.userId: length is lower than 3 at line 7, column 7
validation error at port: greater than 100 at line 5, column 7
--- end"######,
    ),
    (
        "g09 kebab-case, raw identifier, acronym tokens",
        r######"ERR kind=WithSnippet/ValidationError
location=Some((1, 13))
locations=Some(((1, 13), (1, 13)))
--- display
error: line 1 column 13: validation error: length is lower than 2 for `first-name`
 --> (defined):1:13
  |
1 | first-name: x
  |             ^ validation error: length is lower than 2 for `first-name`
2 | type: y
3 | http-server-port: 3
  |
error: line 3 column 19: validation error: lower than 10 for `http-server-port`
 --> (defined):3:19
  |
1 | first-name: x
2 | type: y
3 | http-server-port: 3
  |                   ^ validation error: lower than 10 for `http-server-port`
error: line 2 column 7: validation error: length is lower than 2 for `type`
 --> (defined):2:7
  |
1 | first-name: x
2 | type: y
  |       ^ validation error: length is lower than 2 for `type`
3 | http-server-port: 3
  |
--- user
error: line 1 column 13: validation error: length is lower than 2 for `first-name`
 --> (defined):1:13
  |
1 | first-name: x
  |             ^ validation error: length is lower than 2 for `first-name`
2 | type: y
3 | http-server-port: 3
  |
error: line 3 column 19: validation error: lower than 10 for `http-server-port`
 --> (defined):3:19
  |
1 | first-name: x
2 | type: y
3 | http-server-port: 3
  |                   ^ validation error: lower than 10 for `http-server-port`
error: line 2 column 7: validation error: length is lower than 2 for `type`
 --> (defined):2:7
  |
1 | first-name: x
2 | type: y
  |       ^ validation error: length is lower than 2 for `type`
3 | http-server-port: 3
  |
--- user, snippets off
validation error at first-name: length is lower than 2 at line 1, column 13
validation error at http-server-port: lower than 10 at line 3, column 19
validation error at type: length is lower than 2 at line 2, column 7
--- end"######,
    ),
    (
        "g10 ambiguous tokenized match stays unlocated",
        r######"ERR kind=ValidationError/ValidationError
location=None
locations=None
--- display
validation error at my_field: length is lower than 3
--- user
validation error at my_field: length is lower than 3
--- user, snippets off
validation error at my_field: length is lower than 3
--- end"######,
    ),
    (
        "g11 collapsed match",
        r######"ERR kind=WithSnippet/ValidationError
location=Some((1, 9))
locations=Some(((1, 9), (1, 9)))
--- display
error: line 1 column 9: validation error: length is lower than 3 for `userid`
 --> (defined):1:9
  |
1 | userid: ab
  |         ^ validation error: length is lower than 3 for `userid`
--- user
error: line 1 column 9: validation error: length is lower than 3 for `userid`
 --> (defined):1:9
  |
1 | userid: ab
  |         ^ validation error: length is lower than 3 for `userid`
--- user, snippets off
validation error at userid: length is lower than 3 at line 1, column 9
--- end"######,
    ),
    (
        "g12 case-insensitive match",
        r######"ERR kind=WithSnippet/ValidationError
location=Some((1, 7))
locations=Some(((1, 7), (1, 7)))
--- display
error: line 1 column 7: validation error: length is lower than 3 for `NAME`
 --> (defined):1:7
  |
1 | NAME: ab
  |       ^ validation error: length is lower than 3 for `NAME`
--- user
error: line 1 column 7: validation error: length is lower than 3 for `NAME`
 --> (defined):1:7
  |
1 | NAME: ab
  |       ^ validation error: length is lower than 3 for `NAME`
--- user, snippets off
validation error at NAME: length is lower than 3 at line 1, column 7
--- end"######,
    ),
    (
        "g13 required fields absent: root and nested ancestor fallback",
        r######"ERR kind=ValidationError/ValidationError
location=None
locations=None
--- display
validation error at needed: not set
validation error at nested.deep: not set
--- user
validation error at needed: not set
validation error at nested.deep: not set
--- user, snippets off
validation error at needed: not set
validation error at nested.deep: not set
--- end"######,
    ),
    (
        "g14 only nested required field absent",
        r######"ERR kind=ValidationError/ValidationError
location=None
locations=Some(((3, 3), (3, 3)))
--- display
validation error at nested.deep: not set
--- user
validation error at nested.deep: not set
--- user, snippets off
validation error at nested.deep: not set
--- end"######,
    ),
    (
        "g15 transparent newtype at the root",
        r######"ERR kind=ValidationError/ValidationError
location=None
locations=None
--- display
validation error at <root>: length is lower than 3
--- user
validation error at <root>: length is lower than 3
--- user, snippets off
validation error at <root>: length is lower than 3
--- end"######,
    ),
    (
        "g16 tuple struct at the root (index paths)",
        r######"ERR kind=WithSnippet/ValidationError
location=Some((1, 3))
locations=Some(((1, 3), (1, 3)))
--- display
error: line 1 column 3: validation error: length is lower than 3 for `[0]`
 --> (defined):1:3
  |
1 | - ab
  |   ^ validation error: length is lower than 3 for `[0]`
2 | - 1
  |
error: line 2 column 3: validation error: lower than 5 for `[1]`
 --> (defined):2:3
  |
1 | - ab
2 | - 1
  |   ^ validation error: lower than 5 for `[1]`
--- user
error: line 1 column 3: validation error: length is lower than 3 for `[0]`
 --> (defined):1:3
  |
1 | - ab
  |   ^ validation error: length is lower than 3 for `[0]`
2 | - 1
  |
error: line 2 column 3: validation error: lower than 5 for `[1]`
 --> (defined):2:3
  |
1 | - ab
2 | - 1
  |   ^ validation error: lower than 5 for `[1]`
--- user, snippets off
validation error at [0]: length is lower than 3 at line 1, column 3
validation error at [1]: lower than 5 at line 2, column 3
--- end"######,
    ),
    (
        "g17 sequence at the root",
        r######"ERR kind=WithSnippet/ValidationError
location=Some((2, 10))
locations=Some(((2, 10), (2, 10)))
--- display
error: line 2 column 10: validation error: length is lower than 2 for `[1].name`
 --> (defined):2:10
  |
1 | - {name: ok, qty: 1}
2 | - {name: x, qty: 2}
  |          ^ validation error: length is lower than 2 for `[1].name`
3 | - &a {name: okay, qty: 77}
4 | - *a
  |
error: line 3 column 24: validation error: greater than 9 for `[2].qty`
 --> (defined):3:24
  |
1 | - {name: ok, qty: 1}
2 | - {name: x, qty: 2}
3 | - &a {name: okay, qty: 77}
  |                        ^ validation error: greater than 9 for `[2].qty`
4 | - *a
  |
error: line 4 column 3: invalid here, validation error: greater than 9 for `[3].qty`
 --> the value is used here:4:3
  |
2 | - {name: x, qty: 2}
3 | - &a {name: okay, qty: 77}
4 | - *a
  |   ^ invalid here, validation error: greater than 9 for `[3].qty`
  | This value comes indirectly from the anchor at line 3 column 24:
  |
1 | - {name: ok, qty: 1}
2 | - {name: x, qty: 2}
3 | - &a {name: okay, qty: 77}
  |                        ^ defined here
4 | - *a
5 |
  |

--- user
error: line 2 column 10: validation error: length is lower than 2 for `[1].name`
 --> (defined):2:10
  |
1 | - {name: ok, qty: 1}
2 | - {name: x, qty: 2}
  |          ^ validation error: length is lower than 2 for `[1].name`
3 | - &a {name: okay, qty: 77}
4 | - *a
  |
error: line 3 column 24: validation error: greater than 9 for `[2].qty`
 --> (defined):3:24
  |
1 | - {name: ok, qty: 1}
2 | - {name: x, qty: 2}
3 | - &a {name: okay, qty: 77}
  |                        ^ validation error: greater than 9 for `[2].qty`
4 | - *a
  |
error: line 4 column 3: invalid here, validation error: greater than 9 for `[3].qty`
 --> the value is used here:4:3
  |
2 | - {name: x, qty: 2}
3 | - &a {name: okay, qty: 77}
4 | - *a
  |   ^ invalid here, validation error: greater than 9 for `[3].qty`
  | This value comes indirectly from the anchor at line 3 column 24:
  |
1 | - {name: ok, qty: 1}
2 | - {name: x, qty: 2}
3 | - &a {name: okay, qty: 77}
  |                        ^ defined here
4 | - *a
5 |
  |

--- user, snippets off
validation error at [1].name: length is lower than 2 at line 2, column 10
validation error at [2].qty: greater than 9 at line 3, column 24
validation error at [3].qty: greater than 9 at line 4, column 3
--- end"######,
    ),
    (
        "g18 sequence turned into a map: key-to-index fallback, unique",
        r######"ERR kind=WithSnippet/ValidationError
location=Some((2, 11))
locations=Some(((2, 11), (2, 11)))
--- display
error: line 2 column 11: validation error: length is lower than 2 for `entries.id0.name`
 --> (defined):2:11
  |
1 | entries:
2 |   - name: x
  |           ^ validation error: length is lower than 2 for `entries.id0.name`
3 |     qty: 1
  |
--- user
error: line 2 column 11: validation error: length is lower than 2 for `entries.id0.name`
 --> (defined):2:11
  |
1 | entries:
2 |   - name: x
  |           ^ validation error: length is lower than 2 for `entries.id0.name`
3 |     qty: 1
  |
--- user, snippets off
validation error at entries.id0.name: length is lower than 2 at line 2, column 11
--- end"######,
    ),
    (
        "g19 sequence turned into a map: key-to-index fallback, ambiguous",
        r######"ERR kind=ValidationError/ValidationError
location=None
locations=Some(((2, 3), (2, 3)))
--- display
validation error at entries.id0.name: length is lower than 2
--- user
validation error at entries.id0.name: length is lower than 2
--- user, snippets off
validation error at entries.id0.name: length is lower than 2
--- end"######,
    ),
    (
        "g20 map of items keyed by odd spellings",
        r######"ERR kind=WithSnippet/ValidationError
location=Some((4, 14))
locations=Some(((4, 14), (4, 14)))
--- display
error: line 4 column 14: validation error: length is lower than 2 for `by_name..name`
 --> (defined):4:14
  |
2 |   Some Key: {name: a, qty: 1}
3 |   some_key: {name: b, qty: 0}
4 |   "": {name: c, qty: 1}
  |              ^ validation error: length is lower than 2 for `by_name..name`
error: line 2 column 20: validation error: length is lower than 2 for `by_name.Some Key.name`
 --> (defined):2:20
  |
2 |   Some Key: {name: a, qty: 1}
  |                    ^ validation error: length is lower than 2 for `by_name.Some Key.name`
3 |   some_key: {name: b, qty: 0}
4 |   "": {name: c, qty: 1}
  |
error: line 3 column 20: validation error: length is lower than 2 for `by_name.some_key.name`
 --> (defined):3:20
  |
2 |   Some Key: {name: a, qty: 1}
3 |   some_key: {name: b, qty: 0}
  |                    ^ validation error: length is lower than 2 for `by_name.some_key.name`
4 |   "": {name: c, qty: 1}
  |
error: line 3 column 28: validation error: lower than 1 for `by_name.some_key.qty`
 --> (defined):3:28
  |
2 |   Some Key: {name: a, qty: 1}
3 |   some_key: {name: b, qty: 0}
  |                            ^ validation error: lower than 1 for `by_name.some_key.qty`
4 |   "": {name: c, qty: 1}
  |
--- user
error: line 4 column 14: validation error: length is lower than 2 for `by_name..name`
 --> (defined):4:14
  |
2 |   Some Key: {name: a, qty: 1}
3 |   some_key: {name: b, qty: 0}
4 |   "": {name: c, qty: 1}
  |              ^ validation error: length is lower than 2 for `by_name..name`
error: line 2 column 20: validation error: length is lower than 2 for `by_name.Some Key.name`
 --> (defined):2:20
  |
2 |   Some Key: {name: a, qty: 1}
  |                    ^ validation error: length is lower than 2 for `by_name.Some Key.name`
3 |   some_key: {name: b, qty: 0}
4 |   "": {name: c, qty: 1}
  |
error: line 3 column 20: validation error: length is lower than 2 for `by_name.some_key.name`
 --> (defined):3:20
  |
2 |   Some Key: {name: a, qty: 1}
3 |   some_key: {name: b, qty: 0}
  |                    ^ validation error: length is lower than 2 for `by_name.some_key.name`
4 |   "": {name: c, qty: 1}
  |
error: line 3 column 28: validation error: lower than 1 for `by_name.some_key.qty`
 --> (defined):3:28
  |
2 |   Some Key: {name: a, qty: 1}
3 |   some_key: {name: b, qty: 0}
  |                            ^ validation error: lower than 1 for `by_name.some_key.qty`
4 |   "": {name: c, qty: 1}
  |
--- user, snippets off
validation error at by_name..name: length is lower than 2 at line 4, column 14
validation error at by_name.Some Key.name: length is lower than 2 at line 2, column 20
validation error at by_name.some_key.name: length is lower than 2 at line 3, column 20
validation error at by_name.some_key.qty: lower than 1 at line 3, column 28
--- end"######,
    ),
    (
        "g21 context: passes",
        r######"OK GCtx { text: "hello" }"######,
    ),
    (
        "g22 context: fails",
        r######"ERR kind=WithSnippet/ValidationError
location=Some((2, 10))
locations=Some(((2, 10), (2, 10)))
--- display
error: line 2 column 10: validation error: length is greater than 5 for `text`
 --> (defined):2:10
  |
1 | # comment
2 | text: &t hello world
  |          ^ validation error: length is greater than 5 for `text`
3 | ignored: *t
  |
--- user
error: line 2 column 10: validation error: length is greater than 5 for `text`
 --> (defined):2:10
  |
1 | # comment
2 | text: &t hello world
  |          ^ validation error: length is greater than 5 for `text`
3 | ignored: *t
  |
--- user, snippets off
validation error at text: length is greater than 5 at line 2, column 10
--- end"######,
    ),
    (
        "g23 long document, default crop",
        r######"ERR kind=WithSnippet/ValidationError
location=Some((87, 11))
locations=Some(((87, 11), (1, 10)))
--- display
error: line 87 column 11: invalid here, validation error: length is lower than 2 for `items[40].name`
  --> the value is used here:87:11
   |
85 |   - name: item39
86 |     qty: 1
87 |   - name: *n
   |           ^ invalid here, validation error: length is lower than 2 for `items[40].name`
88 |     qty: 1
89 |   - name: tail0
   |
  | This value comes indirectly from the anchor at line 1 column 10:
  |
1 | name: &n q
  |          ^ defined here
2 | port: 80
3 | inner:
  |

error: line 1 column 10: validation error: length is lower than 2 for `name`
 --> (defined):1:10
  |
1 | name: &n q
  |          ^ validation error: length is lower than 2 for `name`
2 | port: 80
3 | inner:
  |
--- user
error: line 87 column 11: invalid here, validation error: length is lower than 2 for `items[40].name`
  --> the value is used here:87:11
   |
85 |   - name: item39
86 |     qty: 1
87 |   - name: *n
   |           ^ invalid here, validation error: length is lower than 2 for `items[40].name`
88 |     qty: 1
89 |   - name: tail0
   |
  | This value comes indirectly from the anchor at line 1 column 10:
  |
1 | name: &n q
  |          ^ defined here
2 | port: 80
3 | inner:
  |

error: line 1 column 10: validation error: length is lower than 2 for `name`
 --> (defined):1:10
  |
1 | name: &n q
  |          ^ validation error: length is lower than 2 for `name`
2 | port: 80
3 | inner:
  |
--- user, snippets off
validation error at items[40].name: length is lower than 2 at line 87, column 11
validation error at name: length is lower than 2 at line 1, column 10
--- end"######,
    ),
    (
        "g24 long document, crop radius 2",
        r######"ERR kind=WithSnippet/ValidationError
location=Some((87, 11))
locations=Some(((87, 11), (1, 10)))
--- display
error: line 87 column 11: invalid here, validation error: length is lower than 2 for `items[40].name`
  --> the value is used here:87:4
   |
85 | …: ite…
86 | … 1
87 | …: *n
   |    ^ invalid here, validation error: length is lower than 2 for `items[40].name`
88 | … 1
89 | …: tai…
   |
  | This value comes indirectly from the anchor at line 1 column 10:
  |
1 | …n q
  |    ^ defined here
2 | …0
3 | inner:
  |

error: line 1 column 10: validation error: length is lower than 2 for `name`
 --> (defined):1:4
  |
1 | …n q
  |    ^ validation error: length is lower than 2 for `name`
2 | …0
3 | inner:
  |
--- user
error: line 87 column 11: invalid here, validation error: length is lower than 2 for `items[40].name`
  --> the value is used here:87:4
   |
85 | …: ite…
86 | … 1
87 | …: *n
   |    ^ invalid here, validation error: length is lower than 2 for `items[40].name`
88 | … 1
89 | …: tai…
   |
  | This value comes indirectly from the anchor at line 1 column 10:
  |
1 | …n q
  |    ^ defined here
2 | …0
3 | inner:
  |

error: line 1 column 10: validation error: length is lower than 2 for `name`
 --> (defined):1:4
  |
1 | …n q
  |    ^ validation error: length is lower than 2 for `name`
2 | …0
3 | inner:
  |
--- user, snippets off
validation error at items[40].name: length is lower than 2 at line 87, column 11
validation error at name: length is lower than 2 at line 1, column 10
--- end"######,
    ),
    (
        "g25 BOM before the document",
        r######"ERR kind=WithSnippet/ValidationError
location=Some((1, 4))
locations=Some(((1, 4), (1, 4)))
--- display
error: line 1 column 4: validation error: length is lower than 2 for `a`
 --> (defined):1:4
  |
1 | a: x
  |    ^ validation error: length is lower than 2 for `a`
--- user
error: line 1 column 4: validation error: length is lower than 2 for `a`
 --> (defined):1:4
  |
1 | a: x
  |    ^ validation error: length is lower than 2 for `a`
--- user, snippets off
validation error at a: length is lower than 2 at line 1, column 4
--- end"######,
    ),
    (
        "g26 CRLF and unicode before the value",
        r######"OK GSimple { a: "é" }"######,
    ),
    (
        "g30 empty input",
        r######"ERR kind=WithSnippet/Eof
location=Some((1, 1))
locations=Some(((1, 1), (1, 1)))
--- display
unexpected end of input at line 1, column 1
--- user
unexpected end of file at line 1, column 1
--- user, snippets off
unexpected end of file at line 1, column 1
--- end"######,
    ),
    (
        "g31 two documents given to the single-document entry point",
        r######"ERR kind=WithSnippet/MultipleDocuments
location=Some((3, 1))
locations=Some(((3, 1), (3, 1)))
--- display
error: line 3 column 1: multiple YAML documents detected; use from_multiple or from_multiple_with_options
 --> <input>:3:1
  |
1 | a: xx
2 | ---
3 | a: yy
  | ^ multiple YAML documents detected; use from_multiple or from_multiple_with_options
--- user
error: line 3 column 1: only single YAML document expected but multiple found
 --> <input>:3:1
  |
1 | a: xx
2 | ---
3 | a: yy
  | ^ only single YAML document expected but multiple found
--- user, snippets off
only single YAML document expected but multiple found at line 3, column 1
--- end"######,
    ),
    (
        "g32 garbage after document end marker is ignored",
        r######"ERR kind=WithSnippet/ValidationError
location=Some((1, 4))
locations=Some(((1, 4), (1, 4)))
--- display
error: line 1 column 4: validation error: length is lower than 2 for `a`
 --> (defined):1:4
  |
1 | a: x
  |    ^ validation error: length is lower than 2 for `a`
2 | ...
3 | ]]] garbage {{{
  |
--- user
error: line 1 column 4: validation error: length is lower than 2 for `a`
 --> (defined):1:4
  |
1 | a: x
  |    ^ validation error: length is lower than 2 for `a`
2 | ...
3 | ]]] garbage {{{
  |
--- user, snippets off
validation error at a: length is lower than 2 at line 1, column 4
--- end"######,
    ),
    (
        "g33 garbage without document end marker",
        r######"ERR kind=WithSnippet/Other
location=Some((2, 1))
locations=Some(((2, 1), (2, 1)))
--- display
error: line 2 column 1: misplaced bracket
 --> <input>:2:1
  |
1 | a: xx
2 | ]]] garbage
  | ^ misplaced bracket
--- user
error: line 2 column 1: misplaced bracket
 --> <input>:2:1
  |
1 | a: xx
2 | ]]] garbage
  | ^ misplaced bracket
--- user, snippets off
misplaced bracket at line 2, column 1
--- end"######,
    ),
    (
        "g34 type error beats validation",
        r######"ERR kind=WithSnippet/Other
location=Some((2, 7))
locations=Some(((2, 7), (2, 7)))
--- display
error: line 2 column 7: invalid u16
 --> <input>:2:7
  |
1 | name: a
2 | port: notanumber
  |       ^ invalid u16
--- user
error: line 2 column 7: invalid u16
 --> <input>:2:7
  |
1 | name: a
2 | port: notanumber
  |       ^ invalid u16
--- user, snippets off
invalid u16 at line 2, column 7
--- end"######,
    ),
    (
        "g35 type error, no snippet",
        r######"ERR kind=Other/Other
location=Some((2, 7))
locations=Some(((2, 7), (2, 7)))
--- display
unexpected event: expected string scalar at line 2, column 7
--- user
unexpected event: expected string scalar at line 2, column 7
--- user, snippets off
unexpected event: expected string scalar at line 2, column 7
--- end"######,
    ),
    (
        "g36 missing field",
        r######"ERR kind=WithSnippet/Other
location=Some((2, 1))
locations=Some(((2, 1), (2, 1)))
--- display
error: line 2 column 1: missing field `inner`
 --> <input>:2:1
  |
1 | name: abc
2 | port: 1
  | ^ missing field `inner`
--- user
error: line 2 column 1: missing field `inner`
 --> <input>:2:1
  |
1 | name: abc
2 | port: 1
  | ^ missing field `inner`
--- user, snippets off
missing field `inner` at line 2, column 1
--- end"######,
    ),
    (
        "g37 unknown anchor",
        r######"ERR kind=WithSnippet/Other
location=Some((1, 4))
locations=Some(((1, 4), (1, 4)))
--- display
error: line 1 column 4: alias references unknown anchor
 --> <input>:1:4
  |
1 | a: *nope
  |    ^ alias references unknown anchor
--- user
error: line 1 column 4: reference to unknown value
 --> <input>:1:4
  |
1 | a: *nope
  |    ^ reference to unknown value
--- user, snippets off
reference to unknown value at line 1, column 4
--- end"######,
    ),
    (
        "g38 invalid UTF-8 slice",
        r######"ERR kind=InvalidUtf8Input/InvalidUtf8Input
location=None
locations=None
--- display
input is not valid UTF-8
--- user
YAML parser input is not valid UTF-8
--- user, snippets off
YAML parser input is not valid UTF-8
--- end"######,
    ),
    (
        "g39 slice with options, fails validation",
        r######"ERR kind=WithSnippet/ValidationError
location=Some((1, 4))
locations=Some(((1, 4), (1, 4)))
--- display
error: line 1 column 4: validation error: length is lower than 2 for `a`
 --> (defined):1:4
  |
1 | a: ''
  |    ^ validation error: length is lower than 2 for `a`
--- user
error: line 1 column 4: validation error: length is lower than 2 for `a`
 --> (defined):1:4
  |
1 | a: ''
  |    ^ validation error: length is lower than 2 for `a`
--- user, snippets off
validation error at a: length is lower than 2 at line 1, column 4
--- end"######,
    ),
    (
        "g40 scalar null document into a struct",
        r######"ERR kind=Other/Other
location=None
locations=None
--- display
missing field `a`
--- user
missing field `a`
--- user, snippets off
missing field `a`
--- end"######,
    ),
    (
        "g50 multiple: all pass, agrees with from_multiple",
        r######"OK [GSimple { a: "xx" }, GSimple { a: "yy" }, GSimple { a: "zz" }]"######,
    ),
    (
        "g51 multiple: every failing document is reported",
        r######"ERR kind=ValidationErrors/ValidationErrors
location=Some((1, 4))
locations=Some(((1, 4), (1, 4)))
--- display
validation failed for 3 document(s)
error: line 1 column 4: validation error: length is lower than 2 for `a`
 --> (defined):1:4
  |
1 | a: x
  |    ^ validation error: length is lower than 2 for `a`
2 | ---
3 | a: fine
  |

error: line 8 column 4: invalid here, validation error: length is lower than 2 for `a`
  --> the value is used here:8:4
   |
 6 | ---
 7 | k: &k z
 8 | a: *k
   |    ^ invalid here, validation error: length is lower than 2 for `a`
 9 | ---
10 | a: ''
   |
  | This value comes indirectly from the anchor at line 7 column 7:
  |
6 | ---
7 | k: &k z
  |       ^ defined here
8 | a: *k
9 | ---
  |


error: line 10 column 4: validation error: length is lower than 2 for `a`
  --> (defined):10:4
   |
 8 | a: *k
 9 | ---
10 | a: ''
   |    ^ validation error: length is lower than 2 for `a`
11 | ...
   |
--- user
validation failed for 3 document(s)
error: line 1 column 4: validation error: length is lower than 2 for `a`
 --> (defined):1:4
  |
1 | a: x
  |    ^ validation error: length is lower than 2 for `a`
2 | ---
3 | a: fine
  |

error: line 8 column 4: invalid here, validation error: length is lower than 2 for `a`
  --> the value is used here:8:4
   |
 6 | ---
 7 | k: &k z
 8 | a: *k
   |    ^ invalid here, validation error: length is lower than 2 for `a`
 9 | ---
10 | a: ''
   |
  | This value comes indirectly from the anchor at line 7 column 7:
  |
6 | ---
7 | k: &k z
  |       ^ defined here
8 | a: *k
9 | ---
  |


error: line 10 column 4: validation error: length is lower than 2 for `a`
  --> (defined):10:4
   |
 8 | a: *k
 9 | ---
10 | a: ''
   |    ^ validation error: length is lower than 2 for `a`
11 | ...
   |
--- user, snippets off
validation failed for 3 document(s) at line 1, column 4

validation error at a: length is lower than 2 at line 1, column 4

validation error at a: length is lower than 2 at line 8, column 4

validation error at a: length is lower than 2 at line 10, column 4
--- end"######,
    ),
    (
        "g52 multiple: deserialization error wins over collected validation errors",
        r######"ERR kind=WithSnippet/Other
location=Some((3, 4))
locations=Some(((3, 4), (3, 4)))
--- display
error: line 3 column 4: unexpected event: expected string scalar
 --> <input>:3:4
  |
1 | a: x
2 | ---
3 | a: [1, 2]
  |    ^ unexpected event: expected string scalar
4 | ---
5 | a: y
  |
--- user
error: line 3 column 4: unexpected event: expected string scalar
 --> <input>:3:4
  |
1 | a: x
2 | ---
3 | a: [1, 2]
  |    ^ unexpected event: expected string scalar
4 | ---
5 | a: y
  |
--- user, snippets off
unexpected event: expected string scalar at line 3, column 4
--- end"######,
    ),
    (
        "g53 multiple: null documents are skipped",
        r######"OK [GSimple { a: "ok" }]"######,
    ),
    (
        "g54 multiple: empty input",
        r######"OK []"######,
    ),
    (
        "g55 multiple: failures without snippet, anchors",
        r######"ERR kind=ValidationErrors/ValidationErrors
location=Some((8, 14))
locations=Some(((8, 14), (3, 10)))
--- display
validation failed for 2 document(s)
validation error at inner.sha256Sum: greater than 100 at line 8, column 14
validation error at inner.userId: length is lower than 3 at line 7, column 11
validation error at items[0].name: length is lower than 2 at line 10, column 16
validation error at items[0].qty: lower than 1 at line 10, column 24
validation error at items[1].name: length is lower than 2 at line 11, column 5
validation error at items[1].qty: lower than 1 at line 11, column 5
validation error at name: length is lower than 2 at line 4, column 7

validation error at inner.sha256Sum: greater than 100 at line 19, column 7
validation error at inner.userId: length is lower than 3 at line 19, column 7
validation error at port: greater than 100 at line 17, column 7
--- user
validation failed for 2 document(s)
validation error at inner.sha256Sum: greater than 100 at line 8, column 14
validation error at inner.userId: length is lower than 3 at line 7, column 11
validation error at items[0].name: length is lower than 2 at line 10, column 16
validation error at items[0].qty: lower than 1 at line 10, column 24
validation error at items[1].name: length is lower than 2 at line 11, column 5
validation error at items[1].qty: lower than 1 at line 11, column 5
validation error at name: length is lower than 2 at line 4, column 7

validation error at inner.sha256Sum: greater than 100 at line 19, column 7
validation error at inner.userId: length is lower than 3 at line 19, column 7
validation error at port: greater than 100 at line 17, column 7
--- user, snippets off
validation failed for 2 document(s) at line 8, column 14

validation error at inner.sha256Sum: greater than 100 at line 8, column 14
validation error at inner.userId: length is lower than 3 at line 7, column 11
validation error at items[0].name: length is lower than 2 at line 10, column 16
validation error at items[0].qty: lower than 1 at line 10, column 24
validation error at items[1].name: length is lower than 2 at line 11, column 5
validation error at items[1].qty: lower than 1 at line 11, column 5
validation error at name: length is lower than 2 at line 4, column 7

validation error at inner.sha256Sum: greater than 100 at line 19, column 7
validation error at inner.userId: length is lower than 3 at line 19, column 7
validation error at port: greater than 100 at line 17, column 7
--- end"######,
    ),
    (
        "g56 multiple: failures with snippet radius 1, anchors",
        r######"ERR kind=ValidationErrors/ValidationErrors
location=Some((8, 14))
locations=Some(((8, 14), (3, 10)))
--- display
validation failed for 2 document(s)
error: line 8 column 14: invalid here, validation error: greater than 100 for `inner.sha256Sum`
  --> the value is used here:8:3
   |
 6 | inner:
 7 | …hor…
 8 | … *b…
   |   ^ invalid here, validation error: greater than 100 for `inner.sha256Sum`
 9 | items:
10 | …e: …
   |
  | This value comes indirectly from the anchor at line 3 column 10:
  |
1 | defs:
2 | …rt …
3 | … 50…
  |   ^ defined here
4 | …hor…
5 | port: 80
  |

error: line 7 column 11: invalid here, validation error: length is lower than 3 for `inner.userId`
 --> the value is used here:7:3
  |
6 | inner:
7 | … *s…
  |   ^ invalid here, validation error: length is lower than 3 for `inner.userId`
8 | …um:…
9 | items:
  |
  | This value comes indirectly from the anchor at line 2 column 12:
  |
1 | defs:
2 | … x
  |   ^ defined here
3 | …000
4 | …rt
  |

error: line 10 column 16: validation error: length is lower than 2 for `items[0].name`
  --> (defined):10:3
   |
 8 | …big
 9 | items:
10 | … y,…
   |   ^ validation error: length is lower than 2 for `items[0].name`
error: line 10 column 24: validation error: lower than 1 for `items[0].qty`
  --> (defined):10:3
   |
 8 |   sha256Sum: *big
 9 | items:
10 | … 0}
   |   ^ validation error: lower than 1 for `items[0].qty`
invalid here, validation error: length is lower than 2 for `items[1].name` at line 11, column 5
  | This value comes indirectly from the anchor at line 10 column 16:
   |
 8 | …big
 9 | items:
10 | … y,…
   |   ^ defined here
11 |
   |

invalid here, validation error: lower than 1 for `items[1].qty` at line 11, column 5
  | This value comes indirectly from the anchor at line 10 column 24:
   |
 8 |   sha256Sum: *big
 9 | items:
10 | … 0}
   |   ^ defined here
11 |
   |

error: line 4 column 7: invalid here, validation error: length is lower than 2 for `name`
 --> the value is used here:4:3
  |
2 | …sho…
3 | …big…
4 | … *s…
  |   ^ invalid here, validation error: length is lower than 2 for `name`
5 | … 80
  |
  | This value comes indirectly from the anchor at line 2 column 12:
  |
1 | defs:
2 | … x
  |   ^ defined here
3 | …000
4 | …rt
  |


error: line 19 column 7: invalid here, validation error: greater than 100 for `inner.sha256Sum`
  --> the value is used here:19:3
   |
17 | … 10…
18 | …:
19 | … *b…
   |   ^ invalid here, validation error: greater than 100 for `inner.sha256Sum`
20 | …: […
21 | ---
   |
  | This value comes indirectly from the anchor at line 15 column 14:
   |
13 | base: &base
14 |   userId: zz
15 | … 10…
   |   ^ defined here
16 | name: ok
17 | port: 101
   |

error: line 19 column 7: invalid here, validation error: length is lower than 3 for `inner.userId`
  --> the value is used here:19:3
   |
17 | … 10…
18 | …:
19 | … *b…
   |   ^ invalid here, validation error: length is lower than 3 for `inner.userId`
20 | …: […
21 | ---
   |
  | This value comes indirectly from the anchor at line 14 column 11:
   |
13 | …se
14 | … zz
   |   ^ defined here
15 | …um:…
16 | name: ok
   |

error: line 17 column 7: validation error: greater than 100 for `port`
  --> (defined):17:3
   |
17 | … 10…
   |   ^ validation error: greater than 100 for `port`
18 | …:
19 | … *b…
   |
--- user
validation failed for 2 document(s)
error: line 8 column 14: invalid here, validation error: greater than 100 for `inner.sha256Sum`
  --> the value is used here:8:3
   |
 6 | inner:
 7 | …hor…
 8 | … *b…
   |   ^ invalid here, validation error: greater than 100 for `inner.sha256Sum`
 9 | items:
10 | …e: …
   |
  | This value comes indirectly from the anchor at line 3 column 10:
  |
1 | defs:
2 | …rt …
3 | … 50…
  |   ^ defined here
4 | …hor…
5 | port: 80
  |

error: line 7 column 11: invalid here, validation error: length is lower than 3 for `inner.userId`
 --> the value is used here:7:3
  |
6 | inner:
7 | … *s…
  |   ^ invalid here, validation error: length is lower than 3 for `inner.userId`
8 | …um:…
9 | items:
  |
  | This value comes indirectly from the anchor at line 2 column 12:
  |
1 | defs:
2 | … x
  |   ^ defined here
3 | …000
4 | …rt
  |

error: line 10 column 16: validation error: length is lower than 2 for `items[0].name`
  --> (defined):10:3
   |
 8 | …big
 9 | items:
10 | … y,…
   |   ^ validation error: length is lower than 2 for `items[0].name`
error: line 10 column 24: validation error: lower than 1 for `items[0].qty`
  --> (defined):10:3
   |
 8 |   sha256Sum: *big
 9 | items:
10 | … 0}
   |   ^ validation error: lower than 1 for `items[0].qty`
invalid here, validation error: length is lower than 2 for `items[1].name` at line 11, column 5
  | This value comes indirectly from the anchor at line 10 column 16:
   |
 8 | …big
 9 | items:
10 | … y,…
   |   ^ defined here
11 |
   |

invalid here, validation error: lower than 1 for `items[1].qty` at line 11, column 5
  | This value comes indirectly from the anchor at line 10 column 24:
   |
 8 |   sha256Sum: *big
 9 | items:
10 | … 0}
   |   ^ defined here
11 |
   |

error: line 4 column 7: invalid here, validation error: length is lower than 2 for `name`
 --> the value is used here:4:3
  |
2 | …sho…
3 | …big…
4 | … *s…
  |   ^ invalid here, validation error: length is lower than 2 for `name`
5 | … 80
  |
  | This value comes indirectly from the anchor at line 2 column 12:
  |
1 | defs:
2 | … x
  |   ^ defined here
3 | …000
4 | …rt
  |


error: line 19 column 7: invalid here, validation error: greater than 100 for `inner.sha256Sum`
  --> the value is used here:19:3
   |
17 | … 10…
18 | …:
19 | … *b…
   |   ^ invalid here, validation error: greater than 100 for `inner.sha256Sum`
20 | …: […
21 | ---
   |
  | This value comes indirectly from the anchor at line 15 column 14:
   |
13 | base: &base
14 |   userId: zz
15 | … 10…
   |   ^ defined here
16 | name: ok
17 | port: 101
   |

error: line 19 column 7: invalid here, validation error: length is lower than 3 for `inner.userId`
  --> the value is used here:19:3
   |
17 | … 10…
18 | …:
19 | … *b…
   |   ^ invalid here, validation error: length is lower than 3 for `inner.userId`
20 | …: […
21 | ---
   |
  | This value comes indirectly from the anchor at line 14 column 11:
   |
13 | …se
14 | … zz
   |   ^ defined here
15 | …um:…
16 | name: ok
   |

error: line 17 column 7: validation error: greater than 100 for `port`
  --> (defined):17:3
   |
17 | … 10…
   |   ^ validation error: greater than 100 for `port`
18 | …:
19 | … *b…
   |
--- user, snippets off
validation failed for 2 document(s) at line 8, column 14

validation error at inner.sha256Sum: greater than 100 at line 8, column 14
validation error at inner.userId: length is lower than 3 at line 7, column 11
validation error at items[0].name: length is lower than 2 at line 10, column 16
validation error at items[0].qty: lower than 1 at line 10, column 24
validation error at items[1].name: length is lower than 2 at line 11, column 5
validation error at items[1].qty: lower than 1 at line 11, column 5
validation error at name: length is lower than 2 at line 4, column 7

validation error at inner.sha256Sum: greater than 100 at line 19, column 7
validation error at inner.userId: length is lower than 3 at line 19, column 7
validation error at port: greater than 100 at line 17, column 7
--- end"######,
    ),
    (
        "g57 multiple: syntax error after a failed document",
        r######"ERR kind=WithSnippet/Other
location=Some((3, 4))
locations=Some(((3, 4), (3, 4)))
--- display
error: line 3 column 4: unexpected event: expected string scalar
 --> <input>:3:4
  |
1 | a: x
2 | ---
3 | a: [unclosed
  |    ^ unexpected event: expected string scalar
--- user
error: line 3 column 4: unexpected event: expected string scalar
 --> <input>:3:4
  |
1 | a: x
2 | ---
3 | a: [unclosed
  |    ^ unexpected event: expected string scalar
--- user, snippets off
unexpected event: expected string scalar at line 3, column 4
--- end"######,
    ),
    (
        "g58 multiple from slice: invalid UTF-8 and a failing one",
        r######"ERR kind=InvalidUtf8Input/InvalidUtf8Input
location=None
locations=None
--- display
input is not valid UTF-8
--- user
YAML parser input is not valid UTF-8
--- user, snippets off
YAML parser input is not valid UTF-8
--- end
ERR kind=ValidationErrors/ValidationErrors
location=Some((3, 4))
locations=Some(((3, 4), (3, 4)))
--- display
validation failed for 1 document(s)
error: line 3 column 4: validation error: length is lower than 2 for `a`
 --> (defined):3:4
  |
1 | a: ok
2 | ---
3 | a: n
  |    ^ validation error: length is lower than 2 for `a`
--- user
validation failed for 1 document(s)
error: line 3 column 4: validation error: length is lower than 2 for `a`
 --> (defined):3:4
  |
1 | a: ok
2 | ---
3 | a: n
  |    ^ validation error: length is lower than 2 for `a`
--- user, snippets off
validation failed for 1 document(s) at line 3, column 4

validation error at a: length is lower than 2 at line 3, column 4
--- end"######,
    ),
    (
        "g59 multiple: alias to an anchor of an earlier document",
        r######"ERR kind=WithSnippet/Other
location=Some((3, 4))
locations=Some(((3, 4), (3, 4)))
--- display
error: line 3 column 4: alias references unknown anchor
 --> <input>:3:4
  |
1 | a: &x ok
2 | ---
3 | a: *x
  |    ^ alias references unknown anchor
--- user
error: line 3 column 4: reference to unknown value
 --> <input>:3:4
  |
1 | a: &x ok
2 | ---
3 | a: *x
  |    ^ reference to unknown value
--- user, snippets off
reference to unknown value at line 3, column 4
--- end"######,
    ),
    (
        "g60 reader: passes, agrees with from_reader",
        r######"OK GRoot { name: "abc", port: 80, inner: GInner { user_id: "alice", sha256_sum: 7 }, items: [GItem { name: "bolt", qty: 3 }, GItem { name: "nut", qty: 9 }] }"######,
    ),
    (
        "g61 reader: fails validation (anchors, no snippet possible)",
        r######"ERR kind=ValidationError/ValidationError
location=Some((8, 14))
locations=Some(((8, 14), (3, 10)))
--- display
validation error at inner.sha256Sum: greater than 100 at line 8, column 14
validation error at inner.userId: length is lower than 3 at line 7, column 11
validation error at items[0].name: length is lower than 2 at line 10, column 16
validation error at items[0].qty: lower than 1 at line 10, column 24
validation error at items[1].name: length is lower than 2 at line 11, column 5
validation error at items[1].qty: lower than 1 at line 11, column 5
validation error at name: length is lower than 2 at line 4, column 7
--- user
validation error at inner.sha256Sum: greater than 100 at line 8, column 14
validation error at inner.userId: length is lower than 3 at line 7, column 11
validation error at items[0].name: length is lower than 2 at line 10, column 16
validation error at items[0].qty: lower than 1 at line 10, column 24
validation error at items[1].name: length is lower than 2 at line 11, column 5
validation error at items[1].qty: lower than 1 at line 11, column 5
validation error at name: length is lower than 2 at line 4, column 7
--- user, snippets off
validation error at inner.sha256Sum: greater than 100 at line 8, column 14
validation error at inner.userId: length is lower than 3 at line 7, column 11
validation error at items[0].name: length is lower than 2 at line 10, column 16
validation error at items[0].qty: lower than 1 at line 10, column 24
validation error at items[1].name: length is lower than 2 at line 11, column 5
validation error at items[1].qty: lower than 1 at line 11, column 5
validation error at name: length is lower than 2 at line 4, column 7
--- end"######,
    ),
    (
        "g62 reader: second document present",
        r######"ERR kind=MultipleDocuments/MultipleDocuments
location=Some((3, 1))
locations=Some(((3, 1), (3, 1)))
--- display
multiple YAML documents detected; use read_valid or read_with_options_valid to obtain the iterator at line 3, column 1
--- user
only single YAML document expected but multiple found at line 3, column 1
--- user, snippets off
only single YAML document expected but multiple found at line 3, column 1
--- end"######,
    ),
    (
        "g63 reader: invalid first document followed by a second one",
        r######"ERR kind=ValidationError/ValidationError
location=Some((1, 4))
locations=Some(((1, 4), (1, 4)))
--- display
validation error at a: length is lower than 2 at line 1, column 4
--- user
validation error at a: length is lower than 2 at line 1, column 4
--- user, snippets off
validation error at a: length is lower than 2 at line 1, column 4
--- end"######,
    ),
    (
        "g64 reader: empty",
        r######"ERR kind=Eof/Eof
location=Some((1, 1))
locations=Some(((1, 1), (1, 1)))
--- display
unexpected end of input at line 1, column 1
--- user
unexpected end of file at line 1, column 1
--- user, snippets off
unexpected end of file at line 1, column 1
--- end"######,
    ),
    (
        "g65 reader: garbage after document end",
        r######"OK GSimple { a: "xx" }"######,
    ),
    (
        "g66 reader: garbage without document end",
        r######"ERR kind=Other/Other
location=Some((2, 1))
locations=Some(((2, 1), (2, 1)))
--- display
misplaced bracket at line 2, column 1
--- user
misplaced bracket at line 2, column 1
--- user, snippets off
misplaced bracket at line 2, column 1
--- end"######,
    ),
    (
        "g67 reader: type error",
        r######"ERR kind=Other/Other
location=Some((1, 7))
locations=Some(((1, 7), (1, 7)))
--- display
unexpected event: expected string scalar at line 1, column 7
--- user
unexpected event: expected string scalar at line 1, column 7
--- user, snippets off
unexpected event: expected string scalar at line 1, column 7
--- end"######,
    ),
    (
        "g68 reader: I/O failure at the end",
        r######"ERR kind=IOError/IOError
location=None
locations=None
--- display
IO error: disk on fire
--- user
IO error: disk on fire
--- user, snippets off
IO error: disk on fire
--- end"######,
    ),
    (
        "g70 stream: every failing document reported, recovery",
        r######"#0: OK GSimple { a: "ok" }
#1: ERR kind=ValidationError/ValidationError
location=Some((3, 4))
locations=Some(((3, 4), (3, 4)))
--- display
validation error at a: length is lower than 2 at line 3, column 4
--- user
validation error at a: length is lower than 2 at line 3, column 4
--- user, snippets off
validation error at a: length is lower than 2 at line 3, column 4
--- end
#2: ERR kind=Other/Other
location=Some((7, 4))
locations=Some(((7, 4), (7, 4)))
--- display
unexpected event: expected string scalar at line 7, column 4
--- user
unexpected event: expected string scalar at line 7, column 4
--- user, snippets off
unexpected event: expected string scalar at line 7, column 4
--- end
#3: OK GSimple { a: "fine" }
#4: ERR kind=ValidationError/ValidationError
location=Some((12, 7))
locations=Some(((12, 7), (12, 7)))
--- display
validation error at a: length is lower than 2 at line 12, column 7
--- user
validation error at a: length is lower than 2 at line 12, column 7
--- user, snippets off
validation error at a: length is lower than 2 at line 12, column 7
--- end
<end of stream>"######,
    ),
    (
        "g71 stream: the plain iterator on the same input",
        r######"#0: OK GSimple { a: "ok" }
#1: OK GSimple { a: "x" }
#2: ERR kind=Other/Other
location=Some((7, 4))
locations=Some(((7, 4), (7, 4)))
--- display
unexpected event: expected string scalar at line 7, column 4
--- user
unexpected event: expected string scalar at line 7, column 4
--- user, snippets off
unexpected event: expected string scalar at line 7, column 4
--- end
#3: OK GSimple { a: "fine" }
#4: OK GSimple { a: "y" }
<end of stream>"######,
    ),
    (
        "g72 stream: syntax error ends the stream",
        r######"#0: OK GSimple { a: "ok" }
#1: ERR kind=Other/Other
location=Some((3, 4))
locations=Some(((3, 4), (3, 4)))
--- display
unexpected event: expected string scalar at line 3, column 4
--- user
unexpected event: expected string scalar at line 3, column 4
--- user, snippets off
unexpected event: expected string scalar at line 3, column 4
--- end
<end of stream>"######,
    ),
    (
        "g73 stream: I/O failure",
        r######"#0: ERR kind=IOError/IOError
location=None
locations=None
--- display
IO error: disk on fire
--- user
IO error: disk on fire
--- user, snippets off
IO error: disk on fire
--- end
#1: ERR kind=IOError/IOError
location=None
locations=None
--- display
IO error: disk on fire
--- user
IO error: disk on fire
--- user, snippets off
IO error: disk on fire
--- end
<end of stream>"######,
    ),
    (
        "g74 stream: empty",
        r######"<end of stream>"######,
    ),
    (
        "g75 stream: null documents skipped, quoted null is not",
        r######"#0: ERR kind=ValidationError/ValidationError
location=Some((7, 4))
locations=Some(((7, 4), (7, 4)))
--- display
validation error at a: length is lower than 2 at line 7, column 4
--- user
validation error at a: length is lower than 2 at line 7, column 4
--- user, snippets off
validation error at a: length is lower than 2 at line 7, column 4
--- end
#1: ERR kind=Other/Other
location=Some((9, 1))
locations=Some(((9, 1), (9, 1)))
--- display
unexpected event: expected mapping start at line 9, column 1
--- user
unexpected event: expected mapping start at line 9, column 1
--- user, snippets off
unexpected event: expected mapping start at line 9, column 1
--- end
<end of stream>"######,
    ),
    (
        "g76 stream: truncated document",
        r######"#0: ERR kind=Other/Other
location=Some((1, 4))
locations=Some(((1, 4), (1, 4)))
--- display
unexpected event: expected string scalar at line 1, column 4
--- user
unexpected event: expected string scalar at line 1, column 4
--- user, snippets off
unexpected event: expected string scalar at line 1, column 4
--- end
<end of stream>"######,
    ),
    (
        "v01 good root agrees with from_str",
        r######"OK VRoot { name: "abc", port: 80, inner: VInner { user_id: "alice", sha256_sum: 7 }, items: [VItem { name: "bolt", qty: 3 }, VItem { name: "nut", qty: 9 }] }"######,
    ),
    (
        "v02 bad root, all fields located",
        r######"ERR kind=WithSnippet/ValidatorError
location=Some((5, 14))
locations=Some(((5, 14), (5, 14)))
--- display
error: line 5 column 14: validation error: range (max=100, value=700) for `inner.sha256Sum`
 --> (defined):5:14
  |
3 | inner:
4 |   userId: al
5 |   sha256Sum: 700
  |              ^ validation error: range (max=100, value=700) for `inner.sha256Sum`
6 | items:
7 |   - name: bolt
  |
error: line 4 column 11: validation error: user id too short for `inner.userId`
 --> (defined):4:11
  |
3 | inner:
4 |   userId: al
  |           ^ validation error: user id too short for `inner.userId`
5 |   sha256Sum: 700
6 | items:
  |
error: line 9 column 12: validation error: length (min=2, value="n") for `items[1].name`
 --> (defined):9:12
  |
7 |   - name: bolt
8 |     qty: 3
9 |   - {name: n, qty: 10}
  |            ^ validation error: length (min=2, value="n") for `items[1].name`
error: line 9 column 20: validation error: range (max=9, min=1, value=10) for `items[1].qty`
 --> (defined):9:20
  |
7 |   - name: bolt
8 |     qty: 3
9 |   - {name: n, qty: 10}
  |                    ^ validation error: range (max=9, min=1, value=10) for `items[1].qty`
error: line 1 column 7: validation error: length (min=2, value="a") for `name`
 --> (defined):1:7
  |
1 | name: a
  |       ^ validation error: length (min=2, value="a") for `name`
2 | port: 0
3 | inner:
  |
error: line 2 column 7: validation error: range (max=100, min=1, value=0) for `port`
 --> (defined):2:7
  |
2 | port: 0
  |       ^ validation error: range (max=100, min=1, value=0) for `port`
3 | inner:
4 |   userId: al
  |
--- user
error: line 5 column 14: validation error: range (max=100, value=700) for `inner.sha256Sum`
 --> (defined):5:14
  |
3 | inner:
4 |   userId: al
5 |   sha256Sum: 700
  |              ^ validation error: range (max=100, value=700) for `inner.sha256Sum`
6 | items:
7 |   - name: bolt
  |
error: line 4 column 11: validation error: user id too short for `inner.userId`
 --> (defined):4:11
  |
3 | inner:
4 |   userId: al
  |           ^ validation error: user id too short for `inner.userId`
5 |   sha256Sum: 700
6 | items:
  |
error: line 9 column 12: validation error: length (min=2, value="n") for `items[1].name`
 --> (defined):9:12
  |
7 |   - name: bolt
8 |     qty: 3
9 |   - {name: n, qty: 10}
  |            ^ validation error: length (min=2, value="n") for `items[1].name`
error: line 9 column 20: validation error: range (max=9, min=1, value=10) for `items[1].qty`
 --> (defined):9:20
  |
7 |   - name: bolt
8 |     qty: 3
9 |   - {name: n, qty: 10}
  |                    ^ validation error: range (max=9, min=1, value=10) for `items[1].qty`
error: line 1 column 7: validation error: length (min=2, value="a") for `name`
 --> (defined):1:7
  |
1 | name: a
  |       ^ validation error: length (min=2, value="a") for `name`
2 | port: 0
3 | inner:
  |
error: line 2 column 7: validation error: range (max=100, min=1, value=0) for `port`
 --> (defined):2:7
  |
2 | port: 0
  |       ^ validation error: range (max=100, min=1, value=0) for `port`
3 | inner:
4 |   userId: al
  |
--- user, snippets off
validation error at inner.sha256Sum: range (max=100, value=700) at line 5, column 14
validation error at inner.userId: user id too short at line 4, column 11
validation error at items[1].name: length (min=2, value="n") at line 9, column 12
validation error at items[1].qty: range (max=9, min=1, value=10) at line 9, column 20
validation error at name: length (min=2, value="a") at line 1, column 7
validation error at port: range (max=100, min=1, value=0) at line 2, column 7
--- end"######,
    ),
    (
        "v03 bad root, no snippet",
        r######"ERR kind=ValidatorError/ValidatorError
location=Some((5, 14))
locations=Some(((5, 14), (5, 14)))
--- display
validation error at inner.sha256Sum: range (max=100, value=700) at line 5, column 14
validation error at inner.userId: user id too short at line 4, column 11
validation error at items[1].name: length (min=2, value="n") at line 9, column 12
validation error at items[1].qty: range (max=9, min=1, value=10) at line 9, column 20
validation error at name: length (min=2, value="a") at line 1, column 7
validation error at port: range (max=100, min=1, value=0) at line 2, column 7
--- user
validation error at inner.sha256Sum: range (max=100, value=700) at line 5, column 14
validation error at inner.userId: user id too short at line 4, column 11
validation error at items[1].name: length (min=2, value="n") at line 9, column 12
validation error at items[1].qty: range (max=9, min=1, value=10) at line 9, column 20
validation error at name: length (min=2, value="a") at line 1, column 7
validation error at port: range (max=100, min=1, value=0) at line 2, column 7
--- user, snippets off
validation error at inner.sha256Sum: range (max=100, value=700) at line 5, column 14
validation error at inner.userId: user id too short at line 4, column 11
validation error at items[1].name: length (min=2, value="n") at line 9, column 12
validation error at items[1].qty: range (max=9, min=1, value=10) at line 9, column 20
validation error at name: length (min=2, value="a") at line 1, column 7
validation error at port: range (max=100, min=1, value=0) at line 2, column 7
--- end"######,
    ),
    (
        "v04 bad root, crop radius 0 and 1",
        r######"ERR kind=ValidatorError/ValidatorError
location=Some((5, 14))
locations=Some(((5, 14), (5, 14)))
--- display
validation error at inner.sha256Sum: range (max=100, value=700) at line 5, column 14
validation error at inner.userId: user id too short at line 4, column 11
validation error at items[1].name: length (min=2, value="n") at line 9, column 12
validation error at items[1].qty: range (max=9, min=1, value=10) at line 9, column 20
validation error at name: length (min=2, value="a") at line 1, column 7
validation error at port: range (max=100, min=1, value=0) at line 2, column 7
--- user
validation error at inner.sha256Sum: range (max=100, value=700) at line 5, column 14
validation error at inner.userId: user id too short at line 4, column 11
validation error at items[1].name: length (min=2, value="n") at line 9, column 12
validation error at items[1].qty: range (max=9, min=1, value=10) at line 9, column 20
validation error at name: length (min=2, value="a") at line 1, column 7
validation error at port: range (max=100, min=1, value=0) at line 2, column 7
--- user, snippets off
validation error at inner.sha256Sum: range (max=100, value=700) at line 5, column 14
validation error at inner.userId: user id too short at line 4, column 11
validation error at items[1].name: length (min=2, value="n") at line 9, column 12
validation error at items[1].qty: range (max=9, min=1, value=10) at line 9, column 20
validation error at name: length (min=2, value="a") at line 1, column 7
validation error at port: range (max=100, min=1, value=0) at line 2, column 7
--- end
ERR kind=WithSnippet/ValidatorError
location=Some((5, 14))
locations=Some(((5, 14), (5, 14)))
--- display
error: line 5 column 14: validation error: range (max=100, value=700) for `inner.sha256Sum`
 --> (defined):5:3
  |
3 | inner:
4 |   userId: al
5 | … 70…
  |   ^ validation error: range (max=100, value=700) for `inner.sha256Sum`
6 | items:
7 | …lt
  |
error: line 4 column 11: validation error: user id too short for `inner.userId`
 --> (defined):4:3
  |
3 | inner:
4 | … al
  |   ^ validation error: user id too short for `inner.userId`
5 | …um:…
6 | items:
  |
error: line 9 column 12: validation error: length (min=2, value="n") for `items[1].name`
 --> (defined):9:3
  |
7 | …bol…
8 |     qty: 3
9 | … n,…
  |   ^ validation error: length (min=2, value="n") for `items[1].name`
error: line 9 column 20: validation error: range (max=9, min=1, value=10) for `items[1].qty`
 --> (defined):9:3
  |
7 |   - name: bolt
8 |     qty: 3
9 | … 10…
  |   ^ validation error: range (max=9, min=1, value=10) for `items[1].qty`
error: line 1 column 7: validation error: length (min=2, value="a") for `name`
 --> (defined):1:3
  |
1 | … a
  |   ^ validation error: length (min=2, value="a") for `name`
2 | … 0
3 | …:
  |
error: line 2 column 7: validation error: range (max=100, min=1, value=0) for `port`
 --> (defined):2:3
  |
2 | … 0
  |   ^ validation error: range (max=100, min=1, value=0) for `port`
3 | …:
4 | …rId…
  |
--- user
error: line 5 column 14: validation error: range (max=100, value=700) for `inner.sha256Sum`
 --> (defined):5:3
  |
3 | inner:
4 |   userId: al
5 | … 70…
  |   ^ validation error: range (max=100, value=700) for `inner.sha256Sum`
6 | items:
7 | …lt
  |
error: line 4 column 11: validation error: user id too short for `inner.userId`
 --> (defined):4:3
  |
3 | inner:
4 | … al
  |   ^ validation error: user id too short for `inner.userId`
5 | …um:…
6 | items:
  |
error: line 9 column 12: validation error: length (min=2, value="n") for `items[1].name`
 --> (defined):9:3
  |
7 | …bol…
8 |     qty: 3
9 | … n,…
  |   ^ validation error: length (min=2, value="n") for `items[1].name`
error: line 9 column 20: validation error: range (max=9, min=1, value=10) for `items[1].qty`
 --> (defined):9:3
  |
7 |   - name: bolt
8 |     qty: 3
9 | … 10…
  |   ^ validation error: range (max=9, min=1, value=10) for `items[1].qty`
error: line 1 column 7: validation error: length (min=2, value="a") for `name`
 --> (defined):1:3
  |
1 | … a
  |   ^ validation error: length (min=2, value="a") for `name`
2 | … 0
3 | …:
  |
error: line 2 column 7: validation error: range (max=100, min=1, value=0) for `port`
 --> (defined):2:3
  |
2 | … 0
  |   ^ validation error: range (max=100, min=1, value=0) for `port`
3 | …:
4 | …rId…
  |
--- user, snippets off
validation error at inner.sha256Sum: range (max=100, value=700) at line 5, column 14
validation error at inner.userId: user id too short at line 4, column 11
validation error at items[1].name: length (min=2, value="n") at line 9, column 12
validation error at items[1].qty: range (max=9, min=1, value=10) at line 9, column 20
validation error at name: length (min=2, value="a") at line 1, column 7
validation error at port: range (max=100, min=1, value=0) at line 2, column 7
--- end"######,
    ),
    (
        "v05 anchors: use site and definition site",
        r######"ERR kind=WithSnippet/ValidatorError
location=Some((8, 14))
locations=Some(((8, 14), (3, 10)))
--- display
error: line 8 column 14: invalid here, validation error: range (max=100, value=5000) for `inner.sha256Sum`
  --> the value is used here:8:14
   |
 6 | inner:
 7 |   userId: *short
 8 |   sha256Sum: *big
   |              ^ invalid here, validation error: range (max=100, value=5000) for `inner.sha256Sum`
 9 | items:
10 |   - &it {name: y, qty: 0}
   |
  | This value comes indirectly from the anchor at line 3 column 10:
  |
1 | defs:
2 |   - &short x
3 |   - &big 5000
  |          ^ defined here
4 | name: *short
5 | port: 80
  |

error: line 7 column 11: invalid here, validation error: user id too short for `inner.userId`
 --> the value is used here:7:11
  |
6 | inner:
7 |   userId: *short
  |           ^ invalid here, validation error: user id too short for `inner.userId`
8 |   sha256Sum: *big
9 | items:
  |
  | This value comes indirectly from the anchor at line 2 column 12:
  |
1 | defs:
2 |   - &short x
  |            ^ defined here
3 |   - &big 5000
4 | name: *short
  |

error: line 10 column 16: validation error: length (min=2, value="y") for `items[0].name`
  --> (defined):10:16
   |
 8 |   sha256Sum: *big
 9 | items:
10 |   - &it {name: y, qty: 0}
   |                ^ validation error: length (min=2, value="y") for `items[0].name`
error: line 10 column 24: validation error: range (max=9, min=1, value=0) for `items[0].qty`
  --> (defined):10:24
   |
 8 |   sha256Sum: *big
 9 | items:
10 |   - &it {name: y, qty: 0}
   |                        ^ validation error: range (max=9, min=1, value=0) for `items[0].qty`
invalid here, validation error: length (min=2, value="y") for `items[1].name` at line 11, column 5
  | This value comes indirectly from the anchor at line 10 column 16:
   |
 8 |   sha256Sum: *big
 9 | items:
10 |   - &it {name: y, qty: 0}
   |                ^ defined here
11 |
   |

invalid here, validation error: range (max=9, min=1, value=0) for `items[1].qty` at line 11, column 5
  | This value comes indirectly from the anchor at line 10 column 24:
   |
 8 |   sha256Sum: *big
 9 | items:
10 |   - &it {name: y, qty: 0}
   |                        ^ defined here
11 |
   |

error: line 4 column 7: invalid here, validation error: length (min=2, value="x") for `name`
 --> the value is used here:4:7
  |
2 |   - &short x
3 |   - &big 5000
4 | name: *short
  |       ^ invalid here, validation error: length (min=2, value="x") for `name`
5 | port: 80
  |
  | This value comes indirectly from the anchor at line 2 column 12:
  |
1 | defs:
2 |   - &short x
  |            ^ defined here
3 |   - &big 5000
4 | name: *short
  |

--- user
error: line 8 column 14: invalid here, validation error: range (max=100, value=5000) for `inner.sha256Sum`
  --> the value is used here:8:14
   |
 6 | inner:
 7 |   userId: *short
 8 |   sha256Sum: *big
   |              ^ invalid here, validation error: range (max=100, value=5000) for `inner.sha256Sum`
 9 | items:
10 |   - &it {name: y, qty: 0}
   |
  | This value comes indirectly from the anchor at line 3 column 10:
  |
1 | defs:
2 |   - &short x
3 |   - &big 5000
  |          ^ defined here
4 | name: *short
5 | port: 80
  |

error: line 7 column 11: invalid here, validation error: user id too short for `inner.userId`
 --> the value is used here:7:11
  |
6 | inner:
7 |   userId: *short
  |           ^ invalid here, validation error: user id too short for `inner.userId`
8 |   sha256Sum: *big
9 | items:
  |
  | This value comes indirectly from the anchor at line 2 column 12:
  |
1 | defs:
2 |   - &short x
  |            ^ defined here
3 |   - &big 5000
4 | name: *short
  |

error: line 10 column 16: validation error: length (min=2, value="y") for `items[0].name`
  --> (defined):10:16
   |
 8 |   sha256Sum: *big
 9 | items:
10 |   - &it {name: y, qty: 0}
   |                ^ validation error: length (min=2, value="y") for `items[0].name`
error: line 10 column 24: validation error: range (max=9, min=1, value=0) for `items[0].qty`
  --> (defined):10:24
   |
 8 |   sha256Sum: *big
 9 | items:
10 |   - &it {name: y, qty: 0}
   |                        ^ validation error: range (max=9, min=1, value=0) for `items[0].qty`
invalid here, validation error: length (min=2, value="y") for `items[1].name` at line 11, column 5
  | This value comes indirectly from the anchor at line 10 column 16:
   |
 8 |   sha256Sum: *big
 9 | items:
10 |   - &it {name: y, qty: 0}
   |                ^ defined here
11 |
   |

invalid here, validation error: range (max=9, min=1, value=0) for `items[1].qty` at line 11, column 5
  | This value comes indirectly from the anchor at line 10 column 24:
   |
 8 |   sha256Sum: *big
 9 | items:
10 |   - &it {name: y, qty: 0}
   |                        ^ defined here
11 |
   |

error: line 4 column 7: invalid here, validation error: length (min=2, value="x") for `name`
 --> the value is used here:4:7
  |
2 |   - &short x
3 |   - &big 5000
4 | name: *short
  |       ^ invalid here, validation error: length (min=2, value="x") for `name`
5 | port: 80
  |
  | This value comes indirectly from the anchor at line 2 column 12:
  |
1 | defs:
2 |   - &short x
  |            ^ defined here
3 |   - &big 5000
4 | name: *short
  |

--- user, snippets off
validation error at inner.sha256Sum: range (max=100, value=5000) at line 8, column 14
validation error at inner.userId: user id too short at line 7, column 11
validation error at items[0].name: length (min=2, value="y") at line 10, column 16
validation error at items[0].qty: range (max=9, min=1, value=0) at line 10, column 24
validation error at items[1].name: length (min=2, value="y") at line 11, column 5
validation error at items[1].qty: range (max=9, min=1, value=0) at line 11, column 5
validation error at name: length (min=2, value="x") at line 4, column 7
--- end"######,
    ),
    (
        "v06 merge key",
        r######"ERR kind=WithSnippet/ValidatorError
location=Some((7, 7))
locations=Some(((7, 7), (3, 14)))
--- display
error: line 7 column 7: invalid here, validation error: range (max=100, value=101) for `inner.sha256Sum`
 --> the value is used here:7:7
  |
5 | port: 101
6 | inner:
7 |   <<: *base
  |       ^ invalid here, validation error: range (max=100, value=101) for `inner.sha256Sum`
8 | items: []
  |
  | This value comes indirectly from the anchor at line 3 column 14:
  |
1 | base: &base
2 |   userId: zz
3 |   sha256Sum: 101
  |              ^ defined here
4 | name: ok
5 | port: 101
  |

error: line 7 column 7: invalid here, validation error: user id too short for `inner.userId`
 --> the value is used here:7:7
  |
5 | port: 101
6 | inner:
7 |   <<: *base
  |       ^ invalid here, validation error: user id too short for `inner.userId`
8 | items: []
  |
  | This value comes indirectly from the anchor at line 2 column 11:
  |
1 | base: &base
2 |   userId: zz
  |           ^ defined here
3 |   sha256Sum: 101
4 | name: ok
  |

error: line 5 column 7: validation error: range (max=100, min=1, value=101) for `port`
 --> (defined):5:7
  |
5 | port: 101
  |       ^ validation error: range (max=100, min=1, value=101) for `port`
6 | inner:
7 |   <<: *base
  |
--- user
error: line 7 column 7: invalid here, validation error: range (max=100, value=101) for `inner.sha256Sum`
 --> the value is used here:7:7
  |
5 | port: 101
6 | inner:
7 |   <<: *base
  |       ^ invalid here, validation error: range (max=100, value=101) for `inner.sha256Sum`
8 | items: []
  |
  | This value comes indirectly from the anchor at line 3 column 14:
  |
1 | base: &base
2 |   userId: zz
3 |   sha256Sum: 101
  |              ^ defined here
4 | name: ok
5 | port: 101
  |

error: line 7 column 7: invalid here, validation error: user id too short for `inner.userId`
 --> the value is used here:7:7
  |
5 | port: 101
6 | inner:
7 |   <<: *base
  |       ^ invalid here, validation error: user id too short for `inner.userId`
8 | items: []
  |
  | This value comes indirectly from the anchor at line 2 column 11:
  |
1 | base: &base
2 |   userId: zz
  |           ^ defined here
3 |   sha256Sum: 101
4 | name: ok
  |

error: line 5 column 7: validation error: range (max=100, min=1, value=101) for `port`
 --> (defined):5:7
  |
5 | port: 101
  |       ^ validation error: range (max=100, min=1, value=101) for `port`
6 | inner:
7 |   <<: *base
  |
--- user, snippets off
validation error at inner.sha256Sum: range (max=100, value=101) at line 7, column 7
validation error at inner.userId: user id too short at line 7, column 7
validation error at port: range (max=100, min=1, value=101) at line 5, column 7
--- end"######,
    ),
    (
        "v07 ambiguous tokenized match stays unlocated",
        r######"ERR kind=ValidatorError/ValidatorError
location=None
locations=None
--- display
validation error at my_field: length (min=3, value="ab")
--- user
validation error at my_field: length (min=3, value="ab")
--- user, snippets off
validation error at my_field: length (min=3, value="ab")
--- end"######,
    ),
    (
        "v08 kebab-case and raw identifier",
        r######"ERR kind=WithSnippet/ValidatorError
location=Some((1, 13))
locations=Some(((1, 13), (1, 13)))
--- display
error: line 1 column 13: validation error: length (min=2, value="x") for `first-name`
 --> (defined):1:13
  |
1 | first-name: x
  |             ^ validation error: length (min=2, value="x") for `first-name`
2 | type: y
  |
error: line 2 column 7: validation error: length (min=2, value="y") for `type`
 --> (defined):2:7
  |
1 | first-name: x
2 | type: y
  |       ^ validation error: length (min=2, value="y") for `type`
--- user
error: line 1 column 13: validation error: length (min=2, value="x") for `first-name`
 --> (defined):1:13
  |
1 | first-name: x
  |             ^ validation error: length (min=2, value="x") for `first-name`
2 | type: y
  |
error: line 2 column 7: validation error: length (min=2, value="y") for `type`
 --> (defined):2:7
  |
1 | first-name: x
2 | type: y
  |       ^ validation error: length (min=2, value="y") for `type`
--- user, snippets off
validation error at first-name: length (min=2, value="x") at line 1, column 13
validation error at type: length (min=2, value="y") at line 2, column 7
--- end"######,
    ),
    (
        "v09 long document, crop radius 2",
        r######"ERR kind=WithSnippet/ValidatorError
location=Some((87, 11))
locations=Some(((87, 11), (1, 10)))
--- display
error: line 87 column 11: invalid here, validation error: length (min=2, value="q") for `items[40].name`
  --> the value is used here:87:4
   |
85 | …: ite…
86 | … 1
87 | …: *n
   |    ^ invalid here, validation error: length (min=2, value="q") for `items[40].name`
88 | … 1
89 | …: tai…
   |
  | This value comes indirectly from the anchor at line 1 column 10:
  |
1 | …n q
  |    ^ defined here
2 | …0
3 | inner:
  |

error: line 1 column 10: validation error: length (min=2, value="q") for `name`
 --> (defined):1:4
  |
1 | …n q
  |    ^ validation error: length (min=2, value="q") for `name`
2 | …0
3 | inner:
  |
--- user
error: line 87 column 11: invalid here, validation error: length (min=2, value="q") for `items[40].name`
  --> the value is used here:87:4
   |
85 | …: ite…
86 | … 1
87 | …: *n
   |    ^ invalid here, validation error: length (min=2, value="q") for `items[40].name`
88 | … 1
89 | …: tai…
   |
  | This value comes indirectly from the anchor at line 1 column 10:
  |
1 | …n q
  |    ^ defined here
2 | …0
3 | inner:
  |

error: line 1 column 10: validation error: length (min=2, value="q") for `name`
 --> (defined):1:4
  |
1 | …n q
  |    ^ validation error: length (min=2, value="q") for `name`
2 | …0
3 | inner:
  |
--- user, snippets off
validation error at items[40].name: length (min=2, value="q") at line 87, column 11
validation error at name: length (min=2, value="q") at line 1, column 10
--- end"######,
    ),
    (
        "v10 two documents / empty / type error / invalid utf-8",
        r######"ERR kind=WithSnippet/MultipleDocuments
location=Some((3, 1))
locations=Some(((3, 1), (3, 1)))
--- display
error: line 3 column 1: multiple YAML documents detected; use from_multiple or from_multiple_with_options
 --> <input>:3:1
  |
1 | a: xx
2 | ---
3 | a: yy
  | ^ multiple YAML documents detected; use from_multiple or from_multiple_with_options
--- user
error: line 3 column 1: only single YAML document expected but multiple found
 --> <input>:3:1
  |
1 | a: xx
2 | ---
3 | a: yy
  | ^ only single YAML document expected but multiple found
--- user, snippets off
only single YAML document expected but multiple found at line 3, column 1
--- end
ERR kind=WithSnippet/Eof
location=Some((1, 1))
locations=Some(((1, 1), (1, 1)))
--- display
unexpected end of input at line 1, column 1
--- user
unexpected end of file at line 1, column 1
--- user, snippets off
unexpected end of file at line 1, column 1
--- end
ERR kind=WithSnippet/Other
location=Some((1, 4))
locations=Some(((1, 4), (1, 4)))
--- display
error: line 1 column 4: unexpected event: expected string scalar
 --> <input>:1:4
  |
1 | a: {x: 1}
  |    ^ unexpected event: expected string scalar
--- user
error: line 1 column 4: unexpected event: expected string scalar
 --> <input>:1:4
  |
1 | a: {x: 1}
  |    ^ unexpected event: expected string scalar
--- user, snippets off
unexpected event: expected string scalar at line 1, column 4
--- end
ERR kind=InvalidUtf8Input/InvalidUtf8Input
location=None
locations=None
--- display
input is not valid UTF-8
--- user
YAML parser input is not valid UTF-8
--- user, snippets off
YAML parser input is not valid UTF-8
--- end
ERR kind=WithSnippet/ValidatorError
location=Some((1, 4))
locations=Some(((1, 4), (1, 4)))
--- display
error: line 1 column 4: validation error: length (min=2, value="") for `a`
 --> (defined):1:4
  |
1 | …: ''
  |    ^ validation error: length (min=2, value="") for `a`
--- user
error: line 1 column 4: validation error: length (min=2, value="") for `a`
 --> (defined):1:4
  |
1 | …: ''
  |    ^ validation error: length (min=2, value="") for `a`
--- user, snippets off
validation error at a: length (min=2, value="") at line 1, column 4
--- end"######,
    ),
    (
        "v20 multiple: all pass",
        r######"OK [VSimple { a: "xx" }, VSimple { a: "yy" }]"######,
    ),
    (
        "v21 multiple: every failing document is reported",
        r######"ERR kind=ValidatorErrors/ValidatorErrors
location=Some((1, 4))
locations=Some(((1, 4), (1, 4)))
--- display
validation failed for 3 document(s)
error: line 1 column 4: validation error: length (min=2, value="x") for `a`
 --> (defined):1:4
  |
1 | a: x
  |    ^ validation error: length (min=2, value="x") for `a`
2 | ---
3 | a: fine
  |

error: line 8 column 4: invalid here, validation error: length (min=2, value="z") for `a`
  --> the value is used here:8:4
   |
 6 | ---
 7 | k: &k z
 8 | a: *k
   |    ^ invalid here, validation error: length (min=2, value="z") for `a`
 9 | ---
10 | a: ''
   |
  | This value comes indirectly from the anchor at line 7 column 7:
  |
6 | ---
7 | k: &k z
  |       ^ defined here
8 | a: *k
9 | ---
  |


error: line 10 column 4: validation error: length (min=2, value="") for `a`
  --> (defined):10:4
   |
 8 | a: *k
 9 | ---
10 | a: ''
   |    ^ validation error: length (min=2, value="") for `a`
11 | ...
   |
--- user
validation failed for 3 document(s)
error: line 1 column 4: validation error: length (min=2, value="x") for `a`
 --> (defined):1:4
  |
1 | a: x
  |    ^ validation error: length (min=2, value="x") for `a`
2 | ---
3 | a: fine
  |

error: line 8 column 4: invalid here, validation error: length (min=2, value="z") for `a`
  --> the value is used here:8:4
   |
 6 | ---
 7 | k: &k z
 8 | a: *k
   |    ^ invalid here, validation error: length (min=2, value="z") for `a`
 9 | ---
10 | a: ''
   |
  | This value comes indirectly from the anchor at line 7 column 7:
  |
6 | ---
7 | k: &k z
  |       ^ defined here
8 | a: *k
9 | ---
  |


error: line 10 column 4: validation error: length (min=2, value="") for `a`
  --> (defined):10:4
   |
 8 | a: *k
 9 | ---
10 | a: ''
   |    ^ validation error: length (min=2, value="") for `a`
11 | ...
   |
--- user, snippets off
validation failed for 3 document(s) at line 1, column 4

validation error at a: length (min=2, value="x") at line 1, column 4

validation error at a: length (min=2, value="z") at line 8, column 4

validation error at a: length (min=2, value="") at line 10, column 4
--- end"######,
    ),
    (
        "v22 multiple: deserialization error wins",
        r######"ERR kind=WithSnippet/Other
location=Some((3, 4))
locations=Some(((3, 4), (3, 4)))
--- display
error: line 3 column 4: unexpected event: expected string scalar
 --> <input>:3:4
  |
1 | a: x
2 | ---
3 | a: [1, 2]
  |    ^ unexpected event: expected string scalar
4 | ---
5 | a: y
  |
--- user
error: line 3 column 4: unexpected event: expected string scalar
 --> <input>:3:4
  |
1 | a: x
2 | ---
3 | a: [1, 2]
  |    ^ unexpected event: expected string scalar
4 | ---
5 | a: y
  |
--- user, snippets off
unexpected event: expected string scalar at line 3, column 4
--- end"######,
    ),
    (
        "v23 multiple: anchors, with and without snippets",
        r######"ERR kind=ValidatorErrors/ValidatorErrors
location=Some((8, 14))
locations=Some(((8, 14), (3, 10)))
--- display
validation failed for 2 document(s)
validation error at inner.sha256Sum: range (max=100, value=5000) at line 8, column 14
validation error at inner.userId: user id too short at line 7, column 11
validation error at items[0].name: length (min=2, value="y") at line 10, column 16
validation error at items[0].qty: range (max=9, min=1, value=0) at line 10, column 24
validation error at items[1].name: length (min=2, value="y") at line 11, column 5
validation error at items[1].qty: range (max=9, min=1, value=0) at line 11, column 5
validation error at name: length (min=2, value="x") at line 4, column 7

validation error at inner.sha256Sum: range (max=100, value=101) at line 19, column 7
validation error at inner.userId: user id too short at line 19, column 7
validation error at port: range (max=100, min=1, value=101) at line 17, column 7
--- user
validation failed for 2 document(s)
validation error at inner.sha256Sum: range (max=100, value=5000) at line 8, column 14
validation error at inner.userId: user id too short at line 7, column 11
validation error at items[0].name: length (min=2, value="y") at line 10, column 16
validation error at items[0].qty: range (max=9, min=1, value=0) at line 10, column 24
validation error at items[1].name: length (min=2, value="y") at line 11, column 5
validation error at items[1].qty: range (max=9, min=1, value=0) at line 11, column 5
validation error at name: length (min=2, value="x") at line 4, column 7

validation error at inner.sha256Sum: range (max=100, value=101) at line 19, column 7
validation error at inner.userId: user id too short at line 19, column 7
validation error at port: range (max=100, min=1, value=101) at line 17, column 7
--- user, snippets off
validation failed for 2 document(s) at line 8, column 14

validation error at inner.sha256Sum: range (max=100, value=5000) at line 8, column 14
validation error at inner.userId: user id too short at line 7, column 11
validation error at items[0].name: length (min=2, value="y") at line 10, column 16
validation error at items[0].qty: range (max=9, min=1, value=0) at line 10, column 24
validation error at items[1].name: length (min=2, value="y") at line 11, column 5
validation error at items[1].qty: range (max=9, min=1, value=0) at line 11, column 5
validation error at name: length (min=2, value="x") at line 4, column 7

validation error at inner.sha256Sum: range (max=100, value=101) at line 19, column 7
validation error at inner.userId: user id too short at line 19, column 7
validation error at port: range (max=100, min=1, value=101) at line 17, column 7
--- end
ERR kind=ValidatorErrors/ValidatorErrors
location=Some((8, 14))
locations=Some(((8, 14), (3, 10)))
--- display
validation failed for 2 document(s)
error: line 8 column 14: invalid here, validation error: range (max=100, value=5000) for `inner.sha256Sum`
  --> the value is used here:8:3
   |
 6 | inner:
 7 | …hor…
 8 | … *b…
   |   ^ invalid here, validation error: range (max=100, value=5000) for `inner.sha256Sum`
 9 | items:
10 | …e: …
   |
  | This value comes indirectly from the anchor at line 3 column 10:
  |
1 | defs:
2 | …rt …
3 | … 50…
  |   ^ defined here
4 | …hor…
5 | port: 80
  |

error: line 7 column 11: invalid here, validation error: user id too short for `inner.userId`
 --> the value is used here:7:3
  |
6 | inner:
7 | … *s…
  |   ^ invalid here, validation error: user id too short for `inner.userId`
8 | …um:…
9 | items:
  |
  | This value comes indirectly from the anchor at line 2 column 12:
  |
1 | defs:
2 | … x
  |   ^ defined here
3 | …000
4 | …rt
  |

error: line 10 column 16: validation error: length (min=2, value="y") for `items[0].name`
  --> (defined):10:3
   |
 8 | …big
 9 | items:
10 | … y,…
   |   ^ validation error: length (min=2, value="y") for `items[0].name`
error: line 10 column 24: validation error: range (max=9, min=1, value=0) for `items[0].qty`
  --> (defined):10:3
   |
 8 |   sha256Sum: *big
 9 | items:
10 | … 0}
   |   ^ validation error: range (max=9, min=1, value=0) for `items[0].qty`
invalid here, validation error: length (min=2, value="y") for `items[1].name` at line 11, column 5
  | This value comes indirectly from the anchor at line 10 column 16:
   |
 8 | …big
 9 | items:
10 | … y,…
   |   ^ defined here
11 |
   |

invalid here, validation error: range (max=9, min=1, value=0) for `items[1].qty` at line 11, column 5
  | This value comes indirectly from the anchor at line 10 column 24:
   |
 8 |   sha256Sum: *big
 9 | items:
10 | … 0}
   |   ^ defined here
11 |
   |

error: line 4 column 7: invalid here, validation error: length (min=2, value="x") for `name`
 --> the value is used here:4:3
  |
2 | …sho…
3 | …big…
4 | … *s…
  |   ^ invalid here, validation error: length (min=2, value="x") for `name`
5 | … 80
  |
  | This value comes indirectly from the anchor at line 2 column 12:
  |
1 | defs:
2 | … x
  |   ^ defined here
3 | …000
4 | …rt
  |


error: line 19 column 7: invalid here, validation error: range (max=100, value=101) for `inner.sha256Sum`
  --> the value is used here:19:3
   |
17 | … 10…
18 | …:
19 | … *b…
   |   ^ invalid here, validation error: range (max=100, value=101) for `inner.sha256Sum`
20 | …: […
21 | ---
   |
  | This value comes indirectly from the anchor at line 15 column 14:
   |
13 | base: &base
14 |   userId: zz
15 | … 10…
   |   ^ defined here
16 | name: ok
17 | port: 101
   |

error: line 19 column 7: invalid here, validation error: user id too short for `inner.userId`
  --> the value is used here:19:3
   |
17 | … 10…
18 | …:
19 | … *b…
   |   ^ invalid here, validation error: user id too short for `inner.userId`
20 | …: […
21 | ---
   |
  | This value comes indirectly from the anchor at line 14 column 11:
   |
13 | …se
14 | … zz
   |   ^ defined here
15 | …um:…
16 | name: ok
   |

error: line 17 column 7: validation error: range (max=100, min=1, value=101) for `port`
  --> (defined):17:3
   |
17 | … 10…
   |   ^ validation error: range (max=100, min=1, value=101) for `port`
18 | …:
19 | … *b…
   |
--- user
validation failed for 2 document(s)
error: line 8 column 14: invalid here, validation error: range (max=100, value=5000) for `inner.sha256Sum`
  --> the value is used here:8:3
   |
 6 | inner:
 7 | …hor…
 8 | … *b…
   |   ^ invalid here, validation error: range (max=100, value=5000) for `inner.sha256Sum`
 9 | items:
10 | …e: …
   |
  | This value comes indirectly from the anchor at line 3 column 10:
  |
1 | defs:
2 | …rt …
3 | … 50…
  |   ^ defined here
4 | …hor…
5 | port: 80
  |

error: line 7 column 11: invalid here, validation error: user id too short for `inner.userId`
 --> the value is used here:7:3
  |
6 | inner:
7 | … *s…
  |   ^ invalid here, validation error: user id too short for `inner.userId`
8 | …um:…
9 | items:
  |
  | This value comes indirectly from the anchor at line 2 column 12:
  |
1 | defs:
2 | … x
  |   ^ defined here
3 | …000
4 | …rt
  |

error: line 10 column 16: validation error: length (min=2, value="y") for `items[0].name`
  --> (defined):10:3
   |
 8 | …big
 9 | items:
10 | … y,…
   |   ^ validation error: length (min=2, value="y") for `items[0].name`
error: line 10 column 24: validation error: range (max=9, min=1, value=0) for `items[0].qty`
  --> (defined):10:3
   |
 8 |   sha256Sum: *big
 9 | items:
10 | … 0}
   |   ^ validation error: range (max=9, min=1, value=0) for `items[0].qty`
invalid here, validation error: length (min=2, value="y") for `items[1].name` at line 11, column 5
  | This value comes indirectly from the anchor at line 10 column 16:
   |
 8 | …big
 9 | items:
10 | … y,…
   |   ^ defined here
11 |
   |

invalid here, validation error: range (max=9, min=1, value=0) for `items[1].qty` at line 11, column 5
  | This value comes indirectly from the anchor at line 10 column 24:
   |
 8 |   sha256Sum: *big
 9 | items:
10 | … 0}
   |   ^ defined here
11 |
   |

error: line 4 column 7: invalid here, validation error: length (min=2, value="x") for `name`
 --> the value is used here:4:3
  |
2 | …sho…
3 | …big…
4 | … *s…
  |   ^ invalid here, validation error: length (min=2, value="x") for `name`
5 | … 80
  |
  | This value comes indirectly from the anchor at line 2 column 12:
  |
1 | defs:
2 | … x
  |   ^ defined here
3 | …000
4 | …rt
  |


error: line 19 column 7: invalid here, validation error: range (max=100, value=101) for `inner.sha256Sum`
  --> the value is used here:19:3
   |
17 | … 10…
18 | …:
19 | … *b…
   |   ^ invalid here, validation error: range (max=100, value=101) for `inner.sha256Sum`
20 | …: […
21 | ---
   |
  | This value comes indirectly from the anchor at line 15 column 14:
   |
13 | base: &base
14 |   userId: zz
15 | … 10…
   |   ^ defined here
16 | name: ok
17 | port: 101
   |

error: line 19 column 7: invalid here, validation error: user id too short for `inner.userId`
  --> the value is used here:19:3
   |
17 | … 10…
18 | …:
19 | … *b…
   |   ^ invalid here, validation error: user id too short for `inner.userId`
20 | …: […
21 | ---
   |
  | This value comes indirectly from the anchor at line 14 column 11:
   |
13 | …se
14 | … zz
   |   ^ defined here
15 | …um:…
16 | name: ok
   |

error: line 17 column 7: validation error: range (max=100, min=1, value=101) for `port`
  --> (defined):17:3
   |
17 | … 10…
   |   ^ validation error: range (max=100, min=1, value=101) for `port`
18 | …:
19 | … *b…
   |
--- user, snippets off
validation failed for 2 document(s) at line 8, column 14

validation error at inner.sha256Sum: range (max=100, value=5000) at line 8, column 14
validation error at inner.userId: user id too short at line 7, column 11
validation error at items[0].name: length (min=2, value="y") at line 10, column 16
validation error at items[0].qty: range (max=9, min=1, value=0) at line 10, column 24
validation error at items[1].name: length (min=2, value="y") at line 11, column 5
validation error at items[1].qty: range (max=9, min=1, value=0) at line 11, column 5
validation error at name: length (min=2, value="x") at line 4, column 7

validation error at inner.sha256Sum: range (max=100, value=101) at line 19, column 7
validation error at inner.userId: user id too short at line 19, column 7
validation error at port: range (max=100, min=1, value=101) at line 17, column 7
--- end"######,
    ),
    (
        "v24 multiple: syntax error / empty / invalid utf-8",
        r######"ERR kind=WithSnippet/Other
location=Some((3, 4))
locations=Some(((3, 4), (3, 4)))
--- display
error: line 3 column 4: unexpected event: expected string scalar
 --> <input>:3:4
  |
1 | a: x
2 | ---
3 | a: [unclosed
  |    ^ unexpected event: expected string scalar
--- user
error: line 3 column 4: unexpected event: expected string scalar
 --> <input>:3:4
  |
1 | a: x
2 | ---
3 | a: [unclosed
  |    ^ unexpected event: expected string scalar
--- user, snippets off
unexpected event: expected string scalar at line 3, column 4
--- end
OK []
ERR kind=InvalidUtf8Input/InvalidUtf8Input
location=None
locations=None
--- display
input is not valid UTF-8
--- user
YAML parser input is not valid UTF-8
--- user, snippets off
YAML parser input is not valid UTF-8
--- end"######,
    ),
    (
        "v30 reader: passes / fails / second document / invalid then second / empty",
        r######"OK VRoot { name: "abc", port: 80, inner: VInner { user_id: "alice", sha256_sum: 7 }, items: [VItem { name: "bolt", qty: 3 }, VItem { name: "nut", qty: 9 }] }
ERR kind=ValidatorError/ValidatorError
location=Some((8, 14))
locations=Some(((8, 14), (3, 10)))
--- display
validation error at inner.sha256Sum: range (max=100, value=5000) at line 8, column 14
validation error at inner.userId: user id too short at line 7, column 11
validation error at items[0].name: length (min=2, value="y") at line 10, column 16
validation error at items[0].qty: range (max=9, min=1, value=0) at line 10, column 24
validation error at items[1].name: length (min=2, value="y") at line 11, column 5
validation error at items[1].qty: range (max=9, min=1, value=0) at line 11, column 5
validation error at name: length (min=2, value="x") at line 4, column 7
--- user
validation error at inner.sha256Sum: range (max=100, value=5000) at line 8, column 14
validation error at inner.userId: user id too short at line 7, column 11
validation error at items[0].name: length (min=2, value="y") at line 10, column 16
validation error at items[0].qty: range (max=9, min=1, value=0) at line 10, column 24
validation error at items[1].name: length (min=2, value="y") at line 11, column 5
validation error at items[1].qty: range (max=9, min=1, value=0) at line 11, column 5
validation error at name: length (min=2, value="x") at line 4, column 7
--- user, snippets off
validation error at inner.sha256Sum: range (max=100, value=5000) at line 8, column 14
validation error at inner.userId: user id too short at line 7, column 11
validation error at items[0].name: length (min=2, value="y") at line 10, column 16
validation error at items[0].qty: range (max=9, min=1, value=0) at line 10, column 24
validation error at items[1].name: length (min=2, value="y") at line 11, column 5
validation error at items[1].qty: range (max=9, min=1, value=0) at line 11, column 5
validation error at name: length (min=2, value="x") at line 4, column 7
--- end
ERR kind=MultipleDocuments/MultipleDocuments
location=Some((3, 1))
locations=Some(((3, 1), (3, 1)))
--- display
multiple YAML documents detected; use read_validate or read_with_options_validate to obtain the iterator at line 3, column 1
--- user
only single YAML document expected but multiple found at line 3, column 1
--- user, snippets off
only single YAML document expected but multiple found at line 3, column 1
--- end
ERR kind=ValidatorError/ValidatorError
location=Some((1, 4))
locations=Some(((1, 4), (1, 4)))
--- display
validation error at a: length (min=2, value="x") at line 1, column 4
--- user
validation error at a: length (min=2, value="x") at line 1, column 4
--- user, snippets off
validation error at a: length (min=2, value="x") at line 1, column 4
--- end
ERR kind=Eof/Eof
location=Some((1, 1))
locations=Some(((1, 1), (1, 1)))
--- display
unexpected end of input at line 1, column 1
--- user
unexpected end of file at line 1, column 1
--- user, snippets off
unexpected end of file at line 1, column 1
--- end"######,
    ),
    (
        "v31 reader: garbage after end / without end / type error / io failure",
        r######"OK VSimple { a: "xx" }
ERR kind=Other/Other
location=Some((2, 1))
locations=Some(((2, 1), (2, 1)))
--- display
misplaced bracket at line 2, column 1
--- user
misplaced bracket at line 2, column 1
--- user, snippets off
misplaced bracket at line 2, column 1
--- end
ERR kind=Other/Other
location=Some((1, 7))
locations=Some(((1, 7), (1, 7)))
--- display
unexpected event: expected string scalar at line 1, column 7
--- user
unexpected event: expected string scalar at line 1, column 7
--- user, snippets off
unexpected event: expected string scalar at line 1, column 7
--- end
ERR kind=IOError/IOError
location=None
locations=None
--- display
IO error: disk on fire
--- user
IO error: disk on fire
--- user, snippets off
IO error: disk on fire
--- end"######,
    ),
    (
        "v40 stream: every failing document reported, recovery",
        r######"#0: OK VSimple { a: "ok" }
#1: ERR kind=ValidatorError/ValidatorError
location=Some((3, 4))
locations=Some(((3, 4), (3, 4)))
--- display
validation error at a: length (min=2, value="x") at line 3, column 4
--- user
validation error at a: length (min=2, value="x") at line 3, column 4
--- user, snippets off
validation error at a: length (min=2, value="x") at line 3, column 4
--- end
#2: ERR kind=Other/Other
location=Some((7, 4))
locations=Some(((7, 4), (7, 4)))
--- display
unexpected event: expected string scalar at line 7, column 4
--- user
unexpected event: expected string scalar at line 7, column 4
--- user, snippets off
unexpected event: expected string scalar at line 7, column 4
--- end
#3: OK VSimple { a: "fine" }
#4: ERR kind=ValidatorError/ValidatorError
location=Some((12, 7))
locations=Some(((12, 7), (12, 7)))
--- display
validation error at a: length (min=2, value="y") at line 12, column 7
--- user
validation error at a: length (min=2, value="y") at line 12, column 7
--- user, snippets off
validation error at a: length (min=2, value="y") at line 12, column 7
--- end
<end of stream>"######,
    ),
    (
        "v41 stream: syntax error ends the stream",
        r######"#0: OK VSimple { a: "ok" }
#1: ERR kind=Other/Other
location=Some((3, 4))
locations=Some(((3, 4), (3, 4)))
--- display
unexpected event: expected string scalar at line 3, column 4
--- user
unexpected event: expected string scalar at line 3, column 4
--- user, snippets off
unexpected event: expected string scalar at line 3, column 4
--- end
<end of stream>"######,
    ),
    (
        "v42 stream: I/O failure",
        r######"#0: ERR kind=IOError/IOError
location=None
locations=None
--- display
IO error: disk on fire
--- user
IO error: disk on fire
--- user, snippets off
IO error: disk on fire
--- end
#1: ERR kind=IOError/IOError
location=None
locations=None
--- display
IO error: disk on fire
--- user
IO error: disk on fire
--- user, snippets off
IO error: disk on fire
--- end
<end of stream>"######,
    ),
    (
        "v43 stream: null documents skipped, quoted null is not",
        r######"#0: ERR kind=ValidatorError/ValidatorError
location=Some((7, 4))
locations=Some(((7, 4), (7, 4)))
--- display
validation error at a: length (min=2, value="z") at line 7, column 4
--- user
validation error at a: length (min=2, value="z") at line 7, column 4
--- user, snippets off
validation error at a: length (min=2, value="z") at line 7, column 4
--- end
#1: ERR kind=Other/Other
location=Some((9, 1))
locations=Some(((9, 1), (9, 1)))
--- display
unexpected event: expected mapping start at line 9, column 1
--- user
unexpected event: expected mapping start at line 9, column 1
--- user, snippets off
unexpected event: expected mapping start at line 9, column 1
--- end
<end of stream>"######,
    ),
    (
        "v44 stream: truncated document",
        r######"#0: ERR kind=Other/Other
location=Some((1, 4))
locations=Some(((1, 4), (1, 4)))
--- display
unexpected event: expected string scalar at line 1, column 4
--- user
unexpected event: expected string scalar at line 1, column 4
--- user, snippets off
unexpected event: expected string scalar at line 1, column 4
--- end
<end of stream>"######,
    ),
    (
        "t01 garde, anchors, traced localizer",
        r######"--- rendered
error: line 8 column 14: HERE BAD inner.sha256Sum: greater than 100
  --> [used]:8:14
   |
 6 | inner:
 7 |   userId: *short
 8 |   sha256Sum: *big
   |              ^ HERE BAD inner.sha256Sum: greater than 100
 9 | items:
10 |   - &it {name: y, qty: 0}
   |
  | from anchor 3:10
  |
1 | defs:
2 |   - &short x
3 |   - &big 5000
  |          ^ [window]
4 | name: *short
5 | port: 80
  |

error: line 7 column 11: HERE BAD inner.userId: too short <length is lower than 3>
 --> [used]:7:11
  |
6 | inner:
7 |   userId: *short
  |           ^ HERE BAD inner.userId: too short <length is lower than 3>
8 |   sha256Sum: *big
9 | items:
  |
  | from anchor 2:12
  |
1 | defs:
2 |   - &short x
  |            ^ [window]
3 |   - &big 5000
4 | name: *short
  |

error: line 10 column 16: BAD items[0].name: too short <length is lower than 2>
  --> [def]:10:16
   |
 8 |   sha256Sum: *big
 9 | items:
10 |   - &it {name: y, qty: 0}
   |                ^ BAD items[0].name: too short <length is lower than 2>
error: line 10 column 24: BAD items[0].qty: too short <lower than 1>
  --> [def]:10:24
   |
 8 |   sha256Sum: *big
 9 | items:
10 |   - &it {name: y, qty: 0}
   |                        ^ BAD items[0].qty: too short <lower than 1>
HERE BAD items[1].name: too short <length is lower than 2> at line 11, column 5
  | from anchor 10:16
   |
 8 |   sha256Sum: *big
 9 | items:
10 |   - &it {name: y, qty: 0}
   |                ^ [window]
11 |
   |

HERE BAD items[1].qty: too short <lower than 1> at line 11, column 5
  | from anchor 10:24
   |
 8 |   sha256Sum: *big
 9 | items:
10 |   - &it {name: y, qty: 0}
   |                        ^ [window]
11 |
   |

error: line 4 column 7: HERE BAD name: too short <length is lower than 2>
 --> [used]:4:7
  |
2 |   - &short x
3 |   - &big 5000
4 | name: *short
  |       ^ HERE BAD name: too short <length is lower than 2>
5 | port: 80
  |
  | from anchor 2:12
  |
1 | defs:
2 |   - &short x
  |            ^ [window]
3 |   - &big 5000
4 | name: *short
  |

--- localizer calls
override_external_message(Garde, greater than 100, None, [])
validation_base_message(greater than 100, inner.sha256Sum)
value_used_here
invalid_here(BAD inner.sha256Sum: greater than 100)
value_comes_from_the_anchor(3:10)
defined_window
override_external_message(Garde, length is lower than 3, None, [])
validation_base_message(too short <length is lower than 3>, inner.userId)
value_used_here
invalid_here(BAD inner.userId: too short <length is lower than 3>)
value_comes_from_the_anchor(2:12)
defined_window
override_external_message(Garde, length is lower than 2, None, [])
validation_base_message(too short <length is lower than 2>, items[0].name)
defined
override_external_message(Garde, lower than 1, None, [])
validation_base_message(too short <lower than 1>, items[0].qty)
defined
override_external_message(Garde, length is lower than 2, None, [])
validation_base_message(too short <length is lower than 2>, items[1].name)
value_used_here
invalid_here(BAD items[1].name: too short <length is lower than 2>)
value_comes_from_the_anchor(10:16)
defined_window
override_external_message(Garde, lower than 1, None, [])
validation_base_message(too short <lower than 1>, items[1].qty)
value_used_here
invalid_here(BAD items[1].qty: too short <lower than 1>)
value_comes_from_the_anchor(10:24)
defined_window
override_external_message(Garde, length is lower than 2, None, [])
validation_base_message(too short <length is lower than 2>, name)
value_used_here
invalid_here(BAD name: too short <length is lower than 2>)
value_comes_from_the_anchor(2:12)
defined_window
--- end"######,
    ),
    (
        "t02 validator, anchors, traced localizer",
        r######"--- rendered
error: line 8 column 14: HERE BAD inner.sha256Sum: range (max=100, value=5000)
  --> [used]:8:14
   |
 6 | inner:
 7 |   userId: *short
 8 |   sha256Sum: *big
   |              ^ HERE BAD inner.sha256Sum: range (max=100, value=5000)
 9 | items:
10 |   - &it {name: y, qty: 0}
   |
  | from anchor 3:10
  |
1 | defs:
2 |   - &short x
3 |   - &big 5000
  |          ^ [window]
4 | name: *short
5 | port: 80
  |

error: line 7 column 11: HERE BAD inner.userId: too short <user id too short>
 --> [used]:7:11
  |
6 | inner:
7 |   userId: *short
  |           ^ HERE BAD inner.userId: too short <user id too short>
8 |   sha256Sum: *big
9 | items:
  |
  | from anchor 2:12
  |
1 | defs:
2 |   - &short x
  |            ^ [window]
3 |   - &big 5000
4 | name: *short
  |

error: line 10 column 16: BAD items[0].name: too short <length (min=2, value="y")>
  --> [def]:10:16
   |
 8 |   sha256Sum: *big
 9 | items:
10 |   - &it {name: y, qty: 0}
   |                ^ BAD items[0].name: too short <length (min=2, value="y")>
error: line 10 column 24: BAD items[0].qty: range (max=9, min=1, value=0)
  --> [def]:10:24
   |
 8 |   sha256Sum: *big
 9 | items:
10 |   - &it {name: y, qty: 0}
   |                        ^ BAD items[0].qty: range (max=9, min=1, value=0)
HERE BAD items[1].name: too short <length (min=2, value="y")> at line 11, column 5
  | from anchor 10:16
   |
 8 |   sha256Sum: *big
 9 | items:
10 |   - &it {name: y, qty: 0}
   |                ^ [window]
11 |
   |

HERE BAD items[1].qty: range (max=9, min=1, value=0) at line 11, column 5
  | from anchor 10:24
   |
 8 |   sha256Sum: *big
 9 | items:
10 |   - &it {name: y, qty: 0}
   |                        ^ [window]
11 |
   |

error: line 4 column 7: HERE BAD name: too short <length (min=2, value="x")>
 --> [used]:4:7
  |
2 |   - &short x
3 |   - &big 5000
4 | name: *short
  |       ^ HERE BAD name: too short <length (min=2, value="x")>
5 | port: 80
  |
  | from anchor 2:12
  |
1 | defs:
2 |   - &short x
  |            ^ [window]
3 |   - &big 5000
4 | name: *short
  |

--- localizer calls
override_external_message(Validator, range (max=100, value=5000), Some("range"), [("max", "100"), ("value", "5000")])
validation_base_message(range (max=100, value=5000), inner.sha256Sum)
value_used_here
invalid_here(BAD inner.sha256Sum: range (max=100, value=5000))
value_comes_from_the_anchor(3:10)
defined_window
override_external_message(Validator, user id too short, Some("length"), [("min", "3"), ("value", "\"x\"")])
validation_base_message(too short <user id too short>, inner.userId)
value_used_here
invalid_here(BAD inner.userId: too short <user id too short>)
value_comes_from_the_anchor(2:12)
defined_window
override_external_message(Validator, length (min=2, value="y"), Some("length"), [("min", "2"), ("value", "\"y\"")])
validation_base_message(too short <length (min=2, value="y")>, items[0].name)
defined
override_external_message(Validator, range (max=9, min=1, value=0), Some("range"), [("max", "9"), ("min", "1"), ("value", "0")])
validation_base_message(range (max=9, min=1, value=0), items[0].qty)
defined
override_external_message(Validator, length (min=2, value="y"), Some("length"), [("min", "2"), ("value", "\"y\"")])
validation_base_message(too short <length (min=2, value="y")>, items[1].name)
value_used_here
invalid_here(BAD items[1].name: too short <length (min=2, value="y")>)
value_comes_from_the_anchor(10:16)
defined_window
override_external_message(Validator, range (max=9, min=1, value=0), Some("range"), [("max", "9"), ("min", "1"), ("value", "0")])
validation_base_message(range (max=9, min=1, value=0), items[1].qty)
value_used_here
invalid_here(BAD items[1].qty: range (max=9, min=1, value=0))
value_comes_from_the_anchor(10:24)
defined_window
override_external_message(Validator, length (min=2, value="x"), Some("length"), [("min", "2"), ("value", "\"x\"")])
validation_base_message(too short <length (min=2, value="x")>, name)
value_used_here
invalid_here(BAD name: too short <length (min=2, value="x")>)
value_comes_from_the_anchor(2:12)
defined_window
--- end"######,
    ),
    (
        "t03 garde, root label and unlocated issue, traced localizer",
        r######"--- rendered
validation error at <root>: length is lower than 3
--- localizer calls

--- end
--- rendered
validation error at my_field: length is lower than 3
--- localizer calls

--- end"######,
    ),
    (
        "t04 multiple documents and reader, traced localizer",
        r######"--- rendered
validation failed for 2 document(s)
error: line 8 column 14: HERE BAD inner.sha256Sum: greater than 100
  --> [used]:8:3
   |
 6 | inner:
 7 | …hor…
 8 | … *b…
   |   ^ HERE BAD inner.sha256Sum: greater than 100
 9 | items:
10 | …e: …
   |
  | from anchor 3:10
  |
1 | defs:
2 | …rt …
3 | … 50…
  |   ^ [window]
4 | …hor…
5 | port: 80
  |

error: line 7 column 11: HERE BAD inner.userId: too short <length is lower than 3>
 --> [used]:7:3
  |
6 | inner:
7 | … *s…
  |   ^ HERE BAD inner.userId: too short <length is lower than 3>
8 | …um:…
9 | items:
  |
  | from anchor 2:12
  |
1 | defs:
2 | … x
  |   ^ [window]
3 | …000
4 | …rt
  |

error: line 10 column 16: BAD items[0].name: too short <length is lower than 2>
  --> [def]:10:3
   |
 8 | …big
 9 | items:
10 | … y,…
   |   ^ BAD items[0].name: too short <length is lower than 2>
error: line 10 column 24: BAD items[0].qty: too short <lower than 1>
  --> [def]:10:3
   |
 8 |   sha256Sum: *big
 9 | items:
10 | … 0}
   |   ^ BAD items[0].qty: too short <lower than 1>
HERE BAD items[1].name: too short <length is lower than 2> at line 11, column 5
  | from anchor 10:16
   |
 8 | …big
 9 | items:
10 | … y,…
   |   ^ [window]
11 |
   |

HERE BAD items[1].qty: too short <lower than 1> at line 11, column 5
  | from anchor 10:24
   |
 8 |   sha256Sum: *big
 9 | items:
10 | … 0}
   |   ^ [window]
11 |
   |

error: line 4 column 7: HERE BAD name: too short <length is lower than 2>
 --> [used]:4:3
  |
2 | …sho…
3 | …big…
4 | … *s…
  |   ^ HERE BAD name: too short <length is lower than 2>
5 | … 80
  |
  | from anchor 2:12
  |
1 | defs:
2 | … x
  |   ^ [window]
3 | …000
4 | …rt
  |


error: line 19 column 7: HERE BAD inner.sha256Sum: greater than 100
  --> [used]:19:3
   |
17 | … 10…
18 | …:
19 | … *b…
   |   ^ HERE BAD inner.sha256Sum: greater than 100
20 | …: […
   |
  | from anchor 15:14
   |
13 | base: &base
14 |   userId: zz
15 | … 10…
   |   ^ [window]
16 | name: ok
17 | port: 101
   |

error: line 19 column 7: HERE BAD inner.userId: too short <length is lower than 3>
  --> [used]:19:3
   |
17 | … 10…
18 | …:
19 | … *b…
   |   ^ HERE BAD inner.userId: too short <length is lower than 3>
20 | …: […
   |
  | from anchor 14:11
   |
13 | …se
14 | … zz
   |   ^ [window]
15 | …um:…
16 | name: ok
   |

error: line 17 column 7: BAD port: greater than 100
  --> [def]:17:3
   |
17 | … 10…
   |   ^ BAD port: greater than 100
18 | …:
19 | … *b…
   |
--- localizer calls
override_external_message(Garde, greater than 100, None, [])
validation_base_message(greater than 100, inner.sha256Sum)
value_used_here
invalid_here(BAD inner.sha256Sum: greater than 100)
value_comes_from_the_anchor(3:10)
defined_window
override_external_message(Garde, length is lower than 3, None, [])
validation_base_message(too short <length is lower than 3>, inner.userId)
value_used_here
invalid_here(BAD inner.userId: too short <length is lower than 3>)
value_comes_from_the_anchor(2:12)
defined_window
override_external_message(Garde, length is lower than 2, None, [])
validation_base_message(too short <length is lower than 2>, items[0].name)
defined
override_external_message(Garde, lower than 1, None, [])
validation_base_message(too short <lower than 1>, items[0].qty)
defined
override_external_message(Garde, length is lower than 2, None, [])
validation_base_message(too short <length is lower than 2>, items[1].name)
value_used_here
invalid_here(BAD items[1].name: too short <length is lower than 2>)
value_comes_from_the_anchor(10:16)
defined_window
override_external_message(Garde, lower than 1, None, [])
validation_base_message(too short <lower than 1>, items[1].qty)
value_used_here
invalid_here(BAD items[1].qty: too short <lower than 1>)
value_comes_from_the_anchor(10:24)
defined_window
override_external_message(Garde, length is lower than 2, None, [])
validation_base_message(too short <length is lower than 2>, name)
value_used_here
invalid_here(BAD name: too short <length is lower than 2>)
value_comes_from_the_anchor(2:12)
defined_window
override_external_message(Garde, greater than 100, None, [])
validation_base_message(greater than 100, inner.sha256Sum)
value_used_here
invalid_here(BAD inner.sha256Sum: greater than 100)
value_comes_from_the_anchor(15:14)
defined_window
override_external_message(Garde, length is lower than 3, None, [])
validation_base_message(too short <length is lower than 3>, inner.userId)
value_used_here
invalid_here(BAD inner.userId: too short <length is lower than 3>)
value_comes_from_the_anchor(14:11)
defined_window
override_external_message(Garde, greater than 100, None, [])
validation_base_message(greater than 100, port)
defined
--- end
--- rendered
validation failed for 2 document(s)
error: line 7 column 7: HERE BAD inner.sha256Sum: range (max=100, value=101)
 --> [used]:7:7
  |
5 | port: 101
6 | inner:
7 |   <<: *base
  |       ^ HERE BAD inner.sha256Sum: range (max=100, value=101)
8 | items: []
9 | ---
  |
  | from anchor 3:14
  |
1 | base: &base
2 |   userId: zz
3 |   sha256Sum: 101
  |              ^ [window]
4 | name: ok
5 | port: 101
  |

error: line 7 column 7: HERE BAD inner.userId: too short <user id too short>
 --> [used]:7:7
  |
5 | port: 101
6 | inner:
7 |   <<: *base
  |       ^ HERE BAD inner.userId: too short <user id too short>
8 | items: []
9 | ---
  |
  | from anchor 2:11
  |
1 | base: &base
2 |   userId: zz
  |           ^ [window]
3 |   sha256Sum: 101
4 | name: ok
  |

error: line 5 column 7: BAD port: range (max=100, min=1, value=101)
 --> [def]:5:7
  |
5 | port: 101
  |       ^ BAD port: range (max=100, min=1, value=101)
6 | inner:
7 |   <<: *base
  |

error: line 17 column 14: HERE BAD inner.sha256Sum: range (max=100, value=5000)
  --> [used]:17:14
   |
15 | inner:
16 |   userId: *short
17 |   sha256Sum: *big
   |              ^ HERE BAD inner.sha256Sum: range (max=100, value=5000)
18 | items:
19 |   - &it {name: y, qty: 0}
   |
  | from anchor 12:10
   |
10 | defs:
11 |   - &short x
12 |   - &big 5000
   |          ^ [window]
13 | name: *short
14 | port: 80
   |

error: line 16 column 11: HERE BAD inner.userId: too short <user id too short>
  --> [used]:16:11
   |
15 | inner:
16 |   userId: *short
   |           ^ HERE BAD inner.userId: too short <user id too short>
17 |   sha256Sum: *big
18 | items:
   |
  | from anchor 11:12
   |
10 | defs:
11 |   - &short x
   |            ^ [window]
12 |   - &big 5000
13 | name: *short
   |

error: line 19 column 16: BAD items[0].name: too short <length (min=2, value="y")>
  --> [def]:19:16
   |
17 |   sha256Sum: *big
18 | items:
19 |   - &it {name: y, qty: 0}
   |                ^ BAD items[0].name: too short <length (min=2, value="y")>
error: line 19 column 24: BAD items[0].qty: range (max=9, min=1, value=0)
  --> [def]:19:24
   |
17 |   sha256Sum: *big
18 | items:
19 |   - &it {name: y, qty: 0}
   |                        ^ BAD items[0].qty: range (max=9, min=1, value=0)
HERE BAD items[1].name: too short <length (min=2, value="y")> at line 20, column 5
  | from anchor 19:16
   |
17 |   sha256Sum: *big
18 | items:
19 |   - &it {name: y, qty: 0}
   |                ^ [window]
20 |
   |

HERE BAD items[1].qty: range (max=9, min=1, value=0) at line 20, column 5
  | from anchor 19:24
   |
17 |   sha256Sum: *big
18 | items:
19 |   - &it {name: y, qty: 0}
   |                        ^ [window]
20 |
   |

error: line 13 column 7: HERE BAD name: too short <length (min=2, value="x")>
  --> [used]:13:7
   |
11 |   - &short x
12 |   - &big 5000
13 | name: *short
   |       ^ HERE BAD name: too short <length (min=2, value="x")>
14 | port: 80
   |
  | from anchor 11:12
   |
10 | defs:
11 |   - &short x
   |            ^ [window]
12 |   - &big 5000
13 | name: *short
   |

--- localizer calls
override_external_message(Validator, range (max=100, value=101), Some("range"), [("max", "100"), ("value", "101")])
validation_base_message(range (max=100, value=101), inner.sha256Sum)
value_used_here
invalid_here(BAD inner.sha256Sum: range (max=100, value=101))
value_comes_from_the_anchor(3:14)
defined_window
override_external_message(Validator, user id too short, Some("length"), [("min", "3"), ("value", "\"zz\"")])
validation_base_message(too short <user id too short>, inner.userId)
value_used_here
invalid_here(BAD inner.userId: too short <user id too short>)
value_comes_from_the_anchor(2:11)
defined_window
override_external_message(Validator, range (max=100, min=1, value=101), Some("range"), [("max", "100"), ("min", "1"), ("value", "101")])
validation_base_message(range (max=100, min=1, value=101), port)
defined
override_external_message(Validator, range (max=100, value=5000), Some("range"), [("max", "100"), ("value", "5000")])
validation_base_message(range (max=100, value=5000), inner.sha256Sum)
value_used_here
invalid_here(BAD inner.sha256Sum: range (max=100, value=5000))
value_comes_from_the_anchor(12:10)
defined_window
override_external_message(Validator, user id too short, Some("length"), [("min", "3"), ("value", "\"x\"")])
validation_base_message(too short <user id too short>, inner.userId)
value_used_here
invalid_here(BAD inner.userId: too short <user id too short>)
value_comes_from_the_anchor(11:12)
defined_window
override_external_message(Validator, length (min=2, value="y"), Some("length"), [("min", "2"), ("value", "\"y\"")])
validation_base_message(too short <length (min=2, value="y")>, items[0].name)
defined
override_external_message(Validator, range (max=9, min=1, value=0), Some("range"), [("max", "9"), ("min", "1"), ("value", "0")])
validation_base_message(range (max=9, min=1, value=0), items[0].qty)
defined
override_external_message(Validator, length (min=2, value="y"), Some("length"), [("min", "2"), ("value", "\"y\"")])
validation_base_message(too short <length (min=2, value="y")>, items[1].name)
value_used_here
invalid_here(BAD items[1].name: too short <length (min=2, value="y")>)
value_comes_from_the_anchor(19:16)
defined_window
override_external_message(Validator, range (max=9, min=1, value=0), Some("range"), [("max", "9"), ("min", "1"), ("value", "0")])
validation_base_message(range (max=9, min=1, value=0), items[1].qty)
value_used_here
invalid_here(BAD items[1].qty: range (max=9, min=1, value=0))
value_comes_from_the_anchor(19:24)
defined_window
override_external_message(Validator, length (min=2, value="x"), Some("length"), [("min", "2"), ("value", "\"x\"")])
validation_base_message(too short <length (min=2, value="x")>, name)
value_used_here
invalid_here(BAD name: too short <length (min=2, value="x")>)
value_comes_from_the_anchor(11:12)
defined_window
--- end
--- rendered
validation error at inner.sha256Sum: range (max=100, value=5000) at line 8, column 14
validation error at inner.userId: user id too short at line 7, column 11
validation error at items[0].name: length (min=2, value="y") at line 10, column 16
validation error at items[0].qty: range (max=9, min=1, value=0) at line 10, column 24
validation error at items[1].name: length (min=2, value="y") at line 11, column 5
validation error at items[1].qty: range (max=9, min=1, value=0) at line 11, column 5
validation error at name: length (min=2, value="x") at line 4, column 7
--- localizer calls

--- end"######,
    ),
    (
        "t05 located and unlocated issues in one report",
        r######"ERR kind=WithSnippet/ValidationError
location=Some((2, 6))
locations=Some(((2, 6), (2, 6)))
--- display
error: line 2 column 6: validation error: length is lower than 3 for `aaa`
 --> (defined):2:6
  |
1 | # c
2 | aaa: ab
  |      ^ validation error: length is lower than 3 for `aaa`
validation error: not set for `needed`
validation error: not set for `zzz`
--- user
error: line 2 column 6: validation error: length is lower than 3 for `aaa`
 --> (defined):2:6
  |
1 | # c
2 | aaa: ab
  |      ^ validation error: length is lower than 3 for `aaa`
validation error: not set for `needed`
validation error: not set for `zzz`
--- user, snippets off
validation error at aaa: length is lower than 3 at line 2, column 6
validation error at needed: not set
validation error at zzz: not set
--- end
--- rendered
error: line 2 column 6: BAD aaa: too short <length is lower than 3>
 --> [def]:2:6
  |
1 | # c
2 | aaa: ab
  |      ^ BAD aaa: too short <length is lower than 3>
BAD needed: not set
BAD zzz: not set
--- localizer calls
override_external_message(Garde, length is lower than 3, None, [])
validation_base_message(too short <length is lower than 3>, aaa)
defined
override_external_message(Garde, not set, None, [])
validation_base_message(not set, needed)
override_external_message(Garde, not set, None, [])
validation_base_message(not set, zzz)
--- end
ERR kind=WithSnippet/ValidatorError
location=Some((2, 6))
locations=Some(((2, 6), (2, 6)))
--- display
error: line 2 column 6: validation error: length (min=3, value="ab") for `aaa`
 --> (defined):2:6
  |
1 | # c
2 | aaa: ab
  |      ^ validation error: length (min=3, value="ab") for `aaa`
validation error: required (value=null) for `needed`
validation error: required (value=null) for `zzz`
--- user
error: line 2 column 6: validation error: length (min=3, value="ab") for `aaa`
 --> (defined):2:6
  |
1 | # c
2 | aaa: ab
  |      ^ validation error: length (min=3, value="ab") for `aaa`
validation error: required (value=null) for `needed`
validation error: required (value=null) for `zzz`
--- user, snippets off
validation error at aaa: length (min=3, value="ab") at line 2, column 6
validation error at needed: required (value=null)
validation error at zzz: required (value=null)
--- end
--- rendered
error: line 2 column 6: BAD aaa: too short <length (min=3, value="ab")>
 --> [def]:2:6
  |
1 | # c
2 | aaa: ab
  |      ^ BAD aaa: too short <length (min=3, value="ab")>
BAD needed: required (value=null)
BAD zzz: required (value=null)
--- localizer calls
override_external_message(Validator, length (min=3, value="ab"), Some("length"), [("min", "3"), ("value", "\"ab\"")])
validation_base_message(too short <length (min=3, value="ab")>, aaa)
defined
override_external_message(Validator, required (value=null), Some("required"), [("value", "null")])
validation_base_message(required (value=null), needed)
override_external_message(Validator, required (value=null), Some("required"), [("value", "null")])
validation_base_message(required (value=null), zzz)
--- end"######,
    ),
];
