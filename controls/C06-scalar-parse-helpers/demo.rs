//! Differential test for the C06 control refactoring (scalar interpretation).
//!
//! Copy to `tests/demo.rs` and run `cargo nextest run --offline --test demo` (or `cargo test`).
//! The expected literals below were produced by the UNMODIFIED tree; the same file must pass with
//! `CONTROL/patch.diff` applied.  Set `DEMO_PRINT=1` to print the actual results as literals.

use serde::Deserialize;
use serde::de::DeserializeOwned;
use serde_saphyr::Options;
use std::fmt::Debug;

fn show<T: Debug, E: std::fmt::Display>(r: Result<T, E>) -> String {
    match r {
        Ok(v) => format!("Ok({:?})", v),
        Err(e) => format!("Err({})", e),
    }
}

fn de<T: DeserializeOwned + Debug>(yaml: &str) -> String {
    show(serde_saphyr::from_str::<T>(yaml))
}

fn de_with<T: DeserializeOwned + Debug>(yaml: &str, opts: Options) -> String {
    show(serde_saphyr::from_str_with_options::<T>(yaml, opts))
}

fn legacy() -> Options {
    serde_saphyr::options! { legacy_octal_numbers: true }
}
fn strict() -> Options {
    serde_saphyr::options! { strict_booleans: true }
}
fn no_schema() -> Options {
    serde_saphyr::options! { no_schema: true }
}
fn ignore_binary() -> Options {
    serde_saphyr::options! { ignore_binary_tag_for_string: true }
}
fn everything() -> Options {
    serde_saphyr::options! {
        legacy_octal_numbers: true,
        strict_booleans: true,
        no_schema: true,
        ignore_binary_tag_for_string: true,
    }
}

#[derive(Debug, Deserialize)]
#[allow(dead_code)]
struct Rec {
    a: i16,
    b: u8,
    c: bool,
    d: f32,
    e: String,
    f: Option<char>,
}

fn bytes(yaml: &str) -> String {
    show(serde_saphyr::from_str::<serde_bytes::ByteBuf>(yaml).map(|b| b.into_vec()))
}

fn json(yaml: &str) -> String {
    show(serde_saphyr::from_str::<serde_json::Value>(yaml).map(|v| v.to_string()))
}

fn json_with(yaml: &str, opts: Options) -> String {
    show(serde_saphyr::from_str_with_options::<serde_json::Value>(yaml, opts).map(|v| v.to_string()))
}

fn float_bits(yaml: &str) -> String {
    show(serde_saphyr::from_str::<f64>(yaml).map(|v| format!("{:?}/{:#018x}", v, v.to_bits())))
}

fn actual_results() -> Vec<(String, String)> {
    let mut out: Vec<(String, String)> = Vec::new();
    let mut add = |label: String, result: String| out.push((label, result));

    // ---- signed integers: notations, limits, junk -------------------------------------------
    for y in [
        "127", "128", "-128", "-129", "+127", "+128", "0x7F", "0x80", "-0x80", "-0x81", "0X7f",
        "0b1111111", "0B10000000", "-0b10000000", "0o177", "0O200", "-0o200", "1_2_7", "_1", "1_",
        "_", "__", "0x", "0x_", "0x_7_f_", "-", "+", "+-5", "-+5", "--5", "++5", "' 12 '",
        "\"12\\t\"", "\"12\\u00a0\"", "\"\\u00a012\"", "0xG", "0b2", "0o8", "1e1", "1.0", "0xg",
        "0052", "-0052", "00", "-00", "000", "0089", "'12'", "!!str 12", "!!float 12", "12 # c",
        "٣", "1２", "0x-5", "-0x-5", "0b", "0o", "0b_", "0o_1", "a", "0xA", "0xa", "0xF", "0xf",
    ] {
        add(format!("i8 {y:?}"), de::<i8>(y));
    }
    for y in [
        "0052", "-0052", "+0052", "00", "-00", "+00", "000", "0089", "00_7", "00_", "052", "0_052",
        "0o52", "0x052", "0b0011", "00x1", "0000000000000000000000000000000000000000000007",
    ] {
        add(format!("i16 legacy {y:?}"), de_with::<i16>(y, legacy()));
        add(format!("u16 legacy {y:?}"), de_with::<u16>(y, legacy()));
    }
    for y in ["32767", "32768", "-32768", "-32769", "0xFFFF", "-0x8000", "0x7fff"] {
        add(format!("i16 {y:?}"), de::<i16>(y));
    }
    for y in ["2147483647", "2147483648", "-2147483648", "-2147483649", "0xabcdef", "0xABCDEF", "0xaBcDeF"] {
        add(format!("i32 {y:?}"), de::<i32>(y));
    }
    for y in [
        "9223372036854775807",
        "9223372036854775808",
        "-9223372036854775808",
        "-9223372036854775809",
        "0x7fffffffffffffff",
        "0x8000000000000000",
        "-0x8000000000000000",
        "-0x8000000000000001",
        "-0b1000000000000000000000000000000000000000000000000000000000000000",
    ] {
        add(format!("i64 {y:?}"), de::<i64>(y));
    }
    for y in [
        "170141183460469231731687303715884105727",
        "170141183460469231731687303715884105728",
        "-170141183460469231731687303715884105728",
        "-170141183460469231731687303715884105729",
        "-1701411834604692317316873037158841057280",
        "0x7fffffffffffffffffffffffffffffff",
        "0x80000000000000000000000000000000",
        "-0x80000000000000000000000000000000",
        "-0x80000000000000000000000000000001",
        "-0xffffffffffffffffffffffffffffffff",
        "-0x100000000000000000000000000000000",
        "-0o2000000000000000000000000000000000000000000",
        "-0o2000000000000000000000000000000000000000001",
        "-1_7_0141183460469231731687303715884105728_",
        "999999999999999999999999999999999999999999999999",
        "-999999999999999999999999999999999999999999999999",
    ] {
        add(format!("i128 {y:?}"), de::<i128>(y));
    }

    // ---- unsigned integers --------------------------------------------------------------------
    for y in [
        "255", "256", "-1", "-0", "+0", "+255", "+256", "0o377", "0o400", "0b11111111",
        "0b100000000", "0xff", "0x100", "-0x0", "+0xFF", "+-1", "+", "", "~", "2_5_5", "_255",
        "0_0_0", "'255'", "\" 255 \"", "1e2", "0xfg", "0b12", "0o78", "0099", "f", "F",
    ] {
        add(format!("u8 {y:?}"), de::<u8>(y));
    }
    for y in ["65535", "65536", "4294967295", "4294967296"] {
        add(format!("u16 {y:?}"), de::<u16>(y));
        add(format!("u32 {y:?}"), de::<u32>(y));
    }
    for y in ["18446744073709551615", "18446744073709551616", "0xffffffffffffffff", "0x10000000000000000"] {
        add(format!("u64 {y:?}"), de::<u64>(y));
    }
    for y in [
        "340282366920938463463374607431768211455",
        "340282366920938463463374607431768211456",
        "3402823669209384634633746074317682114550",
        "0xffffffffffffffffffffffffffffffff",
        "0x1_00000000000000000000000000000000",
        "0o3777777777777777777777777777777777777777777",
        "0o4000000000000000000000000000000000000000000",
        "0b11111111111111111111111111111111111111111111111111111111111111111111111111111111111111111111111111111111111111111111111111111111",
        "0b100000000000000000000000000000000000000000000000000000000000000000000000000000000000000000000000000000000000000000000000000000000",
        "+340282366920938463463374607431768211455",
        "-340282366920938463463374607431768211455",
    ] {
        add(format!("u128 {y:?}"), de::<u128>(y));
    }

    // ---- booleans -----------------------------------------------------------------------------
    for y in [
        "true", "True", "TRUE", "tRuE", "yes", "Yes", "Y", "y", "on", "ON", "false", "FALSE", "no",
        "No", "N", "n", "off", "OFF", "maybe", "1", "0", "'yes'", "\" on \"", "\"on\\u00a0\"",
        "ye", "yess", "", "~", "null", "t", "f", "!!str true", "!!bool yes",
    ] {
        add(format!("bool {y:?}"), de::<bool>(y));
        add(format!("bool strict {y:?}"), de_with::<bool>(y, strict()));
    }

    // ---- floats -------------------------------------------------------------------------------
    for y in [
        ".inf", "+.inf", "-.inf", ".INF", "+.Inf", "-.INF", ".iNf", ".nan", ".NaN", ".NAN", "+.nan",
        "-.nan", "inf", "+inf", "-inf", "infinity", "-Infinity", "nan", "NaN", "+nan", ".", "-",
        "+", "e", "e5", "1e5", "1E5", "1e+5", "1e-5", "1e5e", "1.5", "-1.5", "+1.5", ".5", "5.",
        "-0.0", "-0", "0", "1_000.5", "0x10", "0b1", "1e400", "-1e400", "1e-400", "' 1.5 '",
        "\"1.5\\u00a0\"", "'.inf'", "'.nan '", ".inf.", "..inf", "1.2.3", "1,5", "~", "", "null",
        "4.9e-324", "1.7976931348623157e308", "1.7976931348623159e308", "0.1", "!!str 1.5",
        "!!int 3", "!degrees 180", "!radians 1",
    ] {
        add(format!("f64 {y:?}"), float_bits(y));
    }
    for y in ["0.1", "3.4028235e38", "3.4028236e38", "1e39", "1e-46", "1.17549435e-38", "1e-45", "-0.0", ".inf", "-.INF", ".NaN", "16777217", "inf"] {
        add(
            format!("f32 {y:?}"),
            show(serde_saphyr::from_str::<f32>(y).map(|v| format!("{:?}/{:#010x}", v, v.to_bits()))),
        );
    }

    // ---- strings, nulls, chars ----------------------------------------------------------------
    for y in [
        "null", "Null", "NULL", "nUlL", "~", "", "'null'", "\"~\"", "''", "\"\"", "!!str null",
        "!!str ~", "!!str", "!!null x", "!!null 'x'", "nulll", " null", "null ", "~~", "123", "true",
        "'123'", "!!int 123", "!!float 1.5", "!!bool true", "! 123", "!custom 123",
        "!!binary SGVsbG8h", "!!binary /w==", "!!binary SGVsbG8", "!!binary 'SGVs bG8h'",
        "!!timestamp 2001-01-01", "!<tag:yaml.org,2002:str> null", "!<tag:yaml.org,2002:int> 5",
        "|\n  null\n", ">\n  ~\n", "|\n", "|-\n",
    ] {
        add(format!("String {y:?}"), de::<String>(y));
        add(format!("String ignore_binary {y:?}"), de_with::<String>(y, ignore_binary()));
        add(format!("Option<String> {y:?}"), de::<Option<String>>(y));
    }
    for y in [
        "123", "'123'", "\"123\"", "-1", "+1", "0x1F", "0052", "1_000", "1e3", ".inf", "-.INF",
        ".nan", "inf", "nan", "true", "yes", "Y", "off", "maybe", "~", "null", "", "!!str 123",
        "!!str yes", "\"12\\u00a0\"", "12a", "-", ".", "0x", "1.", "|\n  123\n", ">\n  yes\n",
        "340282366920938463463374607431768211456", "-170141183460469231731687303715884105729",
        "0b2", "0o7", "+.inf", "1e400",
    ] {
        add(format!("String no_schema {y:?}"), de_with::<String>(y, no_schema()));
    }
    for y in [
        "a", "ab", "", "~", "null", "'~'", "\"null\"", "''", "é", "'é'", "e\u{301}", "😀", "1", "y",
        "!!str 1", "!!str ~", "!!null a", "!!int 1", "' '", "\"\\n\"", "\"\\u00a0\"",
    ] {
        add(format!("char {y:?}"), de::<char>(y));
        add(format!("char no_schema {y:?}"), de_with::<char>(y, no_schema()));
    }
    for y in ["~", "null", "", "''", "'~'", "5", "'5'", "0x10", "!!null 5", "!!str ~", "NULL", "nulL", "Nil"] {
        add(format!("Option<i32> {y:?}"), de::<Option<i32>>(y));
        add(format!("() {y:?}"), de::<()>(y));
    }

    // ---- !!binary -----------------------------------------------------------------------------
    for y in [
        "!!binary AQID", "!!binary 'SG Vs bG8h'", "!!binary \"SG\\tVs\\nbG8h\"", "!!binary AQI",
        "!!binary AQ?=", "!!binary AB==", "!!binary AA==", "!!binary AAB=", "!!binary AAA=",
        "!!binary TQ==TQ==", "!!binary TQ==", "!!binary TWE=", "!!binary TWFu", "!!binary A===",
        "!!binary '===='", "!!binary '=AAA'", "!!binary 'A=AA'", "!!binary AA=A", "!!binary AA=",
        "!!binary ''", "!!binary", "!!binary |\n  SGVs\n  bG8h\n", "!!binary >\n  SGVs\n\n  bG8h\n",
        "!!binary TWFuTQ==", "!!binary TWFuTWE=", "!!binary TWE=TWFu", "!!binary +/+/",
        "!!binary -_-_", "!!binary \"TWFu\\u00a0\"", "!!binary \"TW\\u000bFu\"",
        "!!binary \"TW\\u000cFu\"", "!!binary //8=", "!!binary //9=", "!!binary /w==", "!!binary /x==",
        "!binary AQID", "!<tag:yaml.org,2002:binary> AQID", "AQID", "'AQID'", "!!str AQID",
        "[1, 2, 255]", "[1, 256]", "[0x10, 0b11, 0o7, +5]", "[-1]", "[]", "{}", "~",
    ] {
        add(format!("bytes {y:?}"), bytes(y));
        add(format!("Vec<u8> {y:?}"), de::<Vec<u8>>(y));
    }

    // ---- untyped inference --------------------------------------------------------------------
    for y in [
        "123", "-123", "+123", "-0", "+0", "012", "-012", "+012", "0052", "-0052", "0x1F", "-0x1F",
        "+0x1F", "0b101", "0o17", "1_000", "-1_000", "18446744073709551615", "18446744073709551616",
        "-9223372036854775808", "-9223372036854775809", "9223372036854775808", "yes", "No", "TRUE",
        "false", "y", "N", "on", ".inf", "-.INF", "+.Inf", ".NaN", "-.nan", "inf", "nan", "1e3",
        "1.5", "-0.0", "1e400", "-1e400", "'123'", "\"yes\"", "!!str 123", "!!str yes", "!!str ~",
        "!!int 123", "!!float 1", "!!bool yes", "!!null foo", "!!null 'foo'", "! 123", "! ~",
        "!custom 5", "!custom yes", "!!binary SGVsbG8h", "!!binary /w==", "!!binary ~",
        "!!timestamp 2001-01-01", "~", "", "null", "NULL", "'~'", "\"\"", "|\n  12\n", ">\n  yes\n",
        "\"12\\u00a0\"", "12 ", "-", "+", "_", "0x", "-0x", "-yes", "- 1", "!degrees 90",
        "{a: 1, b: yes, c: 0x10, d: ~, e: '~', f: -0b11, g: .5, h: 0o9, 007: x, 0x7: y, ~: z}",
        "[00, 000, 0_0, -00, 08, -08, 0.0, -0.0e0, 1__0, 0x_1, 0X1f, 0B11, 0O7]",
    ] {
        add(format!("json {y:?}"), json(y));
    }
    for y in [
        "yes", "No", "TRUE", "False", "tRuE", "y", "on", "' true'", "\"true\"", "true ", "0052",
        "-0052", "00", "-00", "0089", "-012", "!!binary SGVsbG8h", "!!binary /w==", "!!binary ?",
        "123", "'123'", "!!int 1",
    ] {
        add(format!("json everything {y:?}"), json_with(y, everything()));
        add(format!("json strict {y:?}"), json_with(y, strict()));
        add(format!("json legacy {y:?}"), json_with(y, legacy()));
        add(format!("json ignore_binary {y:?}"), json_with(y, ignore_binary()));
    }

    // ---- records (locations of errors inside documents) ---------------------------------------
    for y in [
        "a: -0x8000\nb: 0o377\nc: Off\nd: -.inf\ne: '~'\nf: ~\n",
        "a: -0x8001\nb: 0o377\nc: Off\nd: -.inf\ne: '~'\nf: ~\n",
        "a: 1\nb:   0o400\nc: Off\nd: -.inf\ne: '~'\nf: ~\n",
        "a: 1\nb: 2\nc:    offf\nd: -.inf\ne: '~'\nf: ~\n",
        "a: 1\nb: 2\nc: n\nd:  infinity\ne: '~'\nf: ~\n",
        "a: 1\nb: 2\nc: n\nd: 1e-50\ne:   ~\nf: ~\n",
        "a: 1\nb: 2\nc: n\nd: 1e50\ne: x\nf:  xy\n",
        "a: 1\nb: 2\nc: n\nd: 1e50\ne: !!binary  AB==\nf: 'x'\n",
        "a: 1\nb: 2\nc: n\nd: 1e50\ne: !!binary  /w==\nf: 'x'\n",
        "a: 1\nb: 2\nc: n\nd: 1e50\ne: !!int  5\nf: 'x'\n",
        "{a: 0b111111111111111, b: +0xff, c: Y, d: +.INF, e: !!str null, f: \"~\"}",
    ] {
        add(format!("Rec {y:?}"), de::<Rec>(y));
    }
    add(
        "Rec everything".to_string(),
        de_with::<Rec>("a: -0077\nb: 0010\nc: TRUE\nd: 00.5\ne: 'x'\nf: '1'\n", everything()),
    );
    add(
        "Rec everything strict-bool error".to_string(),
        de_with::<Rec>("a: -0077\nb: 0010\nc:  yes\nd: 00.5\ne: 'x'\nf: '1'\n", everything()),
    );
    add(
        "Rec everything quoting".to_string(),
        de_with::<Rec>("a: -0077\nb: 0010\nc: false\nd: 00.5\ne:   0x1\nf: '1'\n", everything()),
    );
    add(
        "Rec everything char quoting".to_string(),
        de_with::<Rec>("a: -0077\nb: 0010\nc: false\nd: 00.5\ne: x\nf:  1\n", everything()),
    );

    // ---- emitted text: strings that look like booleans must be quoted ---------------------------
    let words = vec![
        "yes", "No", "off", "ON", "y", "N", "true", "False", "maybe", "true ", " n", "on\u{a0}",
        "null", "~", "", "12", "0x1F", ".inf", "inf", "1e3", "0052", "-", "yes\n",
    ];
    add("ser words".to_string(), show(serde_saphyr::to_string(&words)));
    let bb = serde_bytes::ByteBuf::from(vec![0u8, 1, 2, 253, 254, 255, 77]);
    let emitted = serde_saphyr::to_string(&bb);
    if let Ok(text) = &emitted {
        add("ser bytes round trip".to_string(), bytes(text));
    }
    add("ser bytes".to_string(), show(emitted));

    out
}

/// Results that depend on the `robotics` feature (the second `parse_yaml12_float` variant).
#[cfg(feature = "robotics")]
fn robotics_results() -> Vec<(String, String)> {
    let mut out = Vec::new();
    let angles = || serde_saphyr::options! { angle_conversions: true };
    for y in [
        "1.5", "-0.0", ".inf", "-.INF", ".NaN", "inf", "nan", "abc", "", "~", "0.1", "1e400",
        "!degrees 180", "!degrees 0.1", "!degrees .inf", "!degrees abc", "!radians 1.5",
        "!radians .nan", "deg(90)", "rad(1)", "pi", "2*pi", "!degrees deg(90) + 1", "1 +", "1_0",
        "0x10", "!!float 1.5", "!!str 1.5", "' 2.5 '", "90deg", "16777217",
    ] {
        out.push((
            format!("f64 angles {y:?}"),
            show(
                serde_saphyr::from_str_with_options::<f64>(y, angles())
                    .map(|v| format!("{:?}/{:#018x}", v, v.to_bits())),
            ),
        ));
        out.push((
            format!("f32 angles {y:?}"),
            show(
                serde_saphyr::from_str_with_options::<f32>(y, angles())
                    .map(|v| format!("{:?}/{:#010x}", v, v.to_bits())),
            ),
        ));
        out.push((format!("f64 no-angles {y:?}"), float_bits(y)));
        out.push((format!("json angles {y:?}"), json_with(y, angles())));
    }
    out
}

fn check(name: &str, actual: Vec<(String, String)>, expected: &[&str]) {
    if std::env::var_os("DEMO_PRINT").is_some() {
        println!("// ---- {name}: {} results", actual.len());
        for (label, result) in &actual {
            println!("    // {}", label.replace('\n', "\\n"));
            println!("    {:?},", result);
        }
        return;
    }
    assert!(actual.len() >= 30);
    assert_eq!(actual.len(), expected.len(), "{name}: number of results");
    let mut failures = 0;
    for ((label, got), want) in actual.iter().zip(expected) {
        if got != want {
            failures += 1;
            eprintln!("MISMATCH {label}\n   got: {got:?}\n  want: {want:?}");
        }
    }
    assert_eq!(failures, 0, "{name}: {failures} results differ");
}

#[test]
fn scalars_are_interpreted_exactly_as_before() {
    check("default", actual_results(), EXPECTED);
}

#[cfg(feature = "robotics")]
#[test]
fn robotics_floats_are_interpreted_exactly_as_before() {
    check("robotics", robotics_results(), EXPECTED_ROBOTICS);
}

#[rustfmt::skip]
const EXPECTED: &[&str] = &[
    // i8 "127"
    "Ok(127)",
    // i8 "128"
    "Err(error: line 1 column 1: invalid i8\n --> <input>:1:1\n  |\n1 | 128\n  | ^ invalid i8)",
    // i8 "-128"
    "Ok(-128)",
    // i8 "-129"
    "Err(error: line 1 column 1: invalid i8\n --> <input>:1:1\n  |\n1 | -129\n  | ^ invalid i8)",
    // i8 "+127"
    "Ok(127)",
    // i8 "+128"
    "Err(error: line 1 column 1: invalid i8\n --> <input>:1:1\n  |\n1 | +128\n  | ^ invalid i8)",
    // i8 "0x7F"
    "Ok(127)",
    // i8 "0x80"
    "Err(error: line 1 column 1: invalid i8\n --> <input>:1:1\n  |\n1 | 0x80\n  | ^ invalid i8)",
    // i8 "-0x80"
    "Ok(-128)",
    // i8 "-0x81"
    "Err(error: line 1 column 1: invalid i8\n --> <input>:1:1\n  |\n1 | -0x81\n  | ^ invalid i8)",
    // i8 "0X7f"
    "Ok(127)",
    // i8 "0b1111111"
    "Ok(127)",
    // i8 "0B10000000"
    "Err(error: line 1 column 1: invalid i8\n --> <input>:1:1\n  |\n1 | 0B10000000\n  | ^ invalid i8)",
    // i8 "-0b10000000"
    "Ok(-128)",
    // i8 "0o177"
    "Ok(127)",
    // i8 "0O200"
    "Err(error: line 1 column 1: invalid i8\n --> <input>:1:1\n  |\n1 | 0O200\n  | ^ invalid i8)",
    // i8 "-0o200"
    "Ok(-128)",
    // i8 "1_2_7"
    "Ok(127)",
    // i8 "_1"
    "Ok(1)",
    // i8 "1_"
    "Ok(1)",
    // i8 "_"
    "Err(error: line 1 column 1: invalid i8\n --> <input>:1:1\n  |\n1 | _\n  | ^ invalid i8)",
    // i8 "__"
    "Err(error: line 1 column 1: invalid i8\n --> <input>:1:1\n  |\n1 | __\n  | ^ invalid i8)",
    // i8 "0x"
    "Err(error: line 1 column 1: invalid i8\n --> <input>:1:1\n  |\n1 | 0x\n  | ^ invalid i8)",
    // i8 "0x_"
    "Err(error: line 1 column 1: invalid i8\n --> <input>:1:1\n  |\n1 | 0x_\n  | ^ invalid i8)",
    // i8 "0x_7_f_"
    "Ok(127)",
    // i8 "-"
    "Err(error: line 1 column 1: unexpected event: expected string scalar\n --> <input>:1:1\n  |\n1 | -\n  | ^ unexpected event: expected string scalar)",
    // i8 "+"
    "Err(error: line 1 column 1: invalid i8\n --> <input>:1:1\n  |\n1 | +\n  | ^ invalid i8)",
    // i8 "+-5"
    "Err(error: line 1 column 1: invalid i8\n --> <input>:1:1\n  |\n1 | +-5\n  | ^ invalid i8)",
    // i8 "-+5"
    "Err(error: line 1 column 1: invalid i8\n --> <input>:1:1\n  |\n1 | -+5\n  | ^ invalid i8)",
    // i8 "--5"
    "Err(error: line 1 column 1: invalid i8\n --> <input>:1:1\n  |\n1 | --5\n  | ^ invalid i8)",
    // i8 "++5"
    "Err(error: line 1 column 1: invalid i8\n --> <input>:1:1\n  |\n1 | ++5\n  | ^ invalid i8)",
    // i8 "' 12 '"
    "Ok(12)",
    // i8 "\"12\\t\""
    "Ok(12)",
    // i8 "\"12\\u00a0\""
    "Err(error: line 1 column 1: invalid i8\n --> <input>:1:1\n  |\n1 | \"12\\u00a0\"\n  | ^ invalid i8)",
    // i8 "\"\\u00a012\""
    "Err(error: line 1 column 1: invalid i8\n --> <input>:1:1\n  |\n1 | \"\\u00a012\"\n  | ^ invalid i8)",
    // i8 "0xG"
    "Err(error: line 1 column 1: invalid i8\n --> <input>:1:1\n  |\n1 | 0xG\n  | ^ invalid i8)",
    // i8 "0b2"
    "Err(error: line 1 column 1: invalid i8\n --> <input>:1:1\n  |\n1 | 0b2\n  | ^ invalid i8)",
    // i8 "0o8"
    "Err(error: line 1 column 1: invalid i8\n --> <input>:1:1\n  |\n1 | 0o8\n  | ^ invalid i8)",
    // i8 "1e1"
    "Err(error: line 1 column 1: invalid i8\n --> <input>:1:1\n  |\n1 | 1e1\n  | ^ invalid i8)",
    // i8 "1.0"
    "Err(error: line 1 column 1: invalid i8\n --> <input>:1:1\n  |\n1 | 1.0\n  | ^ invalid i8)",
    // i8 "0xg"
    "Err(error: line 1 column 1: invalid i8\n --> <input>:1:1\n  |\n1 | 0xg\n  | ^ invalid i8)",
    // i8 "0052"
    "Ok(52)",
    // i8 "-0052"
    "Ok(-52)",
    // i8 "00"
    "Ok(0)",
    // i8 "-00"
    "Ok(0)",
    // i8 "000"
    "Ok(0)",
    // i8 "0089"
    "Ok(89)",
    // i8 "'12'"
    "Ok(12)",
    // i8 "!!str 12"
    "Ok(12)",
    // i8 "!!float 12"
    "Ok(12)",
    // i8 "12 # c"
    "Ok(12)",
    // i8 "٣"
    "Err(error: line 1 column 1: invalid i8\n --> <input>:1:1\n  |\n1 | ٣\n  | ^ invalid i8)",
    // i8 "1２"
    "Err(error: line 1 column 1: invalid i8\n --> <input>:1:1\n  |\n1 | 1２\n  | ^ invalid i8)",
    // i8 "0x-5"
    "Err(error: line 1 column 1: invalid i8\n --> <input>:1:1\n  |\n1 | 0x-5\n  | ^ invalid i8)",
    // i8 "-0x-5"
    "Err(error: line 1 column 1: invalid i8\n --> <input>:1:1\n  |\n1 | -0x-5\n  | ^ invalid i8)",
    // i8 "0b"
    "Err(error: line 1 column 1: invalid i8\n --> <input>:1:1\n  |\n1 | 0b\n  | ^ invalid i8)",
    // i8 "0o"
    "Err(error: line 1 column 1: invalid i8\n --> <input>:1:1\n  |\n1 | 0o\n  | ^ invalid i8)",
    // i8 "0b_"
    "Err(error: line 1 column 1: invalid i8\n --> <input>:1:1\n  |\n1 | 0b_\n  | ^ invalid i8)",
    // i8 "0o_1"
    "Ok(1)",
    // i8 "a"
    "Err(error: line 1 column 1: invalid i8\n --> <input>:1:1\n  |\n1 | a\n  | ^ invalid i8)",
    // i8 "0xA"
    "Ok(10)",
    // i8 "0xa"
    "Ok(10)",
    // i8 "0xF"
    "Ok(15)",
    // i8 "0xf"
    "Ok(15)",
    // i16 legacy "0052"
    "Ok(42)",
    // u16 legacy "0052"
    "Ok(42)",
    // i16 legacy "-0052"
    "Ok(-42)",
    // u16 legacy "-0052"
    "Err(error: line 1 column 1: invalid u16\n --> <input>:1:1\n  |\n1 | -0052\n  | ^ invalid u16)",
    // i16 legacy "+0052"
    "Ok(42)",
    // u16 legacy "+0052"
    "Ok(42)",
    // i16 legacy "00"
    "Ok(0)",
    // u16 legacy "00"
    "Ok(0)",
    // i16 legacy "-00"
    "Ok(0)",
    // u16 legacy "-00"
    "Err(error: line 1 column 1: invalid u16\n --> <input>:1:1\n  |\n1 | -00\n  | ^ invalid u16)",
    // i16 legacy "+00"
    "Ok(0)",
    // u16 legacy "+00"
    "Ok(0)",
    // i16 legacy "000"
    "Ok(0)",
    // u16 legacy "000"
    "Ok(0)",
    // i16 legacy "0089"
    "Err(error: line 1 column 1: invalid i16\n --> <input>:1:1\n  |\n1 | 0089\n  | ^ invalid i16)",
    // u16 legacy "0089"
    "Err(error: line 1 column 1: invalid u16\n --> <input>:1:1\n  |\n1 | 0089\n  | ^ invalid u16)",
    // i16 legacy "00_7"
    "Ok(7)",
    // u16 legacy "00_7"
    "Ok(7)",
    // i16 legacy "00_"
    "Err(error: line 1 column 1: invalid i16\n --> <input>:1:1\n  |\n1 | 00_\n  | ^ invalid i16)",
    // u16 legacy "00_"
    "Err(error: line 1 column 1: invalid u16\n --> <input>:1:1\n  |\n1 | 00_\n  | ^ invalid u16)",
    // i16 legacy "052"
    "Ok(52)",
    // u16 legacy "052"
    "Ok(52)",
    // i16 legacy "0_052"
    "Ok(52)",
    // u16 legacy "0_052"
    "Ok(52)",
    // i16 legacy "0o52"
    "Ok(42)",
    // u16 legacy "0o52"
    "Ok(42)",
    // i16 legacy "0x052"
    "Ok(82)",
    // u16 legacy "0x052"
    "Ok(82)",
    // i16 legacy "0b0011"
    "Ok(3)",
    // u16 legacy "0b0011"
    "Ok(3)",
    // i16 legacy "00x1"
    "Err(error: line 1 column 1: invalid i16\n --> <input>:1:1\n  |\n1 | 00x1\n  | ^ invalid i16)",
    // u16 legacy "00x1"
    "Err(error: line 1 column 1: invalid u16\n --> <input>:1:1\n  |\n1 | 00x1\n  | ^ invalid u16)",
    // i16 legacy "0000000000000000000000000000000000000000000007"
    "Ok(7)",
    // u16 legacy "0000000000000000000000000000000000000000000007"
    "Ok(7)",
    // i16 "32767"
    "Ok(32767)",
    // i16 "32768"
    "Err(error: line 1 column 1: invalid i16\n --> <input>:1:1\n  |\n1 | 32768\n  | ^ invalid i16)",
    // i16 "-32768"
    "Ok(-32768)",
    // i16 "-32769"
    "Err(error: line 1 column 1: invalid i16\n --> <input>:1:1\n  |\n1 | -32769\n  | ^ invalid i16)",
    // i16 "0xFFFF"
    "Err(error: line 1 column 1: invalid i16\n --> <input>:1:1\n  |\n1 | 0xFFFF\n  | ^ invalid i16)",
    // i16 "-0x8000"
    "Ok(-32768)",
    // i16 "0x7fff"
    "Ok(32767)",
    // i32 "2147483647"
    "Ok(2147483647)",
    // i32 "2147483648"
    "Err(error: line 1 column 1: invalid i32\n --> <input>:1:1\n  |\n1 | 2147483648\n  | ^ invalid i32)",
    // i32 "-2147483648"
    "Ok(-2147483648)",
    // i32 "-2147483649"
    "Err(error: line 1 column 1: invalid i32\n --> <input>:1:1\n  |\n1 | -2147483649\n  | ^ invalid i32)",
    // i32 "0xabcdef"
    "Ok(11259375)",
    // i32 "0xABCDEF"
    "Ok(11259375)",
    // i32 "0xaBcDeF"
    "Ok(11259375)",
    // i64 "9223372036854775807"
    "Ok(9223372036854775807)",
    // i64 "9223372036854775808"
    "Err(error: line 1 column 1: invalid i64\n --> <input>:1:1\n  |\n1 | 9223372036854775808\n  | ^ invalid i64)",
    // i64 "-9223372036854775808"
    "Ok(-9223372036854775808)",
    // i64 "-9223372036854775809"
    "Err(error: line 1 column 1: invalid i64\n --> <input>:1:1\n  |\n1 | -9223372036854775809\n  | ^ invalid i64)",
    // i64 "0x7fffffffffffffff"
    "Ok(9223372036854775807)",
    // i64 "0x8000000000000000"
    "Err(error: line 1 column 1: invalid i64\n --> <input>:1:1\n  |\n1 | 0x8000000000000000\n  | ^ invalid i64)",
    // i64 "-0x8000000000000000"
    "Ok(-9223372036854775808)",
    // i64 "-0x8000000000000001"
    "Err(error: line 1 column 1: invalid i64\n --> <input>:1:1\n  |\n1 | -0x8000000000000001\n  | ^ invalid i64)",
    // i64 "-0b1000000000000000000000000000000000000000000000000000000000000000"
    "Ok(-9223372036854775808)",
    // i128 "170141183460469231731687303715884105727"
    "Ok(170141183460469231731687303715884105727)",
    // i128 "170141183460469231731687303715884105728"
    "Err(error: line 1 column 1: invalid i128\n --> <input>:1:1\n  |\n1 | 170141183460469231731687303715884105728\n  | ^ invalid i128)",
    // i128 "-170141183460469231731687303715884105728"
    "Ok(-170141183460469231731687303715884105728)",
    // i128 "-170141183460469231731687303715884105729"
    "Err(error: line 1 column 1: invalid i128\n --> <input>:1:1\n  |\n1 | -170141183460469231731687303715884105729\n  | ^ invalid i128)",
    // i128 "-1701411834604692317316873037158841057280"
    "Err(error: line 1 column 1: invalid i128\n --> <input>:1:1\n  |\n1 | -1701411834604692317316873037158841057280\n  | ^ invalid i128)",
    // i128 "0x7fffffffffffffffffffffffffffffff"
    "Ok(170141183460469231731687303715884105727)",
    // i128 "0x80000000000000000000000000000000"
    "Err(error: line 1 column 1: invalid i128\n --> <input>:1:1\n  |\n1 | 0x80000000000000000000000000000000\n  | ^ invalid i128)",
    // i128 "-0x80000000000000000000000000000000"
    "Ok(-170141183460469231731687303715884105728)",
    // i128 "-0x80000000000000000000000000000001"
    "Err(error: line 1 column 1: invalid i128\n --> <input>:1:1\n  |\n1 | -0x80000000000000000000000000000001\n  | ^ invalid i128)",
    // i128 "-0xffffffffffffffffffffffffffffffff"
    "Err(error: line 1 column 1: invalid i128\n --> <input>:1:1\n  |\n1 | -0xffffffffffffffffffffffffffffffff\n  | ^ invalid i128)",
    // i128 "-0x100000000000000000000000000000000"
    "Err(error: line 1 column 1: invalid i128\n --> <input>:1:1\n  |\n1 | -0x100000000000000000000000000000000\n  | ^ invalid i128)",
    // i128 "-0o2000000000000000000000000000000000000000000"
    "Ok(-170141183460469231731687303715884105728)",
    // i128 "-0o2000000000000000000000000000000000000000001"
    "Err(error: line 1 column 1: invalid i128\n --> <input>:1:1\n  |\n1 | -0o2000000000000000000000000000000000000000001\n  | ^ invalid i128)",
    // i128 "-1_7_0141183460469231731687303715884105728_"
    "Ok(-170141183460469231731687303715884105728)",
    // i128 "999999999999999999999999999999999999999999999999"
    "Err(error: line 1 column 1: invalid i128\n --> <input>:1:1\n  |\n1 | 999999999999999999999999999999999999999999999999\n  | ^ invalid i128)",
    // i128 "-999999999999999999999999999999999999999999999999"
    "Err(error: line 1 column 1: invalid i128\n --> <input>:1:1\n  |\n1 | -999999999999999999999999999999999999999999999999\n  | ^ invalid i128)",
    // u8 "255"
    "Ok(255)",
    // u8 "256"
    "Err(error: line 1 column 1: invalid u8\n --> <input>:1:1\n  |\n1 | 256\n  | ^ invalid u8)",
    // u8 "-1"
    "Err(error: line 1 column 1: invalid u8\n --> <input>:1:1\n  |\n1 | -1\n  | ^ invalid u8)",
    // u8 "-0"
    "Err(error: line 1 column 1: invalid u8\n --> <input>:1:1\n  |\n1 | -0\n  | ^ invalid u8)",
    // u8 "+0"
    "Ok(0)",
    // u8 "+255"
    "Ok(255)",
    // u8 "+256"
    "Err(error: line 1 column 1: invalid u8\n --> <input>:1:1\n  |\n1 | +256\n  | ^ invalid u8)",
    // u8 "0o377"
    "Ok(255)",
    // u8 "0o400"
    "Err(error: line 1 column 1: invalid u8\n --> <input>:1:1\n  |\n1 | 0o400\n  | ^ invalid u8)",
    // u8 "0b11111111"
    "Ok(255)",
    // u8 "0b100000000"
    "Err(error: line 1 column 1: invalid u8\n --> <input>:1:1\n  |\n1 | 0b100000000\n  | ^ invalid u8)",
    // u8 "0xff"
    "Ok(255)",
    // u8 "0x100"
    "Err(error: line 1 column 1: invalid u8\n --> <input>:1:1\n  |\n1 | 0x100\n  | ^ invalid u8)",
    // u8 "-0x0"
    "Err(error: line 1 column 1: invalid u8\n --> <input>:1:1\n  |\n1 | -0x0\n  | ^ invalid u8)",
    // u8 "+0xFF"
    "Ok(255)",
    // u8 "+-1"
    "Err(error: line 1 column 1: invalid u8\n --> <input>:1:1\n  |\n1 | +-1\n  | ^ invalid u8)",
    // u8 "+"
    "Err(error: line 1 column 1: invalid u8\n --> <input>:1:1\n  |\n1 | +\n  | ^ invalid u8)",
    // u8 ""
    "Err(unexpected end of input at line 1, column 1)",
    // u8 "~"
    "Err(error: line 1 column 1: invalid u8\n --> <input>:1:1\n  |\n1 | ~\n  | ^ invalid u8)",
    // u8 "2_5_5"
    "Ok(255)",
    // u8 "_255"
    "Ok(255)",
    // u8 "0_0_0"
    "Ok(0)",
    // u8 "'255'"
    "Ok(255)",
    // u8 "\" 255 \""
    "Ok(255)",
    // u8 "1e2"
    "Err(error: line 1 column 1: invalid u8\n --> <input>:1:1\n  |\n1 | 1e2\n  | ^ invalid u8)",
    // u8 "0xfg"
    "Err(error: line 1 column 1: invalid u8\n --> <input>:1:1\n  |\n1 | 0xfg\n  | ^ invalid u8)",
    // u8 "0b12"
    "Err(error: line 1 column 1: invalid u8\n --> <input>:1:1\n  |\n1 | 0b12\n  | ^ invalid u8)",
    // u8 "0o78"
    "Err(error: line 1 column 1: invalid u8\n --> <input>:1:1\n  |\n1 | 0o78\n  | ^ invalid u8)",
    // u8 "0099"
    "Ok(99)",
    // u8 "f"
    "Err(error: line 1 column 1: invalid u8\n --> <input>:1:1\n  |\n1 | f\n  | ^ invalid u8)",
    // u8 "F"
    "Err(error: line 1 column 1: invalid u8\n --> <input>:1:1\n  |\n1 | F\n  | ^ invalid u8)",
    // u16 "65535"
    "Ok(65535)",
    // u32 "65535"
    "Ok(65535)",
    // u16 "65536"
    "Err(error: line 1 column 1: invalid u16\n --> <input>:1:1\n  |\n1 | 65536\n  | ^ invalid u16)",
    // u32 "65536"
    "Ok(65536)",
    // u16 "4294967295"
    "Err(error: line 1 column 1: invalid u16\n --> <input>:1:1\n  |\n1 | 4294967295\n  | ^ invalid u16)",
    // u32 "4294967295"
    "Ok(4294967295)",
    // u16 "4294967296"
    "Err(error: line 1 column 1: invalid u16\n --> <input>:1:1\n  |\n1 | 4294967296\n  | ^ invalid u16)",
    // u32 "4294967296"
    "Err(error: line 1 column 1: invalid u32\n --> <input>:1:1\n  |\n1 | 4294967296\n  | ^ invalid u32)",
    // u64 "18446744073709551615"
    "Ok(18446744073709551615)",
    // u64 "18446744073709551616"
    "Err(error: line 1 column 1: invalid u64\n --> <input>:1:1\n  |\n1 | 18446744073709551616\n  | ^ invalid u64)",
    // u64 "0xffffffffffffffff"
    "Ok(18446744073709551615)",
    // u64 "0x10000000000000000"
    "Err(error: line 1 column 1: invalid u64\n --> <input>:1:1\n  |\n1 | 0x10000000000000000\n  | ^ invalid u64)",
    // u128 "340282366920938463463374607431768211455"
    "Ok(340282366920938463463374607431768211455)",
    // u128 "340282366920938463463374607431768211456"
    "Err(error: line 1 column 1: invalid u128\n --> <input>:1:1\n  |\n1 | 340282366920938463463374607431768211456\n  | ^ invalid u128)",
    // u128 "3402823669209384634633746074317682114550"
    "Err(error: line 1 column 1: invalid u128\n --> <input>:1:1\n  |\n1 | 3402823669209384634633746074317682114550\n  | ^ invalid u128)",
    // u128 "0xffffffffffffffffffffffffffffffff"
    "Ok(340282366920938463463374607431768211455)",
    // u128 "0x1_00000000000000000000000000000000"
    "Err(error: line 1 column 1: invalid u128\n --> <input>:1:1\n  |\n1 | 0x1_00000000000000000000000000000000\n  | ^ invalid u128)",
    // u128 "0o3777777777777777777777777777777777777777777"
    "Ok(340282366920938463463374607431768211455)",
    // u128 "0o4000000000000000000000000000000000000000000"
    "Err(error: line 1 column 1: invalid u128\n --> <input>:1:1\n  |\n1 | 0o4000000000000000000000000000000000000000000\n  | ^ invalid u128)",
    // u128 "0b11111111111111111111111111111111111111111111111111111111111111111111111111111111111111111111111111111111111111111111111111111111"
    "Ok(340282366920938463463374607431768211455)",
    // u128 "0b100000000000000000000000000000000000000000000000000000000000000000000000000000000000000000000000000000000000000000000000000000000"
    "Err(error: line 1 column 1: invalid u128\n --> <input>:1:1\n  |\n1 | 0b100000000000000000000000000000000000000000000000000000000000000…\n  | ^ invalid u128)",
    // u128 "+340282366920938463463374607431768211455"
    "Ok(340282366920938463463374607431768211455)",
    // u128 "-340282366920938463463374607431768211455"
    "Err(error: line 1 column 1: invalid u128\n --> <input>:1:1\n  |\n1 | -340282366920938463463374607431768211455\n  | ^ invalid u128)",
    // bool "true"
    "Ok(true)",
    // bool strict "true"
    "Ok(true)",
    // bool "True"
    "Ok(true)",
    // bool strict "True"
    "Ok(true)",
    // bool "TRUE"
    "Ok(true)",
    // bool strict "TRUE"
    "Ok(true)",
    // bool "tRuE"
    "Ok(true)",
    // bool strict "tRuE"
    "Ok(true)",
    // bool "yes"
    "Ok(true)",
    // bool strict "yes"
    "Err(error: line 1 column 1: invalid boolean (strict mode expects true/false)\n --> <input>:1:1\n  |\n1 | yes\n  | ^ invalid boolean (strict mode expects true/false))",
    // bool "Yes"
    "Ok(true)",
    // bool strict "Yes"
    "Err(error: line 1 column 1: invalid boolean (strict mode expects true/false)\n --> <input>:1:1\n  |\n1 | Yes\n  | ^ invalid boolean (strict mode expects true/false))",
    // bool "Y"
    "Ok(true)",
    // bool strict "Y"
    "Err(error: line 1 column 1: invalid boolean (strict mode expects true/false)\n --> <input>:1:1\n  |\n1 | Y\n  | ^ invalid boolean (strict mode expects true/false))",
    // bool "y"
    "Ok(true)",
    // bool strict "y"
    "Err(error: line 1 column 1: invalid boolean (strict mode expects true/false)\n --> <input>:1:1\n  |\n1 | y\n  | ^ invalid boolean (strict mode expects true/false))",
    // bool "on"
    "Ok(true)",
    // bool strict "on"
    "Err(error: line 1 column 1: invalid boolean (strict mode expects true/false)\n --> <input>:1:1\n  |\n1 | on\n  | ^ invalid boolean (strict mode expects true/false))",
    // bool "ON"
    "Ok(true)",
    // bool strict "ON"
    "Err(error: line 1 column 1: invalid boolean (strict mode expects true/false)\n --> <input>:1:1\n  |\n1 | ON\n  | ^ invalid boolean (strict mode expects true/false))",
    // bool "false"
    "Ok(false)",
    // bool strict "false"
    "Ok(false)",
    // bool "FALSE"
    "Ok(false)",
    // bool strict "FALSE"
    "Ok(false)",
    // bool "no"
    "Ok(false)",
    // bool strict "no"
    "Err(error: line 1 column 1: invalid boolean (strict mode expects true/false)\n --> <input>:1:1\n  |\n1 | no\n  | ^ invalid boolean (strict mode expects true/false))",
    // bool "No"
    "Ok(false)",
    // bool strict "No"
    "Err(error: line 1 column 1: invalid boolean (strict mode expects true/false)\n --> <input>:1:1\n  |\n1 | No\n  | ^ invalid boolean (strict mode expects true/false))",
    // bool "N"
    "Ok(false)",
    // bool strict "N"
    "Err(error: line 1 column 1: invalid boolean (strict mode expects true/false)\n --> <input>:1:1\n  |\n1 | N\n  | ^ invalid boolean (strict mode expects true/false))",
    // bool "n"
    "Ok(false)",
    // bool strict "n"
    "Err(error: line 1 column 1: invalid boolean (strict mode expects true/false)\n --> <input>:1:1\n  |\n1 | n\n  | ^ invalid boolean (strict mode expects true/false))",
    // bool "off"
    "Ok(false)",
    // bool strict "off"
    "Err(error: line 1 column 1: invalid boolean (strict mode expects true/false)\n --> <input>:1:1\n  |\n1 | off\n  | ^ invalid boolean (strict mode expects true/false))",
    // bool "OFF"
    "Ok(false)",
    // bool strict "OFF"
    "Err(error: line 1 column 1: invalid boolean (strict mode expects true/false)\n --> <input>:1:1\n  |\n1 | OFF\n  | ^ invalid boolean (strict mode expects true/false))",
    // bool "maybe"
    "Err(error: line 1 column 1: invalid boolean\n --> <input>:1:1\n  |\n1 | maybe\n  | ^ invalid boolean)",
    // bool strict "maybe"
    "Err(error: line 1 column 1: invalid boolean (strict mode expects true/false)\n --> <input>:1:1\n  |\n1 | maybe\n  | ^ invalid boolean (strict mode expects true/false))",
    // bool "1"
    "Err(error: line 1 column 1: invalid boolean\n --> <input>:1:1\n  |\n1 | 1\n  | ^ invalid boolean)",
    // bool strict "1"
    "Err(error: line 1 column 1: invalid boolean (strict mode expects true/false)\n --> <input>:1:1\n  |\n1 | 1\n  | ^ invalid boolean (strict mode expects true/false))",
    // bool "0"
    "Err(error: line 1 column 1: invalid boolean\n --> <input>:1:1\n  |\n1 | 0\n  | ^ invalid boolean)",
    // bool strict "0"
    "Err(error: line 1 column 1: invalid boolean (strict mode expects true/false)\n --> <input>:1:1\n  |\n1 | 0\n  | ^ invalid boolean (strict mode expects true/false))",
    // bool "'yes'"
    "Ok(true)",
    // bool strict "'yes'"
    "Err(error: line 1 column 1: invalid boolean (strict mode expects true/false)\n --> <input>:1:1\n  |\n1 | 'yes'\n  | ^ invalid boolean (strict mode expects true/false))",
    // bool "\" on \""
    "Ok(true)",
    // bool strict "\" on \""
    "Err(error: line 1 column 1: invalid boolean (strict mode expects true/false)\n --> <input>:1:1\n  |\n1 | \" on \"\n  | ^ invalid boolean (strict mode expects true/false))",
    // bool "\"on\\u00a0\""
    "Err(error: line 1 column 1: invalid boolean\n --> <input>:1:1\n  |\n1 | \"on\\u00a0\"\n  | ^ invalid boolean)",
    // bool strict "\"on\\u00a0\""
    "Err(error: line 1 column 1: invalid boolean (strict mode expects true/false)\n --> <input>:1:1\n  |\n1 | \"on\\u00a0\"\n  | ^ invalid boolean (strict mode expects true/false))",
    // bool "ye"
    "Err(error: line 1 column 1: invalid boolean\n --> <input>:1:1\n  |\n1 | ye\n  | ^ invalid boolean)",
    // bool strict "ye"
    "Err(error: line 1 column 1: invalid boolean (strict mode expects true/false)\n --> <input>:1:1\n  |\n1 | ye\n  | ^ invalid boolean (strict mode expects true/false))",
    // bool "yess"
    "Err(error: line 1 column 1: invalid boolean\n --> <input>:1:1\n  |\n1 | yess\n  | ^ invalid boolean)",
    // bool strict "yess"
    "Err(error: line 1 column 1: invalid boolean (strict mode expects true/false)\n --> <input>:1:1\n  |\n1 | yess\n  | ^ invalid boolean (strict mode expects true/false))",
    // bool ""
    "Err(unexpected end of input at line 1, column 1)",
    // bool strict ""
    "Err(unexpected end of input at line 1, column 1)",
    // bool "~"
    "Err(error: line 1 column 1: invalid boolean\n --> <input>:1:1\n  |\n1 | ~\n  | ^ invalid boolean)",
    // bool strict "~"
    "Err(error: line 1 column 1: invalid boolean (strict mode expects true/false)\n --> <input>:1:1\n  |\n1 | ~\n  | ^ invalid boolean (strict mode expects true/false))",
    // bool "null"
    "Err(error: line 1 column 1: invalid boolean\n --> <input>:1:1\n  |\n1 | null\n  | ^ invalid boolean)",
    // bool strict "null"
    "Err(error: line 1 column 1: invalid boolean (strict mode expects true/false)\n --> <input>:1:1\n  |\n1 | null\n  | ^ invalid boolean (strict mode expects true/false))",
    // bool "t"
    "Err(error: line 1 column 1: invalid boolean\n --> <input>:1:1\n  |\n1 | t\n  | ^ invalid boolean)",
    // bool strict "t"
    "Err(error: line 1 column 1: invalid boolean (strict mode expects true/false)\n --> <input>:1:1\n  |\n1 | t\n  | ^ invalid boolean (strict mode expects true/false))",
    // bool "f"
    "Err(error: line 1 column 1: invalid boolean\n --> <input>:1:1\n  |\n1 | f\n  | ^ invalid boolean)",
    // bool strict "f"
    "Err(error: line 1 column 1: invalid boolean (strict mode expects true/false)\n --> <input>:1:1\n  |\n1 | f\n  | ^ invalid boolean (strict mode expects true/false))",
    // bool "!!str true"
    "Ok(true)",
    // bool strict "!!str true"
    "Ok(true)",
    // bool "!!bool yes"
    "Ok(true)",
    // bool strict "!!bool yes"
    "Err(error: line 1 column 8: invalid boolean (strict mode expects true/false)\n --> <input>:1:8\n  |\n1 | !!bool yes\n  |        ^ invalid boolean (strict mode expects true/false))",
    // f64 ".inf"
    "Ok(\"inf/0x7ff0000000000000\")",
    // f64 "+.inf"
    "Ok(\"inf/0x7ff0000000000000\")",
    // f64 "-.inf"
    "Ok(\"-inf/0xfff0000000000000\")",
    // f64 ".INF"
    "Ok(\"inf/0x7ff0000000000000\")",
    // f64 "+.Inf"
    "Ok(\"inf/0x7ff0000000000000\")",
    // f64 "-.INF"
    "Ok(\"-inf/0xfff0000000000000\")",
    // f64 ".iNf"
    "Ok(\"inf/0x7ff0000000000000\")",
    // f64 ".nan"
    "Ok(\"NaN/0x7ff8000000000000\")",
    // f64 ".NaN"
    "Ok(\"NaN/0x7ff8000000000000\")",
    // f64 ".NAN"
    "Ok(\"NaN/0x7ff8000000000000\")",
    // f64 "+.nan"
    "Ok(\"NaN/0x7ff8000000000000\")",
    // f64 "-.nan"
    "Ok(\"NaN/0x7ff8000000000000\")",
    // f64 "inf"
    "Err(error: line 1 column 1: invalid floating point\n --> <input>:1:1\n  |\n1 | inf\n  | ^ invalid floating point)",
    // f64 "+inf"
    "Err(error: line 1 column 1: invalid floating point\n --> <input>:1:1\n  |\n1 | +inf\n  | ^ invalid floating point)",
    // f64 "-inf"
    "Err(error: line 1 column 1: invalid floating point\n --> <input>:1:1\n  |\n1 | -inf\n  | ^ invalid floating point)",
    // f64 "infinity"
    "Err(error: line 1 column 1: invalid floating point\n --> <input>:1:1\n  |\n1 | infinity\n  | ^ invalid floating point)",
    // f64 "-Infinity"
    "Err(error: line 1 column 1: invalid floating point\n --> <input>:1:1\n  |\n1 | -Infinity\n  | ^ invalid floating point)",
    // f64 "nan"
    "Err(error: line 1 column 1: invalid floating point\n --> <input>:1:1\n  |\n1 | nan\n  | ^ invalid floating point)",
    // f64 "NaN"
    "Err(error: line 1 column 1: invalid floating point\n --> <input>:1:1\n  |\n1 | NaN\n  | ^ invalid floating point)",
    // f64 "+nan"
    "Err(error: line 1 column 1: invalid floating point\n --> <input>:1:1\n  |\n1 | +nan\n  | ^ invalid floating point)",
    // f64 "."
    "Err(error: line 1 column 1: invalid floating point\n --> <input>:1:1\n  |\n1 | .\n  | ^ invalid floating point)",
    // f64 "-"
    "Err(error: line 1 column 1: unexpected event: expected string scalar\n --> <input>:1:1\n  |\n1 | -\n  | ^ unexpected event: expected string scalar)",
    // f64 "+"
    "Err(error: line 1 column 1: invalid floating point\n --> <input>:1:1\n  |\n1 | +\n  | ^ invalid floating point)",
    // f64 "e"
    "Err(error: line 1 column 1: invalid floating point\n --> <input>:1:1\n  |\n1 | e\n  | ^ invalid floating point)",
    // f64 "e5"
    "Err(error: line 1 column 1: invalid floating point\n --> <input>:1:1\n  |\n1 | e5\n  | ^ invalid floating point)",
    // f64 "1e5"
    "Ok(\"100000.0/0x40f86a0000000000\")",
    // f64 "1E5"
    "Ok(\"100000.0/0x40f86a0000000000\")",
    // f64 "1e+5"
    "Ok(\"100000.0/0x40f86a0000000000\")",
    // f64 "1e-5"
    "Ok(\"1e-5/0x3ee4f8b588e368f1\")",
    // f64 "1e5e"
    "Err(error: line 1 column 1: invalid floating point\n --> <input>:1:1\n  |\n1 | 1e5e\n  | ^ invalid floating point)",
    // f64 "1.5"
    "Ok(\"1.5/0x3ff8000000000000\")",
    // f64 "-1.5"
    "Ok(\"-1.5/0xbff8000000000000\")",
    // f64 "+1.5"
    "Ok(\"1.5/0x3ff8000000000000\")",
    // f64 ".5"
    "Ok(\"0.5/0x3fe0000000000000\")",
    // f64 "5."
    "Ok(\"5.0/0x4014000000000000\")",
    // f64 "-0.0"
    "Ok(\"-0.0/0x8000000000000000\")",
    // f64 "-0"
    "Ok(\"-0.0/0x8000000000000000\")",
    // f64 "0"
    "Ok(\"0.0/0x0000000000000000\")",
    // f64 "1_000.5"
    "Err(error: line 1 column 1: invalid floating point\n --> <input>:1:1\n  |\n1 | 1_000.5\n  | ^ invalid floating point)",
    // f64 "0x10"
    "Err(error: line 1 column 1: invalid floating point\n --> <input>:1:1\n  |\n1 | 0x10\n  | ^ invalid floating point)",
    // f64 "0b1"
    "Err(error: line 1 column 1: invalid floating point\n --> <input>:1:1\n  |\n1 | 0b1\n  | ^ invalid floating point)",
    // f64 "1e400"
    "Ok(\"inf/0x7ff0000000000000\")",
    // f64 "-1e400"
    "Ok(\"-inf/0xfff0000000000000\")",
    // f64 "1e-400"
    "Ok(\"0.0/0x0000000000000000\")",
    // f64 "' 1.5 '"
    "Ok(\"1.5/0x3ff8000000000000\")",
    // f64 "\"1.5\\u00a0\""
    "Err(error: line 1 column 1: invalid floating point\n --> <input>:1:1\n  |\n1 | \"1.5\\u00a0\"\n  | ^ invalid floating point)",
    // f64 "'.inf'"
    "Ok(\"inf/0x7ff0000000000000\")",
    // f64 "'.nan '"
    "Ok(\"NaN/0x7ff8000000000000\")",
    // f64 ".inf."
    "Err(error: line 1 column 1: invalid floating point\n --> <input>:1:1\n  |\n1 | .inf.\n  | ^ invalid floating point)",
    // f64 "..inf"
    "Err(error: line 1 column 1: invalid floating point\n --> <input>:1:1\n  |\n1 | ..inf\n  | ^ invalid floating point)",
    // f64 "1.2.3"
    "Err(error: line 1 column 1: invalid floating point\n --> <input>:1:1\n  |\n1 | 1.2.3\n  | ^ invalid floating point)",
    // f64 "1,5"
    "Err(error: line 1 column 1: invalid floating point\n --> <input>:1:1\n  |\n1 | 1,5\n  | ^ invalid floating point)",
    // f64 "~"
    "Err(error: line 1 column 1: invalid floating point\n --> <input>:1:1\n  |\n1 | ~\n  | ^ invalid floating point)",
    // f64 ""
    "Err(unexpected end of input at line 1, column 1)",
    // f64 "null"
    "Err(error: line 1 column 1: invalid floating point\n --> <input>:1:1\n  |\n1 | null\n  | ^ invalid floating point)",
    // f64 "4.9e-324"
    "Ok(\"5e-324/0x0000000000000001\")",
    // f64 "1.7976931348623157e308"
    "Ok(\"1.7976931348623157e308/0x7fefffffffffffff\")",
    // f64 "1.7976931348623159e308"
    "Ok(\"inf/0x7ff0000000000000\")",
    // f64 "0.1"
    "Ok(\"0.1/0x3fb999999999999a\")",
    // f64 "!!str 1.5"
    "Ok(\"1.5/0x3ff8000000000000\")",
    // f64 "!!int 3"
    "Ok(\"3.0/0x4008000000000000\")",
    // f64 "!degrees 180"
    "Ok(\"180.0/0x4066800000000000\")",
    // f64 "!radians 1"
    "Ok(\"1.0/0x3ff0000000000000\")",
    // f32 "0.1"
    "Ok(\"0.1/0x3dcccccd\")",
    // f32 "3.4028235e38"
    "Ok(\"3.4028235e38/0x7f7fffff\")",
    // f32 "3.4028236e38"
    "Ok(\"inf/0x7f800000\")",
    // f32 "1e39"
    "Ok(\"inf/0x7f800000\")",
    // f32 "1e-46"
    "Ok(\"0.0/0x00000000\")",
    // f32 "1.17549435e-38"
    "Ok(\"1.1754944e-38/0x00800000\")",
    // f32 "1e-45"
    "Ok(\"1e-45/0x00000001\")",
    // f32 "-0.0"
    "Ok(\"-0.0/0x80000000\")",
    // f32 ".inf"
    "Ok(\"inf/0x7f800000\")",
    // f32 "-.INF"
    "Ok(\"-inf/0xff800000\")",
    // f32 ".NaN"
    "Ok(\"NaN/0x7fc00000\")",
    // f32 "16777217"
    "Ok(\"16777216.0/0x4b800000\")",
    // f32 "inf"
    "Err(error: line 1 column 1: invalid floating point\n --> <input>:1:1\n  |\n1 | inf\n  | ^ invalid floating point)",
    // String "null"
    "Err(error: line 1 column 1: cannot deserialize null into string; use Option<String>\n --> <input>:1:1\n  |\n1 | null\n  | ^ cannot deserialize null into string; use Option<String>)",
    // String ignore_binary "null"
    "Err(error: line 1 column 1: cannot deserialize null into string; use Option<String>\n --> <input>:1:1\n  |\n1 | null\n  | ^ cannot deserialize null into string; use Option<String>)",
    // Option<String> "null"
    "Ok(None)",
    // String "Null"
    "Err(error: line 1 column 1: cannot deserialize null into string; use Option<String>\n --> <input>:1:1\n  |\n1 | Null\n  | ^ cannot deserialize null into string; use Option<String>)",
    // String ignore_binary "Null"
    "Err(error: line 1 column 1: cannot deserialize null into string; use Option<String>\n --> <input>:1:1\n  |\n1 | Null\n  | ^ cannot deserialize null into string; use Option<String>)",
    // Option<String> "Null"
    "Ok(None)",
    // String "NULL"
    "Err(error: line 1 column 1: cannot deserialize null into string; use Option<String>\n --> <input>:1:1\n  |\n1 | NULL\n  | ^ cannot deserialize null into string; use Option<String>)",
    // String ignore_binary "NULL"
    "Err(error: line 1 column 1: cannot deserialize null into string; use Option<String>\n --> <input>:1:1\n  |\n1 | NULL\n  | ^ cannot deserialize null into string; use Option<String>)",
    // Option<String> "NULL"
    "Ok(None)",
    // String "nUlL"
    "Err(error: line 1 column 1: cannot deserialize null into string; use Option<String>\n --> <input>:1:1\n  |\n1 | nUlL\n  | ^ cannot deserialize null into string; use Option<String>)",
    // String ignore_binary "nUlL"
    "Err(error: line 1 column 1: cannot deserialize null into string; use Option<String>\n --> <input>:1:1\n  |\n1 | nUlL\n  | ^ cannot deserialize null into string; use Option<String>)",
    // Option<String> "nUlL"
    "Ok(None)",
    // String "~"
    "Err(error: line 1 column 1: cannot deserialize null into string; use Option<String>\n --> <input>:1:1\n  |\n1 | ~\n  | ^ cannot deserialize null into string; use Option<String>)",
    // String ignore_binary "~"
    "Err(error: line 1 column 1: cannot deserialize null into string; use Option<String>\n --> <input>:1:1\n  |\n1 | ~\n  | ^ cannot deserialize null into string; use Option<String>)",
    // Option<String> "~"
    "Ok(None)",
    // String ""
    "Err(unexpected end of input at line 1, column 1)",
    // String ignore_binary ""
    "Err(unexpected end of input at line 1, column 1)",
    // Option<String> ""
    "Ok(None)",
    // String "'null'"
    "Ok(\"null\")",
    // String ignore_binary "'null'"
    "Ok(\"null\")",
    // Option<String> "'null'"
    "Ok(Some(\"null\"))",
    // String "\"~\""
    "Ok(\"~\")",
    // String ignore_binary "\"~\""
    "Ok(\"~\")",
    // Option<String> "\"~\""
    "Ok(Some(\"~\"))",
    // String "''"
    "Ok(\"\")",
    // String ignore_binary "''"
    "Ok(\"\")",
    // Option<String> "''"
    "Ok(Some(\"\"))",
    // String "\"\""
    "Ok(\"\")",
    // String ignore_binary "\"\""
    "Ok(\"\")",
    // Option<String> "\"\""
    "Ok(Some(\"\"))",
    // String "!!str null"
    "Ok(\"null\")",
    // String ignore_binary "!!str null"
    "Ok(\"null\")",
    // Option<String> "!!str null"
    "Ok(Some(\"null\"))",
    // String "!!str ~"
    "Ok(\"~\")",
    // String ignore_binary "!!str ~"
    "Ok(\"~\")",
    // Option<String> "!!str ~"
    "Ok(Some(\"~\"))",
    // String "!!str"
    "Ok(\"\")",
    // String ignore_binary "!!str"
    "Ok(\"\")",
    // Option<String> "!!str"
    "Ok(Some(\"\"))",
    // String "!!null x"
    "Err(error: line 1 column 8: cannot deserialize null into string; use Option<String>\n --> <input>:1:8\n  |\n1 | !!null x\n  |        ^ cannot deserialize null into string; use Option<String>)",
    // String ignore_binary "!!null x"
    "Err(error: line 1 column 8: cannot deserialize null into string; use Option<String>\n --> <input>:1:8\n  |\n1 | !!null x\n  |        ^ cannot deserialize null into string; use Option<String>)",
    // Option<String> "!!null x"
    "Ok(None)",
    // String "!!null 'x'"
    "Err(error: line 1 column 8: cannot deserialize null into string; use Option<String>\n --> <input>:1:8\n  |\n1 | !!null 'x'\n  |        ^ cannot deserialize null into string; use Option<String>)",
    // String ignore_binary "!!null 'x'"
    "Err(error: line 1 column 8: cannot deserialize null into string; use Option<String>\n --> <input>:1:8\n  |\n1 | !!null 'x'\n  |        ^ cannot deserialize null into string; use Option<String>)",
    // Option<String> "!!null 'x'"
    "Ok(None)",
    // String "nulll"
    "Ok(\"nulll\")",
    // String ignore_binary "nulll"
    "Ok(\"nulll\")",
    // Option<String> "nulll"
    "Ok(Some(\"nulll\"))",
    // String " null"
    "Err(error: line 1 column 2: cannot deserialize null into string; use Option<String>\n --> <input>:1:2\n  |\n1 |  null\n  |  ^ cannot deserialize null into string; use Option<String>)",
    // String ignore_binary " null"
    "Err(error: line 1 column 2: cannot deserialize null into string; use Option<String>\n --> <input>:1:2\n  |\n1 |  null\n  |  ^ cannot deserialize null into string; use Option<String>)",
    // Option<String> " null"
    "Ok(None)",
    // String "null "
    "Err(error: line 1 column 1: cannot deserialize null into string; use Option<String>\n --> <input>:1:1\n  |\n1 | null \n  | ^ cannot deserialize null into string; use Option<String>)",
    // String ignore_binary "null "
    "Err(error: line 1 column 1: cannot deserialize null into string; use Option<String>\n --> <input>:1:1\n  |\n1 | null \n  | ^ cannot deserialize null into string; use Option<String>)",
    // Option<String> "null "
    "Ok(None)",
    // String "~~"
    "Ok(\"~~\")",
    // String ignore_binary "~~"
    "Ok(\"~~\")",
    // Option<String> "~~"
    "Ok(Some(\"~~\"))",
    // String "123"
    "Ok(\"123\")",
    // String ignore_binary "123"
    "Ok(\"123\")",
    // Option<String> "123"
    "Ok(Some(\"123\"))",
    // String "true"
    "Ok(\"true\")",
    // String ignore_binary "true"
    "Ok(\"true\")",
    // Option<String> "true"
    "Ok(Some(\"true\"))",
    // String "'123'"
    "Ok(\"123\")",
    // String ignore_binary "'123'"
    "Ok(\"123\")",
    // Option<String> "'123'"
    "Ok(Some(\"123\"))",
    // String "!!int 123"
    "Err(error: line 1 column 7: cannot deserialize tagged scalar into string\n --> <input>:1:7\n  |\n1 | !!int 123\n  |       ^ cannot deserialize tagged scalar into string)",
    // String ignore_binary "!!int 123"
    "Err(error: line 1 column 7: cannot deserialize tagged scalar into string\n --> <input>:1:7\n  |\n1 | !!int 123\n  |       ^ cannot deserialize tagged scalar into string)",
    // Option<String> "!!int 123"
    "Err(error: line 1 column 7: cannot deserialize tagged scalar into string\n --> <input>:1:7\n  |\n1 | !!int 123\n  |       ^ cannot deserialize tagged scalar into string)",
    // String "!!float 1.5"
    "Err(error: line 1 column 9: cannot deserialize tagged scalar into string\n --> <input>:1:9\n  |\n1 | !!float 1.5\n  |         ^ cannot deserialize tagged scalar into string)",
    // String ignore_binary "!!float 1.5"
    "Err(error: line 1 column 9: cannot deserialize tagged scalar into string\n --> <input>:1:9\n  |\n1 | !!float 1.5\n  |         ^ cannot deserialize tagged scalar into string)",
    // Option<String> "!!float 1.5"
    "Err(error: line 1 column 9: cannot deserialize tagged scalar into string\n --> <input>:1:9\n  |\n1 | !!float 1.5\n  |         ^ cannot deserialize tagged scalar into string)",
    // String "!!bool true"
    "Err(error: line 1 column 8: cannot deserialize tagged scalar into string\n --> <input>:1:8\n  |\n1 | !!bool true\n  |        ^ cannot deserialize tagged scalar into string)",
    // String ignore_binary "!!bool true"
    "Err(error: line 1 column 8: cannot deserialize tagged scalar into string\n --> <input>:1:8\n  |\n1 | !!bool true\n  |        ^ cannot deserialize tagged scalar into string)",
    // Option<String> "!!bool true"
    "Err(error: line 1 column 8: cannot deserialize tagged scalar into string\n --> <input>:1:8\n  |\n1 | !!bool true\n  |        ^ cannot deserialize tagged scalar into string)",
    // String "! 123"
    "Ok(\"123\")",
    // String ignore_binary "! 123"
    "Ok(\"123\")",
    // Option<String> "! 123"
    "Ok(Some(\"123\"))",
    // String "!custom 123"
    "Ok(\"123\")",
    // String ignore_binary "!custom 123"
    "Ok(\"123\")",
    // Option<String> "!custom 123"
    "Ok(Some(\"123\"))",
    // String "!!binary SGVsbG8h"
    "Ok(\"Hello!\")",
    // String ignore_binary "!!binary SGVsbG8h"
    "Ok(\"SGVsbG8h\")",
    // Option<String> "!!binary SGVsbG8h"
    "Ok(Some(\"Hello!\"))",
    // String "!!binary /w=="
    "Err(error: line 1 column 10: !!binary scalar is not valid UTF-8 so cannot be stored into string. If you just use !!binary for documentation/annotation, set ignore_binary_tag_for_string in Options\n --> <input>:1:10\n  |\n1 | !!binary /w==\n  |          ^ !!binary scalar is not valid UTF-8 so cannot be stored into string. If you just use !!binary for documentation/annotation, set ignore_binary_tag_for_string in Options)",
    // String ignore_binary "!!binary /w=="
    "Ok(\"/w==\")",
    // Option<String> "!!binary /w=="
    "Err(error: line 1 column 10: !!binary scalar is not valid UTF-8 so cannot be stored into string. If you just use !!binary for documentation/annotation, set ignore_binary_tag_for_string in Options\n --> <input>:1:10\n  |\n1 | !!binary /w==\n  |          ^ !!binary scalar is not valid UTF-8 so cannot be stored into string. If you just use !!binary for documentation/annotation, set ignore_binary_tag_for_string in Options)",
    // String "!!binary SGVsbG8"
    "Err(error: line 1 column 10: invalid !!binary base64\n --> <input>:1:10\n  |\n1 | !!binary SGVsbG8\n  |          ^ invalid !!binary base64)",
    // String ignore_binary "!!binary SGVsbG8"
    "Ok(\"SGVsbG8\")",
    // Option<String> "!!binary SGVsbG8"
    "Err(error: line 1 column 10: invalid !!binary base64\n --> <input>:1:10\n  |\n1 | !!binary SGVsbG8\n  |          ^ invalid !!binary base64)",
    // String "!!binary 'SGVs bG8h'"
    "Ok(\"Hello!\")",
    // String ignore_binary "!!binary 'SGVs bG8h'"
    "Ok(\"SGVs bG8h\")",
    // Option<String> "!!binary 'SGVs bG8h'"
    "Ok(Some(\"Hello!\"))",
    // String "!!timestamp 2001-01-01"
    "Err(error: line 1 column 13: cannot deserialize tagged scalar into string\n --> <input>:1:13\n  |\n1 | !!timestamp 2001-01-01\n  |             ^ cannot deserialize tagged scalar into string)",
    // String ignore_binary "!!timestamp 2001-01-01"
    "Err(error: line 1 column 13: cannot deserialize tagged scalar into string\n --> <input>:1:13\n  |\n1 | !!timestamp 2001-01-01\n  |             ^ cannot deserialize tagged scalar into string)",
    // Option<String> "!!timestamp 2001-01-01"
    "Err(error: line 1 column 13: cannot deserialize tagged scalar into string\n --> <input>:1:13\n  |\n1 | !!timestamp 2001-01-01\n  |             ^ cannot deserialize tagged scalar into string)",
    // String "!<tag:yaml.org,2002:str> null"
    "Ok(\"null\")",
    // String ignore_binary "!<tag:yaml.org,2002:str> null"
    "Ok(\"null\")",
    // Option<String> "!<tag:yaml.org,2002:str> null"
    "Ok(Some(\"null\"))",
    // String "!<tag:yaml.org,2002:int> 5"
    "Err(error: line 1 column 26: cannot deserialize tagged scalar into string\n --> <input>:1:26\n  |\n1 | !<tag:yaml.org,2002:int> 5\n  |                          ^ cannot deserialize tagged scalar into string)",
    // String ignore_binary "!<tag:yaml.org,2002:int> 5"
    "Err(error: line 1 column 26: cannot deserialize tagged scalar into string\n --> <input>:1:26\n  |\n1 | !<tag:yaml.org,2002:int> 5\n  |                          ^ cannot deserialize tagged scalar into string)",
    // Option<String> "!<tag:yaml.org,2002:int> 5"
    "Err(error: line 1 column 26: cannot deserialize tagged scalar into string\n --> <input>:1:26\n  |\n1 | !<tag:yaml.org,2002:int> 5\n  |                          ^ cannot deserialize tagged scalar into string)",
    // String "|\n  null\n"
    "Ok(\"null\\n\")",
    // String ignore_binary "|\n  null\n"
    "Ok(\"null\\n\")",
    // Option<String> "|\n  null\n"
    "Ok(Some(\"null\\n\"))",
    // String ">\n  ~\n"
    "Ok(\"~\\n\")",
    // String ignore_binary ">\n  ~\n"
    "Ok(\"~\\n\")",
    // Option<String> ">\n  ~\n"
    "Ok(Some(\"~\\n\"))",
    // String "|\n"
    "Ok(\"\\n\")",
    // String ignore_binary "|\n"
    "Ok(\"\\n\")",
    // Option<String> "|\n"
    "Ok(Some(\"\\n\"))",
    // String "|-\n"
    "Ok(\"\")",
    // String ignore_binary "|-\n"
    "Ok(\"\")",
    // Option<String> "|-\n"
    "Ok(None)",
    // String no_schema "123"
    "Err(error: line 1 column 1: The string value [123] must be quoted\n --> <input>:1:1\n  |\n1 | 123\n  | ^ The string value [123] must be quoted)",
    // String no_schema "'123'"
    "Ok(\"123\")",
    // String no_schema "\"123\""
    "Ok(\"123\")",
    // String no_schema "-1"
    "Err(error: line 1 column 1: The string value [-1] must be quoted\n --> <input>:1:1\n  |\n1 | -1\n  | ^ The string value [-1] must be quoted)",
    // String no_schema "+1"
    "Err(error: line 1 column 1: The string value [+1] must be quoted\n --> <input>:1:1\n  |\n1 | +1\n  | ^ The string value [+1] must be quoted)",
    // String no_schema "0x1F"
    "Err(error: line 1 column 1: The string value [0x1F] must be quoted\n --> <input>:1:1\n  |\n1 | 0x1F\n  | ^ The string value [0x1F] must be quoted)",
    // String no_schema "0052"
    "Err(error: line 1 column 1: The string value [0052] must be quoted\n --> <input>:1:1\n  |\n1 | 0052\n  | ^ The string value [0052] must be quoted)",
    // String no_schema "1_000"
    "Err(error: line 1 column 1: The string value [1_000] must be quoted\n --> <input>:1:1\n  |\n1 | 1_000\n  | ^ The string value [1_000] must be quoted)",
    // String no_schema "1e3"
    "Err(error: line 1 column 1: The string value [1e3] must be quoted\n --> <input>:1:1\n  |\n1 | 1e3\n  | ^ The string value [1e3] must be quoted)",
    // String no_schema ".inf"
    "Err(error: line 1 column 1: The string value [.inf] must be quoted\n --> <input>:1:1\n  |\n1 | .inf\n  | ^ The string value [.inf] must be quoted)",
    // String no_schema "-.INF"
    "Err(error: line 1 column 1: The string value [-.INF] must be quoted\n --> <input>:1:1\n  |\n1 | -.INF\n  | ^ The string value [-.INF] must be quoted)",
    // String no_schema ".nan"
    "Err(error: line 1 column 1: The string value [.nan] must be quoted\n --> <input>:1:1\n  |\n1 | .nan\n  | ^ The string value [.nan] must be quoted)",
    // String no_schema "inf"
    "Ok(\"inf\")",
    // String no_schema "nan"
    "Ok(\"nan\")",
    // String no_schema "true"
    "Err(error: line 1 column 1: The string value [true] must be quoted\n --> <input>:1:1\n  |\n1 | true\n  | ^ The string value [true] must be quoted)",
    // String no_schema "yes"
    "Err(error: line 1 column 1: The string value [yes] must be quoted\n --> <input>:1:1\n  |\n1 | yes\n  | ^ The string value [yes] must be quoted)",
    // String no_schema "Y"
    "Err(error: line 1 column 1: The string value [Y] must be quoted\n --> <input>:1:1\n  |\n1 | Y\n  | ^ The string value [Y] must be quoted)",
    // String no_schema "off"
    "Err(error: line 1 column 1: The string value [off] must be quoted\n --> <input>:1:1\n  |\n1 | off\n  | ^ The string value [off] must be quoted)",
    // String no_schema "maybe"
    "Ok(\"maybe\")",
    // String no_schema "~"
    "Err(error: line 1 column 1: cannot deserialize null into string; use Option<String>\n --> <input>:1:1\n  |\n1 | ~\n  | ^ cannot deserialize null into string; use Option<String>)",
    // String no_schema "null"
    "Err(error: line 1 column 1: cannot deserialize null into string; use Option<String>\n --> <input>:1:1\n  |\n1 | null\n  | ^ cannot deserialize null into string; use Option<String>)",
    // String no_schema ""
    "Err(unexpected end of input at line 1, column 1)",
    // String no_schema "!!str 123"
    "Ok(\"123\")",
    // String no_schema "!!str yes"
    "Ok(\"yes\")",
    // String no_schema "\"12\\u00a0\""
    "Ok(\"12\\u{a0}\")",
    // String no_schema "12a"
    "Ok(\"12a\")",
    // String no_schema "-"
    "Err(error: line 1 column 1: unexpected event: expected string scalar\n --> <input>:1:1\n  |\n1 | -\n  | ^ unexpected event: expected string scalar)",
    // String no_schema "."
    "Ok(\".\")",
    // String no_schema "0x"
    "Ok(\"0x\")",
    // String no_schema "1."
    "Err(error: line 1 column 1: The string value [1.] must be quoted\n --> <input>:1:1\n  |\n1 | 1.\n  | ^ The string value [1.] must be quoted)",
    // String no_schema "|\n  123\n"
    "Ok(\"123\\n\")",
    // String no_schema ">\n  yes\n"
    "Ok(\"yes\\n\")",
    // String no_schema "340282366920938463463374607431768211456"
    "Err(error: line 1 column 1: The string value [340282366920938463463374607431768211456] must be quoted\n --> <input>:1:1\n  |\n1 | 340282366920938463463374607431768211456\n  | ^ The string value [340282366920938463463374607431768211456] must be quoted)",
    // String no_schema "-170141183460469231731687303715884105729"
    "Err(error: line 1 column 1: The string value [-170141183460469231731687303715884105729] must be quoted\n --> <input>:1:1\n  |\n1 | -170141183460469231731687303715884105729\n  | ^ The string value [-170141183460469231731687303715884105729] must be quoted)",
    // String no_schema "0b2"
    "Ok(\"0b2\")",
    // String no_schema "0o7"
    "Err(error: line 1 column 1: The string value [0o7] must be quoted\n --> <input>:1:1\n  |\n1 | 0o7\n  | ^ The string value [0o7] must be quoted)",
    // String no_schema "+.inf"
    "Err(error: line 1 column 1: The string value [+.inf] must be quoted\n --> <input>:1:1\n  |\n1 | +.inf\n  | ^ The string value [+.inf] must be quoted)",
    // String no_schema "1e400"
    "Err(error: line 1 column 1: The string value [1e400] must be quoted\n --> <input>:1:1\n  |\n1 | 1e400\n  | ^ The string value [1e400] must be quoted)",
    // char "a"
    "Ok('a')",
    // char no_schema "a"
    "Ok('a')",
    // char "ab"
    "Err(error: line 1 column 1: invalid char: expected a single Unicode scalar value\n --> <input>:1:1\n  |\n1 | ab\n  | ^ invalid char: expected a single Unicode scalar value)",
    // char no_schema "ab"
    "Err(error: line 1 column 1: invalid char: expected a single Unicode scalar value\n --> <input>:1:1\n  |\n1 | ab\n  | ^ invalid char: expected a single Unicode scalar value)",
    // char ""
    "Err(unexpected end of input at line 1, column 1)",
    // char no_schema ""
    "Err(unexpected end of input at line 1, column 1)",
    // char "~"
    "Err(error: line 1 column 1: invalid char: cannot deserialize null; use Option<char>\n --> <input>:1:1\n  |\n1 | ~\n  | ^ invalid char: cannot deserialize null; use Option<char>)",
    // char no_schema "~"
    "Err(error: line 1 column 1: invalid char: cannot deserialize null; use Option<char>\n --> <input>:1:1\n  |\n1 | ~\n  | ^ invalid char: cannot deserialize null; use Option<char>)",
    // char "null"
    "Err(error: line 1 column 1: invalid char: cannot deserialize null; use Option<char>\n --> <input>:1:1\n  |\n1 | null\n  | ^ invalid char: cannot deserialize null; use Option<char>)",
    // char no_schema "null"
    "Err(error: line 1 column 1: invalid char: cannot deserialize null; use Option<char>\n --> <input>:1:1\n  |\n1 | null\n  | ^ invalid char: cannot deserialize null; use Option<char>)",
    // char "'~'"
    "Ok('~')",
    // char no_schema "'~'"
    "Ok('~')",
    // char "\"null\""
    "Err(error: line 1 column 1: invalid char: expected a single Unicode scalar value\n --> <input>:1:1\n  |\n1 | \"null\"\n  | ^ invalid char: expected a single Unicode scalar value)",
    // char no_schema "\"null\""
    "Err(error: line 1 column 1: invalid char: expected a single Unicode scalar value\n --> <input>:1:1\n  |\n1 | \"null\"\n  | ^ invalid char: expected a single Unicode scalar value)",
    // char "''"
    "Err(error: line 1 column 1: invalid char: expected a single Unicode scalar value\n --> <input>:1:1\n  |\n1 | ''\n  | ^ invalid char: expected a single Unicode scalar value)",
    // char no_schema "''"
    "Err(error: line 1 column 1: invalid char: expected a single Unicode scalar value\n --> <input>:1:1\n  |\n1 | ''\n  | ^ invalid char: expected a single Unicode scalar value)",
    // char "é"
    "Ok('é')",
    // char no_schema "é"
    "Ok('é')",
    // char "'é'"
    "Ok('é')",
    // char no_schema "'é'"
    "Ok('é')",
    // char "e\u{301}"
    "Err(error: line 1 column 1: invalid char: expected a single Unicode scalar value\n --> <input>:1:1\n  |\n1 | e\u{301}\n  | ^ invalid char: expected a single Unicode scalar value)",
    // char no_schema "e\u{301}"
    "Err(error: line 1 column 1: invalid char: expected a single Unicode scalar value\n --> <input>:1:1\n  |\n1 | e\u{301}\n  | ^ invalid char: expected a single Unicode scalar value)",
    // char "😀"
    "Ok('😀')",
    // char no_schema "😀"
    "Ok('😀')",
    // char "1"
    "Ok('1')",
    // char no_schema "1"
    "Err(error: line 1 column 1: The string value [1] must be quoted\n --> <input>:1:1\n  |\n1 | 1\n  | ^ The string value [1] must be quoted)",
    // char "y"
    "Ok('y')",
    // char no_schema "y"
    "Err(error: line 1 column 1: The string value [y] must be quoted\n --> <input>:1:1\n  |\n1 | y\n  | ^ The string value [y] must be quoted)",
    // char "!!str 1"
    "Ok('1')",
    // char no_schema "!!str 1"
    "Ok('1')",
    // char "!!str ~"
    "Ok('~')",
    // char no_schema "!!str ~"
    "Ok('~')",
    // char "!!null a"
    "Err(error: line 1 column 8: invalid char: cannot deserialize null; use Option<char>\n --> <input>:1:8\n  |\n1 | !!null a\n  |        ^ invalid char: cannot deserialize null; use Option<char>)",
    // char no_schema "!!null a"
    "Err(error: line 1 column 8: invalid char: cannot deserialize null; use Option<char>\n --> <input>:1:8\n  |\n1 | !!null a\n  |        ^ invalid char: cannot deserialize null; use Option<char>)",
    // char "!!int 1"
    "Ok('1')",
    // char no_schema "!!int 1"
    "Err(error: line 1 column 7: The string value [1] must be quoted\n --> <input>:1:7\n  |\n1 | !!int 1\n  |       ^ The string value [1] must be quoted)",
    // char "' '"
    "Ok(' ')",
    // char no_schema "' '"
    "Ok(' ')",
    // char "\"\\n\""
    "Ok('\\n')",
    // char no_schema "\"\\n\""
    "Ok('\\n')",
    // char "\"\\u00a0\""
    "Ok('\\u{a0}')",
    // char no_schema "\"\\u00a0\""
    "Ok('\\u{a0}')",
    // Option<i32> "~"
    "Ok(None)",
    // () "~"
    "Ok(())",
    // Option<i32> "null"
    "Ok(None)",
    // () "null"
    "Ok(())",
    // Option<i32> ""
    "Ok(None)",
    // () ""
    "Ok(())",
    // Option<i32> "''"
    "Err(error: line 1 column 1: invalid i32\n --> <input>:1:1\n  |\n1 | ''\n  | ^ invalid i32)",
    // () "''"
    "Err(error: line 1 column 1: unexpected value for unit\n --> <input>:1:1\n  |\n1 | ''\n  | ^ unexpected value for unit)",
    // Option<i32> "'~'"
    "Err(error: line 1 column 1: invalid i32\n --> <input>:1:1\n  |\n1 | '~'\n  | ^ invalid i32)",
    // () "'~'"
    "Err(error: line 1 column 1: unexpected value for unit\n --> <input>:1:1\n  |\n1 | '~'\n  | ^ unexpected value for unit)",
    // Option<i32> "5"
    "Ok(Some(5))",
    // () "5"
    "Err(error: line 1 column 1: unexpected value for unit\n --> <input>:1:1\n  |\n1 | 5\n  | ^ unexpected value for unit)",
    // Option<i32> "'5'"
    "Ok(Some(5))",
    // () "'5'"
    "Err(error: line 1 column 1: unexpected value for unit\n --> <input>:1:1\n  |\n1 | '5'\n  | ^ unexpected value for unit)",
    // Option<i32> "0x10"
    "Ok(Some(16))",
    // () "0x10"
    "Err(error: line 1 column 1: unexpected value for unit\n --> <input>:1:1\n  |\n1 | 0x10\n  | ^ unexpected value for unit)",
    // Option<i32> "!!null 5"
    "Ok(None)",
    // () "!!null 5"
    "Err(error: line 1 column 8: unexpected value for unit\n --> <input>:1:8\n  |\n1 | !!null 5\n  |        ^ unexpected value for unit)",
    // Option<i32> "!!str ~"
    "Err(error: line 1 column 7: invalid i32\n --> <input>:1:7\n  |\n1 | !!str ~\n  |       ^ invalid i32)",
    // () "!!str ~"
    "Err(error: line 1 column 7: unexpected value for unit\n --> <input>:1:7\n  |\n1 | !!str ~\n  |       ^ unexpected value for unit)",
    // Option<i32> "NULL"
    "Ok(None)",
    // () "NULL"
    "Ok(())",
    // Option<i32> "nulL"
    "Ok(None)",
    // () "nulL"
    "Ok(())",
    // Option<i32> "Nil"
    "Err(error: line 1 column 1: invalid i32\n --> <input>:1:1\n  |\n1 | Nil\n  | ^ invalid i32)",
    // () "Nil"
    "Err(error: line 1 column 1: unexpected value for unit\n --> <input>:1:1\n  |\n1 | Nil\n  | ^ unexpected value for unit)",
    // bytes "!!binary AQID"
    "Ok([1, 2, 3])",
    // Vec<u8> "!!binary AQID"
    "Ok([1, 2, 3])",
    // bytes "!!binary 'SG Vs bG8h'"
    "Ok([72, 101, 108, 108, 111, 33])",
    // Vec<u8> "!!binary 'SG Vs bG8h'"
    "Ok([72, 101, 108, 108, 111, 33])",
    // bytes "!!binary \"SG\\tVs\\nbG8h\""
    "Ok([72, 101, 108, 108, 111, 33])",
    // Vec<u8> "!!binary \"SG\\tVs\\nbG8h\""
    "Ok([72, 101, 108, 108, 111, 33])",
    // bytes "!!binary AQI"
    "Err(error: line 1 column 10: invalid !!binary base64\n --> <input>:1:10\n  |\n1 | !!binary AQI\n  |          ^ invalid !!binary base64)",
    // Vec<u8> "!!binary AQI"
    "Err(error: line 1 column 10: invalid !!binary base64\n --> <input>:1:10\n  |\n1 | !!binary AQI\n  |          ^ invalid !!binary base64)",
    // bytes "!!binary AQ?="
    "Err(error: line 1 column 10: invalid !!binary base64\n --> <input>:1:10\n  |\n1 | !!binary AQ?=\n  |          ^ invalid !!binary base64)",
    // Vec<u8> "!!binary AQ?="
    "Err(error: line 1 column 10: invalid !!binary base64\n --> <input>:1:10\n  |\n1 | !!binary AQ?=\n  |          ^ invalid !!binary base64)",
    // bytes "!!binary AB=="
    "Err(error: line 1 column 10: invalid !!binary base64\n --> <input>:1:10\n  |\n1 | !!binary AB==\n  |          ^ invalid !!binary base64)",
    // Vec<u8> "!!binary AB=="
    "Err(error: line 1 column 10: invalid !!binary base64\n --> <input>:1:10\n  |\n1 | !!binary AB==\n  |          ^ invalid !!binary base64)",
    // bytes "!!binary AA=="
    "Ok([0])",
    // Vec<u8> "!!binary AA=="
    "Ok([0])",
    // bytes "!!binary AAB="
    "Err(error: line 1 column 10: invalid !!binary base64\n --> <input>:1:10\n  |\n1 | !!binary AAB=\n  |          ^ invalid !!binary base64)",
    // Vec<u8> "!!binary AAB="
    "Err(error: line 1 column 10: invalid !!binary base64\n --> <input>:1:10\n  |\n1 | !!binary AAB=\n  |          ^ invalid !!binary base64)",
    // bytes "!!binary AAA="
    "Ok([0, 0])",
    // Vec<u8> "!!binary AAA="
    "Ok([0, 0])",
    // bytes "!!binary TQ==TQ=="
    "Err(error: line 1 column 10: invalid !!binary base64\n --> <input>:1:10\n  |\n1 | !!binary TQ==TQ==\n  |          ^ invalid !!binary base64)",
    // Vec<u8> "!!binary TQ==TQ=="
    "Err(error: line 1 column 10: invalid !!binary base64\n --> <input>:1:10\n  |\n1 | !!binary TQ==TQ==\n  |          ^ invalid !!binary base64)",
    // bytes "!!binary TQ=="
    "Ok([77])",
    // Vec<u8> "!!binary TQ=="
    "Ok([77])",
    // bytes "!!binary TWE="
    "Ok([77, 97])",
    // Vec<u8> "!!binary TWE="
    "Ok([77, 97])",
    // bytes "!!binary TWFu"
    "Ok([77, 97, 110])",
    // Vec<u8> "!!binary TWFu"
    "Ok([77, 97, 110])",
    // bytes "!!binary A==="
    "Err(error: line 1 column 10: invalid !!binary base64\n --> <input>:1:10\n  |\n1 | !!binary A===\n  |          ^ invalid !!binary base64)",
    // Vec<u8> "!!binary A==="
    "Err(error: line 1 column 10: invalid !!binary base64\n --> <input>:1:10\n  |\n1 | !!binary A===\n  |          ^ invalid !!binary base64)",
    // bytes "!!binary '===='"
    "Err(error: line 1 column 10: invalid !!binary base64\n --> <input>:1:10\n  |\n1 | !!binary '===='\n  |          ^ invalid !!binary base64)",
    // Vec<u8> "!!binary '===='"
    "Err(error: line 1 column 10: invalid !!binary base64\n --> <input>:1:10\n  |\n1 | !!binary '===='\n  |          ^ invalid !!binary base64)",
    // bytes "!!binary '=AAA'"
    "Err(error: line 1 column 10: invalid !!binary base64\n --> <input>:1:10\n  |\n1 | !!binary '=AAA'\n  |          ^ invalid !!binary base64)",
    // Vec<u8> "!!binary '=AAA'"
    "Err(error: line 1 column 10: invalid !!binary base64\n --> <input>:1:10\n  |\n1 | !!binary '=AAA'\n  |          ^ invalid !!binary base64)",
    // bytes "!!binary 'A=AA'"
    "Err(error: line 1 column 10: invalid !!binary base64\n --> <input>:1:10\n  |\n1 | !!binary 'A=AA'\n  |          ^ invalid !!binary base64)",
    // Vec<u8> "!!binary 'A=AA'"
    "Err(error: line 1 column 10: invalid !!binary base64\n --> <input>:1:10\n  |\n1 | !!binary 'A=AA'\n  |          ^ invalid !!binary base64)",
    // bytes "!!binary AA=A"
    "Err(error: line 1 column 10: invalid !!binary base64\n --> <input>:1:10\n  |\n1 | !!binary AA=A\n  |          ^ invalid !!binary base64)",
    // Vec<u8> "!!binary AA=A"
    "Err(error: line 1 column 10: invalid !!binary base64\n --> <input>:1:10\n  |\n1 | !!binary AA=A\n  |          ^ invalid !!binary base64)",
    // bytes "!!binary AA="
    "Err(error: line 1 column 10: invalid !!binary base64\n --> <input>:1:10\n  |\n1 | !!binary AA=\n  |          ^ invalid !!binary base64)",
    // Vec<u8> "!!binary AA="
    "Err(error: line 1 column 10: invalid !!binary base64\n --> <input>:1:10\n  |\n1 | !!binary AA=\n  |          ^ invalid !!binary base64)",
    // bytes "!!binary ''"
    "Ok([])",
    // Vec<u8> "!!binary ''"
    "Ok([])",
    // bytes "!!binary"
    "Ok([])",
    // Vec<u8> "!!binary"
    "Ok([])",
    // bytes "!!binary |\n  SGVs\n  bG8h\n"
    "Ok([72, 101, 108, 108, 111, 33])",
    // Vec<u8> "!!binary |\n  SGVs\n  bG8h\n"
    "Ok([72, 101, 108, 108, 111, 33])",
    // bytes "!!binary >\n  SGVs\n\n  bG8h\n"
    "Ok([72, 101, 108, 108, 111, 33])",
    // Vec<u8> "!!binary >\n  SGVs\n\n  bG8h\n"
    "Ok([72, 101, 108, 108, 111, 33])",
    // bytes "!!binary TWFuTQ=="
    "Ok([77, 97, 110, 77])",
    // Vec<u8> "!!binary TWFuTQ=="
    "Ok([77, 97, 110, 77])",
    // bytes "!!binary TWFuTWE="
    "Ok([77, 97, 110, 77, 97])",
    // Vec<u8> "!!binary TWFuTWE="
    "Ok([77, 97, 110, 77, 97])",
    // bytes "!!binary TWE=TWFu"
    "Err(error: line 1 column 10: invalid !!binary base64\n --> <input>:1:10\n  |\n1 | !!binary TWE=TWFu\n  |          ^ invalid !!binary base64)",
    // Vec<u8> "!!binary TWE=TWFu"
    "Err(error: line 1 column 10: invalid !!binary base64\n --> <input>:1:10\n  |\n1 | !!binary TWE=TWFu\n  |          ^ invalid !!binary base64)",
    // bytes "!!binary +/+/"
    "Ok([251, 255, 191])",
    // Vec<u8> "!!binary +/+/"
    "Ok([251, 255, 191])",
    // bytes "!!binary -_-_"
    "Err(error: line 1 column 10: invalid !!binary base64\n --> <input>:1:10\n  |\n1 | !!binary -_-_\n  |          ^ invalid !!binary base64)",
    // Vec<u8> "!!binary -_-_"
    "Err(error: line 1 column 10: invalid !!binary base64\n --> <input>:1:10\n  |\n1 | !!binary -_-_\n  |          ^ invalid !!binary base64)",
    // bytes "!!binary \"TWFu\\u00a0\""
    "Err(error: line 1 column 10: invalid !!binary base64\n --> <input>:1:10\n  |\n1 | !!binary \"TWFu\\u00a0\"\n  |          ^ invalid !!binary base64)",
    // Vec<u8> "!!binary \"TWFu\\u00a0\""
    "Err(error: line 1 column 10: invalid !!binary base64\n --> <input>:1:10\n  |\n1 | !!binary \"TWFu\\u00a0\"\n  |          ^ invalid !!binary base64)",
    // bytes "!!binary \"TW\\u000bFu\""
    "Err(error: line 1 column 10: invalid !!binary base64\n --> <input>:1:10\n  |\n1 | !!binary \"TW\\u000bFu\"\n  |          ^ invalid !!binary base64)",
    // Vec<u8> "!!binary \"TW\\u000bFu\""
    "Err(error: line 1 column 10: invalid !!binary base64\n --> <input>:1:10\n  |\n1 | !!binary \"TW\\u000bFu\"\n  |          ^ invalid !!binary base64)",
    // bytes "!!binary \"TW\\u000cFu\""
    "Ok([77, 97, 110])",
    // Vec<u8> "!!binary \"TW\\u000cFu\""
    "Ok([77, 97, 110])",
    // bytes "!!binary //8="
    "Ok([255, 255])",
    // Vec<u8> "!!binary //8="
    "Ok([255, 255])",
    // bytes "!!binary //9="
    "Err(error: line 1 column 10: invalid !!binary base64\n --> <input>:1:10\n  |\n1 | !!binary //9=\n  |          ^ invalid !!binary base64)",
    // Vec<u8> "!!binary //9="
    "Err(error: line 1 column 10: invalid !!binary base64\n --> <input>:1:10\n  |\n1 | !!binary //9=\n  |          ^ invalid !!binary base64)",
    // bytes "!!binary /w=="
    "Ok([255])",
    // Vec<u8> "!!binary /w=="
    "Ok([255])",
    // bytes "!!binary /x=="
    "Err(error: line 1 column 10: invalid !!binary base64\n --> <input>:1:10\n  |\n1 | !!binary /x==\n  |          ^ invalid !!binary base64)",
    // Vec<u8> "!!binary /x=="
    "Err(error: line 1 column 10: invalid !!binary base64\n --> <input>:1:10\n  |\n1 | !!binary /x==\n  |          ^ invalid !!binary base64)",
    // bytes "!binary AQID"
    "Ok([1, 2, 3])",
    // Vec<u8> "!binary AQID"
    "Ok([1, 2, 3])",
    // bytes "!<tag:yaml.org,2002:binary> AQID"
    "Ok([1, 2, 3])",
    // Vec<u8> "!<tag:yaml.org,2002:binary> AQID"
    "Ok([1, 2, 3])",
    // bytes "AQID"
    "Err(error: line 1 column 1: bytes not supported (missing !!binary tag)\n --> <input>:1:1\n  |\n1 | AQID\n  | ^ bytes not supported (missing !!binary tag))",
    // Vec<u8> "AQID"
    "Err(error: line 1 column 1: unexpected event: expected sequence start\n --> <input>:1:1\n  |\n1 | AQID\n  | ^ unexpected event: expected sequence start)",
    // bytes "'AQID'"
    "Err(error: line 1 column 1: bytes not supported (missing !!binary tag)\n --> <input>:1:1\n  |\n1 | 'AQID'\n  | ^ bytes not supported (missing !!binary tag))",
    // Vec<u8> "'AQID'"
    "Err(error: line 1 column 1: unexpected event: expected sequence start\n --> <input>:1:1\n  |\n1 | 'AQID'\n  | ^ unexpected event: expected sequence start)",
    // bytes "!!str AQID"
    "Err(error: line 1 column 7: bytes not supported (missing !!binary tag)\n --> <input>:1:7\n  |\n1 | !!str AQID\n  |       ^ bytes not supported (missing !!binary tag))",
    // Vec<u8> "!!str AQID"
    "Err(error: line 1 column 7: unexpected event: expected sequence start\n --> <input>:1:7\n  |\n1 | !!str AQID\n  |       ^ unexpected event: expected sequence start)",
    // bytes "[1, 2, 255]"
    "Ok([1, 2, 255])",
    // Vec<u8> "[1, 2, 255]"
    "Ok([1, 2, 255])",
    // bytes "[1, 256]"
    "Err(error: line 1 column 5: invalid u8\n --> <input>:1:5\n  |\n1 | [1, 256]\n  |     ^ invalid u8)",
    // Vec<u8> "[1, 256]"
    "Err(error: line 1 column 5: invalid u8\n --> <input>:1:5\n  |\n1 | [1, 256]\n  |     ^ invalid u8)",
    // bytes "[0x10, 0b11, 0o7, +5]"
    "Ok([16, 3, 7, 5])",
    // Vec<u8> "[0x10, 0b11, 0o7, +5]"
    "Ok([16, 3, 7, 5])",
    // bytes "[-1]"
    "Err(error: line 1 column 2: invalid u8\n --> <input>:1:2\n  |\n1 | [-1]\n  |  ^ invalid u8)",
    // Vec<u8> "[-1]"
    "Err(error: line 1 column 2: invalid u8\n --> <input>:1:2\n  |\n1 | [-1]\n  |  ^ invalid u8)",
    // bytes "[]"
    "Ok([])",
    // Vec<u8> "[]"
    "Ok([])",
    // bytes "{}"
    "Err(error: line 1 column 1: unexpected event: expected scalar (!!binary) or sequence of 0..=255\n --> <input>:1:1\n  |\n1 | {}\n  | ^ unexpected event: expected scalar (!!binary) or sequence of 0..=255)",
    // Vec<u8> "{}"
    "Err(error: line 1 column 1: unexpected event: expected sequence start\n --> <input>:1:1\n  |\n1 | {}\n  | ^ unexpected event: expected sequence start)",
    // bytes "~"
    "Err(error: line 1 column 1: bytes not supported (missing !!binary tag)\n --> <input>:1:1\n  |\n1 | ~\n  | ^ bytes not supported (missing !!binary tag))",
    // Vec<u8> "~"
    "Ok([])",
    // json "123"
    "Ok(\"123\")",
    // json "-123"
    "Ok(\"-123\")",
    // json "+123"
    "Ok(\"123\")",
    // json "-0"
    "Ok(\"0\")",
    // json "+0"
    "Ok(\"0\")",
    // json "012"
    "Ok(\"12\")",
    // json "-012"
    "Ok(\"-12\")",
    // json "+012"
    "Ok(\"12\")",
    // json "0052"
    "Ok(\"52\")",
    // json "-0052"
    "Ok(\"-52\")",
    // json "0x1F"
    "Ok(\"31\")",
    // json "-0x1F"
    "Ok(\"-31\")",
    // json "+0x1F"
    "Ok(\"31\")",
    // json "0b101"
    "Ok(\"5\")",
    // json "0o17"
    "Ok(\"15\")",
    // json "1_000"
    "Ok(\"1000\")",
    // json "-1_000"
    "Ok(\"-1000\")",
    // json "18446744073709551615"
    "Ok(\"18446744073709551615\")",
    // json "18446744073709551616"
    "Ok(\"1.8446744073709552e+19\")",
    // json "-9223372036854775808"
    "Ok(\"-9223372036854775808\")",
    // json "-9223372036854775809"
    "Ok(\"-9.223372036854776e+18\")",
    // json "9223372036854775808"
    "Ok(\"9223372036854775808\")",
    // json "yes"
    "Ok(\"true\")",
    // json "No"
    "Ok(\"false\")",
    // json "TRUE"
    "Ok(\"true\")",
    // json "false"
    "Ok(\"false\")",
    // json "y"
    "Ok(\"true\")",
    // json "N"
    "Ok(\"false\")",
    // json "on"
    "Ok(\"true\")",
    // json ".inf"
    "Ok(\"\\\".inf\\\"\")",
    // json "-.INF"
    "Ok(\"\\\"-.inf\\\"\")",
    // json "+.Inf"
    "Ok(\"\\\".inf\\\"\")",
    // json ".NaN"
    "Ok(\"\\\".nan\\\"\")",
    // json "-.nan"
    "Ok(\"\\\".nan\\\"\")",
    // json "inf"
    "Ok(\"\\\"inf\\\"\")",
    // json "nan"
    "Ok(\"\\\"nan\\\"\")",
    // json "1e3"
    "Ok(\"1000.0\")",
    // json "1.5"
    "Ok(\"1.5\")",
    // json "-0.0"
    "Ok(\"-0.0\")",
    // json "1e400"
    "Ok(\"\\\".inf\\\"\")",
    // json "-1e400"
    "Ok(\"\\\"-.inf\\\"\")",
    // json "'123'"
    "Ok(\"\\\"123\\\"\")",
    // json "\"yes\""
    "Ok(\"\\\"yes\\\"\")",
    // json "!!str 123"
    "Ok(\"\\\"123\\\"\")",
    // json "!!str yes"
    "Ok(\"\\\"yes\\\"\")",
    // json "!!str ~"
    "Ok(\"\\\"~\\\"\")",
    // json "!!int 123"
    "Err(error: line 1 column 7: cannot deserialize tagged scalar into string\n --> <input>:1:7\n  |\n1 | !!int 123\n  |       ^ cannot deserialize tagged scalar into string)",
    // json "!!float 1"
    "Err(error: line 1 column 9: cannot deserialize tagged scalar into string\n --> <input>:1:9\n  |\n1 | !!float 1\n  |         ^ cannot deserialize tagged scalar into string)",
    // json "!!bool yes"
    "Err(error: line 1 column 8: cannot deserialize tagged scalar into string\n --> <input>:1:8\n  |\n1 | !!bool yes\n  |        ^ cannot deserialize tagged scalar into string)",
    // json "!!null foo"
    "Ok(\"null\")",
    // json "!!null 'foo'"
    "Ok(\"null\")",
    // json "! 123"
    "Ok(\"\\\"123\\\"\")",
    // json "! ~"
    "Ok(\"null\")",
    // json "!custom 5"
    "Ok(\"5\")",
    // json "!custom yes"
    "Ok(\"true\")",
    // json "!!binary SGVsbG8h"
    "Ok(\"\\\"Hello!\\\"\")",
    // json "!!binary /w=="
    "Err(error: line 1 column 10: !!binary scalar is not valid UTF-8 so cannot be stored into string. If you just use !!binary for documentation/annotation, set ignore_binary_tag_for_string in Options\n --> <input>:1:10\n  |\n1 | !!binary /w==\n  |          ^ !!binary scalar is not valid UTF-8 so cannot be stored into string. If you just use !!binary for documentation/annotation, set ignore_binary_tag_for_string in Options)",
    // json "!!binary ~"
    "Err(error: line 1 column 10: invalid !!binary base64\n --> <input>:1:10\n  |\n1 | !!binary ~\n  |          ^ invalid !!binary base64)",
    // json "!!timestamp 2001-01-01"
    "Err(error: line 1 column 13: cannot deserialize tagged scalar into string\n --> <input>:1:13\n  |\n1 | !!timestamp 2001-01-01\n  |             ^ cannot deserialize tagged scalar into string)",
    // json "~"
    "Ok(\"null\")",
    // json ""
    "Ok(\"null\")",
    // json "null"
    "Ok(\"null\")",
    // json "NULL"
    "Ok(\"null\")",
    // json "'~'"
    "Ok(\"\\\"~\\\"\")",
    // json "\"\""
    "Ok(\"\\\"\\\"\")",
    // json "|\n  12\n"
    "Ok(\"\\\"12\\\\n\\\"\")",
    // json ">\n  yes\n"
    "Ok(\"\\\"yes\\\\n\\\"\")",
    // json "\"12\\u00a0\""
    "Ok(\"\\\"12\\u{a0}\\\"\")",
    // json "12 "
    "Ok(\"12\")",
    // json "-"
    "Ok(\"[null]\")",
    // json "+"
    "Ok(\"\\\"+\\\"\")",
    // json "_"
    "Ok(\"\\\"_\\\"\")",
    // json "0x"
    "Ok(\"\\\"0x\\\"\")",
    // json "-0x"
    "Ok(\"\\\"-0x\\\"\")",
    // json "-yes"
    "Ok(\"\\\"-yes\\\"\")",
    // json "- 1"
    "Ok(\"[1]\")",
    // json "!degrees 90"
    "Err(error: line 1 column 10: cannot deserialize tagged scalar into string\n --> <input>:1:10\n  |\n1 | !degrees 90\n  |          ^ cannot deserialize tagged scalar into string)",
    // json "{a: 1, b: yes, c: 0x10, d: ~, e: '~', f: -0b11, g: .5, h: 0o9, 007: x, 0x7: y, ~: z}"
    "Err(error: line 1 column 80: cannot deserialize null into string; use Option<String>\n --> <input>:1:66\n  |\n1 | …c: 0x10, d: ~, e: '~', f: -0b11, g: .5, h: 0o9, 007: x, 0x7: y, ~: z}\n  |                                                                  ^ cannot deserialize null into string; use Option<String>)",
    // json "[00, 000, 0_0, -00, 08, -08, 0.0, -0.0e0, 1__0, 0x_1, 0X1f, 0B11, 0O7]"
    "Ok(\"[0,0,0,0,8,-8,0.0,-0.0,10,1,31,3,7]\")",
    // json everything "yes"
    "Ok(\"\\\"yes\\\"\")",
    // json strict "yes"
    "Ok(\"\\\"yes\\\"\")",
    // json legacy "yes"
    "Ok(\"true\")",
    // json ignore_binary "yes"
    "Ok(\"true\")",
    // json everything "No"
    "Ok(\"\\\"No\\\"\")",
    // json strict "No"
    "Ok(\"\\\"No\\\"\")",
    // json legacy "No"
    "Ok(\"false\")",
    // json ignore_binary "No"
    "Ok(\"false\")",
    // json everything "TRUE"
    "Ok(\"true\")",
    // json strict "TRUE"
    "Ok(\"true\")",
    // json legacy "TRUE"
    "Ok(\"true\")",
    // json ignore_binary "TRUE"
    "Ok(\"true\")",
    // json everything "False"
    "Ok(\"false\")",
    // json strict "False"
    "Ok(\"false\")",
    // json legacy "False"
    "Ok(\"false\")",
    // json ignore_binary "False"
    "Ok(\"false\")",
    // json everything "tRuE"
    "Ok(\"true\")",
    // json strict "tRuE"
    "Ok(\"true\")",
    // json legacy "tRuE"
    "Ok(\"true\")",
    // json ignore_binary "tRuE"
    "Ok(\"true\")",
    // json everything "y"
    "Ok(\"\\\"y\\\"\")",
    // json strict "y"
    "Ok(\"\\\"y\\\"\")",
    // json legacy "y"
    "Ok(\"true\")",
    // json ignore_binary "y"
    "Ok(\"true\")",
    // json everything "on"
    "Ok(\"\\\"on\\\"\")",
    // json strict "on"
    "Ok(\"\\\"on\\\"\")",
    // json legacy "on"
    "Ok(\"true\")",
    // json ignore_binary "on"
    "Ok(\"true\")",
    // json everything "' true'"
    "Ok(\"\\\" true\\\"\")",
    // json strict "' true'"
    "Ok(\"\\\" true\\\"\")",
    // json legacy "' true'"
    "Ok(\"\\\" true\\\"\")",
    // json ignore_binary "' true'"
    "Ok(\"\\\" true\\\"\")",
    // json everything "\"true\""
    "Ok(\"\\\"true\\\"\")",
    // json strict "\"true\""
    "Ok(\"\\\"true\\\"\")",
    // json legacy "\"true\""
    "Ok(\"\\\"true\\\"\")",
    // json ignore_binary "\"true\""
    "Ok(\"\\\"true\\\"\")",
    // json everything "true "
    "Ok(\"true\")",
    // json strict "true "
    "Ok(\"true\")",
    // json legacy "true "
    "Ok(\"true\")",
    // json ignore_binary "true "
    "Ok(\"true\")",
    // json everything "0052"
    "Ok(\"42\")",
    // json strict "0052"
    "Ok(\"52\")",
    // json legacy "0052"
    "Ok(\"42\")",
    // json ignore_binary "0052"
    "Ok(\"52\")",
    // json everything "-0052"
    "Ok(\"-42\")",
    // json strict "-0052"
    "Ok(\"-52\")",
    // json legacy "-0052"
    "Ok(\"-42\")",
    // json ignore_binary "-0052"
    "Ok(\"-52\")",
    // json everything "00"
    "Ok(\"0\")",
    // json strict "00"
    "Ok(\"0\")",
    // json legacy "00"
    "Ok(\"0\")",
    // json ignore_binary "00"
    "Ok(\"0\")",
    // json everything "-00"
    "Ok(\"0\")",
    // json strict "-00"
    "Ok(\"0\")",
    // json legacy "-00"
    "Ok(\"0\")",
    // json ignore_binary "-00"
    "Ok(\"0\")",
    // json everything "0089"
    "Ok(\"89.0\")",
    // json strict "0089"
    "Ok(\"89\")",
    // json legacy "0089"
    "Ok(\"89.0\")",
    // json ignore_binary "0089"
    "Ok(\"89\")",
    // json everything "-012"
    "Ok(\"-12\")",
    // json strict "-012"
    "Ok(\"-12\")",
    // json legacy "-012"
    "Ok(\"-12\")",
    // json ignore_binary "-012"
    "Ok(\"-12\")",
    // json everything "!!binary SGVsbG8h"
    "Ok(\"\\\"SGVsbG8h\\\"\")",
    // json strict "!!binary SGVsbG8h"
    "Ok(\"\\\"Hello!\\\"\")",
    // json legacy "!!binary SGVsbG8h"
    "Ok(\"\\\"Hello!\\\"\")",
    // json ignore_binary "!!binary SGVsbG8h"
    "Ok(\"\\\"SGVsbG8h\\\"\")",
    // json everything "!!binary /w=="
    "Ok(\"\\\"/w==\\\"\")",
    // json strict "!!binary /w=="
    "Err(error: line 1 column 10: !!binary scalar is not valid UTF-8 so cannot be stored into string. If you just use !!binary for documentation/annotation, set ignore_binary_tag_for_string in Options\n --> <input>:1:10\n  |\n1 | !!binary /w==\n  |          ^ !!binary scalar is not valid UTF-8 so cannot be stored into string. If you just use !!binary for documentation/annotation, set ignore_binary_tag_for_string in Options)",
    // json legacy "!!binary /w=="
    "Err(error: line 1 column 10: !!binary scalar is not valid UTF-8 so cannot be stored into string. If you just use !!binary for documentation/annotation, set ignore_binary_tag_for_string in Options\n --> <input>:1:10\n  |\n1 | !!binary /w==\n  |          ^ !!binary scalar is not valid UTF-8 so cannot be stored into string. If you just use !!binary for documentation/annotation, set ignore_binary_tag_for_string in Options)",
    // json ignore_binary "!!binary /w=="
    "Ok(\"\\\"/w==\\\"\")",
    // json everything "!!binary ?"
    "Err(error: line 1 column 10: mapping keys are not allowed in this context\n --> <input>:1:10\n  |\n1 | !!binary ?\n  |          ^ mapping keys are not allowed in this context)",
    // json strict "!!binary ?"
    "Err(error: line 1 column 10: mapping keys are not allowed in this context\n --> <input>:1:10\n  |\n1 | !!binary ?\n  |          ^ mapping keys are not allowed in this context)",
    // json legacy "!!binary ?"
    "Err(error: line 1 column 10: mapping keys are not allowed in this context\n --> <input>:1:10\n  |\n1 | !!binary ?\n  |          ^ mapping keys are not allowed in this context)",
    // json ignore_binary "!!binary ?"
    "Err(error: line 1 column 10: mapping keys are not allowed in this context\n --> <input>:1:10\n  |\n1 | !!binary ?\n  |          ^ mapping keys are not allowed in this context)",
    // json everything "123"
    "Ok(\"123\")",
    // json strict "123"
    "Ok(\"123\")",
    // json legacy "123"
    "Ok(\"123\")",
    // json ignore_binary "123"
    "Ok(\"123\")",
    // json everything "'123'"
    "Ok(\"\\\"123\\\"\")",
    // json strict "'123'"
    "Ok(\"\\\"123\\\"\")",
    // json legacy "'123'"
    "Ok(\"\\\"123\\\"\")",
    // json ignore_binary "'123'"
    "Ok(\"\\\"123\\\"\")",
    // json everything "!!int 1"
    "Err(error: line 1 column 7: cannot deserialize tagged scalar into string\n --> <input>:1:7\n  |\n1 | !!int 1\n  |       ^ cannot deserialize tagged scalar into string)",
    // json strict "!!int 1"
    "Err(error: line 1 column 7: cannot deserialize tagged scalar into string\n --> <input>:1:7\n  |\n1 | !!int 1\n  |       ^ cannot deserialize tagged scalar into string)",
    // json legacy "!!int 1"
    "Err(error: line 1 column 7: cannot deserialize tagged scalar into string\n --> <input>:1:7\n  |\n1 | !!int 1\n  |       ^ cannot deserialize tagged scalar into string)",
    // json ignore_binary "!!int 1"
    "Err(error: line 1 column 7: cannot deserialize tagged scalar into string\n --> <input>:1:7\n  |\n1 | !!int 1\n  |       ^ cannot deserialize tagged scalar into string)",
    // Rec "a: -0x8000\nb: 0o377\nc: Off\nd: -.inf\ne: '~'\nf: ~\n"
    "Ok(Rec { a: -32768, b: 255, c: false, d: -inf, e: \"~\", f: None })",
    // Rec "a: -0x8001\nb: 0o377\nc: Off\nd: -.inf\ne: '~'\nf: ~\n"
    "Err(error: line 1 column 4: invalid i16\n --> <input>:1:4\n  |\n1 | a: -0x8001\n  |    ^ invalid i16\n2 | b: 0o377\n3 | c: Off\n  |)",
    // Rec "a: 1\nb:   0o400\nc: Off\nd: -.inf\ne: '~'\nf: ~\n"
    "Err(error: line 2 column 6: invalid u8\n --> <input>:2:6\n  |\n1 | a: 1\n2 | b:   0o400\n  |      ^ invalid u8\n3 | c: Off\n4 | d: -.inf\n  |)",
    // Rec "a: 1\nb: 2\nc:    offf\nd: -.inf\ne: '~'\nf: ~\n"
    "Err(error: line 3 column 7: invalid boolean\n --> <input>:3:7\n  |\n1 | a: 1\n2 | b: 2\n3 | c:    offf\n  |       ^ invalid boolean\n4 | d: -.inf\n5 | e: '~'\n  |)",
    // Rec "a: 1\nb: 2\nc: n\nd:  infinity\ne: '~'\nf: ~\n"
    "Err(error: line 4 column 5: invalid floating point\n --> <input>:4:5\n  |\n2 | b: 2\n3 | c: n\n4 | d:  infinity\n  |     ^ invalid floating point\n5 | e: '~'\n6 | f: ~\n  |)",
    // Rec "a: 1\nb: 2\nc: n\nd: 1e-50\ne:   ~\nf: ~\n"
    "Err(error: line 5 column 6: cannot deserialize null into string; use Option<String>\n --> <input>:5:6\n  |\n3 | c: n\n4 | d: 1e-50\n5 | e:   ~\n  |      ^ cannot deserialize null into string; use Option<String>\n6 | f: ~\n  |)",
    // Rec "a: 1\nb: 2\nc: n\nd: 1e50\ne: x\nf:  xy\n"
    "Err(error: line 6 column 5: invalid char: expected a single Unicode scalar value\n --> <input>:6:5\n  |\n4 | d: 1e50\n5 | e: x\n6 | f:  xy\n  |     ^ invalid char: expected a single Unicode scalar value)",
    // Rec "a: 1\nb: 2\nc: n\nd: 1e50\ne: !!binary  AB==\nf: 'x'\n"
    "Err(error: line 5 column 14: invalid !!binary base64\n --> <input>:5:14\n  |\n3 | c: n\n4 | d: 1e50\n5 | e: !!binary  AB==\n  |              ^ invalid !!binary base64\n6 | f: 'x'\n  |)",
    // Rec "a: 1\nb: 2\nc: n\nd: 1e50\ne: !!binary  /w==\nf: 'x'\n"
    "Err(error: line 5 column 14: !!binary scalar is not valid UTF-8 so cannot be stored into string. If you just use !!binary for documentation/annotation, set ignore_binary_tag_for_string in Options\n --> <input>:5:14\n  |\n3 | c: n\n4 | d: 1e50\n5 | e: !!binary  /w==\n  |              ^ !!binary scalar is not valid UTF-8 so cannot be stored into string. If you just use !!binary for documentation/annotation, set ignore_binary_tag_for_string in Options\n6 | f: 'x'\n  |)",
    // Rec "a: 1\nb: 2\nc: n\nd: 1e50\ne: !!int  5\nf: 'x'\n"
    "Err(error: line 5 column 11: cannot deserialize tagged scalar into string\n --> <input>:5:11\n  |\n3 | c: n\n4 | d: 1e50\n5 | e: !!int  5\n  |           ^ cannot deserialize tagged scalar into string\n6 | f: 'x'\n  |)",
    // Rec "{a: 0b111111111111111, b: +0xff, c: Y, d: +.INF, e: !!str null, f: \"~\"}"
    "Ok(Rec { a: 32767, b: 255, c: true, d: inf, e: \"null\", f: Some('~') })",
    // Rec everything
    "Ok(Rec { a: -63, b: 8, c: true, d: 0.5, e: \"x\", f: Some('1') })",
    // Rec everything strict-bool error
    "Err(error: line 3 column 5: invalid boolean (strict mode expects true/false)\n --> <input>:3:5\n  |\n1 | a: -0077\n2 | b: 0010\n3 | c:  yes\n  |     ^ invalid boolean (strict mode expects true/false)\n4 | d: 00.5\n5 | e: 'x'\n  |)",
    // Rec everything quoting
    "Err(error: line 5 column 6: The string value [0x1] must be quoted\n --> <input>:5:6\n  |\n3 | c: false\n4 | d: 00.5\n5 | e:   0x1\n  |      ^ The string value [0x1] must be quoted\n6 | f: '1'\n  |)",
    // Rec everything char quoting
    "Err(error: line 6 column 5: The string value [1] must be quoted\n --> <input>:6:5\n  |\n4 | d: 00.5\n5 | e: x\n6 | f:  1\n  |     ^ The string value [1] must be quoted)",
    // ser words
    "Ok(\"- \\\"yes\\\"\\n- \\\"No\\\"\\n- \\\"off\\\"\\n- \\\"ON\\\"\\n- \\\"y\\\"\\n- \\\"N\\\"\\n- \\\"true\\\"\\n- \\\"False\\\"\\n- maybe\\n- \\\"true \\\"\\n- \\\" n\\\"\\n- \\\"on\\u{a0}\\\"\\n- \\\"null\\\"\\n- \\\"~\\\"\\n- \\\"\\\"\\n- \\\"12\\\"\\n- \\\"0x1F\\\"\\n- \\\".inf\\\"\\n- \\\"inf\\\"\\n- \\\"1e3\\\"\\n- \\\"0052\\\"\\n- '-'\\n- \\\"yes\\\\n\\\"\\n\")",
    // ser bytes round trip
    "Ok([0, 1, 2, 253, 254, 255, 77])",
    // ser bytes
    "Ok(\"- 0\\n- 1\\n- 2\\n- 253\\n- 254\\n- 255\\n- 77\\n\")",
];

#[cfg(feature = "robotics")]
#[rustfmt::skip]
const EXPECTED_ROBOTICS: &[&str] = &[
    // f64 angles "1.5"
    "Ok(\"1.5/0x3ff8000000000000\")",
    // f32 angles "1.5"
    "Ok(\"1.5/0x3fc00000\")",
    // f64 no-angles "1.5"
    "Ok(\"1.5/0x3ff8000000000000\")",
    // json angles "1.5"
    "Ok(\"1.5\")",
    // f64 angles "-0.0"
    "Ok(\"-0.0/0x8000000000000000\")",
    // f32 angles "-0.0"
    "Ok(\"-0.0/0x80000000\")",
    // f64 no-angles "-0.0"
    "Ok(\"-0.0/0x8000000000000000\")",
    // json angles "-0.0"
    "Ok(\"-0.0\")",
    // f64 angles ".inf"
    "Ok(\"inf/0x7ff0000000000000\")",
    // f32 angles ".inf"
    "Ok(\"inf/0x7f800000\")",
    // f64 no-angles ".inf"
    "Ok(\"inf/0x7ff0000000000000\")",
    // json angles ".inf"
    "Ok(\"\\\".inf\\\"\")",
    // f64 angles "-.INF"
    "Ok(\"-inf/0xfff0000000000000\")",
    // f32 angles "-.INF"
    "Ok(\"-inf/0xff800000\")",
    // f64 no-angles "-.INF"
    "Ok(\"-inf/0xfff0000000000000\")",
    // json angles "-.INF"
    "Ok(\"\\\"-.inf\\\"\")",
    // f64 angles ".NaN"
    "Ok(\"NaN/0x7ff8000000000000\")",
    // f32 angles ".NaN"
    "Ok(\"NaN/0x7fc00000\")",
    // f64 no-angles ".NaN"
    "Ok(\"NaN/0x7ff8000000000000\")",
    // json angles ".NaN"
    "Ok(\"\\\".nan\\\"\")",
    // f64 angles "inf"
    "Ok(\"inf/0x7ff0000000000000\")",
    // f32 angles "inf"
    "Ok(\"inf/0x7f800000\")",
    // f64 no-angles "inf"
    "Err(error: line 1 column 1: invalid floating point\n --> <input>:1:1\n  |\n1 | inf\n  | ^ invalid floating point)",
    // json angles "inf"
    "Ok(\"\\\".inf\\\"\")",
    // f64 angles "nan"
    "Ok(\"NaN/0x7ff8000000000000\")",
    // f32 angles "nan"
    "Ok(\"NaN/0x7fc00000\")",
    // f64 no-angles "nan"
    "Err(error: line 1 column 1: invalid floating point\n --> <input>:1:1\n  |\n1 | nan\n  | ^ invalid floating point)",
    // json angles "nan"
    "Ok(\"\\\".nan\\\"\")",
    // f64 angles "abc"
    "Err(error: line 1 column 1: unknown identifier\n --> <input>:1:1\n  |\n1 | abc\n  | ^ unknown identifier)",
    // f32 angles "abc"
    "Err(error: line 1 column 1: unknown identifier\n --> <input>:1:1\n  |\n1 | abc\n  | ^ unknown identifier)",
    // f64 no-angles "abc"
    "Err(error: line 1 column 1: invalid floating point\n --> <input>:1:1\n  |\n1 | abc\n  | ^ invalid floating point)",
    // json angles "abc"
    "Ok(\"\\\"abc\\\"\")",
    // f64 angles ""
    "Err(unexpected end of input at line 1, column 1)",
    // f32 angles ""
    "Err(unexpected end of input at line 1, column 1)",
    // f64 no-angles ""
    "Err(unexpected end of input at line 1, column 1)",
    // json angles ""
    "Ok(\"null\")",
    // f64 angles "~"
    "Err(error: line 1 column 1: expected number, constant, function, or '('\n --> <input>:1:1\n  |\n1 | ~\n  | ^ expected number, constant, function, or '(')",
    // f32 angles "~"
    "Err(error: line 1 column 1: expected number, constant, function, or '('\n --> <input>:1:1\n  |\n1 | ~\n  | ^ expected number, constant, function, or '(')",
    // f64 no-angles "~"
    "Err(error: line 1 column 1: invalid floating point\n --> <input>:1:1\n  |\n1 | ~\n  | ^ invalid floating point)",
    // json angles "~"
    "Ok(\"null\")",
    // f64 angles "0.1"
    "Ok(\"0.1/0x3fb999999999999a\")",
    // f32 angles "0.1"
    "Ok(\"0.1/0x3dcccccd\")",
    // f64 no-angles "0.1"
    "Ok(\"0.1/0x3fb999999999999a\")",
    // json angles "0.1"
    "Ok(\"0.1\")",
    // f64 angles "1e400"
    "Ok(\"inf/0x7ff0000000000000\")",
    // f32 angles "1e400"
    "Ok(\"inf/0x7f800000\")",
    // f64 no-angles "1e400"
    "Ok(\"inf/0x7ff0000000000000\")",
    // json angles "1e400"
    "Ok(\"\\\".inf\\\"\")",
    // f64 angles "!degrees 180"
    "Ok(\"3.141592653589793/0x400921fb54442d18\")",
    // f32 angles "!degrees 180"
    "Ok(\"3.1415927/0x40490fdb\")",
    // f64 no-angles "!degrees 180"
    "Ok(\"180.0/0x4066800000000000\")",
    // json angles "!degrees 180"
    "Err(error: line 1 column 10: cannot deserialize tagged scalar into string\n --> <input>:1:10\n  |\n1 | !degrees 180\n  |          ^ cannot deserialize tagged scalar into string)",
    // f64 angles "!degrees 0.1"
    "Ok(\"0.0017453292519943296/0x3f5c987103b761f5\")",
    // f32 angles "!degrees 0.1"
    "Ok(\"0.0017453292/0x3ae4c388\")",
    // f64 no-angles "!degrees 0.1"
    "Ok(\"0.1/0x3fb999999999999a\")",
    // json angles "!degrees 0.1"
    "Err(error: line 1 column 10: cannot deserialize tagged scalar into string\n --> <input>:1:10\n  |\n1 | !degrees 0.1\n  |          ^ cannot deserialize tagged scalar into string)",
    // f64 angles "!degrees .inf"
    "Ok(\"inf/0x7ff0000000000000\")",
    // f32 angles "!degrees .inf"
    "Ok(\"inf/0x7f800000\")",
    // f64 no-angles "!degrees .inf"
    "Ok(\"inf/0x7ff0000000000000\")",
    // json angles "!degrees .inf"
    "Err(error: line 1 column 10: cannot deserialize tagged scalar into string\n --> <input>:1:10\n  |\n1 | !degrees .inf\n  |          ^ cannot deserialize tagged scalar into string)",
    // f64 angles "!degrees abc"
    "Err(error: line 1 column 10: unknown identifier\n --> <input>:1:10\n  |\n1 | !degrees abc\n  |          ^ unknown identifier)",
    // f32 angles "!degrees abc"
    "Err(error: line 1 column 10: unknown identifier\n --> <input>:1:10\n  |\n1 | !degrees abc\n  |          ^ unknown identifier)",
    // f64 no-angles "!degrees abc"
    "Err(error: line 1 column 10: invalid floating point\n --> <input>:1:10\n  |\n1 | !degrees abc\n  |          ^ invalid floating point)",
    // json angles "!degrees abc"
    "Err(error: line 1 column 10: cannot deserialize tagged scalar into string\n --> <input>:1:10\n  |\n1 | !degrees abc\n  |          ^ cannot deserialize tagged scalar into string)",
    // f64 angles "!radians 1.5"
    "Ok(\"1.5/0x3ff8000000000000\")",
    // f32 angles "!radians 1.5"
    "Ok(\"1.5/0x3fc00000\")",
    // f64 no-angles "!radians 1.5"
    "Ok(\"1.5/0x3ff8000000000000\")",
    // json angles "!radians 1.5"
    "Err(error: line 1 column 10: cannot deserialize tagged scalar into string\n --> <input>:1:10\n  |\n1 | !radians 1.5\n  |          ^ cannot deserialize tagged scalar into string)",
    // f64 angles "!radians .nan"
    "Ok(\"NaN/0x7ff8000000000000\")",
    // f32 angles "!radians .nan"
    "Ok(\"NaN/0x7fc00000\")",
    // f64 no-angles "!radians .nan"
    "Ok(\"NaN/0x7ff8000000000000\")",
    // json angles "!radians .nan"
    "Err(error: line 1 column 10: cannot deserialize tagged scalar into string\n --> <input>:1:10\n  |\n1 | !radians .nan\n  |          ^ cannot deserialize tagged scalar into string)",
    // f64 angles "deg(90)"
    "Ok(\"1.5707963267948966/0x3ff921fb54442d18\")",
    // f32 angles "deg(90)"
    "Ok(\"1.5707964/0x3fc90fdb\")",
    // f64 no-angles "deg(90)"
    "Err(error: line 1 column 1: invalid floating point\n --> <input>:1:1\n  |\n1 | deg(90)\n  | ^ invalid floating point)",
    // json angles "deg(90)"
    "Ok(\"1.5707963267948966\")",
    // f64 angles "rad(1)"
    "Ok(\"1.0/0x3ff0000000000000\")",
    // f32 angles "rad(1)"
    "Ok(\"1.0/0x3f800000\")",
    // f64 no-angles "rad(1)"
    "Err(error: line 1 column 1: invalid floating point\n --> <input>:1:1\n  |\n1 | rad(1)\n  | ^ invalid floating point)",
    // json angles "rad(1)"
    "Ok(\"1.0\")",
    // f64 angles "pi"
    "Ok(\"3.141592653589793/0x400921fb54442d18\")",
    // f32 angles "pi"
    "Ok(\"3.1415927/0x40490fdb\")",
    // f64 no-angles "pi"
    "Err(error: line 1 column 1: invalid floating point\n --> <input>:1:1\n  |\n1 | pi\n  | ^ invalid floating point)",
    // json angles "pi"
    "Ok(\"3.141592653589793\")",
    // f64 angles "2*pi"
    "Ok(\"6.283185307179586/0x401921fb54442d18\")",
    // f32 angles "2*pi"
    "Ok(\"6.2831855/0x40c90fdb\")",
    // f64 no-angles "2*pi"
    "Err(error: line 1 column 1: invalid floating point\n --> <input>:1:1\n  |\n1 | 2*pi\n  | ^ invalid floating point)",
    // json angles "2*pi"
    "Ok(\"6.283185307179586\")",
    // f64 angles "!degrees deg(90) + 1"
    "Err(error: line 1 column 10: ambiguous mix of unitized values and Degrees tag: wrap bare terms with deg(...) or rad(...), or remove the tag\n --> <input>:1:10\n  |\n1 | !degrees deg(90) + 1\n  |          ^ ambiguous mix of unitized values and Degrees tag: wrap bare terms with deg(...) or rad(...), or remove the tag)",
    // f32 angles "!degrees deg(90) + 1"
    "Err(error: line 1 column 10: ambiguous mix of unitized values and Degrees tag: wrap bare terms with deg(...) or rad(...), or remove the tag\n --> <input>:1:10\n  |\n1 | !degrees deg(90) + 1\n  |          ^ ambiguous mix of unitized values and Degrees tag: wrap bare terms with deg(...) or rad(...), or remove the tag)",
    // f64 no-angles "!degrees deg(90) + 1"
    "Err(error: line 1 column 10: invalid floating point\n --> <input>:1:10\n  |\n1 | !degrees deg(90) + 1\n  |          ^ invalid floating point)",
    // json angles "!degrees deg(90) + 1"
    "Err(error: line 1 column 10: cannot deserialize tagged scalar into string\n --> <input>:1:10\n  |\n1 | !degrees deg(90) + 1\n  |          ^ cannot deserialize tagged scalar into string)",
    // f64 angles "1 +"
    "Err(error: line 1 column 1: unexpected end of input\n --> <input>:1:1\n  |\n1 | 1 +\n  | ^ unexpected end of input)",
    // f32 angles "1 +"
    "Err(error: line 1 column 1: unexpected end of input\n --> <input>:1:1\n  |\n1 | 1 +\n  | ^ unexpected end of input)",
    // f64 no-angles "1 +"
    "Err(error: line 1 column 1: invalid floating point\n --> <input>:1:1\n  |\n1 | 1 +\n  | ^ invalid floating point)",
    // json angles "1 +"
    "Ok(\"\\\"1 +\\\"\")",
    // f64 angles "1_0"
    "Ok(\"10.0/0x4024000000000000\")",
    // f32 angles "1_0"
    "Ok(\"10.0/0x41200000\")",
    // f64 no-angles "1_0"
    "Err(error: line 1 column 1: invalid floating point\n --> <input>:1:1\n  |\n1 | 1_0\n  | ^ invalid floating point)",
    // json angles "1_0"
    "Ok(\"10\")",
    // f64 angles "0x10"
    "Err(error: line 1 column 1: unexpected trailing characters in scalar\n --> <input>:1:1\n  |\n1 | 0x10\n  | ^ unexpected trailing characters in scalar)",
    // f32 angles "0x10"
    "Err(error: line 1 column 1: unexpected trailing characters in scalar\n --> <input>:1:1\n  |\n1 | 0x10\n  | ^ unexpected trailing characters in scalar)",
    // f64 no-angles "0x10"
    "Err(error: line 1 column 1: invalid floating point\n --> <input>:1:1\n  |\n1 | 0x10\n  | ^ invalid floating point)",
    // json angles "0x10"
    "Ok(\"16\")",
    // f64 angles "!!float 1.5"
    "Ok(\"1.5/0x3ff8000000000000\")",
    // f32 angles "!!float 1.5"
    "Ok(\"1.5/0x3fc00000\")",
    // f64 no-angles "!!float 1.5"
    "Ok(\"1.5/0x3ff8000000000000\")",
    // json angles "!!float 1.5"
    "Err(error: line 1 column 9: cannot deserialize tagged scalar into string\n --> <input>:1:9\n  |\n1 | !!float 1.5\n  |         ^ cannot deserialize tagged scalar into string)",
    // f64 angles "!!str 1.5"
    "Ok(\"1.5/0x3ff8000000000000\")",
    // f32 angles "!!str 1.5"
    "Ok(\"1.5/0x3fc00000\")",
    // f64 no-angles "!!str 1.5"
    "Ok(\"1.5/0x3ff8000000000000\")",
    // json angles "!!str 1.5"
    "Ok(\"\\\"1.5\\\"\")",
    // f64 angles "' 2.5 '"
    "Ok(\"2.5/0x4004000000000000\")",
    // f32 angles "' 2.5 '"
    "Ok(\"2.5/0x40200000\")",
    // f64 no-angles "' 2.5 '"
    "Ok(\"2.5/0x4004000000000000\")",
    // json angles "' 2.5 '"
    "Ok(\"\\\" 2.5 \\\"\")",
    // f64 angles "90deg"
    "Err(error: line 1 column 1: unexpected trailing characters in scalar\n --> <input>:1:1\n  |\n1 | 90deg\n  | ^ unexpected trailing characters in scalar)",
    // f32 angles "90deg"
    "Err(error: line 1 column 1: unexpected trailing characters in scalar\n --> <input>:1:1\n  |\n1 | 90deg\n  | ^ unexpected trailing characters in scalar)",
    // f64 no-angles "90deg"
    "Err(error: line 1 column 1: invalid floating point\n --> <input>:1:1\n  |\n1 | 90deg\n  | ^ invalid floating point)",
    // json angles "90deg"
    "Ok(\"\\\"90deg\\\"\")",
    // f64 angles "16777217"
    "Ok(\"16777217.0/0x4170000010000000\")",
    // f32 angles "16777217"
    "Ok(\"16777216.0/0x4b800000\")",
    // f64 no-angles "16777217"
    "Ok(\"16777217.0/0x4170000010000000\")",
    // json angles "16777217"
    "Ok(\"16777217\")",
];
