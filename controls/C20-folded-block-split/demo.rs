//! Differential test for the C20 control refactoring (presentation wrappers and
//! serializer options change layout only).
//!
//! Every case renders to one string (emitted YAML, the values it reads back to, or the
//! error text) and is compared with a literal captured on the UNMODIFIED tree.
//! Run with `C20_DEMO_PRINT=1 ... -- --nocapture` to print the literals instead.

use std::collections::BTreeMap;
use std::fmt::Debug;
use std::rc::Rc;

use serde::de::DeserializeOwned;
use serde::{Deserialize, Serialize};
use serde_saphyr::{
    Commented, FlowMap, FlowSeq, FoldStr, FoldString, LitStr, LitString, RcAnchor, RcWeakAnchor,
    SerializerOptions, SpaceAfter, ser_options,
};

fn show<T: Debug, E: std::fmt::Display>(r: Result<T, E>) -> String {
    match r {
        Ok(v) => format!("OK {v:?}"),
        Err(e) => format!("ERR {e}"),
    }
}

/// Emit `v` with default options.
fn emit<T: Serialize>(v: &T) -> String {
    show(serde_saphyr::to_string(v))
}

/// Emit `v` with `opts`.
fn emit_with<T: Serialize>(v: &T, opts: SerializerOptions) -> String {
    show(serde_saphyr::to_string_with_options(v, opts))
}

/// Emit `v`, then read the text back as `B` (typically the bare type).
fn round<T: Serialize, B: DeserializeOwned + Debug>(v: &T, opts: SerializerOptions) -> String {
    match serde_saphyr::to_string_with_options(v, opts) {
        Ok(text) => format!(
            "OK {text:?} => {}",
            show(serde_saphyr::from_str::<B>(&text))
        ),
        Err(e) => format!("ERR {e}"),
    }
}

/// Emit `v`, then read the text back both as `A` and as `B`.
fn round2<T: Serialize, A: DeserializeOwned + Debug, B: DeserializeOwned + Debug>(
    v: &T,
    opts: SerializerOptions,
) -> String {
    match serde_saphyr::to_string_with_options(v, opts) {
        Ok(text) => format!(
            "OK {text:?} => {} | {}",
            show(serde_saphyr::from_str::<A>(&text)),
            show(serde_saphyr::from_str::<B>(&text))
        ),
        Err(e) => format!("ERR {e}"),
    }
}

fn dflt() -> SerializerOptions {
    SerializerOptions::default()
}

#[derive(Serialize, Deserialize, Debug, PartialEq)]
struct Layout {
    seq: FlowSeq<Vec<i32>>,
    map: FlowMap<BTreeMap<String, i32>>,
    after: i32,
}

#[derive(Serialize, Deserialize, Debug, PartialEq)]
struct LayoutBare {
    seq: Vec<i32>,
    map: BTreeMap<String, i32>,
    after: i32,
}

#[derive(Serialize, Deserialize, Debug, PartialEq)]
struct Notes {
    first: Commented<i32>,
    second: String,
    third: Commented<String>,
    last: bool,
}

#[derive(Serialize, Deserialize, Debug, PartialEq)]
struct NotesBare {
    first: i32,
    second: String,
    third: String,
    last: bool,
}

#[derive(Serialize, Deserialize, Debug, PartialEq)]
struct Spaced {
    a: SpaceAfter<i32>,
    b: SpaceAfter<Vec<i32>>,
    c: SpaceAfter<FlowSeq<Vec<i32>>>,
    d: i32,
}

#[derive(Serialize, Deserialize, Debug, PartialEq)]
struct SpacedBare {
    a: i32,
    b: Vec<i32>,
    c: Vec<i32>,
    d: i32,
}

#[derive(Serialize, Deserialize, Debug, PartialEq)]
struct Texts {
    lit: LitString,
    fold: FoldString,
    tail: i32,
}

#[derive(Serialize, Deserialize, Debug, PartialEq)]
struct TextsBare {
    lit: String,
    fold: String,
    tail: i32,
}

#[derive(Serialize, Deserialize, Debug, PartialEq, Clone, Copy)]
enum Mode {
    Fast,
    Slow,
}

#[derive(Serialize)]
struct Shared {
    one: Commented<RcAnchor<String>>,
    two: Commented<RcAnchor<String>>,
    gone: Commented<RcWeakAnchor<String>>,
    end: i32,
}

#[derive(Serialize)]
struct Deep {
    items: Vec<Inner>,
}

#[derive(Serialize)]
struct Inner {
    name: Commented<String>,
    body: LitString,
    para: FoldString,
    tags: FlowSeq<Vec<Commented<String>>>,
}

fn map_of(pairs: &[(&str, i32)]) -> BTreeMap<String, i32> {
    pairs.iter().map(|(k, v)| (k.to_string(), *v)).collect()
}

const LOREM: &str = "The quick brown fox jumps over the lazy dog and keeps running through the forest until night falls over the hills";

fn cases() -> Vec<String> {
    let mut out: Vec<String> = Vec::new();

    // ---- flow wrappers -------------------------------------------------------------
    // 0
    out.push(round2::<_, FlowSeq<Vec<i32>>, Vec<i32>>(
        &FlowSeq(vec![1, 2, 3]),
        dflt(),
    ));
    // 1
    out.push(round2::<_, FlowMap<BTreeMap<String, i32>>, BTreeMap<String, i32>>(
        &FlowMap(map_of(&[("a", 1), ("b", 2)])),
        dflt(),
    ));
    // 2
    out.push(round2::<_, Layout, LayoutBare>(
        &Layout {
            seq: FlowSeq(vec![1, 2]),
            map: FlowMap(map_of(&[("k", 7)])),
            after: 9,
        },
        dflt(),
    ));
    // 3: strings that look like structure inside a flow sequence
    out.push(round::<_, Vec<String>>(
        &FlowSeq(vec![
            "a, b".to_string(),
            "[x]".to_string(),
            "# not a comment".to_string(),
            "yes".to_string(),
            String::new(),
            "k: v".to_string(),
            "line\nbreak".to_string(),
        ]),
        dflt(),
    ));
    // 4: nested flow, empty flow, flow with comments inside (suppressed)
    out.push(round::<_, Vec<Vec<i32>>>(
        &FlowSeq(vec![FlowSeq(vec![1]), FlowSeq(vec![]), FlowSeq(vec![2, 3])]),
        dflt(),
    ));
    // 5
    out.push(round::<_, Vec<i32>>(
        &FlowSeq(vec![
            Commented(1, "one".to_string()),
            Commented(2, "two\n- 3".to_string()),
        ]),
        dflt(),
    ));
    // 6: FlowSeq hint on a map and FlowMap hint on a seq (hints of the wrong kind)
    out.push(round::<_, BTreeMap<String, i32>>(
        &FlowSeq(map_of(&[("a", 1)])),
        dflt(),
    ));
    // 7
    out.push(round::<_, Vec<i32>>(&FlowMap(vec![1, 2]), dflt()));
    // 8: empty flow collections with empty_as_braces off
    out.push(emit_with(
        &(FlowSeq(Vec::<i32>::new()), FlowMap(map_of(&[]))),
        ser_options! { empty_as_braces: false },
    ));
    // 9: flow map holding block-style text wrappers (block scalars do not exist in flow)
    out.push(round::<_, BTreeMap<String, String>>(
        &FlowMap(BTreeMap::from([
            ("l".to_string(), LitString("a\nb\n".to_string())),
            ("m".to_string(), LitString(LOREM.to_string())),
        ])),
        dflt(),
    ));

    // ---- comments ------------------------------------------------------------------
    // 10
    out.push(round2::<_, Commented<i32>, i32>(
        &Commented(42, "answer".to_string()),
        dflt(),
    ));
    // 11: line breaks of every kind and an injection attempt
    out.push(round2::<_, Commented<i32>, i32>(
        &Commented(
            7,
            "first\nsecond\rthird\r\n- injected: true\n".to_string(),
        ),
        dflt(),
    ));
    // 12: empty comment
    out.push(round2::<_, Commented<String>, String>(
        &Commented("v".to_string(), String::new()),
        dflt(),
    ));
    // 13: comment on complex values is dropped
    out.push(round::<_, Vec<i32>>(
        &Commented(vec![1, 2], "dropped".to_string()),
        dflt(),
    ));
    // 14
    out.push(round::<_, BTreeMap<String, i32>>(
        &Commented(map_of(&[("a", 1)]), "dropped".to_string()),
        dflt(),
    ));
    // 15: comment on a flow sequence / flow map / empty collections
    out.push(round::<_, Vec<i32>>(
        &Commented(FlowSeq(vec![1, 2]), "flow seq".to_string()),
        dflt(),
    ));
    // 16
    out.push(round::<_, BTreeMap<String, i32>>(
        &Commented(FlowMap(map_of(&[("a", 1)])), "flow map".to_string()),
        dflt(),
    ));
    // 17
    out.push(emit(&(
        Commented(Vec::<i32>::new(), "empty seq".to_string()),
        Commented(map_of(&[]), "empty map".to_string()),
        5,
    )));
    // 18: comment must not leak to the following fields
    out.push(round2::<_, Notes, NotesBare>(
        &Notes {
            first: Commented(5, "five # really".to_string()),
            second: "plain".to_string(),
            third: Commented("x: y".to_string(), "\"quoted\" 'text' \\ \t tab".to_string()),
            last: true,
        },
        dflt(),
    ));
    // 19: sequence elements of several scalar kinds
    out.push(emit(&(
        Commented(true, "bool".to_string()),
        Commented(1.5f64, "float".to_string()),
        Commented('c', "char".to_string()),
        Commented((), "unit".to_string()),
        Commented(None::<i32>, "none".to_string()),
        Commented(Some(3u8), "some".to_string()),
        Commented(Mode::Fast, "enum".to_string()),
        Commented(u128::MAX, "u128".to_string()),
    )));
    // 20: tagged enums and quote_all with comments
    out.push(emit_with(
        &vec![
            Commented(Mode::Fast, "fast".to_string()),
            Commented(Mode::Slow, "slow\rmo".to_string()),
        ],
        ser_options! { tagged_enums: true },
    ));
    // 21
    out.push(round::<_, Vec<String>>(
        &vec![
            Commented("it's".to_string(), "quote".to_string()),
            Commented("-".to_string(), "dash".to_string()),
            Commented("#".to_string(), "hash".to_string()),
            Commented("multi\nline".to_string(), "nl".to_string()),
        ],
        ser_options! { quote_all: true },
    ));
    // 22: comment on block scalars (literal and folded) followed by another value
    out.push(round::<_, (String, String, i32)>(
        &(
            Commented(LitString("a\nb\n".to_string()), "on literal".to_string()),
            Commented(FoldString(LOREM.to_string()), "on folded".to_string()),
            Commented(1, "after".to_string()),
        ),
        dflt(),
    ));
    // 23: nested comments (inner one wins, outer one is overwritten)
    out.push(round::<_, i32>(
        &Commented(Commented(1, "inner".to_string()), "outer".to_string()),
        dflt(),
    ));
    // 24: comment + SpaceAfter in both nestings
    out.push(emit(&(
        Commented(SpaceAfter(1), "c1".to_string()),
        SpaceAfter(Commented(2, "c2".to_string())),
        3,
    )));
    // 25: anchors: definition, alias and dangling weak all end through the comment path
    {
        let rc = Rc::new("shared".to_string());
        let dangling = {
            let tmp = Rc::new("tmp".to_string());
            RcWeakAnchor::from(&tmp)
        };
        out.push(emit(&Shared {
            one: Commented(RcAnchor(rc.clone()), "def".to_string()),
            two: Commented(RcAnchor(rc.clone()), "alias".to_string()),
            gone: Commented(dangling, "gone".to_string()),
            end: 0,
        }));
    }
    // 26: non-ASCII and control characters in a comment
    out.push(round::<_, i32>(
        &Commented(1, "caf\u{e9} \u{2028} \u{85} \u{0} \u{feff} end".to_string()),
        dflt(),
    ));
    // 27: yaml_12 directive with a top-level commented scalar
    out.push(round::<_, String>(
        &Commented("y".to_string(), "why".to_string()),
        ser_options! { yaml_12: true },
    ));

    // ---- blank line after ----------------------------------------------------------
    // 28
    out.push(round2::<_, Spaced, SpacedBare>(
        &Spaced {
            a: SpaceAfter(1),
            b: SpaceAfter(vec![2, 3]),
            c: SpaceAfter(FlowSeq(vec![4])),
            d: 5,
        },
        dflt(),
    ));
    // 29
    out.push(round2::<_, SpaceAfter<String>, String>(
        &SpaceAfter("top".to_string()),
        dflt(),
    ));
    // 30: inside flow: suppressed
    out.push(round::<_, Vec<i32>>(
        &FlowSeq(vec![SpaceAfter(1), SpaceAfter(2)]),
        dflt(),
    ));
    // 31: around block scalars and with compact list indentation
    out.push(round::<_, BTreeMap<String, Vec<String>>>(
        &BTreeMap::from([
            (
                "k".to_string(),
                vec![
                    SpaceAfter(LitString("a\nb".to_string())),
                    SpaceAfter(LitString("c".to_string())),
                ],
            ),
            ("z".to_string(), vec![]),
        ]),
        ser_options! { compact_list_indent: true },
    ));

    // ---- literal strings -----------------------------------------------------------
    // 32..: trailing line feed variants
    for s in ["a\nb", "a\nb\n", "a\n\n\n", "\n", "\n\n", "", "one line", "\n\nlead", "a\n\nb\n"] {
        out.push(round2::<_, LitString, String>(&LitStr(s), dflt()));
    }
    // leading whitespace (indentation indicator), tabs, carriage return, other controls
    for s in [
        "  lead\nrest",
        " x",
        "\n  later lead",
        "\tTab\tin\nbody\t",
        "cr\rin\nbody",
        "bell\u{7}\nbody",
        "trail \nspaces  \n",
        "# hash\n- dash\nkey: value\n",
        "nel\u{85}and\u{2028}ls\n",
    ] {
        out.push(round::<_, String>(&LitString(s.to_string()), dflt()));
    }
    // indentation steps other than 2
    for step in [1usize, 3, 4, 9] {
        let mut o = dflt();
        o.indent_step = step;
        out.push(round::<_, BTreeMap<String, Vec<String>>>(
            &BTreeMap::from([(
                "k".to_string(),
                vec![
                    LitString("a\nb\n".to_string()),
                    LitString(" lead\nb".to_string()),
                ],
            )]),
            o,
        ));
    }
    // direct use of the serializer with an indentation step of zero
    {
        let mut text = String::new();
        let mut ser = serde_saphyr::Serializer::with_indent(&mut text, 0);
        let r = LitStr("a\nb\n\n").serialize(&mut ser);
        out.push(format!("{} {text:?}", show(r)));
        let mut text = String::new();
        let mut ser = serde_saphyr::Serializer::with_indent(&mut text, 0);
        let r = FoldStr(LOREM).serialize(&mut ser);
        out.push(format!("{} {text:?}", show(r)));
    }
    // invalid options
    {
        let mut o = dflt();
        o.indent_step = 0;
        out.push(emit_with(&LitStr("a\nb"), o));
    }

    // ---- folded strings ------------------------------------------------------------
    // threshold: 31 / 32 bytes, multi-byte (bytes, not chars), zero threshold, multiline short
    let s31 = "a".repeat(31);
    let s32 = "a".repeat(32);
    let e16 = "\u{e9}".repeat(16); // 16 chars, 32 bytes
    let e15 = "\u{e9}".repeat(15); // 15 chars, 30 bytes
    for s in [s31.as_str(), s32.as_str(), e16.as_str(), e15.as_str(), "", "x\ny", "short"] {
        out.push(round2::<_, FoldString, String>(&FoldStr(s), dflt()));
    }
    out.push(round::<_, String>(
        &FoldStr("short"),
        ser_options! { min_fold_chars: 0 },
    ));
    out.push(round::<_, String>(
        &FoldStr(""),
        ser_options! { min_fold_chars: 0 },
    ));
    out.push(round::<_, String>(
        &FoldStr(LOREM),
        ser_options! { min_fold_chars: 1000 },
    ));
    out.push(round::<_, String>(
        &FoldStr("needs: quoting # when plain"),
        ser_options! { min_fold_chars: 1000 },
    ));
    // wrapping widths
    for width in [0usize, 1, 8, 20, 80, 1000] {
        let mut o = dflt();
        o.folded_wrap_chars = width;
        o.min_fold_chars = 0;
        out.push(round::<_, String>(&FoldStr(LOREM), o));
    }
    // runs of spaces, leading spaces, trailing spaces, tabs, no spaces, non-ASCII
    for s in [
        "AA  BB   CC    DD     EE      FF",
        "  leading spaces are never wrapped even when long",
        "trailing spaces stay   ",
        "tab\tseparated\twords\tare\tnot\twrapped\tat\ttabs",
        "averyveryveryveryveryveryverylongtokenwithoutanyspaces",
        "h\u{e9}llo w\u{f6}rld \u{4e16}\u{754c} \u{1f600} emoji and more words here",
        "para one is here\n\npara two is here\n  indented line stays\nlast",
        "ends with newline and is long enough\n",
        "ends with many\n\n\n",
        "a  \n  b",
        "x                                  y",
        "word                 ",
    ] {
        let mut o = dflt();
        o.folded_wrap_chars = 10;
        o.min_fold_chars = 0;
        out.push(round::<_, String>(&FoldString(s.to_string()), o));
    }
    // struct with both wrappers, several steps
    for step in [2usize, 4] {
        let mut o = dflt();
        o.indent_step = step;
        o.folded_wrap_chars = 24;
        out.push(round2::<_, Texts, TextsBare>(
            &Texts {
                lit: LitString("l1\nl2\n".to_string()),
                fold: FoldString(LOREM.to_string()),
                tail: 1,
            },
            o,
        ));
    }
    // everything nested under sequences of maps
    out.push(emit(&Deep {
        items: vec![
            Inner {
                name: Commented("n1".to_string(), "first\nitem".to_string()),
                body: LitString("b1\nb2\n".to_string()),
                para: FoldString(LOREM.to_string()),
                tags: FlowSeq(vec![Commented("t".to_string(), "hidden".to_string())]),
            },
            Inner {
                name: Commented("n2".to_string(), String::new()),
                body: LitString("single".to_string()),
                para: FoldString("tiny".to_string()),
                tags: FlowSeq(vec![]),
            },
        ],
    }));

    // ---- automatic block scalars and the remaining options -------------------------
    let long_multi = format!("{LOREM}\n{LOREM}\n");
    for (prefer, quote_all) in [(true, false), (false, false), (true, true)] {
        let mut o = dflt();
        o.prefer_block_scalars = prefer;
        o.quote_all = quote_all;
        out.push(round::<_, Vec<String>>(
            &vec![
                LOREM.to_string(),
                long_multi.clone(),
                "short\nmulti".to_string(),
                "\n".to_string(),
                "ends with colon:\n".to_string(),
            ],
            o,
        ));
    }

    // ---- reading the wrappers directly --------------------------------------------
    out.push(show(serde_saphyr::from_str::<FlowSeq<Vec<i32>>>(
        "- 1\n- 2\n",
    )));
    out.push(show(serde_saphyr::from_str::<FlowMap<BTreeMap<String, i32>>>(
        "a: 1\nb: 2\n",
    )));
    out.push(show(serde_saphyr::from_str::<Commented<i32>>(
        "5 # five\n",
    )));
    out.push(show(serde_saphyr::from_str::<SpaceAfter<Vec<String>>>(
        "- a\n\n- b\n\n",
    )));
    out.push(show(serde_saphyr::from_str::<LitString>("|+\n  a\n\n")));
    out.push(show(serde_saphyr::from_str::<FoldString>(
        ">-\n  a\n  b\n\n  c\n",
    )));
    out.push(show(serde_saphyr::from_str::<FlowSeq<Vec<i32>>>(
        "[1, x]\n",
    )));
    out.push(show(serde_saphyr::from_str::<Commented<i32>>("abc # c\n")));
    out.push(show(serde_saphyr::from_str::<Notes>(
        "first: 1\nsecond: s\nthird: [1]\nlast: true\n",
    )));
    out.push(show(serde_saphyr::from_str::<SpaceAfter<FlowMap<BTreeMap<String, i32>>>>(
        "{a: 1, a: 2}\n",
    )));

    out
}

#[rustfmt::skip]
const EXPECTED: &[&str] = &[
//EXPECTED-BEGIN
    "OK \"[1, 2, 3]\\n\" => OK FlowSeq([1, 2, 3]) | OK [1, 2, 3]",
    "OK \"{a: 1, b: 2}\\n\" => OK FlowMap({\"a\": 1, \"b\": 2}) | OK {\"a\": 1, \"b\": 2}",
    "OK \"seq: [1, 2]\\nmap: {k: 7}\\nafter: 9\\n\" => OK Layout { seq: FlowSeq([1, 2]), map: FlowMap({\"k\": 7}), after: 9 } | OK LayoutBare { seq: [1, 2], map: {\"k\": 7}, after: 9 }",
    "OK \"[\\\"a, b\\\", \\\"[x]\\\", \\\"# not a comment\\\", \\\"yes\\\", \\\"\\\", \\\"k: v\\\", \\\"line\\\\nbreak\\\"]\\n\" => OK [\"a, b\", \"[x]\", \"# not a comment\", \"yes\", \"\", \"k: v\", \"line\\nbreak\"]",
    "OK \"[[1], [], [2, 3]]\\n\" => OK [[1], [], [2, 3]]",
    "OK \"[1, 2]\\n\" => OK [1, 2]",
    "OK \"a: 1\\n\" => OK {\"a\": 1}",
    "OK \"- 1\\n- 2\\n\" => OK [1, 2]",
    "OK \"- []\\n- {}\\n\"",
    "OK \"{l: \\\"a\\\\nb\\\\n\\\", m: The quick brown fox jumps over the lazy dog and keeps running through the forest until night falls over the hills}\\n\" => OK {\"l\": \"a\\nb\\n\", \"m\": \"The quick brown fox jumps over the lazy dog and keeps running through the forest until night falls over the hills\"}",
    "OK \"42 # answer\\n\" => OK Commented(42, \"\") | OK 42",
    "OK \"7 # first second third  - injected: true \\n\" => OK Commented(7, \"\") | OK 7",
    "OK \"v\\n\" => OK Commented(\"v\", \"\") | OK \"v\"",
    "OK \"- 1\\n- 2\\n\" => OK [1, 2]",
    "OK \"a: 1 # dropped\\n\" => OK {\"a\": 1}",
    "OK \"[1, 2]\\n\" => OK [1, 2]",
    "OK \"{a: 1}\\n\" => OK {\"a\": 1}",
    "OK \"- []\\n- {}\\n- 5\\n\"",
    "OK \"first: 5 # five # really\\nsecond: plain\\nthird: \\\"x: y\\\" # \\\"quoted\\\" 'text' \\\\ \\t tab\\nlast: true\\n\" => OK Notes { first: Commented(5, \"\"), second: \"plain\", third: Commented(\"x: y\", \"\"), last: true } | OK NotesBare { first: 5, second: \"plain\", third: \"x: y\", last: true }",
    "OK \"- true # bool\\n- 1.5 # float\\n- c # char\\n- null # unit\\n- null # none\\n- 3 # some\\n- Fast # enum\\n- 340282366920938463463374607431768211455 # u128\\n\"",
    "OK \"- !!Mode Fast # fast\\n- !!Mode Slow # slow mo\\n\"",
    "OK \"- \\\"it's\\\" # quote\\n- '-' # dash\\n- '#' # hash\\n- \\\"multi\\\\nline\\\" # nl\\n\" => OK [\"it's\", \"-\", \"#\", \"multi\\nline\"]",
    "OK \"- |\\n  a\\n  b\\n- >\\n  The quick brown fox jumps over the lazy dog and keeps running through the\\n  forest until night falls over the hills\\n- 1 # after\\n\" => OK (\"a\\nb\\n\", \"The quick brown fox jumps over the lazy dog and keeps running through the forest until night falls over the hills\\n\", 1)",
    "OK \"1 # inner\\n\" => OK 1",
    "OK \"- 1 # c1\\n\\n- 2 # c2\\n\\n- 3\\n\"",
    "OK \"one: &a1 shared # def\\ntwo: *a1 # alias\\ngone: null # gone\\nend: 0\\n\"",
    "OK \"1 # café \\u{2028} \\u{85} \\0 \\u{feff} end\\n\" => OK 1",
    "OK \"%YAML 1.2\\n---\\ny # why\\n\" => OK \"y\"",
    "OK \"a: 1\\n\\nb:\\n  - 2\\n  - 3\\n\\nc: [4]\\n\\nd: 5\\n\" => OK Spaced { a: SpaceAfter(1), b: SpaceAfter([2, 3]), c: SpaceAfter(FlowSeq([4])), d: 5 } | OK SpacedBare { a: 1, b: [2, 3], c: [4], d: 5 }",
    "OK \"top\\n\\n\" => OK SpaceAfter(\"top\") | OK \"top\"",
    "OK \"[1, 2]\\n\" => OK [1, 2]",
    "OK \"k:\\n- |-\\n  a\\n  b\\n\\n- |-\\n  c\\n\\nz:\\n  []\\n\" => OK {\"k\": [\"a\\nb\", \"c\"], \"z\": []}",
    "OK \"|-\\n  a\\n  b\\n\" => OK LitString(\"a\\nb\") | OK \"a\\nb\"",
    "OK \"|\\n  a\\n  b\\n\" => OK LitString(\"a\\nb\\n\") | OK \"a\\nb\\n\"",
    "OK \"|+\\n  a\\n  \\n  \\n\" => OK LitString(\"a\\n\\n\\n\") | OK \"a\\n\\n\\n\"",
    "OK \"|\\n  \\n\" => OK LitString(\"\\n\") | OK \"\\n\"",
    "OK \"|+\\n  \\n  \\n\" => OK LitString(\"\\n\\n\") | OK \"\\n\\n\"",
    "OK \"|-\\n\" => OK LitString(\"\") | OK \"\"",
    "OK \"|-\\n  one line\\n\" => OK LitString(\"one line\") | OK \"one line\"",
    "OK \"|-\\n  \\n  \\n  lead\\n\" => OK LitString(\"\\n\\nlead\") | OK \"\\n\\nlead\"",
    "OK \"|\\n  a\\n  \\n  b\\n\" => OK LitString(\"a\\n\\nb\\n\") | OK \"a\\n\\nb\\n\"",
    "OK \"|2-\\n    lead\\n  rest\\n\" => OK \"  lead\\nrest\"",
    "OK \"|2-\\n   x\\n\" => OK \" x\"",
    "OK \"|2-\\n  \\n    later lead\\n\" => OK \"\\n  later lead\"",
    "OK \"|-\\n  \\tTab\\tin\\n  body\\t\\n\" => OK \"\\tTab\\tin\\nbody\\t\"",
    "OK \"\\\"cr\\\\rin\\\\nbody\\\"\\n\" => OK \"cr\\rin\\nbody\"",
    "OK \"\\\"bell\\\\a\\\\nbody\\\"\\n\" => OK \"bell\\u{7}\\nbody\"",
    "OK \"|\\n  trail \\n  spaces  \\n\" => OK \"trail \\nspaces  \\n\"",
    "OK \"|\\n  # hash\\n  - dash\\n  key: value\\n\" => OK \"# hash\\n- dash\\nkey: value\\n\"",
    "OK \"\\\"nel\\\\Nand\\\\Lls\\\\n\\\"\\n\" => OK \"nel\\u{85}and\\u{2028}ls\\n\"",
    "OK \"k:\\n - |\\n  a\\n  b\\n - \\\" lead\\\\nb\\\"\\n\" => OK {\"k\": [\"a\\nb\\n\", \" lead\\nb\"]}",
    "OK \"k:\\n   - |\\n      a\\n      b\\n   - \\\" lead\\\\nb\\\"\\n\" => OK {\"k\": [\"a\\nb\\n\", \" lead\\nb\"]}",
    "OK \"k:\\n    - |\\n        a\\n        b\\n    - \\\" lead\\\\nb\\\"\\n\" => OK {\"k\": [\"a\\nb\\n\", \" lead\\nb\"]}",
    "OK \"k:\\n         - |\\n                  a\\n                  b\\n         - \\\" lead\\\\nb\\\"\\n\" => OK {\"k\": [\"a\\nb\\n\", \" lead\\nb\"]}",
    "OK () \"|+\\na\\nb\\n\\n\"",
    "OK () \">\\nThe quick brown fox jumps over the lazy dog and keeps running through the\\nforest until night falls over the hills\\n\"",
    "ERR invalid serialization options: Invalid indent step must be positive",
    "OK \"aaaaaaaaaaaaaaaaaaaaaaaaaaaaaaa\\n\" => OK FoldString(\"aaaaaaaaaaaaaaaaaaaaaaaaaaaaaaa\") | OK \"aaaaaaaaaaaaaaaaaaaaaaaaaaaaaaa\"",
    "OK \">\\n  aaaaaaaaaaaaaaaaaaaaaaaaaaaaaaaa\\n\" => OK FoldString(\"aaaaaaaaaaaaaaaaaaaaaaaaaaaaaaaa\\n\") | OK \"aaaaaaaaaaaaaaaaaaaaaaaaaaaaaaaa\\n\"",
    "OK \">\\n  éééééééééééééééé\\n\" => OK FoldString(\"éééééééééééééééé\\n\") | OK \"éééééééééééééééé\\n\"",
    "OK \"ééééééééééééééé\\n\" => OK FoldString(\"ééééééééééééééé\") | OK \"ééééééééééééééé\"",
    "OK \"\\\"\\\"\\n\" => OK FoldString(\"\") | OK \"\"",
    "OK \">\\n  x\\n  y\\n\" => OK FoldString(\"x y\\n\") | OK \"x y\\n\"",
    "OK \"short\\n\" => OK FoldString(\"short\") | OK \"short\"",
    "OK \">\\n  short\\n\" => OK \"short\\n\"",
    "OK \">\\n  \\n\" => OK \"\\n\"",
    "OK \">-\\n  The quick brown fox jumps over the lazy dog and keeps running through the\\n  forest until night falls over the hills\\n\" => OK \"The quick brown fox jumps over the lazy dog and keeps running through the forest until night falls over the hills\"",
    "OK \"\\\"needs: quoting # when plain\\\"\\n\" => OK \"needs: quoting # when plain\"",
    "OK \">\\n  The quick brown fox jumps over the lazy dog and keeps running through the forest until night falls over the hills\\n\" => OK \"The quick brown fox jumps over the lazy dog and keeps running through the forest until night falls over the hills\\n\"",
    "OK \">\\n  The quick brown fox jumps over the lazy dog and keeps running through the forest until night falls over the hills\\n\" => OK \"The quick brown fox jumps over the lazy dog and keeps running through the forest until night falls over the hills\\n\"",
    "OK \">\\n  The\\n  quick brown\\n  fox jumps\\n  over the\\n  lazy dog\\n  and\\n  keeps running\\n  through\\n  the\\n  forest until\\n  night\\n  falls over\\n  the hills\\n\" => OK \"The quick brown fox jumps over the lazy dog and keeps running through the forest until night falls over the hills\\n\"",
    "OK \">\\n  The quick brown fox\\n  jumps over the lazy\\n  dog and keeps running\\n  through the forest\\n  until night falls over\\n  the hills\\n\" => OK \"The quick brown fox jumps over the lazy dog and keeps running through the forest until night falls over the hills\\n\"",
    "OK \">\\n  The quick brown fox jumps over the lazy dog and keeps running through the\\n  forest until night falls over the hills\\n\" => OK \"The quick brown fox jumps over the lazy dog and keeps running through the forest until night falls over the hills\\n\"",
    "OK \">\\n  The quick brown fox jumps over the lazy dog and keeps running through the forest until night falls over the hills\\n\" => OK \"The quick brown fox jumps over the lazy dog and keeps running through the forest until night falls over the hills\\n\"",
    "OK \">\\n  AA  BB  \\n  CC   \\n  DD     EE      FF\\n\" => OK \"AA  BB   CC    DD     EE      FF\\n\"",
    "OK \">2\\n    leading spaces are never wrapped even when long\\n\" => OK \"  leading spaces are never wrapped even when long\\n\"",
    "OK \">\\n  trailing\\n  spaces\\n  stay   \\n\" => OK \"trailing spaces stay   \\n\"",
    "OK \">\\n  tab\\tseparated\\twords\\tare\\tnot\\twrapped\\tat\\ttabs\\n\" => OK \"tab\\tseparated\\twords\\tare\\tnot\\twrapped\\tat\\ttabs\\n\"",
    "OK \">\\n  averyveryveryveryveryveryverylongtokenwithoutanyspaces\\n\" => OK \"averyveryveryveryveryveryverylongtokenwithoutanyspaces\\n\"",
    "OK \">\\n  héllo\\n  wörld 世界 😀\\n  emoji and more\\n  words here\\n\" => OK \"héllo wörld 世界 😀 emoji and more words here\\n\"",
    "OK \">\\n  para one\\n  is here\\n  \\n  para two\\n  is here\\n    indented line stays\\n  last\\n\" => OK \"para one is here\\npara two is here\\n  indented line stays\\nlast\\n\"",
    "OK \">\\n  ends with\\n  newline\\n  and is long\\n  enough\\n  \\n\" => OK \"ends with newline and is long enough\\n\"",
    "OK \">\\n  ends with\\n  many\\n  \\n  \\n  \\n\" => OK \"ends with many\\n\"",
    "OK \">\\n  a  \\n    b\\n\" => OK \"a  \\n  b\\n\"",
    "OK \">\\n  x                                  y\\n\" => OK \"x                                  y\\n\"",
    "OK \">\\n  word                 \\n\" => OK \"word                 \\n\"",
    "OK \"lit: |\\n  l1\\n  l2\\nfold: >\\n  The quick brown fox\\n  jumps over the lazy dog and\\n  keeps running through the\\n  forest until night falls\\n  over the hills\\ntail: 1\\n\" => OK Texts { lit: LitString(\"l1\\nl2\\n\"), fold: FoldString(\"The quick brown fox jumps over the lazy dog and keeps running through the forest until night falls over the hills\\n\"), tail: 1 } | OK TextsBare { lit: \"l1\\nl2\\n\", fold: \"The quick brown fox jumps over the lazy dog and keeps running through the forest until night falls over the hills\\n\", tail: 1 }",
    "OK \"lit: |\\n    l1\\n    l2\\nfold: >\\n    The quick brown fox\\n    jumps over the lazy dog and\\n    keeps running through the\\n    forest until night falls\\n    over the hills\\ntail: 1\\n\" => OK Texts { lit: LitString(\"l1\\nl2\\n\"), fold: FoldString(\"The quick brown fox jumps over the lazy dog and keeps running through the forest until night falls over the hills\\n\"), tail: 1 } | OK TextsBare { lit: \"l1\\nl2\\n\", fold: \"The quick brown fox jumps over the lazy dog and keeps running through the forest until night falls over the hills\\n\", tail: 1 }",
    "OK \"items:\\n  - name: n1 # first item\\n    body: |\\n      b1\\n      b2\\n    para: >\\n      The quick brown fox jumps over the lazy dog and keeps running through the\\n      forest until night falls over the hills\\n    tags: [t]\\n  - name: n2\\n    body: |-\\n      single\\n    para: tiny\\n    tags: []\\n\"",
    "OK \"- >-\\n  The quick brown fox jumps over the lazy dog and keeps running through the\\n  forest until night falls over the hills\\n- |\\n  The quick brown fox jumps over the lazy dog and keeps running through the forest until night falls over the hills\\n  The quick brown fox jumps over the lazy dog and keeps running through the forest until night falls over the hills\\n- |-\\n  short\\n  multi\\n- \\\"\\\\n\\\"\\n- \\\"ends with colon:\\\\n\\\"\\n\" => OK [\"The quick brown fox jumps over the lazy dog and keeps running through the forest until night falls over the hills\", \"The quick brown fox jumps over the lazy dog and keeps running through the forest until night falls over the hills\\nThe quick brown fox jumps over the lazy dog and keeps running through the forest until night falls over the hills\\n\", \"short\\nmulti\", \"\\n\", \"ends with colon:\\n\"]",
    "OK \"- The quick brown fox jumps over the lazy dog and keeps running through the forest until night falls over the hills\\n- \\\"The quick brown fox jumps over the lazy dog and keeps running through the forest until night falls over the hills\\\\nThe quick brown fox jumps over the lazy dog and keeps running through the forest until night falls over the hills\\\\n\\\"\\n- \\\"short\\\\nmulti\\\"\\n- \\\"\\\\n\\\"\\n- \\\"ends with colon:\\\\n\\\"\\n\" => OK [\"The quick brown fox jumps over the lazy dog and keeps running through the forest until night falls over the hills\", \"The quick brown fox jumps over the lazy dog and keeps running through the forest until night falls over the hills\\nThe quick brown fox jumps over the lazy dog and keeps running through the forest until night falls over the hills\\n\", \"short\\nmulti\", \"\\n\", \"ends with colon:\\n\"]",
    "OK \"- 'The quick brown fox jumps over the lazy dog and keeps running through the forest until night falls over the hills'\\n- \\\"The quick brown fox jumps over the lazy dog and keeps running through the forest until night falls over the hills\\\\nThe quick brown fox jumps over the lazy dog and keeps running through the forest until night falls over the hills\\\\n\\\"\\n- \\\"short\\\\nmulti\\\"\\n- \\\"\\\\n\\\"\\n- \\\"ends with colon:\\\\n\\\"\\n\" => OK [\"The quick brown fox jumps over the lazy dog and keeps running through the forest until night falls over the hills\", \"The quick brown fox jumps over the lazy dog and keeps running through the forest until night falls over the hills\\nThe quick brown fox jumps over the lazy dog and keeps running through the forest until night falls over the hills\\n\", \"short\\nmulti\", \"\\n\", \"ends with colon:\\n\"]",
    "OK FlowSeq([1, 2])",
    "OK FlowMap({\"a\": 1, \"b\": 2})",
    "OK Commented(5, \"\")",
    "OK SpaceAfter([\"a\", \"b\"])",
    "OK LitString(\"a\\n\\n\")",
    "OK FoldString(\"a b\\nc\")",
    "ERR error: line 1 column 5: invalid i32\n --> <input>:1:5\n  |\n1 | [1, x]\n  |     ^ invalid i32",
    "ERR error: line 1 column 1: invalid i32\n --> <input>:1:1\n  |\n1 | abc # c\n  | ^ invalid i32",
    "ERR error: line 3 column 8: unexpected event: expected string scalar\n --> <input>:3:8\n  |\n1 | first: 1\n2 | second: s\n3 | third: [1]\n  |        ^ unexpected event: expected string scalar\n4 | last: true\n  |",
    "ERR error: line 1 column 8: duplicate mapping key: a, set DuplicateKeyPolicy in Options if acceptable\n --> <input>:1:8\n  |\n1 | {a: 1, a: 2}\n  |        ^ duplicate mapping key: a, set DuplicateKeyPolicy in Options if acceptable",
//EXPECTED-END
];

#[test]
fn c20_layout_only_differential() {
    let actual = cases();
    if std::env::var_os("C20_DEMO_PRINT").is_some() {
        for a in &actual {
            println!("    {a:?},");
        }
        return;
    }
    assert!(actual.len() >= 30, "too few cases: {}", actual.len());
    let mut failures = Vec::new();
    for (i, a) in actual.iter().enumerate() {
        match EXPECTED.get(i) {
            Some(e) if *e == a => {}
            Some(e) => failures.push(format!("case {i}:\n  expected: {e:?}\n  actual:   {a:?}")),
            None => failures.push(format!("case {i}: no expectation; actual: {a:?}")),
        }
    }
    assert_eq!(actual.len(), EXPECTED.len(), "case count changed");
    assert!(failures.is_empty(), "{}", failures.join("\n"));
}
