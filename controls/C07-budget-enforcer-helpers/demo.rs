//! Differential test for the C07 (budget enforcement / usage report) refactoring.
//!
//! Every case renders its complete observable outcome (values, error texts with locations,
//! the usage reports handed to the callbacks) into one string; the strings are compared with
//! literals that were generated on the UNMODIFIED tree (run with `DEMO_PRINT=1` and
//! `--nocapture` to regenerate the table).

#![allow(deprecated)]

use serde_json::Value;
use serde_saphyr::budget::{Budget, BudgetReport, EnforcingPolicy, check_yaml_budget};
use serde_saphyr::Options;
use std::cell::RefCell;
use std::rc::Rc;

type Sink = Rc<RefCell<Vec<String>>>;

fn b() -> Budget {
    Budget::default()
}

fn show<T: serde::Serialize>(res: Result<T, serde_saphyr::Error>) -> String {
    match res {
        Ok(v) => format!("Ok({})", serde_json::to_string(&v).unwrap()),
        Err(e) => format!("Err({e})"),
    }
}

fn options(budget: Budget, sink: &Sink, snippet: bool) -> Options {
    let sink = sink.clone();
    let opts = serde_saphyr::options! {
        budget: Some(budget),
        with_snippet: snippet,
    };
    opts.with_budget_report(move |r: BudgetReport| sink.borrow_mut().push(format!("{r:?}")))
}

fn reports(sink: &Sink) -> String {
    format!("reports={:?}", sink.borrow())
}

/// The bare scanner (`BudgetEnforcer` driven by the parser's own event stream).
fn scan(input: &str, budget: Budget, policy: EnforcingPolicy) -> String {
    match check_yaml_budget(input, budget, policy) {
        Ok(r) => format!("{r:?}"),
        Err(e) => format!("ScanError({e})"),
    }
}

fn single(input: &str, budget: Budget) -> String {
    let sink = Sink::default();
    let res = serde_saphyr::from_str_with_options::<Value>(input, options(budget, &sink, false));
    format!("{} {}", show(res), reports(&sink))
}

fn single_snippet(input: &str, budget: Budget) -> String {
    let sink = Sink::default();
    let res = serde_saphyr::from_str_with_options::<Value>(input, options(budget, &sink, true));
    format!("{} {}", show(res), reports(&sink))
}

fn multi(input: &str, budget: Budget) -> String {
    let sink = Sink::default();
    let res =
        serde_saphyr::from_multiple_with_options::<Value>(input, options(budget, &sink, false));
    format!("{} {}", show(res), reports(&sink))
}

fn reader_single(input: &str, budget: Budget) -> String {
    let sink = Sink::default();
    let res = serde_saphyr::from_reader_with_options::<_, Value>(
        std::io::Cursor::new(input.as_bytes()),
        options(budget, &sink, false),
    );
    format!("{} {}", show(res), reports(&sink))
}

/// The streaming iterator: per-document enforcement.
fn stream<T: serde::de::DeserializeOwned + serde::Serialize>(
    input: &str,
    budget: Budget,
) -> String {
    let sink = Sink::default();
    let mut cursor = std::io::Cursor::new(input.as_bytes());
    let items: Vec<String> = {
        let iter = serde_saphyr::read_with_options::<_, T>(
            &mut cursor,
            options(budget, &sink, false),
        );
        iter.take(50).map(show).collect()
    };
    format!("[{}] {}", items.join(" ; "), reports(&sink))
}

thread_local! {
    static FN_SINK: RefCell<Vec<String>> = const { RefCell::new(Vec::new()) };
}

fn fn_callback(r: &BudgetReport) {
    FN_SINK.with(|s| s.borrow_mut().push(format!("fn:{r:?}")));
}

/// Both the plain function callback and the closure callback are configured.
fn single_both_callbacks(input: &str, budget: Budget) -> String {
    FN_SINK.with(|s| s.borrow_mut().clear());
    let sink = Sink::default();
    let mut opts = options(budget, &sink, false);
    opts.budget_report = Some(fn_callback);
    let res = serde_saphyr::from_str_with_options::<Value>(input, opts);
    let fn_reports = FN_SINK.with(|s| s.borrow().clone());
    format!("{} {} fn_reports={:?}", show(res), reports(&sink), fn_reports)
}

#[derive(Debug, serde::Deserialize, serde::Serialize)]
struct Small {
    id: u32,
}

const ANCHORS: &str = "a: &A 1\nb: &B [x, y]\nc: &C {k: v}\nd: *A\ne: *B\nf: *C\n";
const MERGE: &str = "base: &B\n  k: 1\n  j: 2\none:\n  <<: *B\n  x: 1\ntwo:\n  <<: *B\n  y: 2\n";
const MERGE_ODD: &str = "\"<<\": quoted\n? <<\n: {p: 1}\nv: <<\nseq: [<<, <<]\n!!str <<: tagged\nnested: {'<<': 1, <<: {q: 2}, r: <<}\n";
const NESTED_MERGE: &str =
    "inner: &I {<<: {p: 1}, q: 2}\nouter: &O\n  <<: *I\n  r: 3\nuse1: *O\nuse2:\n  <<: *O\n";
const ALIAS_KEYS: &str = "k: &K key\nm:\n  *K : v1\n  <<: {z: 1}\nn: [*K, *K]\n";
const COMPLEX_KEYS: &str = "? [a, b]\n: c\n? {x: 1}\n: <<\n<<: {y: 2}\n? &S [1, 2]\n: *S\n";
const DEEP: &str = "a:\n  b:\n    - c:\n        - [1, [2, [3]]]\n";
const DOCS: &str = "id: 1\n---\nid: 2\n---\nid: 3\n";
const DOCS_ALIASES: &str =
    "a: &A 1\nb: [*A, *A, *A]\n---\nx: 1\n---\nc: &C 2\nd: &D 3\ne: [*C, *D]\n---\nid: 9\n";
const UTF8: &str = "k: \"héllo wörld ✓\"\nj: '日本語'\n";
const REPLAY_BIG: &str = "big: &B [1, 2, 3, {a: [4, 5], b: 6}]\nr1: *B\nr2: *B\n";

fn cases() -> Vec<(String, String)> {
    let mut out: Vec<(String, String)> = Vec::new();
    let mut add = |name: &str, result: String| out.push((name.to_string(), result));
    use EnforcingPolicy::{AllContent, PerDocument};

    // ---- plain usage reports -------------------------------------------------------------
    add("scan/anchors/default", scan(ANCHORS, b(), AllContent));
    add("single/anchors/default", single(ANCHORS, b()));
    add("scan/merge/default", scan(MERGE, b(), AllContent));
    add("single/merge/default", single(MERGE, b()));
    add("scan/merge_odd/default", scan(MERGE_ODD, b(), AllContent));
    add("single/merge_odd/default", single(MERGE_ODD, b()));
    add("scan/nested_merge/default", scan(NESTED_MERGE, b(), AllContent));
    add("single/nested_merge/default", single(NESTED_MERGE, b()));
    add("scan/alias_keys/default", scan(ALIAS_KEYS, b(), AllContent));
    add("single/alias_keys/default", single(ALIAS_KEYS, b()));
    add("scan/complex_keys/default", scan(COMPLEX_KEYS, b(), AllContent));
    add("single/complex_keys/default", single(COMPLEX_KEYS, b()));
    add("scan/deep/default", scan(DEEP, b(), AllContent));
    add("single/deep/default", single(DEEP, b()));
    add("scan/utf8/default", scan(UTF8, b(), AllContent));
    add("single/utf8/default", single(UTF8, b()));
    add("scan/replay_big/default", scan(REPLAY_BIG, b(), AllContent));
    add("single/replay_big/default", single(REPLAY_BIG, b()));
    add("reader/replay_big/default", reader_single(REPLAY_BIG, b()));
    add("both_callbacks/merge", single_both_callbacks(MERGE, b()));

    // ---- empty and degenerate inputs -----------------------------------------------------
    add("scan/empty", scan("", b(), AllContent));
    add("single/empty", single("", b()));
    add("single/only_comment", single("# nothing\n", b()));
    add("single/explicit_empty_doc", single("---\n...\n", b()));
    add("multi/empty", multi("", b()));
    add("stream/empty", stream::<Value>("", b()));
    add("single/scalar", single("42", b()));
    add("scan/bad_yaml", scan("a: [1, 2\nb: }", b(), AllContent));
    add("single/bad_yaml", single("a: [1, 2\nb: }", b()));
    add("single/unknown_alias", single("a: *nope\n", b()));
    add("single/recursive_anchor", single("a: &A [1, *A]\n", b()));

    // ---- every limit at the exact boundary and one below --------------------------------
    // events: scan of ANCHORS sees fewer events than the deserializer (replays are counted).
    for n in [0usize, 1, 2, 22, 23, 24, 27, 28, 29, 30, 31, 32] {
        let budget = Budget {
            max_events: n,
            ..b()
        };
        add(&format!("scan/anchors/max_events={n}"), scan(ANCHORS, budget.clone(), AllContent));
        add(&format!("single/anchors/max_events={n}"), single(ANCHORS, budget));
    }
    for n in [0usize, 1, 13, 14, 15, 19, 20, 21, 22] {
        let budget = Budget {
            max_nodes: n,
            ..b()
        };
        add(&format!("scan/anchors/max_nodes={n}"), scan(ANCHORS, budget.clone(), AllContent));
        add(&format!("single/anchors/max_nodes={n}"), single(ANCHORS, budget));
    }
    for n in [0usize, 1, 5, 6, 7, 8] {
        let budget = Budget {
            max_depth: n,
            ..b()
        };
        add(&format!("scan/deep/max_depth={n}"), scan(DEEP, budget.clone(), AllContent));
        add(&format!("single/deep/max_depth={n}"), single(DEEP, budget));
    }
    for n in [0usize, 1, 2, 3, 4] {
        let budget = Budget {
            max_depth: n,
            ..b()
        };
        add(&format!("single/replay_big/max_depth={n}"), single(REPLAY_BIG, budget));
    }
    // Replayed events are counted: the limits below sit between the raw count and the
    // raw-plus-replayed count, and exactly at the latter.
    for (field, budget) in [
        ("max_nodes=15", Budget { max_nodes: 15, ..b() }),
        ("max_nodes=16", Budget { max_nodes: 16, ..b() }),
        ("max_nodes=36", Budget { max_nodes: 36, ..b() }),
        ("max_nodes=37", Budget { max_nodes: 37, ..b() }),
        ("max_events=25", Budget { max_events: 25, ..b() }),
        ("max_events=52", Budget { max_events: 52, ..b() }),
        ("max_events=53", Budget { max_events: 53, ..b() }),
        ("max_scalar_bytes=15", Budget { max_total_scalar_bytes: 15, ..b() }),
        ("max_scalar_bytes=30", Budget { max_total_scalar_bytes: 30, ..b() }),
        ("max_scalar_bytes=31", Budget { max_total_scalar_bytes: 31, ..b() }),
    ] {
        add(&format!("scan/replay_big/{field}"), scan(REPLAY_BIG, budget.clone(), AllContent));
        add(&format!("single/replay_big/{field}"), single(REPLAY_BIG, budget.clone()));
        add(&format!("reader/replay_big/{field}"), reader_single(REPLAY_BIG, budget));
    }
    for n in [0usize, 2, 3, 4] {
        let budget = Budget {
            max_aliases: n,
            ..b()
        };
        add(&format!("scan/anchors/max_aliases={n}"), scan(ANCHORS, budget.clone(), AllContent));
        add(&format!("single/anchors/max_aliases={n}"), single(ANCHORS, budget));
    }
    for n in [0usize, 1, 2, 3, 4] {
        let budget = Budget {
            max_anchors: n,
            ..b()
        };
        add(&format!("scan/anchors/max_anchors={n}"), scan(ANCHORS, budget.clone(), AllContent));
        add(&format!("single/anchors/max_anchors={n}"), single(ANCHORS, budget));
    }
    for n in [0usize, 1, 17, 18, 27, 28, 29] {
        let budget = Budget {
            max_total_scalar_bytes: n,
            ..b()
        };
        add(&format!("scan/utf8/max_scalar_bytes={n}"), scan(UTF8, budget.clone(), AllContent));
        add(&format!("single/utf8/max_scalar_bytes={n}"), single(UTF8, budget));
    }
    for n in [0usize, 1, 2, 3] {
        let budget = Budget {
            max_merge_keys: n,
            ..b()
        };
        add(&format!("scan/merge/max_merge_keys={n}"), scan(MERGE, budget.clone(), AllContent));
        add(&format!("single/merge/max_merge_keys={n}"), single(MERGE, budget.clone()));
        add(&format!("scan/merge_odd/max_merge_keys={n}"), scan(MERGE_ODD, budget.clone(), AllContent));
        add(&format!("single/merge_odd/max_merge_keys={n}"), single(MERGE_ODD, budget));
    }
    for n in [0usize, 1, 2, 3, 4, 5, 6, 7, 8] {
        let budget = Budget {
            max_merge_keys: n,
            ..b()
        };
        add(&format!("single/nested_merge/max_merge_keys={n}"), single(NESTED_MERGE, budget.clone()));
        add(&format!("single/alias_keys/max_merge_keys={n}"), single(ALIAS_KEYS, budget.clone()));
        add(&format!("single/complex_keys/max_merge_keys={n}"), single(COMPLEX_KEYS, budget));
    }
    for n in [0usize, 1, 2, 3, 4] {
        let budget = Budget {
            max_documents: n,
            ..b()
        };
        add(&format!("scan/docs/max_documents={n}"), scan(DOCS, budget.clone(), AllContent));
        add(&format!("scan_per_doc/docs/max_documents={n}"), scan(DOCS, budget.clone(), PerDocument));
        add(&format!("multi/docs/max_documents={n}"), multi(DOCS, budget.clone()));
        add(&format!("stream/docs/max_documents={n}"), stream::<Small>(DOCS, budget.clone()));
        add(&format!("single/docs/max_documents={n}"), single(DOCS, budget));
    }

    // ---- alias/anchor ratio heuristic (delayed breach, surfaced at the end) -------------
    for (min, mult, enforce) in [
        (0usize, 10usize, true),
        (0, 0, true),
        (1, 0, true),
        (1, 1, true),
        (3, 1, true),
        (4, 1, true),
        (3, 0, true),
        (3, 0, false),
        (5, 2, true),
        (6, 1, true),
        (1, usize::MAX, true),
    ] {
        let budget = Budget {
            alias_anchor_min_aliases: min,
            alias_anchor_ratio_multiplier: mult,
            enforce_alias_anchor_ratio: enforce,
            ..b()
        };
        let tag = format!("ratio(min={min},mult={mult},on={enforce})");
        add(&format!("scan/anchors/{tag}"), scan(ANCHORS, budget.clone(), AllContent));
        add(&format!("single/anchors/{tag}"), single(ANCHORS, budget.clone()));
        add(&format!("single/scalar/{tag}"), single("just a scalar\n", budget.clone()));
        add(&format!("scan/docs_aliases/{tag}"), scan(DOCS_ALIASES, budget.clone(), AllContent));
        add(&format!("scan_per_doc/docs_aliases/{tag}"), scan(DOCS_ALIASES, budget.clone(), PerDocument));
        add(&format!("multi/docs_aliases/{tag}"), multi(DOCS_ALIASES, budget.clone()));
        add(&format!("stream/docs_aliases/{tag}"), stream::<Value>(DOCS_ALIASES, budget));
    }
    add(
        "single_snippet/anchors/ratio",
        single_snippet(
            ANCHORS,
            Budget {
                alias_anchor_min_aliases: 1,
                alias_anchor_ratio_multiplier: 0,
                ..b()
            },
        ),
    );
    add(
        "both_callbacks/anchors/ratio",
        single_both_callbacks(
            ANCHORS,
            Budget {
                alias_anchor_min_aliases: 1,
                alias_anchor_ratio_multiplier: 0,
                ..b()
            },
        ),
    );
    add(
        "single_snippet/merge/max_merge_keys=1",
        single_snippet(
            MERGE,
            Budget {
                max_merge_keys: 1,
                ..b()
            },
        ),
    );
    add(
        "both_callbacks/anchors/max_nodes=15",
        single_both_callbacks(
            ANCHORS,
            Budget {
                max_nodes: 15,
                ..b()
            },
        ),
    );

    // ---- per-document enforcement in the streaming iterator ------------------------------
    // Each document of DOCS is tiny: limits that fit one document fit any number of them.
    for (field, budget) in [
        ("max_events=5", Budget { max_events: 5, ..b() }),
        ("max_events=6", Budget { max_events: 6, ..b() }),
        ("max_events=7", Budget { max_events: 7, ..b() }),
        ("max_nodes=2", Budget { max_nodes: 2, ..b() }),
        ("max_nodes=3", Budget { max_nodes: 3, ..b() }),
        ("max_depth=0", Budget { max_depth: 0, ..b() }),
        ("max_depth=1", Budget { max_depth: 1, ..b() }),
        ("max_scalar_bytes=2", Budget { max_total_scalar_bytes: 2, ..b() }),
        ("max_scalar_bytes=3", Budget { max_total_scalar_bytes: 3, ..b() }),
    ] {
        add(&format!("stream/docs/{field}"), stream::<Small>(DOCS, budget.clone()));
        add(&format!("multi/docs/{field}"), multi(DOCS, budget.clone()));
        add(&format!("scan_per_doc/docs/{field}"), scan(DOCS, budget, PerDocument));
    }
    for (field, budget) in [
        ("max_aliases=1", Budget { max_aliases: 1, ..b() }),
        ("max_aliases=2", Budget { max_aliases: 2, ..b() }),
        ("max_aliases=3", Budget { max_aliases: 3, ..b() }),
        ("max_aliases=5", Budget { max_aliases: 5, ..b() }),
        ("max_anchors=0", Budget { max_anchors: 0, ..b() }),
        ("max_anchors=1", Budget { max_anchors: 1, ..b() }),
        ("max_anchors=2", Budget { max_anchors: 2, ..b() }),
        ("max_anchors=3", Budget { max_anchors: 3, ..b() }),
        ("max_nodes=5", Budget { max_nodes: 5, ..b() }),
        ("max_nodes=7", Budget { max_nodes: 7, ..b() }),
        ("max_nodes=8", Budget { max_nodes: 8, ..b() }),
        ("max_nodes=9", Budget { max_nodes: 9, ..b() }),
        ("max_nodes=10", Budget { max_nodes: 10, ..b() }),
        ("max_events=13", Budget { max_events: 13, ..b() }),
        ("max_events=14", Budget { max_events: 14, ..b() }),
        ("max_events=15", Budget { max_events: 15, ..b() }),
        ("max_events=16", Budget { max_events: 16, ..b() }),
    ] {
        add(&format!("stream/docs_aliases/{field}"), stream::<Value>(DOCS_ALIASES, budget.clone()));
        add(&format!("multi/docs_aliases/{field}"), multi(DOCS_ALIASES, budget.clone()));
        add(&format!("scan/docs_aliases/{field}"), scan(DOCS_ALIASES, budget.clone(), AllContent));
        add(&format!("scan_per_doc/docs_aliases/{field}"), scan(DOCS_ALIASES, budget, PerDocument));
    }
    // A document that fails to deserialize (type error) is skipped without being observed;
    // the following documents start from a clean slate.
    let mixed = "id: 1\n---\nid: [not, a, number, &X at, *X, *X]\nmore: {a: {b: {c: d}}}\n---\nid: 3\n---\n- wrong shape\n---\nid: 5\n";
    for (field, budget) in [
        ("default", b()),
        ("max_nodes=3", Budget { max_nodes: 3, ..b() }),
        ("max_nodes=2", Budget { max_nodes: 2, ..b() }),
        ("max_depth=1", Budget { max_depth: 1, ..b() }),
        ("max_events=6", Budget { max_events: 6, ..b() }),
        ("max_events=5", Budget { max_events: 5, ..b() }),
        ("max_aliases=0", Budget { max_aliases: 0, ..b() }),
    ] {
        add(&format!("stream/mixed/{field}"), stream::<Small>(mixed, budget.clone()));
        add(&format!("stream_value/mixed/{field}"), stream::<Value>(mixed, budget));
    }
    // Merge keys and replays per document.
    let merge_docs = "b: &B {k: 1}\nu: {<<: *B}\n---\nb: &B {k: 2}\nu: {<<: *B}\nv: {<<: *B}\n---\nplain: 1\n";
    for n in [0usize, 1, 2, 3] {
        let budget = Budget {
            max_merge_keys: n,
            ..b()
        };
        add(&format!("stream/merge_docs/max_merge_keys={n}"), stream::<Value>(merge_docs, budget.clone()));
        add(&format!("multi/merge_docs/max_merge_keys={n}"), multi(merge_docs, budget.clone()));
        add(&format!("scan_per_doc/merge_docs/max_merge_keys={n}"), scan(merge_docs, budget, PerDocument));
    }
    // Null-like and empty documents in a stream.
    let sparse = "---\n---\n~\n---\nid: 1\n---\n\n---\nnull\n---\nid: 2\n...\n";
    add("stream/sparse/default", stream::<Option<Small>>(sparse, b()));
    add("multi/sparse/default", multi(sparse, b()));
    add("scan/sparse/default", scan(sparse, b(), AllContent));
    add("scan_per_doc/sparse/default", scan(sparse, b(), PerDocument));
    add(
        "stream/sparse/max_events=4",
        stream::<Option<Small>>(sparse, Budget { max_events: 4, ..b() }),
    );
    add(
        "multi/sparse/max_documents=5",
        multi(sparse, Budget { max_documents: 5, ..b() }),
    );
    add(
        "multi/sparse/max_documents=6",
        multi(sparse, Budget { max_documents: 6, ..b() }),
    );
    add(
        "multi/sparse/max_documents=7",
        multi(sparse, Budget { max_documents: 7, ..b() }),
    );

    // ---- no budget at all: nothing observed, nothing reported ---------------------------
    {
        let sink = Sink::default();
        let cb_sink = sink.clone();
        let opts = serde_saphyr::options! { budget: None, with_snippet: false }
            .with_budget_report(move |r: BudgetReport| cb_sink.borrow_mut().push(format!("{r:?}")));
        let res = serde_saphyr::from_str_with_options::<Value>(REPLAY_BIG, opts);
        add("single/replay_big/no_budget", format!("{} {}", show(res), reports(&sink)));
    }

    out
}

/// Generated on the unmodified tree with `DEMO_PRINT=1 cargo test --test demo -- --nocapture`.
#[rustfmt::skip]
const EXPECTED: &[(&str, &str)] = &[
    ("scan/anchors/default", "BudgetReport { breached: None, events: 24, aliases: 3, anchors: 3, documents: 1, nodes: 14, max_depth: 2, total_scalar_bytes: 11, merge_keys: 0 }"),
    ("single/anchors/default", "Ok({\"a\":1,\"b\":[\"x\",true],\"c\":{\"k\":\"v\"},\"d\":1,\"e\":[\"x\",true],\"f\":{\"k\":\"v\"}}) reports=[\"BudgetReport { breached: None, events: 33, aliases: 3, anchors: 3, documents: 1, nodes: 21, max_depth: 2, total_scalar_bytes: 16, merge_keys: 0 }\"]"),
    ("scan/merge/default", "BudgetReport { breached: None, events: 27, aliases: 2, anchors: 1, documents: 1, nodes: 17, max_depth: 2, total_scalar_bytes: 22, merge_keys: 2 }"),
    ("single/merge/default", "Ok({\"base\":{\"k\":1,\"j\":2},\"one\":{\"x\":1,\"k\":1,\"j\":2},\"two\":{\"y\":2,\"k\":1,\"j\":2}}) reports=[\"BudgetReport { breached: None, events: 39, aliases: 2, anchors: 1, documents: 1, nodes: 27, max_depth: 3, total_scalar_bytes: 30, merge_keys: 2 }\"]"),
    ("scan/merge_odd/default", "BudgetReport { breached: None, events: 34, aliases: 0, anchors: 0, documents: 1, nodes: 25, max_depth: 3, total_scalar_bytes: 46, merge_keys: 2 }"),
    ("single/merge_odd/default", "Ok({\"<<\":\"tagged\",\"v\":\"<<\",\"seq\":[\"<<\",\"<<\"],\"nested\":{\"<<\":1,\"r\":\"<<\",\"q\":2},\"p\":1}) reports=[\"BudgetReport { breached: None, events: 34, aliases: 0, anchors: 0, documents: 1, nodes: 25, max_depth: 3, total_scalar_bytes: 46, merge_keys: 2 }\"]"),
    ("scan/nested_merge/default", "BudgetReport { breached: None, events: 30, aliases: 3, anchors: 2, documents: 1, nodes: 18, max_depth: 3, total_scalar_bytes: 30, merge_keys: 3 }"),
    ("single/nested_merge/default", "Ok({\"inner\":{\"q\":2,\"p\":1},\"outer\":{\"r\":3,\"q\":2,\"p\":1},\"use1\":{\"r\":3,\"q\":2,\"p\":1},\"use2\":{\"r\":3,\"q\":2,\"p\":1}}) reports=[\"BudgetReport { breached: None, events: 67, aliases: 3, anchors: 2, documents: 1, nodes: 47, max_depth: 5, total_scalar_bytes: 56, merge_keys: 8 }\"]"),
    ("scan/alias_keys/default", "BudgetReport { breached: None, events: 23, aliases: 3, anchors: 1, documents: 1, nodes: 12, max_depth: 3, total_scalar_bytes: 12, merge_keys: 1 }"),
    ("single/alias_keys/default", "Ok({\"k\":\"key\",\"m\":{\"key\":\"v1\",\"z\":1},\"n\":[\"key\",\"key\"]}) reports=[\"BudgetReport { breached: None, events: 26, aliases: 3, anchors: 1, documents: 1, nodes: 15, max_depth: 3, total_scalar_bytes: 21, merge_keys: 1 }\"]"),
    ("scan/complex_keys/default", "BudgetReport { breached: None, events: 26, aliases: 1, anchors: 1, documents: 1, nodes: 16, max_depth: 2, total_scalar_bytes: 13, merge_keys: 1 }"),
    ("single/complex_keys/default", "Err(unexpected event: expected string scalar at line 1, column 3) reports=[]"),
    ("scan/deep/default", "BudgetReport { breached: None, events: 26, aliases: 0, anchors: 0, documents: 1, nodes: 14, max_depth: 8, total_scalar_bytes: 6, merge_keys: 0 }"),
    ("single/deep/default", "Ok({\"a\":{\"b\":[{\"c\":[[1,[2,[3]]]]}]}}) reports=[\"BudgetReport { breached: None, events: 26, aliases: 0, anchors: 0, documents: 1, nodes: 14, max_depth: 8, total_scalar_bytes: 6, merge_keys: 0 }\"]"),
    ("scan/utf8/default", "BudgetReport { breached: None, events: 10, aliases: 0, anchors: 0, documents: 1, nodes: 5, max_depth: 1, total_scalar_bytes: 28, merge_keys: 0 }"),
    ("single/utf8/default", "Ok({\"k\":\"héllo wörld ✓\",\"j\":\"日本語\"}) reports=[\"BudgetReport { breached: None, events: 10, aliases: 0, anchors: 0, documents: 1, nodes: 5, max_depth: 1, total_scalar_bytes: 28, merge_keys: 0 }\"]"),
    ("scan/replay_big/default", "BudgetReport { breached: None, events: 25, aliases: 2, anchors: 1, documents: 1, nodes: 15, max_depth: 4, total_scalar_bytes: 15, merge_keys: 0 }"),
    ("single/replay_big/default", "Ok({\"big\":[1,2,3,{\"a\":[4,5],\"b\":6}],\"r1\":[1,2,3,{\"a\":[4,5],\"b\":6}],\"r2\":[1,2,3,{\"a\":[4,5],\"b\":6}]}) reports=[\"BudgetReport { breached: None, events: 53, aliases: 2, anchors: 1, documents: 1, nodes: 37, max_depth: 4, total_scalar_bytes: 31, merge_keys: 0 }\"]"),
    ("reader/replay_big/default", "Ok({\"big\":[1,2,3,{\"a\":[4,5],\"b\":6}],\"r1\":[1,2,3,{\"a\":[4,5],\"b\":6}],\"r2\":[1,2,3,{\"a\":[4,5],\"b\":6}]}) reports=[\"BudgetReport { breached: None, events: 53, aliases: 2, anchors: 1, documents: 1, nodes: 37, max_depth: 4, total_scalar_bytes: 31, merge_keys: 0 }\"]"),
    ("both_callbacks/merge", "Ok({\"base\":{\"k\":1,\"j\":2},\"one\":{\"x\":1,\"k\":1,\"j\":2},\"two\":{\"y\":2,\"k\":1,\"j\":2}}) reports=[\"BudgetReport { breached: None, events: 39, aliases: 2, anchors: 1, documents: 1, nodes: 27, max_depth: 3, total_scalar_bytes: 30, merge_keys: 2 }\"] fn_reports=[\"fn:BudgetReport { breached: None, events: 39, aliases: 2, anchors: 1, documents: 1, nodes: 27, max_depth: 3, total_scalar_bytes: 30, merge_keys: 2 }\"]"),
    ("scan/empty", "BudgetReport { breached: None, events: 2, aliases: 0, anchors: 0, documents: 0, nodes: 0, max_depth: 0, total_scalar_bytes: 0, merge_keys: 0 }"),
    ("single/empty", "Ok(null) reports=[\"BudgetReport { breached: None, events: 2, aliases: 0, anchors: 0, documents: 0, nodes: 0, max_depth: 0, total_scalar_bytes: 0, merge_keys: 0 }\"]"),
    ("single/only_comment", "Ok(null) reports=[\"BudgetReport { breached: None, events: 2, aliases: 0, anchors: 0, documents: 0, nodes: 0, max_depth: 0, total_scalar_bytes: 0, merge_keys: 0 }\"]"),
    ("single/explicit_empty_doc", "Ok(null) reports=[\"BudgetReport { breached: None, events: 5, aliases: 0, anchors: 0, documents: 1, nodes: 1, max_depth: 0, total_scalar_bytes: 1, merge_keys: 0 }\"]"),
    ("multi/empty", "Ok([]) reports=[\"BudgetReport { breached: None, events: 2, aliases: 0, anchors: 0, documents: 0, nodes: 0, max_depth: 0, total_scalar_bytes: 0, merge_keys: 0 }\"]"),
    ("stream/empty", "[] reports=[\"BudgetReport { breached: None, events: 2, aliases: 0, anchors: 0, documents: 0, nodes: 0, max_depth: 0, total_scalar_bytes: 0, merge_keys: 0 }\"]"),
    ("single/scalar", "Ok(42) reports=[\"BudgetReport { breached: None, events: 5, aliases: 0, anchors: 0, documents: 1, nodes: 1, max_depth: 0, total_scalar_bytes: 2, merge_keys: 0 }\"]"),
    ("scan/bad_yaml", "ScanError(illegal placement of ':' indicator at char 10 line 2 column 2)"),
    ("single/bad_yaml", "Err(illegal placement of ':' indicator at line 2, column 2) reports=[]"),
    ("single/unknown_alias", "Err(alias references unknown anchor at line 1, column 4) reports=[]"),
    ("single/recursive_anchor", "Err(recursive references require weak recursion types at line 1, column 11) reports=[]"),
    ("scan/anchors/max_events=0", "BudgetReport { breached: Some(Events { events: 1 }), events: 1, aliases: 0, anchors: 0, documents: 0, nodes: 0, max_depth: 0, total_scalar_bytes: 0, merge_keys: 0 }"),
    ("single/anchors/max_events=0", "Err(budget breached: Events { events: 1 } at line 1, column 1) reports=[]"),
    ("scan/anchors/max_events=1", "BudgetReport { breached: Some(Events { events: 2 }), events: 2, aliases: 0, anchors: 0, documents: 0, nodes: 0, max_depth: 0, total_scalar_bytes: 0, merge_keys: 0 }"),
    ("single/anchors/max_events=1", "Err(budget breached: Events { events: 2 } at line 1, column 1) reports=[]"),
    ("scan/anchors/max_events=2", "BudgetReport { breached: Some(Events { events: 3 }), events: 3, aliases: 0, anchors: 0, documents: 1, nodes: 0, max_depth: 0, total_scalar_bytes: 0, merge_keys: 0 }"),
    ("single/anchors/max_events=2", "Err(budget breached: Events { events: 3 } at line 1, column 1) reports=[]"),
    ("scan/anchors/max_events=22", "BudgetReport { breached: Some(Events { events: 23 }), events: 23, aliases: 3, anchors: 3, documents: 1, nodes: 14, max_depth: 2, total_scalar_bytes: 11, merge_keys: 0 }"),
    ("single/anchors/max_events=22", "Err(budget breached: Events { events: 23 } at line 2, column 11 (defined at line 2, column 7) at line 5, column 4) reports=[]"),
    ("scan/anchors/max_events=23", "BudgetReport { breached: Some(Events { events: 24 }), events: 24, aliases: 3, anchors: 3, documents: 1, nodes: 14, max_depth: 2, total_scalar_bytes: 11, merge_keys: 0 }"),
    ("single/anchors/max_events=23", "Err(budget breached: Events { events: 24 } at line 2, column 12 (defined at line 2, column 7) at line 5, column 4) reports=[]"),
    ("scan/anchors/max_events=24", "BudgetReport { breached: None, events: 24, aliases: 3, anchors: 3, documents: 1, nodes: 14, max_depth: 2, total_scalar_bytes: 11, merge_keys: 0 }"),
    ("single/anchors/max_events=24", "Err(budget breached: Events { events: 25 } at line 6, column 1) reports=[]"),
    ("scan/anchors/max_events=27", "BudgetReport { breached: None, events: 24, aliases: 3, anchors: 3, documents: 1, nodes: 14, max_depth: 2, total_scalar_bytes: 11, merge_keys: 0 }"),
    ("single/anchors/max_events=27", "Err(budget breached: Events { events: 28 } at line 3, column 8 (defined at line 3, column 7) at line 6, column 4) reports=[]"),
    ("scan/anchors/max_events=28", "BudgetReport { breached: None, events: 24, aliases: 3, anchors: 3, documents: 1, nodes: 14, max_depth: 2, total_scalar_bytes: 11, merge_keys: 0 }"),
    ("single/anchors/max_events=28", "Err(budget breached: Events { events: 29 } at line 3, column 11 (defined at line 3, column 7) at line 6, column 4) reports=[]"),
    ("scan/anchors/max_events=29", "BudgetReport { breached: None, events: 24, aliases: 3, anchors: 3, documents: 1, nodes: 14, max_depth: 2, total_scalar_bytes: 11, merge_keys: 0 }"),
    ("single/anchors/max_events=29", "Err(budget breached: Events { events: 30 } at line 3, column 12 (defined at line 3, column 7) at line 6, column 4) reports=[]"),
    ("scan/anchors/max_events=30", "BudgetReport { breached: None, events: 24, aliases: 3, anchors: 3, documents: 1, nodes: 14, max_depth: 2, total_scalar_bytes: 11, merge_keys: 0 }"),
    ("single/anchors/max_events=30", "Err(budget breached: Events { events: 31 } at line 7, column 1) reports=[]"),
    ("scan/anchors/max_events=31", "BudgetReport { breached: None, events: 24, aliases: 3, anchors: 3, documents: 1, nodes: 14, max_depth: 2, total_scalar_bytes: 11, merge_keys: 0 }"),
    ("single/anchors/max_events=31", "Err(budget breached: Events { events: 32 } at line 7, column 1) reports=[]"),
    ("scan/anchors/max_events=32", "BudgetReport { breached: None, events: 24, aliases: 3, anchors: 3, documents: 1, nodes: 14, max_depth: 2, total_scalar_bytes: 11, merge_keys: 0 }"),
    ("single/anchors/max_events=32", "Ok({\"a\":1,\"b\":[\"x\",true],\"c\":{\"k\":\"v\"},\"d\":1,\"e\":[\"x\",true],\"f\":{\"k\":\"v\"}}) reports=[\"BudgetReport { breached: None, events: 33, aliases: 3, anchors: 3, documents: 1, nodes: 21, max_depth: 2, total_scalar_bytes: 16, merge_keys: 0 }\"]"),
    ("scan/anchors/max_nodes=0", "BudgetReport { breached: Some(Nodes { nodes: 1 }), events: 3, aliases: 0, anchors: 0, documents: 1, nodes: 1, max_depth: 0, total_scalar_bytes: 0, merge_keys: 0 }"),
    ("single/anchors/max_nodes=0", "Err(budget breached: Nodes { nodes: 1 } at line 1, column 1) reports=[]"),
    ("scan/anchors/max_nodes=1", "BudgetReport { breached: Some(Nodes { nodes: 2 }), events: 4, aliases: 0, anchors: 0, documents: 1, nodes: 2, max_depth: 1, total_scalar_bytes: 0, merge_keys: 0 }"),
    ("single/anchors/max_nodes=1", "Err(budget breached: Nodes { nodes: 2 } at line 1, column 1) reports=[]"),
    ("scan/anchors/max_nodes=13", "BudgetReport { breached: Some(Nodes { nodes: 14 }), events: 20, aliases: 2, anchors: 3, documents: 1, nodes: 14, max_depth: 2, total_scalar_bytes: 10, merge_keys: 0 }"),
    ("single/anchors/max_nodes=13", "Err(budget breached: Nodes { nodes: 14 } at line 5, column 1) reports=[]"),
    ("scan/anchors/max_nodes=14", "BudgetReport { breached: None, events: 24, aliases: 3, anchors: 3, documents: 1, nodes: 14, max_depth: 2, total_scalar_bytes: 11, merge_keys: 0 }"),
    ("single/anchors/max_nodes=14", "Err(budget breached: Nodes { nodes: 15 } at line 2, column 7) reports=[]"),
    ("scan/anchors/max_nodes=15", "BudgetReport { breached: None, events: 24, aliases: 3, anchors: 3, documents: 1, nodes: 14, max_depth: 2, total_scalar_bytes: 11, merge_keys: 0 }"),
    ("single/anchors/max_nodes=15", "Err(budget breached: Nodes { nodes: 16 } at line 2, column 8 (defined at line 2, column 7) at line 5, column 4) reports=[]"),
    ("scan/anchors/max_nodes=19", "BudgetReport { breached: None, events: 24, aliases: 3, anchors: 3, documents: 1, nodes: 14, max_depth: 2, total_scalar_bytes: 11, merge_keys: 0 }"),
    ("single/anchors/max_nodes=19", "Err(budget breached: Nodes { nodes: 20 } at line 3, column 8 (defined at line 3, column 7) at line 6, column 4) reports=[]"),
    ("scan/anchors/max_nodes=20", "BudgetReport { breached: None, events: 24, aliases: 3, anchors: 3, documents: 1, nodes: 14, max_depth: 2, total_scalar_bytes: 11, merge_keys: 0 }"),
    ("single/anchors/max_nodes=20", "Err(budget breached: Nodes { nodes: 21 } at line 3, column 11 (defined at line 3, column 7) at line 6, column 4) reports=[]"),
    ("scan/anchors/max_nodes=21", "BudgetReport { breached: None, events: 24, aliases: 3, anchors: 3, documents: 1, nodes: 14, max_depth: 2, total_scalar_bytes: 11, merge_keys: 0 }"),
    ("single/anchors/max_nodes=21", "Ok({\"a\":1,\"b\":[\"x\",true],\"c\":{\"k\":\"v\"},\"d\":1,\"e\":[\"x\",true],\"f\":{\"k\":\"v\"}}) reports=[\"BudgetReport { breached: None, events: 33, aliases: 3, anchors: 3, documents: 1, nodes: 21, max_depth: 2, total_scalar_bytes: 16, merge_keys: 0 }\"]"),
    ("scan/anchors/max_nodes=22", "BudgetReport { breached: None, events: 24, aliases: 3, anchors: 3, documents: 1, nodes: 14, max_depth: 2, total_scalar_bytes: 11, merge_keys: 0 }"),
    ("single/anchors/max_nodes=22", "Ok({\"a\":1,\"b\":[\"x\",true],\"c\":{\"k\":\"v\"},\"d\":1,\"e\":[\"x\",true],\"f\":{\"k\":\"v\"}}) reports=[\"BudgetReport { breached: None, events: 33, aliases: 3, anchors: 3, documents: 1, nodes: 21, max_depth: 2, total_scalar_bytes: 16, merge_keys: 0 }\"]"),
    ("scan/deep/max_depth=0", "BudgetReport { breached: Some(Depth { depth: 1 }), events: 3, aliases: 0, anchors: 0, documents: 1, nodes: 1, max_depth: 1, total_scalar_bytes: 0, merge_keys: 0 }"),
    ("single/deep/max_depth=0", "Err(budget breached: Depth { depth: 1 } at line 1, column 1) reports=[]"),
    ("scan/deep/max_depth=1", "BudgetReport { breached: Some(Depth { depth: 2 }), events: 5, aliases: 0, anchors: 0, documents: 1, nodes: 3, max_depth: 2, total_scalar_bytes: 1, merge_keys: 0 }"),
    ("single/deep/max_depth=1", "Err(budget breached: Depth { depth: 2 } at line 2, column 3) reports=[]"),
    ("scan/deep/max_depth=5", "BudgetReport { breached: Some(Depth { depth: 6 }), events: 11, aliases: 0, anchors: 0, documents: 1, nodes: 9, max_depth: 6, total_scalar_bytes: 3, merge_keys: 0 }"),
    ("single/deep/max_depth=5", "Err(budget breached: Depth { depth: 6 } at line 4, column 11) reports=[]"),
    ("scan/deep/max_depth=6", "BudgetReport { breached: Some(Depth { depth: 7 }), events: 13, aliases: 0, anchors: 0, documents: 1, nodes: 11, max_depth: 7, total_scalar_bytes: 4, merge_keys: 0 }"),
    ("single/deep/max_depth=6", "Err(budget breached: Depth { depth: 7 } at line 4, column 15) reports=[]"),
    ("scan/deep/max_depth=7", "BudgetReport { breached: Some(Depth { depth: 8 }), events: 15, aliases: 0, anchors: 0, documents: 1, nodes: 13, max_depth: 8, total_scalar_bytes: 5, merge_keys: 0 }"),
    ("single/deep/max_depth=7", "Err(budget breached: Depth { depth: 8 } at line 4, column 19) reports=[]"),
    ("scan/deep/max_depth=8", "BudgetReport { breached: None, events: 26, aliases: 0, anchors: 0, documents: 1, nodes: 14, max_depth: 8, total_scalar_bytes: 6, merge_keys: 0 }"),
    ("single/deep/max_depth=8", "Ok({\"a\":{\"b\":[{\"c\":[[1,[2,[3]]]]}]}}) reports=[\"BudgetReport { breached: None, events: 26, aliases: 0, anchors: 0, documents: 1, nodes: 14, max_depth: 8, total_scalar_bytes: 6, merge_keys: 0 }\"]"),
    ("single/replay_big/max_depth=0", "Err(budget breached: Depth { depth: 1 } at line 1, column 1) reports=[]"),
    ("single/replay_big/max_depth=1", "Err(budget breached: Depth { depth: 2 } at line 1, column 9) reports=[]"),
    ("single/replay_big/max_depth=2", "Err(budget breached: Depth { depth: 3 } at line 1, column 19) reports=[]"),
    ("single/replay_big/max_depth=3", "Err(budget breached: Depth { depth: 4 } at line 1, column 23) reports=[]"),
    ("single/replay_big/max_depth=4", "Ok({\"big\":[1,2,3,{\"a\":[4,5],\"b\":6}],\"r1\":[1,2,3,{\"a\":[4,5],\"b\":6}],\"r2\":[1,2,3,{\"a\":[4,5],\"b\":6}]}) reports=[\"BudgetReport { breached: None, events: 53, aliases: 2, anchors: 1, documents: 1, nodes: 37, max_depth: 4, total_scalar_bytes: 31, merge_keys: 0 }\"]"),
    ("scan/replay_big/max_nodes=15", "BudgetReport { breached: None, events: 25, aliases: 2, anchors: 1, documents: 1, nodes: 15, max_depth: 4, total_scalar_bytes: 15, merge_keys: 0 }"),
    ("single/replay_big/max_nodes=15", "Err(budget breached: Nodes { nodes: 16 } at line 1, column 10 (defined at line 1, column 9) at line 2, column 5) reports=[]"),
    ("reader/replay_big/max_nodes=15", "Err(error: line 2 column 5: budget breached: Nodes { nodes: 16 } at line 1, column 10\n --> the value is used here:2:5\n  |\n1 | big: &B [1, 2, 3, {a: [4, 5], b: 6}]\n2 | r1: *B\n  |     ^ budget breached: Nodes { nodes: 16 } at line 1, column 10\n3 | r2: *B\n  |\n  | This value comes indirectly from the anchor at line 1 column 9:\n  |\n1 | big: &B [1, 2, 3, {a: [4, 5], b: 6}]\n  |         ^ defined here\n2 | r1: *B\n3 | r2: *B\n  |\n) reports=[]"),
    ("scan/replay_big/max_nodes=16", "BudgetReport { breached: None, events: 25, aliases: 2, anchors: 1, documents: 1, nodes: 15, max_depth: 4, total_scalar_bytes: 15, merge_keys: 0 }"),
    ("single/replay_big/max_nodes=16", "Err(budget breached: Nodes { nodes: 17 } at line 1, column 13 (defined at line 1, column 9) at line 2, column 5) reports=[]"),
    ("reader/replay_big/max_nodes=16", "Err(error: line 2 column 5: budget breached: Nodes { nodes: 17 } at line 1, column 13\n --> the value is used here:2:5\n  |\n1 | big: &B [1, 2, 3, {a: [4, 5], b: 6}]\n2 | r1: *B\n  |     ^ budget breached: Nodes { nodes: 17 } at line 1, column 13\n3 | r2: *B\n  |\n  | This value comes indirectly from the anchor at line 1 column 9:\n  |\n1 | big: &B [1, 2, 3, {a: [4, 5], b: 6}]\n  |         ^ defined here\n2 | r1: *B\n3 | r2: *B\n  |\n) reports=[]"),
    ("scan/replay_big/max_nodes=36", "BudgetReport { breached: None, events: 25, aliases: 2, anchors: 1, documents: 1, nodes: 15, max_depth: 4, total_scalar_bytes: 15, merge_keys: 0 }"),
    ("single/replay_big/max_nodes=36", "Err(budget breached: Nodes { nodes: 37 } at line 1, column 34 (defined at line 1, column 19) at line 3, column 5 (defined at line 1, column 9) at line 3, column 5) reports=[]"),
    ("reader/replay_big/max_nodes=36", "Err(error: line 3 column 5: budget breached: Nodes { nodes: 37 } at line 1, column 34 (defined at line 1, column 19) at line 3, column 5\n --> the value is used here:3:5\n  |\n1 | big: &B [1, 2, 3, {a: [4, 5], b: 6}]\n2 | r1: *B\n3 | r2: *B\n  |     ^ budget breached: Nodes { nodes: 37 } at line 1, column 34 (defined at line 1, column 19) at line 3, column 5\n  | This value comes indirectly from the anchor at line 1 column 9:\n  |\n1 | big: &B [1, 2, 3, {a: [4, 5], b: 6}]\n  |         ^ defined here\n2 | r1: *B\n3 | r2: *B\n  |\n) reports=[]"),
    ("scan/replay_big/max_nodes=37", "BudgetReport { breached: None, events: 25, aliases: 2, anchors: 1, documents: 1, nodes: 15, max_depth: 4, total_scalar_bytes: 15, merge_keys: 0 }"),
    ("single/replay_big/max_nodes=37", "Ok({\"big\":[1,2,3,{\"a\":[4,5],\"b\":6}],\"r1\":[1,2,3,{\"a\":[4,5],\"b\":6}],\"r2\":[1,2,3,{\"a\":[4,5],\"b\":6}]}) reports=[\"BudgetReport { breached: None, events: 53, aliases: 2, anchors: 1, documents: 1, nodes: 37, max_depth: 4, total_scalar_bytes: 31, merge_keys: 0 }\"]"),
    ("reader/replay_big/max_nodes=37", "Ok({\"big\":[1,2,3,{\"a\":[4,5],\"b\":6}],\"r1\":[1,2,3,{\"a\":[4,5],\"b\":6}],\"r2\":[1,2,3,{\"a\":[4,5],\"b\":6}]}) reports=[\"BudgetReport { breached: None, events: 53, aliases: 2, anchors: 1, documents: 1, nodes: 37, max_depth: 4, total_scalar_bytes: 31, merge_keys: 0 }\"]"),
    ("scan/replay_big/max_events=25", "BudgetReport { breached: None, events: 25, aliases: 2, anchors: 1, documents: 1, nodes: 15, max_depth: 4, total_scalar_bytes: 15, merge_keys: 0 }"),
    ("single/replay_big/max_events=25", "Err(budget breached: Events { events: 26 } at line 1, column 20 (defined at line 1, column 19) at line 2, column 5 (defined at line 1, column 9) at line 2, column 5) reports=[]"),
    ("reader/replay_big/max_events=25", "Err(error: line 2 column 5: budget breached: Events { events: 26 } at line 1, column 20 (defined at line 1, column 19) at line 2, column 5\n --> the value is used here:2:5\n  |\n1 | big: &B [1, 2, 3, {a: [4, 5], b: 6}]\n2 | r1: *B\n  |     ^ budget breached: Events { events: 26 } at line 1, column 20 (defined at line 1, column 19) at line 2, column 5\n3 | r2: *B\n  |\n  | This value comes indirectly from the anchor at line 1 column 9:\n  |\n1 | big: &B [1, 2, 3, {a: [4, 5], b: 6}]\n  |         ^ defined here\n2 | r1: *B\n3 | r2: *B\n  |\n) reports=[]"),
    ("scan/replay_big/max_events=52", "BudgetReport { breached: None, events: 25, aliases: 2, anchors: 1, documents: 1, nodes: 15, max_depth: 4, total_scalar_bytes: 15, merge_keys: 0 }"),
    ("single/replay_big/max_events=52", "Ok({\"big\":[1,2,3,{\"a\":[4,5],\"b\":6}],\"r1\":[1,2,3,{\"a\":[4,5],\"b\":6}],\"r2\":[1,2,3,{\"a\":[4,5],\"b\":6}]}) reports=[\"BudgetReport { breached: None, events: 53, aliases: 2, anchors: 1, documents: 1, nodes: 37, max_depth: 4, total_scalar_bytes: 31, merge_keys: 0 }\"]"),
    ("reader/replay_big/max_events=52", "Ok({\"big\":[1,2,3,{\"a\":[4,5],\"b\":6}],\"r1\":[1,2,3,{\"a\":[4,5],\"b\":6}],\"r2\":[1,2,3,{\"a\":[4,5],\"b\":6}]}) reports=[\"BudgetReport { breached: None, events: 53, aliases: 2, anchors: 1, documents: 1, nodes: 37, max_depth: 4, total_scalar_bytes: 31, merge_keys: 0 }\"]"),
    ("scan/replay_big/max_events=53", "BudgetReport { breached: None, events: 25, aliases: 2, anchors: 1, documents: 1, nodes: 15, max_depth: 4, total_scalar_bytes: 15, merge_keys: 0 }"),
    ("single/replay_big/max_events=53", "Ok({\"big\":[1,2,3,{\"a\":[4,5],\"b\":6}],\"r1\":[1,2,3,{\"a\":[4,5],\"b\":6}],\"r2\":[1,2,3,{\"a\":[4,5],\"b\":6}]}) reports=[\"BudgetReport { breached: None, events: 53, aliases: 2, anchors: 1, documents: 1, nodes: 37, max_depth: 4, total_scalar_bytes: 31, merge_keys: 0 }\"]"),
    ("reader/replay_big/max_events=53", "Ok({\"big\":[1,2,3,{\"a\":[4,5],\"b\":6}],\"r1\":[1,2,3,{\"a\":[4,5],\"b\":6}],\"r2\":[1,2,3,{\"a\":[4,5],\"b\":6}]}) reports=[\"BudgetReport { breached: None, events: 53, aliases: 2, anchors: 1, documents: 1, nodes: 37, max_depth: 4, total_scalar_bytes: 31, merge_keys: 0 }\"]"),
    ("scan/replay_big/max_scalar_bytes=15", "BudgetReport { breached: None, events: 25, aliases: 2, anchors: 1, documents: 1, nodes: 15, max_depth: 4, total_scalar_bytes: 15, merge_keys: 0 }"),
    ("single/replay_big/max_scalar_bytes=15", "Err(budget breached: ScalarBytes { total_scalar_bytes: 16 } at line 1, column 16 (defined at line 1, column 9) at line 2, column 5) reports=[]"),
    ("reader/replay_big/max_scalar_bytes=15", "Err(error: line 2 column 5: budget breached: ScalarBytes { total_scalar_bytes: 16 } at line 1, column 16\n --> the value is used here:2:5\n  |\n1 | big: &B [1, 2, 3, {a: [4, 5], b: 6}]\n2 | r1: *B\n  |     ^ budget breached: ScalarBytes { total_scalar_bytes: 16 } at line 1, column 16\n3 | r2: *B\n  |\n  | This value comes indirectly from the anchor at line 1 column 9:\n  |\n1 | big: &B [1, 2, 3, {a: [4, 5], b: 6}]\n  |         ^ defined here\n2 | r1: *B\n3 | r2: *B\n  |\n) reports=[]"),
    ("scan/replay_big/max_scalar_bytes=30", "BudgetReport { breached: None, events: 25, aliases: 2, anchors: 1, documents: 1, nodes: 15, max_depth: 4, total_scalar_bytes: 15, merge_keys: 0 }"),
    ("single/replay_big/max_scalar_bytes=30", "Err(budget breached: ScalarBytes { total_scalar_bytes: 31 } at line 1, column 34 (defined at line 1, column 19) at line 3, column 5 (defined at line 1, column 9) at line 3, column 5) reports=[]"),
    ("reader/replay_big/max_scalar_bytes=30", "Err(error: line 3 column 5: budget breached: ScalarBytes { total_scalar_bytes: 31 } at line 1, column 34 (defined at line 1, column 19) at line 3, column 5\n --> the value is used here:3:5\n  |\n1 | big: &B [1, 2, 3, {a: [4, 5], b: 6}]\n2 | r1: *B\n3 | r2: *B\n  |     ^ budget breached: ScalarBytes { total_scalar_bytes: 31 } at line 1, column 34 (defined at line 1, column 19) at line 3, column 5\n  | This value comes indirectly from the anchor at line 1 column 9:\n  |\n1 | big: &B [1, 2, 3, {a: [4, 5], b: 6}]\n  |         ^ defined here\n2 | r1: *B\n3 | r2: *B\n  |\n) reports=[]"),
    ("scan/replay_big/max_scalar_bytes=31", "BudgetReport { breached: None, events: 25, aliases: 2, anchors: 1, documents: 1, nodes: 15, max_depth: 4, total_scalar_bytes: 15, merge_keys: 0 }"),
    ("single/replay_big/max_scalar_bytes=31", "Ok({\"big\":[1,2,3,{\"a\":[4,5],\"b\":6}],\"r1\":[1,2,3,{\"a\":[4,5],\"b\":6}],\"r2\":[1,2,3,{\"a\":[4,5],\"b\":6}]}) reports=[\"BudgetReport { breached: None, events: 53, aliases: 2, anchors: 1, documents: 1, nodes: 37, max_depth: 4, total_scalar_bytes: 31, merge_keys: 0 }\"]"),
    ("reader/replay_big/max_scalar_bytes=31", "Ok({\"big\":[1,2,3,{\"a\":[4,5],\"b\":6}],\"r1\":[1,2,3,{\"a\":[4,5],\"b\":6}],\"r2\":[1,2,3,{\"a\":[4,5],\"b\":6}]}) reports=[\"BudgetReport { breached: None, events: 53, aliases: 2, anchors: 1, documents: 1, nodes: 37, max_depth: 4, total_scalar_bytes: 31, merge_keys: 0 }\"]"),
    ("scan/anchors/max_aliases=0", "BudgetReport { breached: Some(Aliases { aliases: 1 }), events: 17, aliases: 1, anchors: 3, documents: 1, nodes: 12, max_depth: 2, total_scalar_bytes: 9, merge_keys: 0 }"),
    ("single/anchors/max_aliases=0", "Err(budget breached: Aliases { aliases: 1 } at line 4, column 4) reports=[]"),
    ("scan/anchors/max_aliases=2", "BudgetReport { breached: Some(Aliases { aliases: 3 }), events: 21, aliases: 3, anchors: 3, documents: 1, nodes: 14, max_depth: 2, total_scalar_bytes: 11, merge_keys: 0 }"),
    ("single/anchors/max_aliases=2", "Err(budget breached: Aliases { aliases: 3 } at line 6, column 4) reports=[]"),
    ("scan/anchors/max_aliases=3", "BudgetReport { breached: None, events: 24, aliases: 3, anchors: 3, documents: 1, nodes: 14, max_depth: 2, total_scalar_bytes: 11, merge_keys: 0 }"),
    ("single/anchors/max_aliases=3", "Ok({\"a\":1,\"b\":[\"x\",true],\"c\":{\"k\":\"v\"},\"d\":1,\"e\":[\"x\",true],\"f\":{\"k\":\"v\"}}) reports=[\"BudgetReport { breached: None, events: 33, aliases: 3, anchors: 3, documents: 1, nodes: 21, max_depth: 2, total_scalar_bytes: 16, merge_keys: 0 }\"]"),
    ("scan/anchors/max_aliases=4", "BudgetReport { breached: None, events: 24, aliases: 3, anchors: 3, documents: 1, nodes: 14, max_depth: 2, total_scalar_bytes: 11, merge_keys: 0 }"),
    ("single/anchors/max_aliases=4", "Ok({\"a\":1,\"b\":[\"x\",true],\"c\":{\"k\":\"v\"},\"d\":1,\"e\":[\"x\",true],\"f\":{\"k\":\"v\"}}) reports=[\"BudgetReport { breached: None, events: 33, aliases: 3, anchors: 3, documents: 1, nodes: 21, max_depth: 2, total_scalar_bytes: 16, merge_keys: 0 }\"]"),
    ("scan/anchors/max_anchors=0", "BudgetReport { breached: Some(Anchors { anchors: 1 }), events: 5, aliases: 0, anchors: 1, documents: 1, nodes: 3, max_depth: 1, total_scalar_bytes: 2, merge_keys: 0 }"),
    ("single/anchors/max_anchors=0", "Err(budget breached: Anchors { anchors: 1 } at line 1, column 7) reports=[]"),
    ("scan/anchors/max_anchors=1", "BudgetReport { breached: Some(Anchors { anchors: 2 }), events: 7, aliases: 0, anchors: 2, documents: 1, nodes: 5, max_depth: 2, total_scalar_bytes: 3, merge_keys: 0 }"),
    ("single/anchors/max_anchors=1", "Err(budget breached: Anchors { anchors: 2 } at line 2, column 7) reports=[]"),
    ("scan/anchors/max_anchors=2", "BudgetReport { breached: Some(Anchors { anchors: 3 }), events: 12, aliases: 0, anchors: 3, documents: 1, nodes: 9, max_depth: 2, total_scalar_bytes: 6, merge_keys: 0 }"),
    ("single/anchors/max_anchors=2", "Err(budget breached: Anchors { anchors: 3 } at line 3, column 7) reports=[]"),
    ("scan/anchors/max_anchors=3", "BudgetReport { breached: None, events: 24, aliases: 3, anchors: 3, documents: 1, nodes: 14, max_depth: 2, total_scalar_bytes: 11, merge_keys: 0 }"),
    ("single/anchors/max_anchors=3", "Ok({\"a\":1,\"b\":[\"x\",true],\"c\":{\"k\":\"v\"},\"d\":1,\"e\":[\"x\",true],\"f\":{\"k\":\"v\"}}) reports=[\"BudgetReport { breached: None, events: 33, aliases: 3, anchors: 3, documents: 1, nodes: 21, max_depth: 2, total_scalar_bytes: 16, merge_keys: 0 }\"]"),
    ("scan/anchors/max_anchors=4", "BudgetReport { breached: None, events: 24, aliases: 3, anchors: 3, documents: 1, nodes: 14, max_depth: 2, total_scalar_bytes: 11, merge_keys: 0 }"),
    ("single/anchors/max_anchors=4", "Ok({\"a\":1,\"b\":[\"x\",true],\"c\":{\"k\":\"v\"},\"d\":1,\"e\":[\"x\",true],\"f\":{\"k\":\"v\"}}) reports=[\"BudgetReport { breached: None, events: 33, aliases: 3, anchors: 3, documents: 1, nodes: 21, max_depth: 2, total_scalar_bytes: 16, merge_keys: 0 }\"]"),
    ("scan/utf8/max_scalar_bytes=0", "BudgetReport { breached: Some(ScalarBytes { total_scalar_bytes: 1 }), events: 4, aliases: 0, anchors: 0, documents: 1, nodes: 2, max_depth: 1, total_scalar_bytes: 1, merge_keys: 0 }"),
    ("single/utf8/max_scalar_bytes=0", "Err(budget breached: ScalarBytes { total_scalar_bytes: 1 } at line 1, column 1) reports=[]"),
    ("scan/utf8/max_scalar_bytes=1", "BudgetReport { breached: Some(ScalarBytes { total_scalar_bytes: 18 }), events: 5, aliases: 0, anchors: 0, documents: 1, nodes: 3, max_depth: 1, total_scalar_bytes: 18, merge_keys: 0 }"),
    ("single/utf8/max_scalar_bytes=1", "Err(budget breached: ScalarBytes { total_scalar_bytes: 18 } at line 1, column 4) reports=[]"),
    ("scan/utf8/max_scalar_bytes=17", "BudgetReport { breached: Some(ScalarBytes { total_scalar_bytes: 18 }), events: 5, aliases: 0, anchors: 0, documents: 1, nodes: 3, max_depth: 1, total_scalar_bytes: 18, merge_keys: 0 }"),
    ("single/utf8/max_scalar_bytes=17", "Err(budget breached: ScalarBytes { total_scalar_bytes: 18 } at line 1, column 4) reports=[]"),
    ("scan/utf8/max_scalar_bytes=18", "BudgetReport { breached: Some(ScalarBytes { total_scalar_bytes: 19 }), events: 6, aliases: 0, anchors: 0, documents: 1, nodes: 4, max_depth: 1, total_scalar_bytes: 19, merge_keys: 0 }"),
    ("single/utf8/max_scalar_bytes=18", "Err(budget breached: ScalarBytes { total_scalar_bytes: 19 } at line 2, column 1) reports=[]"),
    ("scan/utf8/max_scalar_bytes=27", "BudgetReport { breached: Some(ScalarBytes { total_scalar_bytes: 28 }), events: 7, aliases: 0, anchors: 0, documents: 1, nodes: 5, max_depth: 1, total_scalar_bytes: 28, merge_keys: 0 }"),
    ("single/utf8/max_scalar_bytes=27", "Err(budget breached: ScalarBytes { total_scalar_bytes: 28 } at line 2, column 4) reports=[]"),
    ("scan/utf8/max_scalar_bytes=28", "BudgetReport { breached: None, events: 10, aliases: 0, anchors: 0, documents: 1, nodes: 5, max_depth: 1, total_scalar_bytes: 28, merge_keys: 0 }"),
    ("single/utf8/max_scalar_bytes=28", "Ok({\"k\":\"héllo wörld ✓\",\"j\":\"日本語\"}) reports=[\"BudgetReport { breached: None, events: 10, aliases: 0, anchors: 0, documents: 1, nodes: 5, max_depth: 1, total_scalar_bytes: 28, merge_keys: 0 }\"]"),
    ("scan/utf8/max_scalar_bytes=29", "BudgetReport { breached: None, events: 10, aliases: 0, anchors: 0, documents: 1, nodes: 5, max_depth: 1, total_scalar_bytes: 28, merge_keys: 0 }"),
    ("single/utf8/max_scalar_bytes=29", "Ok({\"k\":\"héllo wörld ✓\",\"j\":\"日本語\"}) reports=[\"BudgetReport { breached: None, events: 10, aliases: 0, anchors: 0, documents: 1, nodes: 5, max_depth: 1, total_scalar_bytes: 28, merge_keys: 0 }\"]"),
    ("scan/merge/max_merge_keys=0", "BudgetReport { breached: Some(MergeKeys { merge_keys: 1 }), events: 13, aliases: 0, anchors: 1, documents: 1, nodes: 10, max_depth: 2, total_scalar_bytes: 13, merge_keys: 1 }"),
    ("single/merge/max_merge_keys=0", "Err(budget breached: MergeKeys { merge_keys: 1 } at line 5, column 3) reports=[]"),
    ("scan/merge_odd/max_merge_keys=0", "BudgetReport { breached: Some(MergeKeys { merge_keys: 1 }), events: 6, aliases: 0, anchors: 0, documents: 1, nodes: 4, max_depth: 1, total_scalar_bytes: 10, merge_keys: 1 }"),
    ("single/merge_odd/max_merge_keys=0", "Err(budget breached: MergeKeys { merge_keys: 1 } at line 2, column 3) reports=[]"),
    ("scan/merge/max_merge_keys=1", "BudgetReport { breached: Some(MergeKeys { merge_keys: 2 }), events: 20, aliases: 1, anchors: 1, documents: 1, nodes: 15, max_depth: 2, total_scalar_bytes: 20, merge_keys: 2 }"),
    ("single/merge/max_merge_keys=1", "Err(budget breached: MergeKeys { merge_keys: 2 } at line 8, column 3) reports=[]"),
    ("scan/merge_odd/max_merge_keys=1", "BudgetReport { breached: Some(MergeKeys { merge_keys: 2 }), events: 24, aliases: 0, anchors: 0, documents: 1, nodes: 20, max_depth: 2, total_scalar_bytes: 41, merge_keys: 2 }"),
    ("single/merge_odd/max_merge_keys=1", "Err(budget breached: MergeKeys { merge_keys: 2 } at line 7, column 19) reports=[]"),
    ("scan/merge/max_merge_keys=2", "BudgetReport { breached: None, events: 27, aliases: 2, anchors: 1, documents: 1, nodes: 17, max_depth: 2, total_scalar_bytes: 22, merge_keys: 2 }"),
    ("single/merge/max_merge_keys=2", "Ok({\"base\":{\"k\":1,\"j\":2},\"one\":{\"x\":1,\"k\":1,\"j\":2},\"two\":{\"y\":2,\"k\":1,\"j\":2}}) reports=[\"BudgetReport { breached: None, events: 39, aliases: 2, anchors: 1, documents: 1, nodes: 27, max_depth: 3, total_scalar_bytes: 30, merge_keys: 2 }\"]"),
    ("scan/merge_odd/max_merge_keys=2", "BudgetReport { breached: None, events: 34, aliases: 0, anchors: 0, documents: 1, nodes: 25, max_depth: 3, total_scalar_bytes: 46, merge_keys: 2 }"),
    ("single/merge_odd/max_merge_keys=2", "Ok({\"<<\":\"tagged\",\"v\":\"<<\",\"seq\":[\"<<\",\"<<\"],\"nested\":{\"<<\":1,\"r\":\"<<\",\"q\":2},\"p\":1}) reports=[\"BudgetReport { breached: None, events: 34, aliases: 0, anchors: 0, documents: 1, nodes: 25, max_depth: 3, total_scalar_bytes: 46, merge_keys: 2 }\"]"),
    ("scan/merge/max_merge_keys=3", "BudgetReport { breached: None, events: 27, aliases: 2, anchors: 1, documents: 1, nodes: 17, max_depth: 2, total_scalar_bytes: 22, merge_keys: 2 }"),
    ("single/merge/max_merge_keys=3", "Ok({\"base\":{\"k\":1,\"j\":2},\"one\":{\"x\":1,\"k\":1,\"j\":2},\"two\":{\"y\":2,\"k\":1,\"j\":2}}) reports=[\"BudgetReport { breached: None, events: 39, aliases: 2, anchors: 1, documents: 1, nodes: 27, max_depth: 3, total_scalar_bytes: 30, merge_keys: 2 }\"]"),
    ("scan/merge_odd/max_merge_keys=3", "BudgetReport { breached: None, events: 34, aliases: 0, anchors: 0, documents: 1, nodes: 25, max_depth: 3, total_scalar_bytes: 46, merge_keys: 2 }"),
    ("single/merge_odd/max_merge_keys=3", "Ok({\"<<\":\"tagged\",\"v\":\"<<\",\"seq\":[\"<<\",\"<<\"],\"nested\":{\"<<\":1,\"r\":\"<<\",\"q\":2},\"p\":1}) reports=[\"BudgetReport { breached: None, events: 34, aliases: 0, anchors: 0, documents: 1, nodes: 25, max_depth: 3, total_scalar_bytes: 46, merge_keys: 2 }\"]"),
    ("single/nested_merge/max_merge_keys=0", "Err(budget breached: MergeKeys { merge_keys: 1 } at line 1, column 12) reports=[]"),
    ("single/alias_keys/max_merge_keys=0", "Err(budget breached: MergeKeys { merge_keys: 1 } at line 4, column 3) reports=[]"),
    ("single/complex_keys/max_merge_keys=0", "Err(unexpected event: expected string scalar at line 1, column 3) reports=[]"),
    ("single/nested_merge/max_merge_keys=1", "Err(budget breached: MergeKeys { merge_keys: 2 } at line 3, column 3) reports=[]"),
    ("single/alias_keys/max_merge_keys=1", "Ok({\"k\":\"key\",\"m\":{\"key\":\"v1\",\"z\":1},\"n\":[\"key\",\"key\"]}) reports=[\"BudgetReport { breached: None, events: 26, aliases: 3, anchors: 1, documents: 1, nodes: 15, max_depth: 3, total_scalar_bytes: 21, merge_keys: 1 }\"]"),
    ("single/complex_keys/max_merge_keys=1", "Err(unexpected event: expected string scalar at line 1, column 3) reports=[]"),
    ("single/nested_merge/max_merge_keys=2", "Err(budget breached: MergeKeys { merge_keys: 3 } at line 1, column 12) reports=[]"),
    ("single/alias_keys/max_merge_keys=2", "Ok({\"k\":\"key\",\"m\":{\"key\":\"v1\",\"z\":1},\"n\":[\"key\",\"key\"]}) reports=[\"BudgetReport { breached: None, events: 26, aliases: 3, anchors: 1, documents: 1, nodes: 15, max_depth: 3, total_scalar_bytes: 21, merge_keys: 1 }\"]"),
    ("single/complex_keys/max_merge_keys=2", "Err(unexpected event: expected string scalar at line 1, column 3) reports=[]"),
    ("single/nested_merge/max_merge_keys=3", "Err(budget breached: MergeKeys { merge_keys: 4 } at line 3, column 3 (defined at line 3, column 3) at line 5, column 7) reports=[]"),
    ("single/alias_keys/max_merge_keys=3", "Ok({\"k\":\"key\",\"m\":{\"key\":\"v1\",\"z\":1},\"n\":[\"key\",\"key\"]}) reports=[\"BudgetReport { breached: None, events: 26, aliases: 3, anchors: 1, documents: 1, nodes: 15, max_depth: 3, total_scalar_bytes: 21, merge_keys: 1 }\"]"),
    ("single/complex_keys/max_merge_keys=3", "Err(unexpected event: expected string scalar at line 1, column 3) reports=[]"),
    ("single/nested_merge/max_merge_keys=4", "Err(budget breached: MergeKeys { merge_keys: 5 } at line 1, column 12 (defined at line 3, column 3) at line 5, column 7) reports=[]"),
    ("single/alias_keys/max_merge_keys=4", "Ok({\"k\":\"key\",\"m\":{\"key\":\"v1\",\"z\":1},\"n\":[\"key\",\"key\"]}) reports=[\"BudgetReport { breached: None, events: 26, aliases: 3, anchors: 1, documents: 1, nodes: 15, max_depth: 3, total_scalar_bytes: 21, merge_keys: 1 }\"]"),
    ("single/complex_keys/max_merge_keys=4", "Err(unexpected event: expected string scalar at line 1, column 3) reports=[]"),
    ("single/nested_merge/max_merge_keys=5", "Err(budget breached: MergeKeys { merge_keys: 6 } at line 7, column 3) reports=[]"),
    ("single/alias_keys/max_merge_keys=5", "Ok({\"k\":\"key\",\"m\":{\"key\":\"v1\",\"z\":1},\"n\":[\"key\",\"key\"]}) reports=[\"BudgetReport { breached: None, events: 26, aliases: 3, anchors: 1, documents: 1, nodes: 15, max_depth: 3, total_scalar_bytes: 21, merge_keys: 1 }\"]"),
    ("single/complex_keys/max_merge_keys=5", "Err(unexpected event: expected string scalar at line 1, column 3) reports=[]"),
    ("single/nested_merge/max_merge_keys=6", "Err(budget breached: MergeKeys { merge_keys: 7 } at line 3, column 3) reports=[]"),
    ("single/alias_keys/max_merge_keys=6", "Ok({\"k\":\"key\",\"m\":{\"key\":\"v1\",\"z\":1},\"n\":[\"key\",\"key\"]}) reports=[\"BudgetReport { breached: None, events: 26, aliases: 3, anchors: 1, documents: 1, nodes: 15, max_depth: 3, total_scalar_bytes: 21, merge_keys: 1 }\"]"),
    ("single/complex_keys/max_merge_keys=6", "Err(unexpected event: expected string scalar at line 1, column 3) reports=[]"),
    ("single/nested_merge/max_merge_keys=7", "Err(budget breached: MergeKeys { merge_keys: 8 } at line 1, column 12) reports=[]"),
    ("single/alias_keys/max_merge_keys=7", "Ok({\"k\":\"key\",\"m\":{\"key\":\"v1\",\"z\":1},\"n\":[\"key\",\"key\"]}) reports=[\"BudgetReport { breached: None, events: 26, aliases: 3, anchors: 1, documents: 1, nodes: 15, max_depth: 3, total_scalar_bytes: 21, merge_keys: 1 }\"]"),
    ("single/complex_keys/max_merge_keys=7", "Err(unexpected event: expected string scalar at line 1, column 3) reports=[]"),
    ("single/nested_merge/max_merge_keys=8", "Ok({\"inner\":{\"q\":2,\"p\":1},\"outer\":{\"r\":3,\"q\":2,\"p\":1},\"use1\":{\"r\":3,\"q\":2,\"p\":1},\"use2\":{\"r\":3,\"q\":2,\"p\":1}}) reports=[\"BudgetReport { breached: None, events: 67, aliases: 3, anchors: 2, documents: 1, nodes: 47, max_depth: 5, total_scalar_bytes: 56, merge_keys: 8 }\"]"),
    ("single/alias_keys/max_merge_keys=8", "Ok({\"k\":\"key\",\"m\":{\"key\":\"v1\",\"z\":1},\"n\":[\"key\",\"key\"]}) reports=[\"BudgetReport { breached: None, events: 26, aliases: 3, anchors: 1, documents: 1, nodes: 15, max_depth: 3, total_scalar_bytes: 21, merge_keys: 1 }\"]"),
    ("single/complex_keys/max_merge_keys=8", "Err(unexpected event: expected string scalar at line 1, column 3) reports=[]"),
    ("scan/docs/max_documents=0", "BudgetReport { breached: Some(Documents { documents: 1 }), events: 2, aliases: 0, anchors: 0, documents: 1, nodes: 0, max_depth: 0, total_scalar_bytes: 0, merge_keys: 0 }"),
    ("scan_per_doc/docs/max_documents=0", "BudgetReport { breached: None, events: 6, aliases: 0, anchors: 0, documents: 0, nodes: 3, max_depth: 1, total_scalar_bytes: 3, merge_keys: 0 }"),
    ("multi/docs/max_documents=0", "Err(budget breached: Documents { documents: 1 } at line 1, column 1) reports=[]"),
    ("stream/docs/max_documents=0", "[Ok({\"id\":1}) ; Ok({\"id\":2}) ; Ok({\"id\":3})] reports=[\"BudgetReport { breached: None, events: 6, aliases: 0, anchors: 0, documents: 0, nodes: 3, max_depth: 1, total_scalar_bytes: 3, merge_keys: 0 }\"]"),
    ("single/docs/max_documents=0", "Err(budget breached: Documents { documents: 1 } at line 1, column 1) reports=[]"),
    ("scan/docs/max_documents=1", "BudgetReport { breached: Some(Documents { documents: 2 }), events: 8, aliases: 0, anchors: 0, documents: 2, nodes: 3, max_depth: 1, total_scalar_bytes: 3, merge_keys: 0 }"),
    ("scan_per_doc/docs/max_documents=1", "BudgetReport { breached: None, events: 6, aliases: 0, anchors: 0, documents: 0, nodes: 3, max_depth: 1, total_scalar_bytes: 3, merge_keys: 0 }"),
    ("multi/docs/max_documents=1", "Err(budget breached: Documents { documents: 2 } at line 2, column 1) reports=[]"),
    ("stream/docs/max_documents=1", "[Ok({\"id\":1}) ; Ok({\"id\":2}) ; Ok({\"id\":3})] reports=[\"BudgetReport { breached: None, events: 6, aliases: 0, anchors: 0, documents: 0, nodes: 3, max_depth: 1, total_scalar_bytes: 3, merge_keys: 0 }\"]"),
    ("single/docs/max_documents=1", "Ok({\"id\":1}) reports=[\"BudgetReport { breached: None, events: 8, aliases: 0, anchors: 0, documents: 2, nodes: 3, max_depth: 1, total_scalar_bytes: 3, merge_keys: 0 }\"]"),
    ("scan/docs/max_documents=2", "BudgetReport { breached: Some(Documents { documents: 3 }), events: 14, aliases: 0, anchors: 0, documents: 3, nodes: 6, max_depth: 1, total_scalar_bytes: 6, merge_keys: 0 }"),
    ("scan_per_doc/docs/max_documents=2", "BudgetReport { breached: None, events: 6, aliases: 0, anchors: 0, documents: 0, nodes: 3, max_depth: 1, total_scalar_bytes: 3, merge_keys: 0 }"),
    ("multi/docs/max_documents=2", "Err(budget breached: Documents { documents: 3 } at line 4, column 1) reports=[]"),
    ("stream/docs/max_documents=2", "[Ok({\"id\":1}) ; Ok({\"id\":2}) ; Ok({\"id\":3})] reports=[\"BudgetReport { breached: None, events: 6, aliases: 0, anchors: 0, documents: 0, nodes: 3, max_depth: 1, total_scalar_bytes: 3, merge_keys: 0 }\"]"),
    ("single/docs/max_documents=2", "Err(multiple YAML documents detected; use from_multiple or from_multiple_with_options at line 3, column 1) reports=[]"),
    ("scan/docs/max_documents=3", "BudgetReport { breached: None, events: 20, aliases: 0, anchors: 0, documents: 3, nodes: 9, max_depth: 1, total_scalar_bytes: 9, merge_keys: 0 }"),
    ("scan_per_doc/docs/max_documents=3", "BudgetReport { breached: None, events: 6, aliases: 0, anchors: 0, documents: 0, nodes: 3, max_depth: 1, total_scalar_bytes: 3, merge_keys: 0 }"),
    ("multi/docs/max_documents=3", "Ok([{\"id\":1},{\"id\":2},{\"id\":3}]) reports=[\"BudgetReport { breached: None, events: 20, aliases: 0, anchors: 0, documents: 3, nodes: 9, max_depth: 1, total_scalar_bytes: 9, merge_keys: 0 }\"]"),
    ("stream/docs/max_documents=3", "[Ok({\"id\":1}) ; Ok({\"id\":2}) ; Ok({\"id\":3})] reports=[\"BudgetReport { breached: None, events: 6, aliases: 0, anchors: 0, documents: 0, nodes: 3, max_depth: 1, total_scalar_bytes: 3, merge_keys: 0 }\"]"),
    ("single/docs/max_documents=3", "Err(multiple YAML documents detected; use from_multiple or from_multiple_with_options at line 3, column 1) reports=[]"),
    ("scan/docs/max_documents=4", "BudgetReport { breached: None, events: 20, aliases: 0, anchors: 0, documents: 3, nodes: 9, max_depth: 1, total_scalar_bytes: 9, merge_keys: 0 }"),
    ("scan_per_doc/docs/max_documents=4", "BudgetReport { breached: None, events: 6, aliases: 0, anchors: 0, documents: 0, nodes: 3, max_depth: 1, total_scalar_bytes: 3, merge_keys: 0 }"),
    ("multi/docs/max_documents=4", "Ok([{\"id\":1},{\"id\":2},{\"id\":3}]) reports=[\"BudgetReport { breached: None, events: 20, aliases: 0, anchors: 0, documents: 3, nodes: 9, max_depth: 1, total_scalar_bytes: 9, merge_keys: 0 }\"]"),
    ("stream/docs/max_documents=4", "[Ok({\"id\":1}) ; Ok({\"id\":2}) ; Ok({\"id\":3})] reports=[\"BudgetReport { breached: None, events: 6, aliases: 0, anchors: 0, documents: 0, nodes: 3, max_depth: 1, total_scalar_bytes: 3, merge_keys: 0 }\"]"),
    ("single/docs/max_documents=4", "Err(multiple YAML documents detected; use from_multiple or from_multiple_with_options at line 3, column 1) reports=[]"),
    ("scan/anchors/ratio(min=0,mult=10,on=true)", "BudgetReport { breached: None, events: 24, aliases: 3, anchors: 3, documents: 1, nodes: 14, max_depth: 2, total_scalar_bytes: 11, merge_keys: 0 }"),
    ("single/anchors/ratio(min=0,mult=10,on=true)", "Ok({\"a\":1,\"b\":[\"x\",true],\"c\":{\"k\":\"v\"},\"d\":1,\"e\":[\"x\",true],\"f\":{\"k\":\"v\"}}) reports=[\"BudgetReport { breached: None, events: 33, aliases: 3, anchors: 3, documents: 1, nodes: 21, max_depth: 2, total_scalar_bytes: 16, merge_keys: 0 }\"]"),
    ("single/scalar/ratio(min=0,mult=10,on=true)", "Err(budget breached: AliasAnchorRatio { aliases: 0, anchors: 0 } at line 2, column 1) reports=[\"BudgetReport { breached: Some(AliasAnchorRatio { aliases: 0, anchors: 0 }), events: 5, aliases: 0, anchors: 0, documents: 1, nodes: 1, max_depth: 0, total_scalar_bytes: 13, merge_keys: 0 }\"]"),
    ("scan/docs_aliases/ratio(min=0,mult=10,on=true)", "BudgetReport { breached: None, events: 39, aliases: 5, anchors: 3, documents: 4, nodes: 18, max_depth: 2, total_scalar_bytes: 13, merge_keys: 0 }"),
    ("scan_per_doc/docs_aliases/ratio(min=0,mult=10,on=true)", "BudgetReport { breached: Some(AliasAnchorRatio { aliases: 0, anchors: 0 }), events: 5, aliases: 0, anchors: 0, documents: 0, nodes: 3, max_depth: 1, total_scalar_bytes: 2, merge_keys: 0 }"),
    ("multi/docs_aliases/ratio(min=0,mult=10,on=true)", "Ok([{\"a\":1,\"b\":[1,1,1]},{\"x\":1},{\"c\":2,\"d\":3,\"e\":[2,3]},{\"id\":9}]) reports=[\"BudgetReport { breached: None, events: 44, aliases: 5, anchors: 3, documents: 4, nodes: 23, max_depth: 2, total_scalar_bytes: 18, merge_keys: 0 }\"]"),
    ("stream/docs_aliases/ratio(min=0,mult=10,on=true)", "[Ok({\"a\":1,\"b\":[1,1,1]}) ; Ok({\"x\":1}) ; Err(budget breached: AliasAnchorRatio { aliases: 0, anchors: 0 } at line 5, column 1)] reports=[\"BudgetReport { breached: Some(AliasAnchorRatio { aliases: 0, anchors: 0 }), events: 5, aliases: 0, anchors: 0, documents: 0, nodes: 3, max_depth: 1, total_scalar_bytes: 2, merge_keys: 0 }\"]"),
    ("scan/anchors/ratio(min=0,mult=0,on=true)", "BudgetReport { breached: Some(AliasAnchorRatio { aliases: 3, anchors: 3 }), events: 24, aliases: 3, anchors: 3, documents: 1, nodes: 14, max_depth: 2, total_scalar_bytes: 11, merge_keys: 0 }"),
    ("single/anchors/ratio(min=0,mult=0,on=true)", "Err(budget breached: AliasAnchorRatio { aliases: 3, anchors: 3 } at line 7, column 1) reports=[\"BudgetReport { breached: Some(AliasAnchorRatio { aliases: 3, anchors: 3 }), events: 33, aliases: 3, anchors: 3, documents: 1, nodes: 21, max_depth: 2, total_scalar_bytes: 16, merge_keys: 0 }\"]"),
    ("single/scalar/ratio(min=0,mult=0,on=true)", "Err(budget breached: AliasAnchorRatio { aliases: 0, anchors: 0 } at line 2, column 1) reports=[\"BudgetReport { breached: Some(AliasAnchorRatio { aliases: 0, anchors: 0 }), events: 5, aliases: 0, anchors: 0, documents: 1, nodes: 1, max_depth: 0, total_scalar_bytes: 13, merge_keys: 0 }\"]"),
    ("scan/docs_aliases/ratio(min=0,mult=0,on=true)", "BudgetReport { breached: Some(AliasAnchorRatio { aliases: 5, anchors: 3 }), events: 39, aliases: 5, anchors: 3, documents: 4, nodes: 18, max_depth: 2, total_scalar_bytes: 13, merge_keys: 0 }"),
    ("scan_per_doc/docs_aliases/ratio(min=0,mult=0,on=true)", "BudgetReport { breached: Some(AliasAnchorRatio { aliases: 3, anchors: 1 }), events: 11, aliases: 3, anchors: 1, documents: 0, nodes: 5, max_depth: 2, total_scalar_bytes: 3, merge_keys: 0 }"),
    ("multi/docs_aliases/ratio(min=0,mult=0,on=true)", "Err(budget breached: AliasAnchorRatio { aliases: 5, anchors: 3 } at line 11, column 1) reports=[\"BudgetReport { breached: Some(AliasAnchorRatio { aliases: 5, anchors: 3 }), events: 44, aliases: 5, anchors: 3, documents: 4, nodes: 23, max_depth: 2, total_scalar_bytes: 18, merge_keys: 0 }\"]"),
    ("stream/docs_aliases/ratio(min=0,mult=0,on=true)", "[Ok({\"a\":1,\"b\":[1,1,1]}) ; Err(budget breached: AliasAnchorRatio { aliases: 3, anchors: 1 } at line 3, column 1)] reports=[\"BudgetReport { breached: Some(AliasAnchorRatio { aliases: 3, anchors: 1 }), events: 14, aliases: 3, anchors: 1, documents: 0, nodes: 8, max_depth: 2, total_scalar_bytes: 6, merge_keys: 0 }\"]"),
    ("scan/anchors/ratio(min=1,mult=0,on=true)", "BudgetReport { breached: Some(AliasAnchorRatio { aliases: 3, anchors: 3 }), events: 24, aliases: 3, anchors: 3, documents: 1, nodes: 14, max_depth: 2, total_scalar_bytes: 11, merge_keys: 0 }"),
    ("single/anchors/ratio(min=1,mult=0,on=true)", "Err(budget breached: AliasAnchorRatio { aliases: 3, anchors: 3 } at line 7, column 1) reports=[\"BudgetReport { breached: Some(AliasAnchorRatio { aliases: 3, anchors: 3 }), events: 33, aliases: 3, anchors: 3, documents: 1, nodes: 21, max_depth: 2, total_scalar_bytes: 16, merge_keys: 0 }\"]"),
    ("single/scalar/ratio(min=1,mult=0,on=true)", "Ok(\"just a scalar\") reports=[\"BudgetReport { breached: None, events: 5, aliases: 0, anchors: 0, documents: 1, nodes: 1, max_depth: 0, total_scalar_bytes: 13, merge_keys: 0 }\"]"),
    ("scan/docs_aliases/ratio(min=1,mult=0,on=true)", "BudgetReport { breached: Some(AliasAnchorRatio { aliases: 5, anchors: 3 }), events: 39, aliases: 5, anchors: 3, documents: 4, nodes: 18, max_depth: 2, total_scalar_bytes: 13, merge_keys: 0 }"),
    ("scan_per_doc/docs_aliases/ratio(min=1,mult=0,on=true)", "BudgetReport { breached: Some(AliasAnchorRatio { aliases: 3, anchors: 1 }), events: 11, aliases: 3, anchors: 1, documents: 0, nodes: 5, max_depth: 2, total_scalar_bytes: 3, merge_keys: 0 }"),
    ("multi/docs_aliases/ratio(min=1,mult=0,on=true)", "Err(budget breached: AliasAnchorRatio { aliases: 5, anchors: 3 } at line 11, column 1) reports=[\"BudgetReport { breached: Some(AliasAnchorRatio { aliases: 5, anchors: 3 }), events: 44, aliases: 5, anchors: 3, documents: 4, nodes: 23, max_depth: 2, total_scalar_bytes: 18, merge_keys: 0 }\"]"),
    ("stream/docs_aliases/ratio(min=1,mult=0,on=true)", "[Ok({\"a\":1,\"b\":[1,1,1]}) ; Err(budget breached: AliasAnchorRatio { aliases: 3, anchors: 1 } at line 3, column 1)] reports=[\"BudgetReport { breached: Some(AliasAnchorRatio { aliases: 3, anchors: 1 }), events: 14, aliases: 3, anchors: 1, documents: 0, nodes: 8, max_depth: 2, total_scalar_bytes: 6, merge_keys: 0 }\"]"),
    ("scan/anchors/ratio(min=1,mult=1,on=true)", "BudgetReport { breached: None, events: 24, aliases: 3, anchors: 3, documents: 1, nodes: 14, max_depth: 2, total_scalar_bytes: 11, merge_keys: 0 }"),
    ("single/anchors/ratio(min=1,mult=1,on=true)", "Ok({\"a\":1,\"b\":[\"x\",true],\"c\":{\"k\":\"v\"},\"d\":1,\"e\":[\"x\",true],\"f\":{\"k\":\"v\"}}) reports=[\"BudgetReport { breached: None, events: 33, aliases: 3, anchors: 3, documents: 1, nodes: 21, max_depth: 2, total_scalar_bytes: 16, merge_keys: 0 }\"]"),
    ("single/scalar/ratio(min=1,mult=1,on=true)", "Ok(\"just a scalar\") reports=[\"BudgetReport { breached: None, events: 5, aliases: 0, anchors: 0, documents: 1, nodes: 1, max_depth: 0, total_scalar_bytes: 13, merge_keys: 0 }\"]"),
    ("scan/docs_aliases/ratio(min=1,mult=1,on=true)", "BudgetReport { breached: Some(AliasAnchorRatio { aliases: 5, anchors: 3 }), events: 39, aliases: 5, anchors: 3, documents: 4, nodes: 18, max_depth: 2, total_scalar_bytes: 13, merge_keys: 0 }"),
    ("scan_per_doc/docs_aliases/ratio(min=1,mult=1,on=true)", "BudgetReport { breached: Some(AliasAnchorRatio { aliases: 3, anchors: 1 }), events: 11, aliases: 3, anchors: 1, documents: 0, nodes: 5, max_depth: 2, total_scalar_bytes: 3, merge_keys: 0 }"),
    ("multi/docs_aliases/ratio(min=1,mult=1,on=true)", "Err(budget breached: AliasAnchorRatio { aliases: 5, anchors: 3 } at line 11, column 1) reports=[\"BudgetReport { breached: Some(AliasAnchorRatio { aliases: 5, anchors: 3 }), events: 44, aliases: 5, anchors: 3, documents: 4, nodes: 23, max_depth: 2, total_scalar_bytes: 18, merge_keys: 0 }\"]"),
    ("stream/docs_aliases/ratio(min=1,mult=1,on=true)", "[Ok({\"a\":1,\"b\":[1,1,1]}) ; Err(budget breached: AliasAnchorRatio { aliases: 3, anchors: 1 } at line 3, column 1)] reports=[\"BudgetReport { breached: Some(AliasAnchorRatio { aliases: 3, anchors: 1 }), events: 14, aliases: 3, anchors: 1, documents: 0, nodes: 8, max_depth: 2, total_scalar_bytes: 6, merge_keys: 0 }\"]"),
    ("scan/anchors/ratio(min=3,mult=1,on=true)", "BudgetReport { breached: None, events: 24, aliases: 3, anchors: 3, documents: 1, nodes: 14, max_depth: 2, total_scalar_bytes: 11, merge_keys: 0 }"),
    ("single/anchors/ratio(min=3,mult=1,on=true)", "Ok({\"a\":1,\"b\":[\"x\",true],\"c\":{\"k\":\"v\"},\"d\":1,\"e\":[\"x\",true],\"f\":{\"k\":\"v\"}}) reports=[\"BudgetReport { breached: None, events: 33, aliases: 3, anchors: 3, documents: 1, nodes: 21, max_depth: 2, total_scalar_bytes: 16, merge_keys: 0 }\"]"),
    ("single/scalar/ratio(min=3,mult=1,on=true)", "Ok(\"just a scalar\") reports=[\"BudgetReport { breached: None, events: 5, aliases: 0, anchors: 0, documents: 1, nodes: 1, max_depth: 0, total_scalar_bytes: 13, merge_keys: 0 }\"]"),
    ("scan/docs_aliases/ratio(min=3,mult=1,on=true)", "BudgetReport { breached: Some(AliasAnchorRatio { aliases: 5, anchors: 3 }), events: 39, aliases: 5, anchors: 3, documents: 4, nodes: 18, max_depth: 2, total_scalar_bytes: 13, merge_keys: 0 }"),
    ("scan_per_doc/docs_aliases/ratio(min=3,mult=1,on=true)", "BudgetReport { breached: Some(AliasAnchorRatio { aliases: 3, anchors: 1 }), events: 11, aliases: 3, anchors: 1, documents: 0, nodes: 5, max_depth: 2, total_scalar_bytes: 3, merge_keys: 0 }"),
    ("multi/docs_aliases/ratio(min=3,mult=1,on=true)", "Err(budget breached: AliasAnchorRatio { aliases: 5, anchors: 3 } at line 11, column 1) reports=[\"BudgetReport { breached: Some(AliasAnchorRatio { aliases: 5, anchors: 3 }), events: 44, aliases: 5, anchors: 3, documents: 4, nodes: 23, max_depth: 2, total_scalar_bytes: 18, merge_keys: 0 }\"]"),
    ("stream/docs_aliases/ratio(min=3,mult=1,on=true)", "[Ok({\"a\":1,\"b\":[1,1,1]}) ; Err(budget breached: AliasAnchorRatio { aliases: 3, anchors: 1 } at line 3, column 1)] reports=[\"BudgetReport { breached: Some(AliasAnchorRatio { aliases: 3, anchors: 1 }), events: 14, aliases: 3, anchors: 1, documents: 0, nodes: 8, max_depth: 2, total_scalar_bytes: 6, merge_keys: 0 }\"]"),
    ("scan/anchors/ratio(min=4,mult=1,on=true)", "BudgetReport { breached: None, events: 24, aliases: 3, anchors: 3, documents: 1, nodes: 14, max_depth: 2, total_scalar_bytes: 11, merge_keys: 0 }"),
    ("single/anchors/ratio(min=4,mult=1,on=true)", "Ok({\"a\":1,\"b\":[\"x\",true],\"c\":{\"k\":\"v\"},\"d\":1,\"e\":[\"x\",true],\"f\":{\"k\":\"v\"}}) reports=[\"BudgetReport { breached: None, events: 33, aliases: 3, anchors: 3, documents: 1, nodes: 21, max_depth: 2, total_scalar_bytes: 16, merge_keys: 0 }\"]"),
    ("single/scalar/ratio(min=4,mult=1,on=true)", "Ok(\"just a scalar\") reports=[\"BudgetReport { breached: None, events: 5, aliases: 0, anchors: 0, documents: 1, nodes: 1, max_depth: 0, total_scalar_bytes: 13, merge_keys: 0 }\"]"),
    ("scan/docs_aliases/ratio(min=4,mult=1,on=true)", "BudgetReport { breached: Some(AliasAnchorRatio { aliases: 5, anchors: 3 }), events: 39, aliases: 5, anchors: 3, documents: 4, nodes: 18, max_depth: 2, total_scalar_bytes: 13, merge_keys: 0 }"),
    ("scan_per_doc/docs_aliases/ratio(min=4,mult=1,on=true)", "BudgetReport { breached: None, events: 6, aliases: 0, anchors: 0, documents: 0, nodes: 3, max_depth: 1, total_scalar_bytes: 3, merge_keys: 0 }"),
    ("multi/docs_aliases/ratio(min=4,mult=1,on=true)", "Err(budget breached: AliasAnchorRatio { aliases: 5, anchors: 3 } at line 11, column 1) reports=[\"BudgetReport { breached: Some(AliasAnchorRatio { aliases: 5, anchors: 3 }), events: 44, aliases: 5, anchors: 3, documents: 4, nodes: 23, max_depth: 2, total_scalar_bytes: 18, merge_keys: 0 }\"]"),
    ("stream/docs_aliases/ratio(min=4,mult=1,on=true)", "[Ok({\"a\":1,\"b\":[1,1,1]}) ; Ok({\"x\":1}) ; Ok({\"c\":2,\"d\":3,\"e\":[2,3]}) ; Ok({\"id\":9})] reports=[\"BudgetReport { breached: None, events: 6, aliases: 0, anchors: 0, documents: 0, nodes: 3, max_depth: 1, total_scalar_bytes: 3, merge_keys: 0 }\"]"),
    ("scan/anchors/ratio(min=3,mult=0,on=true)", "BudgetReport { breached: Some(AliasAnchorRatio { aliases: 3, anchors: 3 }), events: 24, aliases: 3, anchors: 3, documents: 1, nodes: 14, max_depth: 2, total_scalar_bytes: 11, merge_keys: 0 }"),
    ("single/anchors/ratio(min=3,mult=0,on=true)", "Err(budget breached: AliasAnchorRatio { aliases: 3, anchors: 3 } at line 7, column 1) reports=[\"BudgetReport { breached: Some(AliasAnchorRatio { aliases: 3, anchors: 3 }), events: 33, aliases: 3, anchors: 3, documents: 1, nodes: 21, max_depth: 2, total_scalar_bytes: 16, merge_keys: 0 }\"]"),
    ("single/scalar/ratio(min=3,mult=0,on=true)", "Ok(\"just a scalar\") reports=[\"BudgetReport { breached: None, events: 5, aliases: 0, anchors: 0, documents: 1, nodes: 1, max_depth: 0, total_scalar_bytes: 13, merge_keys: 0 }\"]"),
    ("scan/docs_aliases/ratio(min=3,mult=0,on=true)", "BudgetReport { breached: Some(AliasAnchorRatio { aliases: 5, anchors: 3 }), events: 39, aliases: 5, anchors: 3, documents: 4, nodes: 18, max_depth: 2, total_scalar_bytes: 13, merge_keys: 0 }"),
    ("scan_per_doc/docs_aliases/ratio(min=3,mult=0,on=true)", "BudgetReport { breached: Some(AliasAnchorRatio { aliases: 3, anchors: 1 }), events: 11, aliases: 3, anchors: 1, documents: 0, nodes: 5, max_depth: 2, total_scalar_bytes: 3, merge_keys: 0 }"),
    ("multi/docs_aliases/ratio(min=3,mult=0,on=true)", "Err(budget breached: AliasAnchorRatio { aliases: 5, anchors: 3 } at line 11, column 1) reports=[\"BudgetReport { breached: Some(AliasAnchorRatio { aliases: 5, anchors: 3 }), events: 44, aliases: 5, anchors: 3, documents: 4, nodes: 23, max_depth: 2, total_scalar_bytes: 18, merge_keys: 0 }\"]"),
    ("stream/docs_aliases/ratio(min=3,mult=0,on=true)", "[Ok({\"a\":1,\"b\":[1,1,1]}) ; Err(budget breached: AliasAnchorRatio { aliases: 3, anchors: 1 } at line 3, column 1)] reports=[\"BudgetReport { breached: Some(AliasAnchorRatio { aliases: 3, anchors: 1 }), events: 14, aliases: 3, anchors: 1, documents: 0, nodes: 8, max_depth: 2, total_scalar_bytes: 6, merge_keys: 0 }\"]"),
    ("scan/anchors/ratio(min=3,mult=0,on=false)", "BudgetReport { breached: None, events: 24, aliases: 3, anchors: 3, documents: 1, nodes: 14, max_depth: 2, total_scalar_bytes: 11, merge_keys: 0 }"),
    ("single/anchors/ratio(min=3,mult=0,on=false)", "Ok({\"a\":1,\"b\":[\"x\",true],\"c\":{\"k\":\"v\"},\"d\":1,\"e\":[\"x\",true],\"f\":{\"k\":\"v\"}}) reports=[\"BudgetReport { breached: None, events: 33, aliases: 3, anchors: 3, documents: 1, nodes: 21, max_depth: 2, total_scalar_bytes: 16, merge_keys: 0 }\"]"),
    ("single/scalar/ratio(min=3,mult=0,on=false)", "Ok(\"just a scalar\") reports=[\"BudgetReport { breached: None, events: 5, aliases: 0, anchors: 0, documents: 1, nodes: 1, max_depth: 0, total_scalar_bytes: 13, merge_keys: 0 }\"]"),
    ("scan/docs_aliases/ratio(min=3,mult=0,on=false)", "BudgetReport { breached: None, events: 39, aliases: 5, anchors: 3, documents: 4, nodes: 18, max_depth: 2, total_scalar_bytes: 13, merge_keys: 0 }"),
    ("scan_per_doc/docs_aliases/ratio(min=3,mult=0,on=false)", "BudgetReport { breached: None, events: 6, aliases: 0, anchors: 0, documents: 0, nodes: 3, max_depth: 1, total_scalar_bytes: 3, merge_keys: 0 }"),
    ("multi/docs_aliases/ratio(min=3,mult=0,on=false)", "Ok([{\"a\":1,\"b\":[1,1,1]},{\"x\":1},{\"c\":2,\"d\":3,\"e\":[2,3]},{\"id\":9}]) reports=[\"BudgetReport { breached: None, events: 44, aliases: 5, anchors: 3, documents: 4, nodes: 23, max_depth: 2, total_scalar_bytes: 18, merge_keys: 0 }\"]"),
    ("stream/docs_aliases/ratio(min=3,mult=0,on=false)", "[Ok({\"a\":1,\"b\":[1,1,1]}) ; Ok({\"x\":1}) ; Ok({\"c\":2,\"d\":3,\"e\":[2,3]}) ; Ok({\"id\":9})] reports=[\"BudgetReport { breached: None, events: 6, aliases: 0, anchors: 0, documents: 0, nodes: 3, max_depth: 1, total_scalar_bytes: 3, merge_keys: 0 }\"]"),
    ("scan/anchors/ratio(min=5,mult=2,on=true)", "BudgetReport { breached: None, events: 24, aliases: 3, anchors: 3, documents: 1, nodes: 14, max_depth: 2, total_scalar_bytes: 11, merge_keys: 0 }"),
    ("single/anchors/ratio(min=5,mult=2,on=true)", "Ok({\"a\":1,\"b\":[\"x\",true],\"c\":{\"k\":\"v\"},\"d\":1,\"e\":[\"x\",true],\"f\":{\"k\":\"v\"}}) reports=[\"BudgetReport { breached: None, events: 33, aliases: 3, anchors: 3, documents: 1, nodes: 21, max_depth: 2, total_scalar_bytes: 16, merge_keys: 0 }\"]"),
    ("single/scalar/ratio(min=5,mult=2,on=true)", "Ok(\"just a scalar\") reports=[\"BudgetReport { breached: None, events: 5, aliases: 0, anchors: 0, documents: 1, nodes: 1, max_depth: 0, total_scalar_bytes: 13, merge_keys: 0 }\"]"),
    ("scan/docs_aliases/ratio(min=5,mult=2,on=true)", "BudgetReport { breached: None, events: 39, aliases: 5, anchors: 3, documents: 4, nodes: 18, max_depth: 2, total_scalar_bytes: 13, merge_keys: 0 }"),
    ("scan_per_doc/docs_aliases/ratio(min=5,mult=2,on=true)", "BudgetReport { breached: None, events: 6, aliases: 0, anchors: 0, documents: 0, nodes: 3, max_depth: 1, total_scalar_bytes: 3, merge_keys: 0 }"),
    ("multi/docs_aliases/ratio(min=5,mult=2,on=true)", "Ok([{\"a\":1,\"b\":[1,1,1]},{\"x\":1},{\"c\":2,\"d\":3,\"e\":[2,3]},{\"id\":9}]) reports=[\"BudgetReport { breached: None, events: 44, aliases: 5, anchors: 3, documents: 4, nodes: 23, max_depth: 2, total_scalar_bytes: 18, merge_keys: 0 }\"]"),
    ("stream/docs_aliases/ratio(min=5,mult=2,on=true)", "[Ok({\"a\":1,\"b\":[1,1,1]}) ; Ok({\"x\":1}) ; Ok({\"c\":2,\"d\":3,\"e\":[2,3]}) ; Ok({\"id\":9})] reports=[\"BudgetReport { breached: None, events: 6, aliases: 0, anchors: 0, documents: 0, nodes: 3, max_depth: 1, total_scalar_bytes: 3, merge_keys: 0 }\"]"),
    ("scan/anchors/ratio(min=6,mult=1,on=true)", "BudgetReport { breached: None, events: 24, aliases: 3, anchors: 3, documents: 1, nodes: 14, max_depth: 2, total_scalar_bytes: 11, merge_keys: 0 }"),
    ("single/anchors/ratio(min=6,mult=1,on=true)", "Ok({\"a\":1,\"b\":[\"x\",true],\"c\":{\"k\":\"v\"},\"d\":1,\"e\":[\"x\",true],\"f\":{\"k\":\"v\"}}) reports=[\"BudgetReport { breached: None, events: 33, aliases: 3, anchors: 3, documents: 1, nodes: 21, max_depth: 2, total_scalar_bytes: 16, merge_keys: 0 }\"]"),
    ("single/scalar/ratio(min=6,mult=1,on=true)", "Ok(\"just a scalar\") reports=[\"BudgetReport { breached: None, events: 5, aliases: 0, anchors: 0, documents: 1, nodes: 1, max_depth: 0, total_scalar_bytes: 13, merge_keys: 0 }\"]"),
    ("scan/docs_aliases/ratio(min=6,mult=1,on=true)", "BudgetReport { breached: None, events: 39, aliases: 5, anchors: 3, documents: 4, nodes: 18, max_depth: 2, total_scalar_bytes: 13, merge_keys: 0 }"),
    ("scan_per_doc/docs_aliases/ratio(min=6,mult=1,on=true)", "BudgetReport { breached: None, events: 6, aliases: 0, anchors: 0, documents: 0, nodes: 3, max_depth: 1, total_scalar_bytes: 3, merge_keys: 0 }"),
    ("multi/docs_aliases/ratio(min=6,mult=1,on=true)", "Ok([{\"a\":1,\"b\":[1,1,1]},{\"x\":1},{\"c\":2,\"d\":3,\"e\":[2,3]},{\"id\":9}]) reports=[\"BudgetReport { breached: None, events: 44, aliases: 5, anchors: 3, documents: 4, nodes: 23, max_depth: 2, total_scalar_bytes: 18, merge_keys: 0 }\"]"),
    ("stream/docs_aliases/ratio(min=6,mult=1,on=true)", "[Ok({\"a\":1,\"b\":[1,1,1]}) ; Ok({\"x\":1}) ; Ok({\"c\":2,\"d\":3,\"e\":[2,3]}) ; Ok({\"id\":9})] reports=[\"BudgetReport { breached: None, events: 6, aliases: 0, anchors: 0, documents: 0, nodes: 3, max_depth: 1, total_scalar_bytes: 3, merge_keys: 0 }\"]"),
    ("scan/anchors/ratio(min=1,mult=18446744073709551615,on=true)", "BudgetReport { breached: None, events: 24, aliases: 3, anchors: 3, documents: 1, nodes: 14, max_depth: 2, total_scalar_bytes: 11, merge_keys: 0 }"),
    ("single/anchors/ratio(min=1,mult=18446744073709551615,on=true)", "Ok({\"a\":1,\"b\":[\"x\",true],\"c\":{\"k\":\"v\"},\"d\":1,\"e\":[\"x\",true],\"f\":{\"k\":\"v\"}}) reports=[\"BudgetReport { breached: None, events: 33, aliases: 3, anchors: 3, documents: 1, nodes: 21, max_depth: 2, total_scalar_bytes: 16, merge_keys: 0 }\"]"),
    ("single/scalar/ratio(min=1,mult=18446744073709551615,on=true)", "Ok(\"just a scalar\") reports=[\"BudgetReport { breached: None, events: 5, aliases: 0, anchors: 0, documents: 1, nodes: 1, max_depth: 0, total_scalar_bytes: 13, merge_keys: 0 }\"]"),
    ("scan/docs_aliases/ratio(min=1,mult=18446744073709551615,on=true)", "BudgetReport { breached: None, events: 39, aliases: 5, anchors: 3, documents: 4, nodes: 18, max_depth: 2, total_scalar_bytes: 13, merge_keys: 0 }"),
    ("scan_per_doc/docs_aliases/ratio(min=1,mult=18446744073709551615,on=true)", "BudgetReport { breached: None, events: 6, aliases: 0, anchors: 0, documents: 0, nodes: 3, max_depth: 1, total_scalar_bytes: 3, merge_keys: 0 }"),
    ("multi/docs_aliases/ratio(min=1,mult=18446744073709551615,on=true)", "Ok([{\"a\":1,\"b\":[1,1,1]},{\"x\":1},{\"c\":2,\"d\":3,\"e\":[2,3]},{\"id\":9}]) reports=[\"BudgetReport { breached: None, events: 44, aliases: 5, anchors: 3, documents: 4, nodes: 23, max_depth: 2, total_scalar_bytes: 18, merge_keys: 0 }\"]"),
    ("stream/docs_aliases/ratio(min=1,mult=18446744073709551615,on=true)", "[Ok({\"a\":1,\"b\":[1,1,1]}) ; Ok({\"x\":1}) ; Ok({\"c\":2,\"d\":3,\"e\":[2,3]}) ; Ok({\"id\":9})] reports=[\"BudgetReport { breached: None, events: 6, aliases: 0, anchors: 0, documents: 0, nodes: 3, max_depth: 1, total_scalar_bytes: 3, merge_keys: 0 }\"]"),
    ("single_snippet/anchors/ratio", "Err(error: line 7 column 1: budget breached: AliasAnchorRatio { aliases: 3, anchors: 3 }\n --> <input>:6:7\n  |\n5 | e: *B\n6 | f: *C\n  |      ^ budget breached: AliasAnchorRatio { aliases: 3, anchors: 3 }) reports=[\"BudgetReport { breached: Some(AliasAnchorRatio { aliases: 3, anchors: 3 }), events: 33, aliases: 3, anchors: 3, documents: 1, nodes: 21, max_depth: 2, total_scalar_bytes: 16, merge_keys: 0 }\"]"),
    ("both_callbacks/anchors/ratio", "Err(budget breached: AliasAnchorRatio { aliases: 3, anchors: 3 } at line 7, column 1) reports=[\"BudgetReport { breached: Some(AliasAnchorRatio { aliases: 3, anchors: 3 }), events: 33, aliases: 3, anchors: 3, documents: 1, nodes: 21, max_depth: 2, total_scalar_bytes: 16, merge_keys: 0 }\"] fn_reports=[\"fn:BudgetReport { breached: Some(AliasAnchorRatio { aliases: 3, anchors: 3 }), events: 33, aliases: 3, anchors: 3, documents: 1, nodes: 21, max_depth: 2, total_scalar_bytes: 16, merge_keys: 0 }\"]"),
    ("single_snippet/merge/max_merge_keys=1", "Err(error: line 8 column 3: budget breached: MergeKeys { merge_keys: 2 }\n --> <input>:8:3\n  |\n6 |   x: 1\n7 | two:\n8 |   <<: *B\n  |   ^ budget breached: MergeKeys { merge_keys: 2 }\n9 |   y: 2\n  |) reports=[]"),
    ("both_callbacks/anchors/max_nodes=15", "Err(budget breached: Nodes { nodes: 16 } at line 2, column 8 (defined at line 2, column 7) at line 5, column 4) reports=[] fn_reports=[]"),
    ("stream/docs/max_events=5", "[Ok({\"id\":1}) ; Err(budget breached: Events { events: 6 } at line 2, column 1)] reports=[\"BudgetReport { breached: None, events: 6, aliases: 0, anchors: 0, documents: 0, nodes: 3, max_depth: 1, total_scalar_bytes: 3, merge_keys: 0 }\"]"),
    ("multi/docs/max_events=5", "Err(budget breached: Events { events: 6 } at line 2, column 1) reports=[]"),
    ("scan_per_doc/docs/max_events=5", "BudgetReport { breached: Some(Events { events: 6 }), events: 6, aliases: 0, anchors: 0, documents: 0, nodes: 3, max_depth: 1, total_scalar_bytes: 3, merge_keys: 0 }"),
    ("stream/docs/max_events=6", "[Ok({\"id\":1}) ; Ok({\"id\":2}) ; Ok({\"id\":3})] reports=[\"BudgetReport { breached: None, events: 6, aliases: 0, anchors: 0, documents: 0, nodes: 3, max_depth: 1, total_scalar_bytes: 3, merge_keys: 0 }\"]"),
    ("multi/docs/max_events=6", "Err(budget breached: Events { events: 7 } at line 2, column 1) reports=[]"),
    ("scan_per_doc/docs/max_events=6", "BudgetReport { breached: None, events: 6, aliases: 0, anchors: 0, documents: 0, nodes: 3, max_depth: 1, total_scalar_bytes: 3, merge_keys: 0 }"),
    ("stream/docs/max_events=7", "[Ok({\"id\":1}) ; Ok({\"id\":2}) ; Ok({\"id\":3})] reports=[\"BudgetReport { breached: None, events: 6, aliases: 0, anchors: 0, documents: 0, nodes: 3, max_depth: 1, total_scalar_bytes: 3, merge_keys: 0 }\"]"),
    ("multi/docs/max_events=7", "Err(budget breached: Events { events: 8 } at line 2, column 1) reports=[]"),
    ("scan_per_doc/docs/max_events=7", "BudgetReport { breached: None, events: 6, aliases: 0, anchors: 0, documents: 0, nodes: 3, max_depth: 1, total_scalar_bytes: 3, merge_keys: 0 }"),
    ("stream/docs/max_nodes=2", "[Err(budget breached: Nodes { nodes: 3 } at line 1, column 5) ; Err(budget breached: Nodes { nodes: 3 } at line 3, column 5) ; Err(budget breached: Nodes { nodes: 3 } at line 5, column 5)] reports=[\"BudgetReport { breached: None, events: 3, aliases: 0, anchors: 0, documents: 0, nodes: 3, max_depth: 1, total_scalar_bytes: 2, merge_keys: 0 }\"]"),
    ("multi/docs/max_nodes=2", "Err(budget breached: Nodes { nodes: 3 } at line 1, column 5) reports=[]"),
    ("scan_per_doc/docs/max_nodes=2", "BudgetReport { breached: Some(Nodes { nodes: 3 }), events: 3, aliases: 0, anchors: 0, documents: 0, nodes: 3, max_depth: 1, total_scalar_bytes: 2, merge_keys: 0 }"),
    ("stream/docs/max_nodes=3", "[Ok({\"id\":1}) ; Ok({\"id\":2}) ; Ok({\"id\":3})] reports=[\"BudgetReport { breached: None, events: 6, aliases: 0, anchors: 0, documents: 0, nodes: 3, max_depth: 1, total_scalar_bytes: 3, merge_keys: 0 }\"]"),
    ("multi/docs/max_nodes=3", "Err(budget breached: Nodes { nodes: 4 } at line 3, column 1) reports=[]"),
    ("scan_per_doc/docs/max_nodes=3", "BudgetReport { breached: None, events: 6, aliases: 0, anchors: 0, documents: 0, nodes: 3, max_depth: 1, total_scalar_bytes: 3, merge_keys: 0 }"),
    ("stream/docs/max_depth=0", "[Err(budget breached: Depth { depth: 1 } at line 1, column 1)] reports=[\"BudgetReport { breached: None, events: 1, aliases: 0, anchors: 0, documents: 0, nodes: 1, max_depth: 1, total_scalar_bytes: 0, merge_keys: 0 }\"]"),
    ("multi/docs/max_depth=0", "Err(budget breached: Depth { depth: 1 } at line 1, column 1) reports=[]"),
    ("scan_per_doc/docs/max_depth=0", "BudgetReport { breached: Some(Depth { depth: 1 }), events: 1, aliases: 0, anchors: 0, documents: 0, nodes: 1, max_depth: 1, total_scalar_bytes: 0, merge_keys: 0 }"),
    ("stream/docs/max_depth=1", "[Ok({\"id\":1}) ; Ok({\"id\":2}) ; Ok({\"id\":3})] reports=[\"BudgetReport { breached: None, events: 6, aliases: 0, anchors: 0, documents: 0, nodes: 3, max_depth: 1, total_scalar_bytes: 3, merge_keys: 0 }\"]"),
    ("multi/docs/max_depth=1", "Ok([{\"id\":1},{\"id\":2},{\"id\":3}]) reports=[\"BudgetReport { breached: None, events: 20, aliases: 0, anchors: 0, documents: 3, nodes: 9, max_depth: 1, total_scalar_bytes: 9, merge_keys: 0 }\"]"),
    ("scan_per_doc/docs/max_depth=1", "BudgetReport { breached: None, events: 6, aliases: 0, anchors: 0, documents: 0, nodes: 3, max_depth: 1, total_scalar_bytes: 3, merge_keys: 0 }"),
    ("stream/docs/max_scalar_bytes=2", "[Err(budget breached: ScalarBytes { total_scalar_bytes: 3 } at line 1, column 5) ; Err(budget breached: ScalarBytes { total_scalar_bytes: 3 } at line 3, column 5) ; Err(budget breached: ScalarBytes { total_scalar_bytes: 3 } at line 5, column 5)] reports=[\"BudgetReport { breached: None, events: 3, aliases: 0, anchors: 0, documents: 0, nodes: 3, max_depth: 1, total_scalar_bytes: 3, merge_keys: 0 }\"]"),
    ("multi/docs/max_scalar_bytes=2", "Err(budget breached: ScalarBytes { total_scalar_bytes: 3 } at line 1, column 5) reports=[]"),
    ("scan_per_doc/docs/max_scalar_bytes=2", "BudgetReport { breached: Some(ScalarBytes { total_scalar_bytes: 3 }), events: 3, aliases: 0, anchors: 0, documents: 0, nodes: 3, max_depth: 1, total_scalar_bytes: 3, merge_keys: 0 }"),
    ("stream/docs/max_scalar_bytes=3", "[Ok({\"id\":1}) ; Ok({\"id\":2}) ; Ok({\"id\":3})] reports=[\"BudgetReport { breached: None, events: 6, aliases: 0, anchors: 0, documents: 0, nodes: 3, max_depth: 1, total_scalar_bytes: 3, merge_keys: 0 }\"]"),
    ("multi/docs/max_scalar_bytes=3", "Err(budget breached: ScalarBytes { total_scalar_bytes: 5 } at line 3, column 1) reports=[]"),
    ("scan_per_doc/docs/max_scalar_bytes=3", "BudgetReport { breached: None, events: 6, aliases: 0, anchors: 0, documents: 0, nodes: 3, max_depth: 1, total_scalar_bytes: 3, merge_keys: 0 }"),
    ("stream/docs_aliases/max_aliases=1", "[Err(budget breached: Aliases { aliases: 2 } at line 2, column 9) ; Ok({\"x\":1}) ; Err(budget breached: Aliases { aliases: 2 } at line 8, column 9) ; Ok({\"id\":9})] reports=[\"BudgetReport { breached: None, events: 6, aliases: 0, anchors: 0, documents: 0, nodes: 3, max_depth: 1, total_scalar_bytes: 3, merge_keys: 0 }\"]"),
    ("multi/docs_aliases/max_aliases=1", "Err(budget breached: Aliases { aliases: 2 } at line 2, column 9) reports=[]"),
    ("scan/docs_aliases/max_aliases=1", "BudgetReport { breached: Some(Aliases { aliases: 2 }), events: 9, aliases: 2, anchors: 1, documents: 1, nodes: 5, max_depth: 2, total_scalar_bytes: 3, merge_keys: 0 }"),
    ("scan_per_doc/docs_aliases/max_aliases=1", "BudgetReport { breached: Some(Aliases { aliases: 2 }), events: 7, aliases: 2, anchors: 1, documents: 0, nodes: 5, max_depth: 2, total_scalar_bytes: 3, merge_keys: 0 }"),
    ("stream/docs_aliases/max_aliases=2", "[Err(budget breached: Aliases { aliases: 3 } at line 2, column 13) ; Ok({\"x\":1}) ; Ok({\"c\":2,\"d\":3,\"e\":[2,3]}) ; Ok({\"id\":9})] reports=[\"BudgetReport { breached: None, events: 6, aliases: 0, anchors: 0, documents: 0, nodes: 3, max_depth: 1, total_scalar_bytes: 3, merge_keys: 0 }\"]"),
    ("multi/docs_aliases/max_aliases=2", "Err(budget breached: Aliases { aliases: 3 } at line 2, column 13) reports=[]"),
    ("scan/docs_aliases/max_aliases=2", "BudgetReport { breached: Some(Aliases { aliases: 3 }), events: 10, aliases: 3, anchors: 1, documents: 1, nodes: 5, max_depth: 2, total_scalar_bytes: 3, merge_keys: 0 }"),
    ("scan_per_doc/docs_aliases/max_aliases=2", "BudgetReport { breached: Some(Aliases { aliases: 3 }), events: 8, aliases: 3, anchors: 1, documents: 0, nodes: 5, max_depth: 2, total_scalar_bytes: 3, merge_keys: 0 }"),
    ("stream/docs_aliases/max_aliases=3", "[Ok({\"a\":1,\"b\":[1,1,1]}) ; Ok({\"x\":1}) ; Ok({\"c\":2,\"d\":3,\"e\":[2,3]}) ; Ok({\"id\":9})] reports=[\"BudgetReport { breached: None, events: 6, aliases: 0, anchors: 0, documents: 0, nodes: 3, max_depth: 1, total_scalar_bytes: 3, merge_keys: 0 }\"]"),
    ("multi/docs_aliases/max_aliases=3", "Err(budget breached: Aliases { aliases: 4 } at line 8, column 5) reports=[]"),
    ("scan/docs_aliases/max_aliases=3", "BudgetReport { breached: Some(Aliases { aliases: 4 }), events: 28, aliases: 4, anchors: 3, documents: 3, nodes: 15, max_depth: 2, total_scalar_bytes: 10, merge_keys: 0 }"),
    ("scan_per_doc/docs_aliases/max_aliases=3", "BudgetReport { breached: None, events: 6, aliases: 0, anchors: 0, documents: 0, nodes: 3, max_depth: 1, total_scalar_bytes: 3, merge_keys: 0 }"),
    ("stream/docs_aliases/max_aliases=5", "[Ok({\"a\":1,\"b\":[1,1,1]}) ; Ok({\"x\":1}) ; Ok({\"c\":2,\"d\":3,\"e\":[2,3]}) ; Ok({\"id\":9})] reports=[\"BudgetReport { breached: None, events: 6, aliases: 0, anchors: 0, documents: 0, nodes: 3, max_depth: 1, total_scalar_bytes: 3, merge_keys: 0 }\"]"),
    ("multi/docs_aliases/max_aliases=5", "Ok([{\"a\":1,\"b\":[1,1,1]},{\"x\":1},{\"c\":2,\"d\":3,\"e\":[2,3]},{\"id\":9}]) reports=[\"BudgetReport { breached: None, events: 44, aliases: 5, anchors: 3, documents: 4, nodes: 23, max_depth: 2, total_scalar_bytes: 18, merge_keys: 0 }\"]"),
    ("scan/docs_aliases/max_aliases=5", "BudgetReport { breached: None, events: 39, aliases: 5, anchors: 3, documents: 4, nodes: 18, max_depth: 2, total_scalar_bytes: 13, merge_keys: 0 }"),
    ("scan_per_doc/docs_aliases/max_aliases=5", "BudgetReport { breached: None, events: 6, aliases: 0, anchors: 0, documents: 0, nodes: 3, max_depth: 1, total_scalar_bytes: 3, merge_keys: 0 }"),
    ("stream/docs_aliases/max_anchors=0", "[Err(budget breached: Anchors { anchors: 1 } at line 1, column 7) ; Ok({\"x\":1}) ; Err(budget breached: Anchors { anchors: 1 } at line 6, column 7) ; Ok({\"id\":9})] reports=[\"BudgetReport { breached: None, events: 6, aliases: 0, anchors: 0, documents: 0, nodes: 3, max_depth: 1, total_scalar_bytes: 3, merge_keys: 0 }\"]"),
    ("multi/docs_aliases/max_anchors=0", "Err(budget breached: Anchors { anchors: 1 } at line 1, column 7) reports=[]"),
    ("scan/docs_aliases/max_anchors=0", "BudgetReport { breached: Some(Anchors { anchors: 1 }), events: 5, aliases: 0, anchors: 1, documents: 1, nodes: 3, max_depth: 1, total_scalar_bytes: 2, merge_keys: 0 }"),
    ("scan_per_doc/docs_aliases/max_anchors=0", "BudgetReport { breached: Some(Anchors { anchors: 1 }), events: 3, aliases: 0, anchors: 1, documents: 0, nodes: 3, max_depth: 1, total_scalar_bytes: 2, merge_keys: 0 }"),
    ("stream/docs_aliases/max_anchors=1", "[Ok({\"a\":1,\"b\":[1,1,1]}) ; Ok({\"x\":1}) ; Err(budget breached: Anchors { anchors: 2 } at line 7, column 7) ; Ok({\"id\":9})] reports=[\"BudgetReport { breached: None, events: 6, aliases: 0, anchors: 0, documents: 0, nodes: 3, max_depth: 1, total_scalar_bytes: 3, merge_keys: 0 }\"]"),
    ("multi/docs_aliases/max_anchors=1", "Err(budget breached: Anchors { anchors: 2 } at line 6, column 7) reports=[]"),
    ("scan/docs_aliases/max_anchors=1", "BudgetReport { breached: Some(Anchors { anchors: 2 }), events: 23, aliases: 3, anchors: 2, documents: 3, nodes: 11, max_depth: 2, total_scalar_bytes: 7, merge_keys: 0 }"),
    ("scan_per_doc/docs_aliases/max_anchors=1", "BudgetReport { breached: Some(Anchors { anchors: 2 }), events: 5, aliases: 0, anchors: 2, documents: 0, nodes: 5, max_depth: 1, total_scalar_bytes: 4, merge_keys: 0 }"),
    ("stream/docs_aliases/max_anchors=2", "[Ok({\"a\":1,\"b\":[1,1,1]}) ; Ok({\"x\":1}) ; Ok({\"c\":2,\"d\":3,\"e\":[2,3]}) ; Ok({\"id\":9})] reports=[\"BudgetReport { breached: None, events: 6, aliases: 0, anchors: 0, documents: 0, nodes: 3, max_depth: 1, total_scalar_bytes: 3, merge_keys: 0 }\"]"),
    ("multi/docs_aliases/max_anchors=2", "Err(budget breached: Anchors { anchors: 3 } at line 7, column 7) reports=[]"),
    ("scan/docs_aliases/max_anchors=2", "BudgetReport { breached: Some(Anchors { anchors: 3 }), events: 25, aliases: 3, anchors: 3, documents: 3, nodes: 13, max_depth: 2, total_scalar_bytes: 9, merge_keys: 0 }"),
    ("scan_per_doc/docs_aliases/max_anchors=2", "BudgetReport { breached: None, events: 6, aliases: 0, anchors: 0, documents: 0, nodes: 3, max_depth: 1, total_scalar_bytes: 3, merge_keys: 0 }"),
    ("stream/docs_aliases/max_anchors=3", "[Ok({\"a\":1,\"b\":[1,1,1]}) ; Ok({\"x\":1}) ; Ok({\"c\":2,\"d\":3,\"e\":[2,3]}) ; Ok({\"id\":9})] reports=[\"BudgetReport { breached: None, events: 6, aliases: 0, anchors: 0, documents: 0, nodes: 3, max_depth: 1, total_scalar_bytes: 3, merge_keys: 0 }\"]"),
    ("multi/docs_aliases/max_anchors=3", "Ok([{\"a\":1,\"b\":[1,1,1]},{\"x\":1},{\"c\":2,\"d\":3,\"e\":[2,3]},{\"id\":9}]) reports=[\"BudgetReport { breached: None, events: 44, aliases: 5, anchors: 3, documents: 4, nodes: 23, max_depth: 2, total_scalar_bytes: 18, merge_keys: 0 }\"]"),
    ("scan/docs_aliases/max_anchors=3", "BudgetReport { breached: None, events: 39, aliases: 5, anchors: 3, documents: 4, nodes: 18, max_depth: 2, total_scalar_bytes: 13, merge_keys: 0 }"),
    ("scan_per_doc/docs_aliases/max_anchors=3", "BudgetReport { breached: None, events: 6, aliases: 0, anchors: 0, documents: 0, nodes: 3, max_depth: 1, total_scalar_bytes: 3, merge_keys: 0 }"),
    ("stream/docs_aliases/max_nodes=5", "[Err(budget breached: Nodes { nodes: 6 } at line 1, column 7) ; Ok({\"x\":1}) ; Err(budget breached: Nodes { nodes: 6 } at line 8, column 1) ; Ok({\"id\":9})] reports=[\"BudgetReport { breached: None, events: 6, aliases: 0, anchors: 0, documents: 0, nodes: 3, max_depth: 1, total_scalar_bytes: 3, merge_keys: 0 }\"]"),
    ("multi/docs_aliases/max_nodes=5", "Err(budget breached: Nodes { nodes: 6 } at line 1, column 7) reports=[]"),
    ("scan/docs_aliases/max_nodes=5", "BudgetReport { breached: Some(Nodes { nodes: 6 }), events: 15, aliases: 3, anchors: 1, documents: 2, nodes: 6, max_depth: 2, total_scalar_bytes: 3, merge_keys: 0 }"),
    ("scan_per_doc/docs_aliases/max_nodes=5", "BudgetReport { breached: Some(Nodes { nodes: 6 }), events: 6, aliases: 0, anchors: 2, documents: 0, nodes: 6, max_depth: 1, total_scalar_bytes: 4, merge_keys: 0 }"),
    ("stream/docs_aliases/max_nodes=7", "[Err(budget breached: Nodes { nodes: 8 } at line 1, column 7) ; Ok({\"x\":1}) ; Err(budget breached: Nodes { nodes: 8 } at line 6, column 7) ; Ok({\"id\":9})] reports=[\"BudgetReport { breached: None, events: 6, aliases: 0, anchors: 0, documents: 0, nodes: 3, max_depth: 1, total_scalar_bytes: 3, merge_keys: 0 }\"]"),
    ("multi/docs_aliases/max_nodes=7", "Err(budget breached: Nodes { nodes: 8 } at line 1, column 7) reports=[]"),
    ("scan/docs_aliases/max_nodes=7", "BudgetReport { breached: Some(Nodes { nodes: 8 }), events: 17, aliases: 3, anchors: 1, documents: 2, nodes: 8, max_depth: 2, total_scalar_bytes: 4, merge_keys: 0 }"),
    ("scan_per_doc/docs_aliases/max_nodes=7", "BudgetReport { breached: None, events: 6, aliases: 0, anchors: 0, documents: 0, nodes: 3, max_depth: 1, total_scalar_bytes: 3, merge_keys: 0 }"),
    ("stream/docs_aliases/max_nodes=8", "[Ok({\"a\":1,\"b\":[1,1,1]}) ; Ok({\"x\":1}) ; Err(budget breached: Nodes { nodes: 9 } at line 7, column 7) ; Ok({\"id\":9})] reports=[\"BudgetReport { breached: None, events: 6, aliases: 0, anchors: 0, documents: 0, nodes: 3, max_depth: 1, total_scalar_bytes: 3, merge_keys: 0 }\"]"),
    ("multi/docs_aliases/max_nodes=8", "Err(budget breached: Nodes { nodes: 9 } at line 4, column 1) reports=[]"),
    ("scan/docs_aliases/max_nodes=8", "BudgetReport { breached: Some(Nodes { nodes: 9 }), events: 21, aliases: 3, anchors: 1, documents: 3, nodes: 9, max_depth: 2, total_scalar_bytes: 5, merge_keys: 0 }"),
    ("scan_per_doc/docs_aliases/max_nodes=8", "BudgetReport { breached: None, events: 6, aliases: 0, anchors: 0, documents: 0, nodes: 3, max_depth: 1, total_scalar_bytes: 3, merge_keys: 0 }"),
    ("stream/docs_aliases/max_nodes=9", "[Ok({\"a\":1,\"b\":[1,1,1]}) ; Ok({\"x\":1}) ; Ok({\"c\":2,\"d\":3,\"e\":[2,3]}) ; Ok({\"id\":9})] reports=[\"BudgetReport { breached: None, events: 6, aliases: 0, anchors: 0, documents: 0, nodes: 3, max_depth: 1, total_scalar_bytes: 3, merge_keys: 0 }\"]"),
    ("multi/docs_aliases/max_nodes=9", "Err(budget breached: Nodes { nodes: 10 } at line 4, column 1) reports=[]"),
    ("scan/docs_aliases/max_nodes=9", "BudgetReport { breached: Some(Nodes { nodes: 10 }), events: 22, aliases: 3, anchors: 1, documents: 3, nodes: 10, max_depth: 2, total_scalar_bytes: 5, merge_keys: 0 }"),
    ("scan_per_doc/docs_aliases/max_nodes=9", "BudgetReport { breached: None, events: 6, aliases: 0, anchors: 0, documents: 0, nodes: 3, max_depth: 1, total_scalar_bytes: 3, merge_keys: 0 }"),
    ("stream/docs_aliases/max_nodes=10", "[Ok({\"a\":1,\"b\":[1,1,1]}) ; Ok({\"x\":1}) ; Ok({\"c\":2,\"d\":3,\"e\":[2,3]}) ; Ok({\"id\":9})] reports=[\"BudgetReport { breached: None, events: 6, aliases: 0, anchors: 0, documents: 0, nodes: 3, max_depth: 1, total_scalar_bytes: 3, merge_keys: 0 }\"]"),
    ("multi/docs_aliases/max_nodes=10", "Err(budget breached: Nodes { nodes: 11 } at line 4, column 4) reports=[]"),
    ("scan/docs_aliases/max_nodes=10", "BudgetReport { breached: Some(Nodes { nodes: 11 }), events: 23, aliases: 3, anchors: 1, documents: 3, nodes: 11, max_depth: 2, total_scalar_bytes: 6, merge_keys: 0 }"),
    ("scan_per_doc/docs_aliases/max_nodes=10", "BudgetReport { breached: None, events: 6, aliases: 0, anchors: 0, documents: 0, nodes: 3, max_depth: 1, total_scalar_bytes: 3, merge_keys: 0 }"),
    ("stream/docs_aliases/max_events=13", "[Ok({\"a\":1,\"b\":[1,1,1]}) ; Err(budget breached: Events { events: 14 } at line 3, column 1)] reports=[\"BudgetReport { breached: None, events: 14, aliases: 3, anchors: 1, documents: 0, nodes: 8, max_depth: 2, total_scalar_bytes: 6, merge_keys: 0 }\"]"),
    ("multi/docs_aliases/max_events=13", "Err(budget breached: Events { events: 14 } at line 2, column 15) reports=[]"),
    ("scan/docs_aliases/max_events=13", "BudgetReport { breached: Some(Events { events: 14 }), events: 14, aliases: 3, anchors: 1, documents: 1, nodes: 5, max_depth: 2, total_scalar_bytes: 3, merge_keys: 0 }"),
    ("scan_per_doc/docs_aliases/max_events=13", "BudgetReport { breached: None, events: 6, aliases: 0, anchors: 0, documents: 0, nodes: 3, max_depth: 1, total_scalar_bytes: 3, merge_keys: 0 }"),
    ("stream/docs_aliases/max_events=14", "[Ok({\"a\":1,\"b\":[1,1,1]}) ; Err(budget breached: Events { events: 15 } at line 3, column 1)] reports=[\"BudgetReport { breached: None, events: 15, aliases: 3, anchors: 1, documents: 0, nodes: 8, max_depth: 2, total_scalar_bytes: 6, merge_keys: 0 }\"]"),
    ("multi/docs_aliases/max_events=14", "Err(budget breached: Events { events: 15 } at line 3, column 1) reports=[]"),
    ("scan/docs_aliases/max_events=14", "BudgetReport { breached: Some(Events { events: 15 }), events: 15, aliases: 3, anchors: 1, documents: 2, nodes: 5, max_depth: 2, total_scalar_bytes: 3, merge_keys: 0 }"),
    ("scan_per_doc/docs_aliases/max_events=14", "BudgetReport { breached: None, events: 6, aliases: 0, anchors: 0, documents: 0, nodes: 3, max_depth: 1, total_scalar_bytes: 3, merge_keys: 0 }"),
    ("stream/docs_aliases/max_events=15", "[Ok({\"a\":1,\"b\":[1,1,1]}) ; Ok({\"x\":1}) ; Ok({\"c\":2,\"d\":3,\"e\":[2,3]}) ; Ok({\"id\":9})] reports=[\"BudgetReport { breached: None, events: 6, aliases: 0, anchors: 0, documents: 0, nodes: 3, max_depth: 1, total_scalar_bytes: 3, merge_keys: 0 }\"]"),
    ("multi/docs_aliases/max_events=15", "Err(budget breached: Events { events: 16 } at line 3, column 1) reports=[]"),
    ("scan/docs_aliases/max_events=15", "BudgetReport { breached: Some(Events { events: 16 }), events: 16, aliases: 3, anchors: 1, documents: 2, nodes: 6, max_depth: 2, total_scalar_bytes: 3, merge_keys: 0 }"),
    ("scan_per_doc/docs_aliases/max_events=15", "BudgetReport { breached: None, events: 6, aliases: 0, anchors: 0, documents: 0, nodes: 3, max_depth: 1, total_scalar_bytes: 3, merge_keys: 0 }"),
    ("stream/docs_aliases/max_events=16", "[Ok({\"a\":1,\"b\":[1,1,1]}) ; Ok({\"x\":1}) ; Ok({\"c\":2,\"d\":3,\"e\":[2,3]}) ; Ok({\"id\":9})] reports=[\"BudgetReport { breached: None, events: 6, aliases: 0, anchors: 0, documents: 0, nodes: 3, max_depth: 1, total_scalar_bytes: 3, merge_keys: 0 }\"]"),
    ("multi/docs_aliases/max_events=16", "Err(budget breached: Events { events: 17 } at line 3, column 1) reports=[]"),
    ("scan/docs_aliases/max_events=16", "BudgetReport { breached: Some(Events { events: 17 }), events: 17, aliases: 3, anchors: 1, documents: 2, nodes: 7, max_depth: 2, total_scalar_bytes: 4, merge_keys: 0 }"),
    ("scan_per_doc/docs_aliases/max_events=16", "BudgetReport { breached: None, events: 6, aliases: 0, anchors: 0, documents: 0, nodes: 3, max_depth: 1, total_scalar_bytes: 3, merge_keys: 0 }"),
    ("stream/mixed/default", "[Ok({\"id\":1}) ; Err(unexpected event: expected string scalar at line 3, column 5) ; Ok({\"id\":3}) ; Err(unexpected event: expected mapping start at line 8, column 1) ; Ok({\"id\":5})] reports=[\"BudgetReport { breached: None, events: 6, aliases: 0, anchors: 0, documents: 0, nodes: 3, max_depth: 1, total_scalar_bytes: 3, merge_keys: 0 }\"]"),
    ("stream_value/mixed/default", "[Ok({\"id\":1}) ; Ok({\"id\":[\"not\",\"a\",\"number\",\"at\",\"at\",\"at\"],\"more\":{\"a\":{\"b\":{\"c\":\"d\"}}}}) ; Ok({\"id\":3}) ; Ok([\"wrong shape\"]) ; Ok({\"id\":5})] reports=[\"BudgetReport { breached: None, events: 6, aliases: 0, anchors: 0, documents: 0, nodes: 3, max_depth: 1, total_scalar_bytes: 3, merge_keys: 0 }\"]"),
    ("stream/mixed/max_nodes=3", "[Ok({\"id\":1}) ; Err(unexpected event: expected string scalar at line 3, column 5) ; Ok({\"id\":3}) ; Err(unexpected event: expected mapping start at line 8, column 1) ; Ok({\"id\":5})] reports=[\"BudgetReport { breached: None, events: 6, aliases: 0, anchors: 0, documents: 0, nodes: 3, max_depth: 1, total_scalar_bytes: 3, merge_keys: 0 }\"]"),
    ("stream_value/mixed/max_nodes=3", "[Ok({\"id\":1}) ; Err(budget breached: Nodes { nodes: 4 } at line 3, column 6) ; Ok({\"id\":3}) ; Ok([\"wrong shape\"]) ; Ok({\"id\":5})] reports=[\"BudgetReport { breached: None, events: 6, aliases: 0, anchors: 0, documents: 0, nodes: 3, max_depth: 1, total_scalar_bytes: 3, merge_keys: 0 }\"]"),
    ("stream/mixed/max_nodes=2", "[Err(budget breached: Nodes { nodes: 3 } at line 1, column 5) ; Err(budget breached: Nodes { nodes: 3 } at line 3, column 5) ; Err(budget breached: Nodes { nodes: 3 } at line 6, column 5) ; Err(unexpected event: expected mapping start at line 8, column 1) ; Err(budget breached: Nodes { nodes: 3 } at line 10, column 5)] reports=[\"BudgetReport { breached: None, events: 3, aliases: 0, anchors: 0, documents: 0, nodes: 3, max_depth: 1, total_scalar_bytes: 2, merge_keys: 0 }\"]"),
    ("stream_value/mixed/max_nodes=2", "[Err(budget breached: Nodes { nodes: 3 } at line 1, column 5) ; Err(budget breached: Nodes { nodes: 3 } at line 3, column 5) ; Err(budget breached: Nodes { nodes: 3 } at line 6, column 5) ; Ok([\"wrong shape\"]) ; Err(budget breached: Nodes { nodes: 3 } at line 10, column 5)] reports=[\"BudgetReport { breached: None, events: 3, aliases: 0, anchors: 0, documents: 0, nodes: 3, max_depth: 1, total_scalar_bytes: 2, merge_keys: 0 }\"]"),
    ("stream/mixed/max_depth=1", "[Ok({\"id\":1}) ; Err(budget breached: Depth { depth: 2 } at line 3, column 5) ; Ok({\"id\":3}) ; Err(unexpected event: expected mapping start at line 8, column 1) ; Ok({\"id\":5})] reports=[\"BudgetReport { breached: None, events: 6, aliases: 0, anchors: 0, documents: 0, nodes: 3, max_depth: 1, total_scalar_bytes: 3, merge_keys: 0 }\"]"),
    ("stream_value/mixed/max_depth=1", "[Ok({\"id\":1}) ; Err(budget breached: Depth { depth: 2 } at line 3, column 5) ; Ok({\"id\":3}) ; Ok([\"wrong shape\"]) ; Ok({\"id\":5})] reports=[\"BudgetReport { breached: None, events: 6, aliases: 0, anchors: 0, documents: 0, nodes: 3, max_depth: 1, total_scalar_bytes: 3, merge_keys: 0 }\"]"),
    ("stream/mixed/max_events=6", "[Ok({\"id\":1}) ; Err(unexpected event: expected string scalar at line 3, column 5) ; Ok({\"id\":3}) ; Err(unexpected event: expected mapping start at line 8, column 1) ; Ok({\"id\":5})] reports=[\"BudgetReport { breached: None, events: 6, aliases: 0, anchors: 0, documents: 0, nodes: 3, max_depth: 1, total_scalar_bytes: 3, merge_keys: 0 }\"]"),
    ("stream_value/mixed/max_events=6", "[Ok({\"id\":1}) ; Err(budget breached: Events { events: 7 } at line 3, column 25) ; Ok({\"id\":3}) ; Ok([\"wrong shape\"]) ; Ok({\"id\":5})] reports=[\"BudgetReport { breached: None, events: 6, aliases: 0, anchors: 0, documents: 0, nodes: 3, max_depth: 1, total_scalar_bytes: 3, merge_keys: 0 }\"]"),
    ("stream/mixed/max_events=5", "[Ok({\"id\":1}) ; Err(budget breached: Events { events: 6 } at line 2, column 1)] reports=[\"BudgetReport { breached: None, events: 6, aliases: 0, anchors: 0, documents: 0, nodes: 3, max_depth: 1, total_scalar_bytes: 3, merge_keys: 0 }\"]"),
    ("stream_value/mixed/max_events=5", "[Ok({\"id\":1}) ; Err(budget breached: Events { events: 6 } at line 2, column 1)] reports=[\"BudgetReport { breached: None, events: 6, aliases: 0, anchors: 0, documents: 0, nodes: 3, max_depth: 1, total_scalar_bytes: 3, merge_keys: 0 }\"]"),
    ("stream/mixed/max_aliases=0", "[Ok({\"id\":1}) ; Err(unexpected event: expected string scalar at line 3, column 5) ; Ok({\"id\":3}) ; Err(unexpected event: expected mapping start at line 8, column 1) ; Ok({\"id\":5})] reports=[\"BudgetReport { breached: None, events: 6, aliases: 0, anchors: 0, documents: 0, nodes: 3, max_depth: 1, total_scalar_bytes: 3, merge_keys: 0 }\"]"),
    ("stream_value/mixed/max_aliases=0", "[Ok({\"id\":1}) ; Err(budget breached: Aliases { aliases: 1 } at line 3, column 29) ; Ok({\"id\":3}) ; Ok([\"wrong shape\"]) ; Ok({\"id\":5})] reports=[\"BudgetReport { breached: None, events: 6, aliases: 0, anchors: 0, documents: 0, nodes: 3, max_depth: 1, total_scalar_bytes: 3, merge_keys: 0 }\"]"),
    ("stream/merge_docs/max_merge_keys=0", "[Err(budget breached: MergeKeys { merge_keys: 1 } at line 2, column 5) ; Err(budget breached: MergeKeys { merge_keys: 1 } at line 5, column 5) ; Ok({\"plain\":1})] reports=[\"BudgetReport { breached: None, events: 6, aliases: 0, anchors: 0, documents: 0, nodes: 3, max_depth: 1, total_scalar_bytes: 6, merge_keys: 0 }\"]"),
    ("multi/merge_docs/max_merge_keys=0", "Err(budget breached: MergeKeys { merge_keys: 1 } at line 2, column 5) reports=[]"),
    ("scan_per_doc/merge_docs/max_merge_keys=0", "BudgetReport { breached: Some(MergeKeys { merge_keys: 1 }), events: 9, aliases: 0, anchors: 1, documents: 0, nodes: 8, max_depth: 2, total_scalar_bytes: 6, merge_keys: 1 }"),
    ("stream/merge_docs/max_merge_keys=1", "[Ok({\"b\":{\"k\":1},\"u\":{\"k\":1}}) ; Err(budget breached: MergeKeys { merge_keys: 2 } at line 6, column 5) ; Ok({\"plain\":1})] reports=[\"BudgetReport { breached: None, events: 6, aliases: 0, anchors: 0, documents: 0, nodes: 3, max_depth: 1, total_scalar_bytes: 6, merge_keys: 0 }\"]"),
    ("multi/merge_docs/max_merge_keys=1", "Err(budget breached: MergeKeys { merge_keys: 2 } at line 5, column 5) reports=[]"),
    ("scan_per_doc/merge_docs/max_merge_keys=1", "BudgetReport { breached: Some(MergeKeys { merge_keys: 2 }), events: 14, aliases: 1, anchors: 1, documents: 0, nodes: 11, max_depth: 2, total_scalar_bytes: 9, merge_keys: 2 }"),
    ("stream/merge_docs/max_merge_keys=2", "[Ok({\"b\":{\"k\":1},\"u\":{\"k\":1}}) ; Ok({\"b\":{\"k\":2},\"u\":{\"k\":2},\"v\":{\"k\":2}}) ; Ok({\"plain\":1})] reports=[\"BudgetReport { breached: None, events: 6, aliases: 0, anchors: 0, documents: 0, nodes: 3, max_depth: 1, total_scalar_bytes: 6, merge_keys: 0 }\"]"),
    ("multi/merge_docs/max_merge_keys=2", "Err(budget breached: MergeKeys { merge_keys: 3 } at line 6, column 5) reports=[]"),
    ("scan_per_doc/merge_docs/max_merge_keys=2", "BudgetReport { breached: None, events: 6, aliases: 0, anchors: 0, documents: 0, nodes: 3, max_depth: 1, total_scalar_bytes: 6, merge_keys: 0 }"),
    ("stream/merge_docs/max_merge_keys=3", "[Ok({\"b\":{\"k\":1},\"u\":{\"k\":1}}) ; Ok({\"b\":{\"k\":2},\"u\":{\"k\":2},\"v\":{\"k\":2}}) ; Ok({\"plain\":1})] reports=[\"BudgetReport { breached: None, events: 6, aliases: 0, anchors: 0, documents: 0, nodes: 3, max_depth: 1, total_scalar_bytes: 6, merge_keys: 0 }\"]"),
    ("multi/merge_docs/max_merge_keys=3", "Ok([{\"b\":{\"k\":1},\"u\":{\"k\":1}},{\"b\":{\"k\":2},\"u\":{\"k\":2},\"v\":{\"k\":2}},{\"plain\":1}]) reports=[\"BudgetReport { breached: None, events: 53, aliases: 3, anchors: 2, documents: 3, nodes: 31, max_depth: 3, total_scalar_bytes: 27, merge_keys: 3 }\"]"),
    ("scan_per_doc/merge_docs/max_merge_keys=3", "BudgetReport { breached: None, events: 6, aliases: 0, anchors: 0, documents: 0, nodes: 3, max_depth: 1, total_scalar_bytes: 6, merge_keys: 0 }"),
    ("stream/sparse/default", "[Ok({\"id\":1}) ; Ok({\"id\":2})] reports=[\"BudgetReport { breached: None, events: 6, aliases: 0, anchors: 0, documents: 0, nodes: 3, max_depth: 1, total_scalar_bytes: 3, merge_keys: 0 }\"]"),
    ("multi/sparse/default", "Ok([{\"id\":1},{\"id\":2}]) reports=[\"BudgetReport { breached: None, events: 26, aliases: 0, anchors: 0, documents: 6, nodes: 10, max_depth: 1, total_scalar_bytes: 13, merge_keys: 0 }\"]"),
    ("scan/sparse/default", "BudgetReport { breached: None, events: 26, aliases: 0, anchors: 0, documents: 6, nodes: 10, max_depth: 1, total_scalar_bytes: 13, merge_keys: 0 }"),
    ("scan_per_doc/sparse/default", "BudgetReport { breached: None, events: 6, aliases: 0, anchors: 0, documents: 0, nodes: 3, max_depth: 1, total_scalar_bytes: 3, merge_keys: 0 }"),
    ("stream/sparse/max_events=4", "[Ok({\"id\":1}) ; Err(budget breached: Events { events: 5 } at line 6, column 1)] reports=[\"BudgetReport { breached: None, events: 5, aliases: 0, anchors: 0, documents: 0, nodes: 3, max_depth: 1, total_scalar_bytes: 3, merge_keys: 0 }\"]"),
    ("multi/sparse/max_documents=5", "Err(budget breached: Documents { documents: 6 } at line 10, column 1) reports=[]"),
    ("multi/sparse/max_documents=6", "Ok([{\"id\":1},{\"id\":2}]) reports=[\"BudgetReport { breached: None, events: 26, aliases: 0, anchors: 0, documents: 6, nodes: 10, max_depth: 1, total_scalar_bytes: 13, merge_keys: 0 }\"]"),
    ("multi/sparse/max_documents=7", "Ok([{\"id\":1},{\"id\":2}]) reports=[\"BudgetReport { breached: None, events: 26, aliases: 0, anchors: 0, documents: 6, nodes: 10, max_depth: 1, total_scalar_bytes: 13, merge_keys: 0 }\"]"),
    ("single/replay_big/no_budget", "Ok({\"big\":[1,2,3,{\"a\":[4,5],\"b\":6}],\"r1\":[1,2,3,{\"a\":[4,5],\"b\":6}],\"r2\":[1,2,3,{\"a\":[4,5],\"b\":6}]}) reports=[]"),
];

#[test]
fn demo_differential() {
    let actual = cases();
    if std::env::var_os("DEMO_PRINT").is_some() {
        println!("const EXPECTED: &[(&str, &str)] = &[");
        for (name, result) in &actual {
            println!("    ({name:?}, {result:?}),");
        }
        println!("];");
        return;
    }
    assert_eq!(actual.len(), EXPECTED.len(), "number of cases");
    let mut failures = Vec::new();
    for ((name, result), (exp_name, exp_result)) in actual.iter().zip(EXPECTED) {
        assert_eq!(name, exp_name, "case order");
        if result != exp_result {
            failures.push(format!("{name}\n  expected: {exp_result}\n  actual:   {result}"));
        }
    }
    assert!(
        failures.is_empty(),
        "{} of {} cases differ:\n{}",
        failures.len(),
        actual.len(),
        failures.join("\n")
    );
}
