//! Differential test for the C16 control refactoring (locations of errors and of
//! `Spanned<T>` values). Every case renders its outcome (value with both locations, or
//! error text + primary location + location pair) into one string, which is compared with
//! a literal recorded on the unmodified tree.
//!
//! Regenerate the literals with `DEMO_PRINT=1 cargo test --test demo -- --nocapture`.

#![allow(dead_code)]

use std::collections::BTreeMap;
use std::fmt::Debug;

use serde::Deserialize;
use serde::de::DeserializeOwned;
use serde_saphyr::{Error, Location, Options, Spanned};

// ---------------------------------------------------------------------------------------
// Rendering
// ---------------------------------------------------------------------------------------

fn loc(l: &Location) -> String {
    let s = l.span();
    format!(
        "{}:{}[c{}+{} b{:?}+{:?}]",
        l.line(),
        l.column(),
        s.offset(),
        s.len(),
        s.byte_offset(),
        s.byte_len()
    )
}

fn show_err(e: &Error) -> String {
    let primary = match e.location() {
        Some(l) => loc(&l),
        None => "none".to_string(),
    };
    let pair = match e.locations() {
        Some(p) => format!(
            "ref={} def={}",
            loc(&p.reference_location),
            loc(&p.defined_location)
        ),
        None => "none".to_string(),
    };
    let variant = format!("{:?}", e.without_snippet());
    let variant = variant
        .split(|c: char| !(c.is_alphanumeric()))
        .next()
        .unwrap_or("")
        .to_string();
    format!(
        "ERR kind={variant} at={primary} pair=({pair}) plain={:?} full={:?}",
        e.without_snippet().to_string(),
        e.to_string()
    )
}

fn show<T: Debug>(r: Result<T, Error>) -> String {
    match r {
        Ok(v) => format!("OK {v:?}"),
        Err(e) => show_err(&e),
    }
}

/// `Spanned<T>` rendered compactly: value, use-site, definition-site.
fn sp<T: Debug>(s: &Spanned<T>) -> String {
    format!(
        "{:?} ref={} def={}",
        s.value,
        loc(&s.referenced),
        loc(&s.defined)
    )
}

fn show_sp<T: Debug>(r: Result<Spanned<T>, Error>) -> String {
    match r {
        Ok(v) => format!("OK {}", sp(&v)),
        Err(e) => show_err(&e),
    }
}

fn show_sp_vec<T: Debug>(r: Result<Vec<Spanned<T>>, Error>) -> String {
    match r {
        Ok(v) => format!(
            "OK [{}]",
            v.iter().map(|s| sp(s)).collect::<Vec<_>>().join(" | ")
        ),
        Err(e) => show_err(&e),
    }
}

fn show_sp_map<T: Debug>(r: Result<BTreeMap<String, Spanned<T>>, Error>) -> String {
    match r {
        Ok(v) => format!(
            "OK {{{}}}",
            v.iter()
                .map(|(k, s)| format!("{k}: {}", sp(s)))
                .collect::<Vec<_>>()
                .join(" | ")
        ),
        Err(e) => show_err(&e),
    }
}

/// The byte range a spanned scalar reports, cut out of the (BOM-stripped) input.
fn slice_of<'a>(input: &'a str, l: &Location) -> &'a str {
    let input = input.strip_prefix('\u{FEFF}').unwrap_or(input);
    match (l.span().byte_offset(), l.span().byte_len()) {
        (Some(o), Some(n)) => &input[o as usize..(o + n) as usize],
        _ => "<no bytes>",
    }
}

fn no_snippet() -> Options {
    serde_saphyr::options! { with_snippet: false }
}

fn plain<T: DeserializeOwned>(input: &str) -> Result<T, Error> {
    serde_saphyr::from_str_with_options(input, no_snippet())
}

// ---------------------------------------------------------------------------------------
// Types
// ---------------------------------------------------------------------------------------

#[derive(Debug, Deserialize)]
struct Point {
    x: i32,
    y: i32,
}

#[derive(Debug, Deserialize)]
#[serde(deny_unknown_fields)]
struct Strict {
    a: i32,
    #[serde(default)]
    b: Option<bool>,
}

#[derive(Debug, Deserialize)]
struct Holder {
    base: Point,
    other: Point,
}

#[derive(Debug, Deserialize)]
struct Holder2 {
    base: BTreeMap<String, String>,
    other: Point,
}

#[derive(Debug, Deserialize)]
struct NestedAliases {
    s: Spanned<i32>,
    a: Spanned<Vec<Spanned<i32>>>,
    b: Spanned<Vec<Spanned<i32>>>,
    c: Spanned<Vec<Spanned<i32>>>,
}

#[derive(Debug, Deserialize)]
struct TextThenInts {
    a: String,
    b: i32,
    c: i32,
}

#[derive(Debug, Deserialize)]
struct Merged {
    name: String,
    x: Spanned<i32>,
    y: Spanned<i32>,
}

#[derive(Debug, Deserialize)]
enum Shape {
    Dot,
    Circle(u8),
    Rect { w: u8, h: u8 },
    Pair(u8, u8),
}

#[derive(Debug, Deserialize)]
struct Shapes {
    radius: u16,
    shapes: Vec<Shape>,
}

#[derive(Debug, Deserialize)]
struct SpannedDoc {
    title: Spanned<String>,
    count: Spanned<Option<u32>>,
    tags: Spanned<Vec<Spanned<String>>>,
}

#[derive(Debug, Deserialize)]
#[serde(untagged)]
enum Either {
    N(Spanned<i64>),
    S(Spanned<String>),
}

#[derive(Debug, Deserialize)]
struct Wrapper {
    inner: Vec<BTreeMap<String, bool>>,
}

// ---------------------------------------------------------------------------------------
// Cases
// ---------------------------------------------------------------------------------------

fn cases() -> Vec<(&'static str, String)> {
    let mut out: Vec<(&'static str, String)> = Vec::new();
    let mut add = |name: &'static str, s: String| out.push((name, s));

    // ---- span-carrying values, plain nodes ------------------------------------------
    add("sp_root_scalar", show_sp(plain::<Spanned<String>>("hello")));
    add(
        "sp_root_scalar_indented_doc",
        show_sp(plain::<Spanned<i32>>("---\n   42\n")),
    );
    add("sp_bom_root", show_sp(plain::<Spanned<String>>("\u{FEFF}abc")));
    {
        let input = "\u{FEFF}k\u{e9}y: \"v\u{1F511}l\"\nz: 'q''q'\n";
        let r = plain::<BTreeMap<String, Spanned<String>>>(input);
        let slices = match &r {
            Ok(m) => m
                .values()
                .map(|s| format!("{:?}", slice_of(input, &s.defined)))
                .collect::<Vec<_>>()
                .join(","),
            Err(_) => String::new(),
        };
        add("sp_bom_multibyte_map", format!("{} slices={slices}", show_sp_map(r)));
    }
    {
        let input = "- a\r\n- \u{4e2d}\u{6587}\r\n-   tail  \r\n- \"x\\ty\"\r\n";
        let r = plain::<Vec<Spanned<String>>>(input);
        let slices = match &r {
            Ok(v) => v
                .iter()
                .map(|s| format!("{:?}", slice_of(input, &s.defined)))
                .collect::<Vec<_>>()
                .join(","),
            Err(_) => String::new(),
        };
        add("sp_crlf_seq", format!("{} slices={slices}", show_sp_vec(r)));
    }
    add(
        "sp_flow_seq",
        show_sp_vec(plain::<Vec<Spanned<u8>>>("[1,  2 ,\n  3]")),
    );
    add(
        "sp_block_scalars",
        show_sp_map(plain::<BTreeMap<String, Spanned<String>>>(
            "lit: |\n  one\n  two\nfold: >-\n  a\n  b\nplain: multi\n  line\n",
        )),
    );
    add(
        "sp_containers",
        show(plain::<SpannedDoc>(
            "title: T\ncount:\ntags:\n  - a\n  - b # c\n",
        )),
    );
    add(
        "sp_containers_flow_null",
        show(plain::<SpannedDoc>("{title: 'T', count: ~, tags: []}")),
    );
    add(
        "sp_option_missing_value_at_eof",
        show_sp_map(plain::<BTreeMap<String, Spanned<Option<i32>>>>("a: 1\nb:")),
    );
    add("sp_empty_input_unit", show_sp(plain::<Spanned<()>>("")));
    add(
        "sp_empty_input_option",
        show_sp(plain::<Spanned<Option<i32>>>("# only a comment\n")),
    );
    add(
        "sp_untagged",
        show(plain::<Vec<Either>>("- 12\n- twelve\n- *nope\n")),
    );
    add(
        "sp_reader_has_no_bytes",
        show_sp_vec(serde_saphyr::from_reader::<_, Vec<Spanned<String>>>(
            "- \u{e9}a\n- b\n".as_bytes(),
        )),
    );
    add(
        "sp_slice_has_bytes",
        show_sp_vec(serde_saphyr::from_slice::<Vec<Spanned<String>>>(
            "- \u{e9}a\n- b\n".as_bytes(),
        )),
    );
    add(
        "sp_multiple_documents",
        match serde_saphyr::from_multiple::<Spanned<String>>("a\n---\n  b\n...\n---\nc\n") {
            Ok(v) => format!(
                "OK [{}]",
                v.iter().map(|s| sp(s)).collect::<Vec<_>>().join(" | ")
            ),
            Err(e) => show_err(&e),
        },
    );

    // ---- span-carrying values through aliases and merges -----------------------------
    add(
        "sp_alias_scalar",
        show_sp_map(plain::<BTreeMap<String, Spanned<String>>>(
            "a: &v  val\u{e9}\nb: *v\nc:   *v\n",
        )),
    );
    add(
        "sp_alias_seq_elements",
        show_sp_vec(plain::<Vec<Spanned<i32>>>("- &n 7\n- *n\n- 8\n-   *n\n")),
    );
    add(
        "sp_alias_to_container",
        show(plain::<BTreeMap<String, Spanned<Vec<Spanned<i32>>>>>(
            "a: &l [1, 2]\nb: *l\n",
        )),
    );
    add(
        "sp_alias_nested_alias",
        show(plain::<NestedAliases>(
            "s: &s 5\na: &l [*s, 6]\nb: *l\nc: [*s]\n",
        )),
    );
    add(
        "sp_alias_last_then_plain",
        show(plain::<(Vec<String>, Spanned<Vec<String>>, Spanned<String>)>(
            "- &a [x]\n- *a\n- y\n",
        )),
    );
    add(
        "sp_alias_map_then_following",
        show(plain::<Vec<BTreeMap<String, Spanned<i32>>>>(
            "- &m {p: 1, q: 2}\n- *m\n- {r: 3}\n",
        )),
    );
    add(
        "sp_merge_single",
        show(plain::<(BTreeMap<String, i32>, Merged)>(
            "- &b {x: 1, y: 2}\n- name: n\n  <<: *b\n",
        )),
    );
    add(
        "sp_merge_alias",
        show(plain::<BTreeMap<String, Merged>>(
            "defs: &b {x: 1, y: 2, name: d}\nuse:\n  <<: *b\n  name: u\n  y: 20\n",
        )),
    );
    add(
        "sp_merge_seq_of_aliases",
        show(plain::<Vec<BTreeMap<String, Spanned<i32>>>>(
            "- &a {x: 1}\n- &b {y: 2, x: 9}\n- <<: [*a, *b]\n  z: 3\n",
        )),
    );
    add(
        "sp_merge_inline_map",
        show(plain::<BTreeMap<String, Spanned<i32>>>(
            "<<: {x: 1, y: 2}\nz: 3\n",
        )),
    );
    add(
        "sp_merge_nested_merge",
        show(plain::<Vec<BTreeMap<String, Spanned<i32>>>>(
            "- &a {x: 1}\n- &b\n  <<: *a\n  y: 2\n- <<: *b\n  z: 3\n",
        )),
    );
    add(
        "sp_merge_value_is_alias_inside",
        show(plain::<(
            Spanned<i32>,
            BTreeMap<String, Spanned<i32>>,
            BTreeMap<String, Spanned<i32>>,
        )>("- &n 4\n- &a {x: *n}\n- <<: *a\n  w: *n\n")),
    );

    // ---- errors at plain nodes -----------------------------------------------------
    add("err_type_root", show(plain::<i32>("  [1]")));
    add("err_type_in_map", show(plain::<Point>("x: 1\ny: {a: 1}\n")));
    add(
        "err_type_in_seq_multibyte",
        show(plain::<Vec<bool>>("- true\n- \"\u{e9}\u{e9}\" \n")),
    );
    add(
        "err_type_with_snippet",
        show(serde_saphyr::from_str::<Point>("x: 1\ny: nope\n")),
    );
    add(
        "err_bom_type",
        show(plain::<Point>("\u{FEFF}x: 1\ny: q\n")),
    );
    add("err_missing_field", show(plain::<Point>("x: 1\n")));
    add(
        "err_missing_field_nested",
        show(plain::<Holder>("base: {x: 1, y: 2}\nother:\n  x: 3\n")),
    );
    add(
        "err_unknown_field",
        show(plain::<Strict>("a: 1\n\u{e9}\u{e9}: 2\n")),
    );
    add(
        "err_serde_invalid_value",
        show(plain::<Vec<std::num::NonZeroU8>>("- 1\n-   0\n")),
    );
    add(
        "err_serde_invalid_length",
        show(plain::<(u8, u8)>("- 1\n- 2\n- 3\n")),
    );
    add(
        "err_unknown_variant",
        show(plain::<Vec<Shape>>("- Dot\n- Blob\n")),
    );
    add(
        "err_variant_payload",
        show(plain::<Vec<Shape>>("- Circle: 3\n- Circle: big\n")),
    );
    add(
        "err_struct_variant_field",
        show(plain::<Vec<Shape>>("- Rect: {w: 1, h: tall}\n")),
    );
    add("err_eof", show(plain::<Point>("")));
    add("err_eof_after_comment", show(plain::<bool>("\n\n# c\n")));
    add(
        "err_duplicate_key",
        show(plain::<BTreeMap<String, i32>>("a: 1\nb: 2\n  \na: 3\n")),
    );
    add(
        "err_multiple_documents",
        show(plain::<i32>("1\n---\n2\n")),
    );
    add(
        "err_second_document",
        show(serde_saphyr::from_multiple_with_options::<Point>(
            "x: 1\ny: 2\n---\nx: 1\ny: \u{1F511}\n",
            no_snippet(),
        )),
    );
    add(
        "err_reader_type",
        show(serde_saphyr::from_reader_with_options::<_, Point>(
            "x: \u{e9}\ny: 2\n".as_bytes(),
            no_snippet(),
        )),
    );
    add(
        "err_slice_type",
        show(serde_saphyr::from_slice_with_options::<Point>(
            "x: \u{e9}\ny: 2\n".as_bytes(),
            no_snippet(),
        )),
    );

    // ---- scan errors ------------------------------------------------------------------
    add(
        "scan_unclosed_flow",
        show(plain::<Vec<String>>(" [1, 2\n 3, 4 aaaaaa")),
    );
    add(
        "scan_unknown_anchor",
        show(plain::<BTreeMap<String, String>>("a: 1\nb: *missing\n")),
    );
    add(
        "scan_tab_indent_multibyte",
        show(plain::<BTreeMap<String, String>>(
            "k\u{e9}: v\n\u{4e2d}:\n\t- x\n",
        )),
    );
    add(
        "scan_bom_bad_map",
        show(plain::<BTreeMap<String, String>>(
            "\u{FEFF}a: b: c\n",
        )),
    );
    add(
        "scan_with_snippet",
        show(serde_saphyr::from_str::<BTreeMap<String, String>>(
            "ok: 1\nbad: \"unterminated\n",
        )),
    );
    add(
        "scan_reader",
        show(serde_saphyr::from_reader_with_options::<_, Vec<String>>(
            "- a\n- [b\n".as_bytes(),
            no_snippet(),
        )),
    );
    add(
        "scan_in_second_document",
        show(serde_saphyr::from_multiple_with_options::<Vec<i32>>(
            "- 1\n---\n- 2\n- {\n",
            no_snippet(),
        )),
    );

    // ---- errors under aliases and merges -----------------------------------------------
    add(
        "alias_err_map_value",
        show(plain::<TextThenInts>("a: &v text\nb: 1\nc: *v\n")),
    );
    add(
        "alias_err_map_value_snippet",
        show(serde_saphyr::from_str::<TextThenInts>(
            "a: &v text\nb: 1\nc: *v\n",
        )),
    );
    add(
        "alias_err_seq_element",
        show(plain::<Vec<Point>>("- &p {x: 1, y: 2}\n- *p\n").map(|_| ())),
    );
    add(
        "alias_err_seq_element_bad",
        show(plain::<(BTreeMap<String, String>, Point)>(
            "- &p {x: one, y: two}\n-   *p\n",
        )),
    );
    add(
        "alias_ok_struct_field",
        show(plain::<Holder>("base: &b\n  x: 1\n  y: 2\nother: *b\n")),
    );
    add(
        "alias_err_missing_field",
        show(plain::<(BTreeMap<String, i32>, Point)>("- &p {x: 1}\n- *p\n")),
    );
    add(
        "alias_err_unknown_field",
        show(plain::<(BTreeMap<String, i32>, Strict)>(
            "- &p {a: 1, zz: 2}\n- *p\n",
        )),
    );
    add(
        "alias_err_struct_field",
        show(plain::<Holder2>(
            "base: &b\n  x: a\n  y: 2\nother:   *b\n",
        )),
    );
    add(
        "alias_err_nested_container",
        show(plain::<(Vec<Vec<String>>, Wrapper)>(
            "- &l [[a, b]]\n- inner:\n    - k: true\n    - *l\n",
        )),
    );
    add(
        "alias_err_newtype_variant",
        show(plain::<(String, Shape)>("- &big huge\n- Circle: *big\n")),
    );
    add(
        "alias_err_variant_name",
        show(plain::<(String, Shape)>("- &n Blob\n- *n\n")),
    );
    add(
        "alias_err_option",
        show(plain::<(i32, Option<u8>)>("- &v -1\n- *v\n")),
    );
    add(
        "alias_err_invalid_value",
        show(plain::<(i32, std::num::NonZeroU8)>("- &z 0\n- *z\n")),
    );
    add(
        "alias_err_alias_of_alias_value",
        show(plain::<(String, Vec<String>, Vec<i32>)>(
            "- &s str\n- &l [*s]\n- *l\n",
        )),
    );
    add(
        "merge_err_field_type",
        show(plain::<(BTreeMap<String, String>, Point)>(
            "- &m {y: why}\n- x: 1\n  <<: *m\n",
        )),
    );
    add(
        "merge_err_not_a_map",
        show(plain::<BTreeMap<String, i32>>("a: 1\n<<: 3\n")),
    );
    add(
        "merge_err_not_a_map_alias",
        show(plain::<(Vec<i32>, BTreeMap<String, i32>)>(
            "- &s [1]\n- a: 1\n  <<: [*s]\n",
        )),
    );
    add(
        "merge_err_missing_field",
        show(plain::<(BTreeMap<String, i32>, Point)>(
            "- &m {z: 1}\n- <<: *m\n  x: 1\n",
        )),
    );
    add(
        "merge_err_spanned_field",
        show(plain::<(BTreeMap<String, String>, Merged)>(
            "- &m {x: 1, y: no}\n- name: n\n  <<: *m\n",
        )),
    );

    // ---- limits: errors located at replayed / alias events -----------------------------
    add(
        "limit_alias_expansions",
        show(serde_saphyr::from_str_with_options::<Vec<String>>(
            "- &a x\n- *a\n- *a\n-  *a\n",
            {
                let mut o = no_snippet();
                o.alias_limits.max_alias_expansions_per_anchor = 2;
                o
            },
        )),
    );
    add(
        "limit_total_replayed",
        show(serde_saphyr::from_str_with_options::<Vec<Vec<String>>>(
            "- &a [x, y, z]\n- *a\n- *a\n",
            {
                let mut o = no_snippet();
                o.alias_limits.max_total_replayed_events = 7;
                o
            },
        )),
    );
    add(
        "limit_budget_nodes",
        show(serde_saphyr::from_str_with_options::<Vec<i32>>(
            "- 1\n- 2\n- 3\n- 4\n",
            serde_saphyr::options! {
                with_snippet: false,
                budget: serde_saphyr::budget! { max_nodes: 3 },
            },
        )),
    );

    out
}

// ---------------------------------------------------------------------------------------
// Expected results (recorded on the unmodified tree)
// ---------------------------------------------------------------------------------------

const EXPECTED: &[(&str, &str)] = &[
    ("sp_root_scalar", "OK \"hello\" ref=1:1[c0+5 bSome(0)+Some(5)] def=1:1[c0+5 bSome(0)+Some(5)]"),
    ("sp_root_scalar_indented_doc", "OK 42 ref=2:4[c7+2 bSome(7)+Some(2)] def=2:4[c7+2 bSome(7)+Some(2)]"),
    ("sp_bom_root", "OK \"abc\" ref=1:1[c0+3 bSome(0)+Some(3)] def=1:1[c0+3 bSome(0)+Some(3)]"),
    ("sp_bom_multibyte_map", "OK {kéy: \"v🔑l\" ref=1:6[c5+5 bSome(6)+Some(8)] def=1:6[c5+5 bSome(6)+Some(8)] | z: \"q'q\" ref=2:4[c14+6 bSome(18)+Some(6)] def=2:4[c14+6 bSome(18)+Some(6)]} slices=\"\\\"v🔑l\\\"\",\"'q''q'\""),
    ("sp_crlf_seq", "OK [\"a\" ref=1:3[c2+1 bSome(2)+Some(1)] def=1:3[c2+1 bSome(2)+Some(1)] | \"中文\" ref=2:3[c7+2 bSome(7)+Some(6)] def=2:3[c7+2 bSome(7)+Some(6)] | \"tail\" ref=3:5[c15+4 bSome(19)+Some(4)] def=3:5[c15+4 bSome(19)+Some(4)] | \"x\\ty\" ref=4:3[c25+6 bSome(29)+Some(6)] def=4:3[c25+6 bSome(29)+Some(6)]] slices=\"a\",\"中文\",\"tail\",\"\\\"x\\\\ty\\\"\""),
    ("sp_flow_seq", "OK [1 ref=1:2[c1+1 bSome(1)+Some(1)] def=1:2[c1+1 bSome(1)+Some(1)] | 2 ref=1:6[c5+1 bSome(5)+Some(1)] def=1:6[c5+1 bSome(5)+Some(1)] | 3 ref=2:3[c11+1 bSome(11)+Some(1)] def=2:3[c11+1 bSome(11)+Some(1)]]"),
    ("sp_block_scalars", "OK {fold: \"a b\" ref=5:3[c30+6 bSome(30)+Some(6)] def=5:3[c30+6 bSome(30)+Some(6)] | lit: \"one\\ntwo\\n\" ref=2:3[c9+10 bSome(9)+Some(10)] def=2:3[c9+10 bSome(9)+Some(10)] | plain: \"multi line\" ref=7:8[c43+12 bSome(43)+Some(12)] def=7:8[c43+12 bSome(43)+Some(12)]}"),
    ("sp_containers", "OK SpannedDoc { title: Spanned { value: \"T\", referenced: Location { line: 1, column: 8, span: Span { offset: 7, len: 1, byte_info: (7, 1) } }, defined: Location { line: 1, column: 8, span: Span { offset: 7, len: 1, byte_info: (7, 1) } } }, count: Spanned { value: None, referenced: Location { line: 2, column: 6, span: Span { offset: 14, len: 0, byte_info: (14, 0) } }, defined: Location { line: 2, column: 6, span: Span { offset: 14, len: 0, byte_info: (14, 0) } } }, tags: Spanned { value: [Spanned { value: \"a\", referenced: Location { line: 4, column: 5, span: Span { offset: 26, len: 1, byte_info: (26, 1) } }, defined: Location { line: 4, column: 5, span: Span { offset: 26, len: 1, byte_info: (26, 1) } } }, Spanned { value: \"b\", referenced: Location { line: 5, column: 5, span: Span { offset: 32, len: 1, byte_info: (32, 1) } }, defined: Location { line: 5, column: 5, span: Span { offset: 32, len: 1, byte_info: (32, 1) } } }], referenced: Location { line: 4, column: 3, span: Span { offset: 24, len: 0, byte_info: (24, 0) } }, defined: Location { line: 4, column: 3, span: Span { offset: 24, len: 0, byte_info: (24, 0) } } } }"),
    ("sp_containers_flow_null", "OK SpannedDoc { title: Spanned { value: \"T\", referenced: Location { line: 1, column: 9, span: Span { offset: 8, len: 3, byte_info: (8, 3) } }, defined: Location { line: 1, column: 9, span: Span { offset: 8, len: 3, byte_info: (8, 3) } } }, count: Spanned { value: None, referenced: Location { line: 1, column: 21, span: Span { offset: 20, len: 1, byte_info: (20, 1) } }, defined: Location { line: 1, column: 21, span: Span { offset: 20, len: 1, byte_info: (20, 1) } } }, tags: Spanned { value: [], referenced: Location { line: 1, column: 30, span: Span { offset: 29, len: 1, byte_info: (29, 1) } }, defined: Location { line: 1, column: 30, span: Span { offset: 29, len: 1, byte_info: (29, 1) } } } }"),
    ("sp_option_missing_value_at_eof", "OK {a: Some(1) ref=1:4[c3+1 bSome(3)+Some(1)] def=1:4[c3+1 bSome(3)+Some(1)] | b: None ref=2:2[c6+0 bSome(6)+Some(0)] def=2:2[c6+0 bSome(6)+Some(0)]}"),
    ("sp_empty_input_unit", "OK () ref=1:1[c0+0 bNone+None] def=1:1[c0+0 bNone+None]"),
    ("sp_empty_input_option", "OK None ref=2:1[c17+0 bSome(17)+Some(0)] def=2:1[c17+0 bSome(17)+Some(0)]"),
    ("sp_untagged", "ERR kind=UnknownAnchor at=3:3[c16+1 bNone+None] pair=(ref=3:3[c16+1 bNone+None] def=3:3[c16+1 bNone+None]) plain=\"alias references unknown anchor at line 3, column 3\" full=\"alias references unknown anchor at line 3, column 3\""),
    ("sp_reader_has_no_bytes", "OK [\"éa\" ref=1:3[c2+2 bNone+None] def=1:3[c2+2 bNone+None] | \"b\" ref=2:3[c7+1 bNone+None] def=2:3[c7+1 bNone+None]]"),
    ("sp_slice_has_bytes", "OK [\"éa\" ref=1:3[c2+2 bSome(2)+Some(3)] def=1:3[c2+2 bSome(2)+Some(3)] | \"b\" ref=2:3[c7+1 bSome(8)+Some(1)] def=2:3[c7+1 bSome(8)+Some(1)]]"),
    ("sp_multiple_documents", "OK [\"a\" ref=1:1[c0+1 bSome(0)+Some(1)] def=1:1[c0+1 bSome(0)+Some(1)] | \"b\" ref=3:3[c8+1 bSome(8)+Some(1)] def=3:3[c8+1 bSome(8)+Some(1)] | \"c\" ref=6:1[c18+1 bSome(18)+Some(1)] def=6:1[c18+1 bSome(18)+Some(1)]]"),
    ("sp_alias_scalar", "OK {a: \"valé\" ref=1:8[c7+4 bSome(7)+Some(5)] def=1:8[c7+4 bSome(7)+Some(5)] | b: \"valé\" ref=2:4[c15+2 bSome(16)+Some(2)] def=1:8[c7+4 bSome(7)+Some(5)] | c: \"valé\" ref=3:6[c23+2 bSome(24)+Some(2)] def=1:8[c7+4 bSome(7)+Some(5)]}"),
    ("sp_alias_seq_elements", "OK [7 ref=1:6[c5+1 bSome(5)+Some(1)] def=1:6[c5+1 bSome(5)+Some(1)] | 7 ref=2:3[c9+2 bSome(9)+Some(2)] def=1:6[c5+1 bSome(5)+Some(1)] | 8 ref=3:3[c14+1 bSome(14)+Some(1)] def=3:3[c14+1 bSome(14)+Some(1)] | 7 ref=4:5[c20+2 bSome(20)+Some(2)] def=1:6[c5+1 bSome(5)+Some(1)]]"),
    ("sp_alias_to_container", "OK {\"a\": Spanned { value: [Spanned { value: 1, referenced: Location { line: 1, column: 8, span: Span { offset: 7, len: 1, byte_info: (7, 1) } }, defined: Location { line: 1, column: 8, span: Span { offset: 7, len: 1, byte_info: (7, 1) } } }, Spanned { value: 2, referenced: Location { line: 1, column: 11, span: Span { offset: 10, len: 1, byte_info: (10, 1) } }, defined: Location { line: 1, column: 11, span: Span { offset: 10, len: 1, byte_info: (10, 1) } } }], referenced: Location { line: 1, column: 7, span: Span { offset: 6, len: 1, byte_info: (6, 1) } }, defined: Location { line: 1, column: 7, span: Span { offset: 6, len: 1, byte_info: (6, 1) } } }, \"b\": Spanned { value: [Spanned { value: 1, referenced: Location { line: 2, column: 4, span: Span { offset: 16, len: 2, byte_info: (16, 2) } }, defined: Location { line: 1, column: 8, span: Span { offset: 7, len: 1, byte_info: (7, 1) } } }, Spanned { value: 2, referenced: Location { line: 2, column: 4, span: Span { offset: 16, len: 2, byte_info: (16, 2) } }, defined: Location { line: 1, column: 11, span: Span { offset: 10, len: 1, byte_info: (10, 1) } } }], referenced: Location { line: 2, column: 4, span: Span { offset: 16, len: 2, byte_info: (16, 2) } }, defined: Location { line: 1, column: 7, span: Span { offset: 6, len: 1, byte_info: (6, 1) } } }}"),
    ("sp_alias_nested_alias", "OK NestedAliases { s: Spanned { value: 5, referenced: Location { line: 1, column: 7, span: Span { offset: 6, len: 1, byte_info: (6, 1) } }, defined: Location { line: 1, column: 7, span: Span { offset: 6, len: 1, byte_info: (6, 1) } } }, a: Spanned { value: [Spanned { value: 5, referenced: Location { line: 2, column: 8, span: Span { offset: 15, len: 2, byte_info: (15, 2) } }, defined: Location { line: 1, column: 7, span: Span { offset: 6, len: 1, byte_info: (6, 1) } } }, Spanned { value: 6, referenced: Location { line: 2, column: 12, span: Span { offset: 19, len: 1, byte_info: (19, 1) } }, defined: Location { line: 2, column: 12, span: Span { offset: 19, len: 1, byte_info: (19, 1) } } }], referenced: Location { line: 2, column: 7, span: Span { offset: 14, len: 1, byte_info: (14, 1) } }, defined: Location { line: 2, column: 7, span: Span { offset: 14, len: 1, byte_info: (14, 1) } } }, b: Spanned { value: [Spanned { value: 5, referenced: Location { line: 3, column: 4, span: Span { offset: 25, len: 2, byte_info: (25, 2) } }, defined: Location { line: 1, column: 7, span: Span { offset: 6, len: 1, byte_info: (6, 1) } } }, Spanned { value: 6, referenced: Location { line: 3, column: 4, span: Span { offset: 25, len: 2, byte_info: (25, 2) } }, defined: Location { line: 2, column: 12, span: Span { offset: 19, len: 1, byte_info: (19, 1) } } }], referenced: Location { line: 3, column: 4, span: Span { offset: 25, len: 2, byte_info: (25, 2) } }, defined: Location { line: 2, column: 7, span: Span { offset: 14, len: 1, byte_info: (14, 1) } } }, c: Spanned { value: [Spanned { value: 5, referenced: Location { line: 4, column: 5, span: Span { offset: 32, len: 2, byte_info: (32, 2) } }, defined: Location { line: 1, column: 7, span: Span { offset: 6, len: 1, byte_info: (6, 1) } } }], referenced: Location { line: 4, column: 4, span: Span { offset: 31, len: 1, byte_info: (31, 1) } }, defined: Location { line: 4, column: 4, span: Span { offset: 31, len: 1, byte_info: (31, 1) } } } }"),
    ("sp_alias_last_then_plain", "OK ([\"x\"], Spanned { value: [\"x\"], referenced: Location { line: 2, column: 3, span: Span { offset: 11, len: 2, byte_info: (11, 2) } }, defined: Location { line: 1, column: 6, span: Span { offset: 5, len: 1, byte_info: (5, 1) } } }, Spanned { value: \"y\", referenced: Location { line: 3, column: 3, span: Span { offset: 16, len: 1, byte_info: (16, 1) } }, defined: Location { line: 3, column: 3, span: Span { offset: 16, len: 1, byte_info: (16, 1) } } })"),
    ("sp_alias_map_then_following", "OK [{\"p\": Spanned { value: 1, referenced: Location { line: 1, column: 10, span: Span { offset: 9, len: 1, byte_info: (9, 1) } }, defined: Location { line: 1, column: 10, span: Span { offset: 9, len: 1, byte_info: (9, 1) } } }, \"q\": Spanned { value: 2, referenced: Location { line: 1, column: 16, span: Span { offset: 15, len: 1, byte_info: (15, 1) } }, defined: Location { line: 1, column: 16, span: Span { offset: 15, len: 1, byte_info: (15, 1) } } }}, {\"p\": Spanned { value: 1, referenced: Location { line: 2, column: 3, span: Span { offset: 20, len: 2, byte_info: (20, 2) } }, defined: Location { line: 1, column: 10, span: Span { offset: 9, len: 1, byte_info: (9, 1) } } }, \"q\": Spanned { value: 2, referenced: Location { line: 2, column: 3, span: Span { offset: 20, len: 2, byte_info: (20, 2) } }, defined: Location { line: 1, column: 16, span: Span { offset: 15, len: 1, byte_info: (15, 1) } } }}, {\"r\": Spanned { value: 3, referenced: Location { line: 3, column: 7, span: Span { offset: 29, len: 1, byte_info: (29, 1) } }, defined: Location { line: 3, column: 7, span: Span { offset: 29, len: 1, byte_info: (29, 1) } } }}]"),
    ("sp_merge_single", "OK ({\"x\": 1, \"y\": 2}, Merged { name: \"n\", x: Spanned { value: 1, referenced: Location { line: 3, column: 7, span: Span { offset: 34, len: 2, byte_info: (34, 2) } }, defined: Location { line: 1, column: 10, span: Span { offset: 9, len: 1, byte_info: (9, 1) } } }, y: Spanned { value: 2, referenced: Location { line: 3, column: 7, span: Span { offset: 34, len: 2, byte_info: (34, 2) } }, defined: Location { line: 1, column: 16, span: Span { offset: 15, len: 1, byte_info: (15, 1) } } } })"),
    ("sp_merge_alias", "OK {\"defs\": Merged { name: \"d\", x: Spanned { value: 1, referenced: Location { line: 1, column: 14, span: Span { offset: 13, len: 1, byte_info: (13, 1) } }, defined: Location { line: 1, column: 14, span: Span { offset: 13, len: 1, byte_info: (13, 1) } } }, y: Spanned { value: 2, referenced: Location { line: 1, column: 20, span: Span { offset: 19, len: 1, byte_info: (19, 1) } }, defined: Location { line: 1, column: 20, span: Span { offset: 19, len: 1, byte_info: (19, 1) } } } }, \"use\": Merged { name: \"u\", x: Spanned { value: 1, referenced: Location { line: 3, column: 7, span: Span { offset: 42, len: 2, byte_info: (42, 2) } }, defined: Location { line: 1, column: 14, span: Span { offset: 13, len: 1, byte_info: (13, 1) } } }, y: Spanned { value: 20, referenced: Location { line: 5, column: 6, span: Span { offset: 60, len: 2, byte_info: (60, 2) } }, defined: Location { line: 5, column: 6, span: Span { offset: 60, len: 2, byte_info: (60, 2) } } } }}"),
    ("sp_merge_seq_of_aliases", "OK [{\"x\": Spanned { value: 1, referenced: Location { line: 1, column: 10, span: Span { offset: 9, len: 1, byte_info: (9, 1) } }, defined: Location { line: 1, column: 10, span: Span { offset: 9, len: 1, byte_info: (9, 1) } } }}, {\"x\": Spanned { value: 9, referenced: Location { line: 2, column: 16, span: Span { offset: 27, len: 1, byte_info: (27, 1) } }, defined: Location { line: 2, column: 16, span: Span { offset: 27, len: 1, byte_info: (27, 1) } } }, \"y\": Spanned { value: 2, referenced: Location { line: 2, column: 10, span: Span { offset: 21, len: 1, byte_info: (21, 1) } }, defined: Location { line: 2, column: 10, span: Span { offset: 21, len: 1, byte_info: (21, 1) } } }}, {\"x\": Spanned { value: 9, referenced: Location { line: 3, column: 12, span: Span { offset: 41, len: 2, byte_info: (41, 2) } }, defined: Location { line: 2, column: 16, span: Span { offset: 27, len: 1, byte_info: (27, 1) } } }, \"y\": Spanned { value: 2, referenced: Location { line: 3, column: 12, span: Span { offset: 41, len: 2, byte_info: (41, 2) } }, defined: Location { line: 2, column: 10, span: Span { offset: 21, len: 1, byte_info: (21, 1) } } }, \"z\": Spanned { value: 3, referenced: Location { line: 4, column: 6, span: Span { offset: 50, len: 1, byte_info: (50, 1) } }, defined: Location { line: 4, column: 6, span: Span { offset: 50, len: 1, byte_info: (50, 1) } } }}]"),
    ("sp_merge_inline_map", "OK {\"x\": Spanned { value: 1, referenced: Location { line: 1, column: 5, span: Span { offset: 4, len: 1, byte_info: (4, 1) } }, defined: Location { line: 1, column: 9, span: Span { offset: 8, len: 1, byte_info: (8, 1) } } }, \"y\": Spanned { value: 2, referenced: Location { line: 1, column: 5, span: Span { offset: 4, len: 1, byte_info: (4, 1) } }, defined: Location { line: 1, column: 15, span: Span { offset: 14, len: 1, byte_info: (14, 1) } } }, \"z\": Spanned { value: 3, referenced: Location { line: 2, column: 4, span: Span { offset: 20, len: 1, byte_info: (20, 1) } }, defined: Location { line: 2, column: 4, span: Span { offset: 20, len: 1, byte_info: (20, 1) } } }}"),
    ("sp_merge_nested_merge", "OK [{\"x\": Spanned { value: 1, referenced: Location { line: 1, column: 10, span: Span { offset: 9, len: 1, byte_info: (9, 1) } }, defined: Location { line: 1, column: 10, span: Span { offset: 9, len: 1, byte_info: (9, 1) } } }}, {\"x\": Spanned { value: 1, referenced: Location { line: 3, column: 7, span: Span { offset: 23, len: 2, byte_info: (23, 2) } }, defined: Location { line: 1, column: 10, span: Span { offset: 9, len: 1, byte_info: (9, 1) } } }, \"y\": Spanned { value: 2, referenced: Location { line: 4, column: 6, span: Span { offset: 31, len: 1, byte_info: (31, 1) } }, defined: Location { line: 4, column: 6, span: Span { offset: 31, len: 1, byte_info: (31, 1) } } }}, {\"x\": Spanned { value: 1, referenced: Location { line: 5, column: 7, span: Span { offset: 39, len: 2, byte_info: (39, 2) } }, defined: Location { line: 1, column: 10, span: Span { offset: 9, len: 1, byte_info: (9, 1) } } }, \"y\": Spanned { value: 2, referenced: Location { line: 5, column: 7, span: Span { offset: 39, len: 2, byte_info: (39, 2) } }, defined: Location { line: 4, column: 6, span: Span { offset: 31, len: 1, byte_info: (31, 1) } } }, \"z\": Spanned { value: 3, referenced: Location { line: 6, column: 6, span: Span { offset: 47, len: 1, byte_info: (47, 1) } }, defined: Location { line: 6, column: 6, span: Span { offset: 47, len: 1, byte_info: (47, 1) } } }}]"),
    ("sp_merge_value_is_alias_inside", "OK (Spanned { value: 4, referenced: Location { line: 1, column: 6, span: Span { offset: 5, len: 1, byte_info: (5, 1) } }, defined: Location { line: 1, column: 6, span: Span { offset: 5, len: 1, byte_info: (5, 1) } } }, {\"x\": Spanned { value: 4, referenced: Location { line: 2, column: 10, span: Span { offset: 16, len: 2, byte_info: (16, 2) } }, defined: Location { line: 1, column: 6, span: Span { offset: 5, len: 1, byte_info: (5, 1) } } }}, {\"w\": Spanned { value: 4, referenced: Location { line: 4, column: 6, span: Span { offset: 34, len: 2, byte_info: (34, 2) } }, defined: Location { line: 1, column: 6, span: Span { offset: 5, len: 1, byte_info: (5, 1) } } }, \"x\": Spanned { value: 4, referenced: Location { line: 3, column: 7, span: Span { offset: 26, len: 2, byte_info: (26, 2) } }, defined: Location { line: 1, column: 6, span: Span { offset: 5, len: 1, byte_info: (5, 1) } } }})"),
    ("err_type_root", "ERR kind=Unexpected at=1:3[c2+1 bSome(2)+Some(1)] pair=(ref=1:3[c2+1 bSome(2)+Some(1)] def=1:3[c2+1 bSome(2)+Some(1)]) plain=\"unexpected event: expected string scalar at line 1, column 3\" full=\"unexpected event: expected string scalar at line 1, column 3\""),
    ("err_type_in_map", "ERR kind=Unexpected at=2:4[c8+1 bSome(8)+Some(1)] pair=(ref=2:4[c8+1 bSome(8)+Some(1)] def=2:4[c8+1 bSome(8)+Some(1)]) plain=\"unexpected event: expected string scalar at line 2, column 4\" full=\"unexpected event: expected string scalar at line 2, column 4\""),
    ("err_type_in_seq_multibyte", "ERR kind=InvalidScalar at=2:3[c9+5 bSome(9)+Some(7)] pair=(ref=2:3[c9+5 bSome(9)+Some(7)] def=2:3[c9+5 bSome(9)+Some(7)]) plain=\"invalid boolean at line 2, column 3\" full=\"invalid boolean at line 2, column 3\""),
    ("err_type_with_snippet", "ERR kind=InvalidScalar at=2:4[c8+4 bSome(8)+Some(4)] pair=(ref=2:4[c8+4 bSome(8)+Some(4)] def=2:4[c8+4 bSome(8)+Some(4)]) plain=\"invalid i32 at line 2, column 4\" full=\"error: line 2 column 4: invalid i32\\n --> <input>:2:4\\n  |\\n1 | x: 1\\n2 | y: nope\\n  |    ^ invalid i32\""),
    ("err_bom_type", "ERR kind=InvalidScalar at=2:4[c8+1 bSome(8)+Some(1)] pair=(ref=2:4[c8+1 bSome(8)+Some(1)] def=2:4[c8+1 bSome(8)+Some(1)]) plain=\"invalid i32 at line 2, column 4\" full=\"invalid i32 at line 2, column 4\""),
    ("err_missing_field", "ERR kind=SerdeMissingField at=1:1[c0+1 bSome(0)+Some(1)] pair=(ref=1:1[c0+1 bSome(0)+Some(1)] def=1:1[c0+1 bSome(0)+Some(1)]) plain=\"missing field `y` at line 1, column 1\" full=\"missing field `y` at line 1, column 1\""),
    ("err_missing_field_nested", "ERR kind=SerdeMissingField at=3:3[c28+1 bSome(28)+Some(1)] pair=(ref=3:3[c28+1 bSome(28)+Some(1)] def=3:3[c28+1 bSome(28)+Some(1)]) plain=\"missing field `y` at line 3, column 3\" full=\"missing field `y` at line 3, column 3\""),
    ("err_unknown_field", "ERR kind=SerdeUnknownField at=2:1[c5+2 bSome(5)+Some(4)] pair=(ref=2:1[c5+2 bSome(5)+Some(4)] def=2:1[c5+2 bSome(5)+Some(4)]) plain=\"unknown field `éé`, expected one of a, b at line 2, column 1\" full=\"unknown field `éé`, expected one of a, b at line 2, column 1\""),
    ("err_serde_invalid_value", "ERR kind=SerdeInvalidValue at=2:5[c8+1 bSome(8)+Some(1)] pair=(ref=2:5[c8+1 bSome(8)+Some(1)] def=2:5[c8+1 bSome(8)+Some(1)]) plain=\"invalid value: integer `0`, expected a nonzero u8 at line 2, column 5\" full=\"invalid value: integer `0`, expected a nonzero u8 at line 2, column 5\""),
    ("err_serde_invalid_length", "ERR kind=Unexpected at=3:3[c10+1 bSome(10)+Some(1)] pair=(ref=3:3[c10+1 bSome(10)+Some(1)] def=3:3[c10+1 bSome(10)+Some(1)]) plain=\"unexpected event: expected sequence end at line 3, column 3\" full=\"unexpected event: expected sequence end at line 3, column 3\""),
    ("err_unknown_variant", "ERR kind=SerdeVariantId at=2:3[c8+4 bSome(8)+Some(4)] pair=(ref=2:3[c8+4 bSome(8)+Some(4)] def=2:3[c8+4 bSome(8)+Some(4)]) plain=\"unknown variant `Blob`, expected one of `Dot`, `Circle`, `Rect`, `Pair` at line 2, column 3\" full=\"unknown variant `Blob`, expected one of `Dot`, `Circle`, `Rect`, `Pair` at line 2, column 3\""),
    ("err_variant_payload", "ERR kind=InvalidScalar at=2:11[c22+3 bSome(22)+Some(3)] pair=(ref=2:11[c22+3 bSome(22)+Some(3)] def=2:11[c22+3 bSome(22)+Some(3)]) plain=\"invalid u8 at line 2, column 11\" full=\"invalid u8 at line 2, column 11\""),
    ("err_struct_variant_field", "ERR kind=InvalidScalar at=1:19[c18+4 bSome(18)+Some(4)] pair=(ref=1:19[c18+4 bSome(18)+Some(4)] def=1:19[c18+4 bSome(18)+Some(4)]) plain=\"invalid u8 at line 1, column 19\" full=\"invalid u8 at line 1, column 19\""),
    ("err_eof", "ERR kind=Eof at=1:1[c0+0 bNone+None] pair=(ref=1:1[c0+0 bNone+None] def=1:1[c0+0 bNone+None]) plain=\"unexpected end of input at line 1, column 1\" full=\"unexpected end of input at line 1, column 1\""),
    ("err_eof_after_comment", "ERR kind=Eof at=4:1[c6+0 bSome(6)+Some(0)] pair=(ref=4:1[c6+0 bSome(6)+Some(0)] def=4:1[c6+0 bSome(6)+Some(0)]) plain=\"unexpected end of input at line 4, column 1\" full=\"unexpected end of input at line 4, column 1\""),
    ("err_duplicate_key", "ERR kind=DuplicateMappingKey at=4:1[c13+1 bSome(13)+Some(1)] pair=(ref=4:1[c13+1 bSome(13)+Some(1)] def=4:1[c13+1 bSome(13)+Some(1)]) plain=\"duplicate mapping key: a, set DuplicateKeyPolicy in Options if acceptable at line 4, column 1\" full=\"duplicate mapping key: a, set DuplicateKeyPolicy in Options if acceptable at line 4, column 1\""),
    ("err_multiple_documents", "ERR kind=MultipleDocuments at=3:1[c6+1 bSome(6)+Some(1)] pair=(ref=3:1[c6+1 bSome(6)+Some(1)] def=3:1[c6+1 bSome(6)+Some(1)]) plain=\"multiple YAML documents detected; use from_multiple or from_multiple_with_options at line 3, column 1\" full=\"multiple YAML documents detected; use from_multiple or from_multiple_with_options at line 3, column 1\""),
    ("err_second_document", "ERR kind=InvalidScalar at=5:4[c22+1 bSome(22)+Some(4)] pair=(ref=5:4[c22+1 bSome(22)+Some(4)] def=5:4[c22+1 bSome(22)+Some(4)]) plain=\"invalid i32 at line 5, column 4\" full=\"invalid i32 at line 5, column 4\""),
    ("err_reader_type", "ERR kind=InvalidScalar at=1:4[c3+1 bNone+None] pair=(ref=1:4[c3+1 bNone+None] def=1:4[c3+1 bNone+None]) plain=\"invalid i32 at line 1, column 4\" full=\"error: line 1 column 4: invalid i32\\n --> <input>:1:4\\n  |\\n1 | x: é\\n  |    ^ invalid i32\\n2 | y: 2\\n  |\""),
    ("err_slice_type", "ERR kind=InvalidScalar at=1:4[c3+1 bSome(3)+Some(2)] pair=(ref=1:4[c3+1 bSome(3)+Some(2)] def=1:4[c3+1 bSome(3)+Some(2)]) plain=\"invalid i32 at line 1, column 4\" full=\"invalid i32 at line 1, column 4\""),
    ("scan_unclosed_flow", "ERR kind=ExternalMessage at=1:2[c1+1 bNone+None] pair=(ref=1:2[c1+1 bNone+None] def=1:2[c1+1 bNone+None]) plain=\"unclosed bracket '[' at line 1, column 2\" full=\"unclosed bracket '[' at line 1, column 2\""),
    ("scan_unknown_anchor", "ERR kind=UnknownAnchor at=2:4[c8+1 bNone+None] pair=(ref=2:4[c8+1 bNone+None] def=2:4[c8+1 bNone+None]) plain=\"alias references unknown anchor at line 2, column 4\" full=\"alias references unknown anchor at line 2, column 4\""),
    ("scan_tab_indent_multibyte", "ERR kind=ExternalMessage at=3:2[c10+1 bNone+None] pair=(ref=3:2[c10+1 bNone+None] def=3:2[c10+1 bNone+None]) plain=\"tabs disallowed within this context (block indentation) at line 3, column 2\" full=\"tabs disallowed within this context (block indentation) at line 3, column 2\""),
    ("scan_bom_bad_map", "ERR kind=ExternalMessage at=1:5[c4+1 bNone+None] pair=(ref=1:5[c4+1 bNone+None] def=1:5[c4+1 bNone+None]) plain=\"mapping values are not allowed in this context at line 1, column 5\" full=\"mapping values are not allowed in this context at line 1, column 5\""),
    ("scan_with_snippet", "ERR kind=ExternalMessage at=3:1[c25+1 bNone+None] pair=(ref=3:1[c25+1 bNone+None] def=3:1[c25+1 bNone+None]) plain=\"invalid indentation in multiline quoted scalar at line 3, column 1\" full=\"error: line 3 column 1: invalid indentation in multiline quoted scalar\\n --> <input>:2:20\\n  |\\n1 | ok: 1\\n2 | bad: \\\"unterminated\\n  |                   ^ invalid indentation in multiline quoted scalar\""),
    ("scan_reader", "ERR kind=ExternalMessage at=2:3[c6+1 bNone+None] pair=(ref=2:3[c6+1 bNone+None] def=2:3[c6+1 bNone+None]) plain=\"unclosed bracket '[' at line 2, column 3\" full=\"error: line 2 column 3: unclosed bracket '['\\n --> <input>:2:3\\n  |\\n1 | - a\\n2 | - [b\\n  |   ^ unclosed bracket '['\""),
    ("scan_in_second_document", "ERR kind=ExternalMessage at=4:3[c14+1 bNone+None] pair=(ref=4:3[c14+1 bNone+None] def=4:3[c14+1 bNone+None]) plain=\"unclosed bracket '{' at line 4, column 3\" full=\"unclosed bracket '{' at line 4, column 3\""),
    ("alias_err_map_value", "ERR kind=AliasError at=3:4[c19+2 bSome(19)+Some(2)] pair=(ref=3:4[c19+2 bSome(19)+Some(2)] def=1:7[c6+4 bSome(6)+Some(4)]) plain=\"invalid i32 at line 1, column 7 (defined at line 1, column 7) at line 3, column 4\" full=\"invalid i32 at line 1, column 7 (defined at line 1, column 7) at line 3, column 4\""),
    ("alias_err_map_value_snippet", "ERR kind=AliasError at=3:4[c19+2 bSome(19)+Some(2)] pair=(ref=3:4[c19+2 bSome(19)+Some(2)] def=1:7[c6+4 bSome(6)+Some(4)]) plain=\"invalid i32 at line 1, column 7 (defined at line 1, column 7) at line 3, column 4\" full=\"error: line 3 column 4: invalid i32 at line 1, column 7\\n --> the value is used here:3:4\\n  |\\n1 | a: &v text\\n2 | b: 1\\n3 | c: *v\\n  |    ^ invalid i32 at line 1, column 7\\n  | This value comes indirectly from the anchor at line 1 column 7:\\n  |\\n1 | a: &v text\\n  |       ^ defined here\\n2 | b: 1\\n3 | c: *v\\n  |\\n\""),
    ("alias_err_seq_element", "OK ()"),
    ("alias_err_seq_element_bad", "ERR kind=AliasError at=2:5[c26+2 bSome(26)+Some(2)] pair=(ref=2:5[c26+2 bSome(26)+Some(2)] def=1:6[c5+1 bSome(5)+Some(1)]) plain=\"invalid i32 at line 1, column 10 (defined at line 1, column 10) at line 2, column 5 (defined at line 1, column 6) at line 2, column 5\" full=\"invalid i32 at line 1, column 10 (defined at line 1, column 10) at line 2, column 5 (defined at line 1, column 6) at line 2, column 5\""),
    ("alias_ok_struct_field", "OK Holder { base: Point { x: 1, y: 2 }, other: Point { x: 1, y: 2 } }"),
    ("alias_err_missing_field", "ERR kind=AliasError at=2:3[c14+2 bSome(14)+Some(2)] pair=(ref=2:3[c14+2 bSome(14)+Some(2)] def=1:6[c5+1 bSome(5)+Some(1)]) plain=\"missing field `y` at line 1, column 7 (defined at line 1, column 6) at line 2, column 3\" full=\"missing field `y` at line 1, column 7 (defined at line 1, column 6) at line 2, column 3\""),
    ("alias_err_unknown_field", "ERR kind=AliasError at=2:3[c21+2 bSome(21)+Some(2)] pair=(ref=2:3[c21+2 bSome(21)+Some(2)] def=1:6[c5+1 bSome(5)+Some(1)]) plain=\"unknown field `zz`, expected one of a, b at line 1, column 13 (defined at line 1, column 6) at line 2, column 3\" full=\"unknown field `zz`, expected one of a, b at line 1, column 13 (defined at line 1, column 6) at line 2, column 3\""),
    ("alias_err_struct_field", "ERR kind=AliasError at=4:10[c32+2 bSome(32)+Some(2)] pair=(ref=4:10[c32+2 bSome(32)+Some(2)] def=2:3[c11+0 bSome(11)+Some(0)]) plain=\"invalid i32 at line 2, column 6 (defined at line 2, column 6) at line 4, column 10 (defined at line 2, column 3) at line 4, column 10\" full=\"invalid i32 at line 2, column 6 (defined at line 2, column 6) at line 4, column 10 (defined at line 2, column 3) at line 4, column 10\""),
    ("alias_err_nested_container", "ERR kind=AliasError at=4:7[c43+2 bSome(43)+Some(2)] pair=(ref=4:7[c43+2 bSome(43)+Some(2)] def=1:6[c5+1 bSome(5)+Some(1)]) plain=\"unexpected event: expected mapping start at line 1, column 6 (defined at line 1, column 6) at line 4, column 7\" full=\"unexpected event: expected mapping start at line 1, column 6 (defined at line 1, column 6) at line 4, column 7\""),
    ("alias_err_newtype_variant", "ERR kind=AliasError at=2:11[c22+4 bSome(22)+Some(4)] pair=(ref=2:11[c22+4 bSome(22)+Some(4)] def=1:8[c7+4 bSome(7)+Some(4)]) plain=\"invalid u8 at line 1, column 8 (defined at line 1, column 8) at line 2, column 11\" full=\"invalid u8 at line 1, column 8 (defined at line 1, column 8) at line 2, column 11\""),
    ("alias_err_variant_name", "ERR kind=AliasError at=2:3[c12+2 bSome(12)+Some(2)] pair=(ref=2:3[c12+2 bSome(12)+Some(2)] def=1:6[c5+4 bSome(5)+Some(4)]) plain=\"unknown variant `Blob`, expected one of `Dot`, `Circle`, `Rect`, `Pair` at line 1, column 6 (defined at line 1, column 6) at line 2, column 3\" full=\"unknown variant `Blob`, expected one of `Dot`, `Circle`, `Rect`, `Pair` at line 1, column 6 (defined at line 1, column 6) at line 2, column 3\""),
    ("alias_err_option", "ERR kind=AliasError at=2:3[c10+2 bSome(10)+Some(2)] pair=(ref=2:3[c10+2 bSome(10)+Some(2)] def=1:6[c5+2 bSome(5)+Some(2)]) plain=\"invalid u8 at line 1, column 6 (defined at line 1, column 6) at line 2, column 3\" full=\"invalid u8 at line 1, column 6 (defined at line 1, column 6) at line 2, column 3\""),
    ("alias_err_invalid_value", "ERR kind=AliasError at=2:3[c9+2 bSome(9)+Some(2)] pair=(ref=2:3[c9+2 bSome(9)+Some(2)] def=1:6[c5+1 bSome(5)+Some(1)]) plain=\"invalid value: integer `0`, expected a nonzero u8 at line 2, column 3 (defined at line 1, column 6) at line 2, column 3\" full=\"invalid value: integer `0`, expected a nonzero u8 at line 2, column 3 (defined at line 1, column 6) at line 2, column 3\""),
    ("alias_err_alias_of_alias_value", "ERR kind=AliasError at=3:3[c21+2 bSome(21)+Some(2)] pair=(ref=3:3[c21+2 bSome(21)+Some(2)] def=2:6[c14+1 bSome(14)+Some(1)]) plain=\"invalid i32 at line 1, column 6 (defined at line 1, column 6) at line 3, column 3 (defined at line 2, column 6) at line 3, column 3\" full=\"invalid i32 at line 1, column 6 (defined at line 1, column 6) at line 3, column 3 (defined at line 2, column 6) at line 3, column 3\""),
    ("merge_err_field_type", "ERR kind=AliasError at=3:7[c27+2 bSome(27)+Some(2)] pair=(ref=3:7[c27+2 bSome(27)+Some(2)] def=1:10[c9+3 bSome(9)+Some(3)]) plain=\"invalid i32 at line 1, column 10 (defined at line 1, column 10) at line 3, column 7\" full=\"invalid i32 at line 1, column 10 (defined at line 1, column 10) at line 3, column 7\""),
    ("merge_err_not_a_map", "ERR kind=MergeValueNotMapOrSeqOfMaps at=2:5[c9+1 bSome(9)+Some(1)] pair=(ref=2:5[c9+1 bSome(9)+Some(1)] def=2:5[c9+1 bSome(9)+Some(1)]) plain=\"YAML merge value must be mapping or sequence of mappings at line 2, column 5\" full=\"YAML merge value must be mapping or sequence of mappings at line 2, column 5\""),
    ("merge_err_not_a_map_alias", "ERR kind=MergeValueNotMapOrSeqOfMaps at=1:7[c6+1 bSome(6)+Some(1)] pair=(ref=1:7[c6+1 bSome(6)+Some(1)] def=1:7[c6+1 bSome(6)+Some(1)]) plain=\"YAML merge value must be mapping or sequence of mappings at line 1, column 7\" full=\"YAML merge value must be mapping or sequence of mappings at line 1, column 7\""),
    ("merge_err_missing_field", "ERR kind=SerdeMissingField at=1:7[c6+1 bSome(6)+Some(1)] pair=(ref=1:7[c6+1 bSome(6)+Some(1)] def=1:7[c6+1 bSome(6)+Some(1)]) plain=\"missing field `y` at line 1, column 7\" full=\"missing field `y` at line 1, column 7\""),
    ("merge_err_spanned_field", "ERR kind=AliasError at=3:7[c35+2 bSome(35)+Some(2)] pair=(ref=3:7[c35+2 bSome(35)+Some(2)] def=1:16[c15+2 bSome(15)+Some(2)]) plain=\"invalid i32 at line 1, column 16 (defined at line 1, column 16) at line 3, column 7\" full=\"invalid i32 at line 1, column 16 (defined at line 1, column 16) at line 3, column 7\""),
    ("limit_alias_expansions", "ERR kind=AliasExpansionLimitExceeded at=4:4[c20+2 bSome(20)+Some(2)] pair=(ref=4:4[c20+2 bSome(20)+Some(2)] def=4:4[c20+2 bSome(20)+Some(2)]) plain=\"alias expansion limit exceeded for anchor id 1: 3 > 2 at line 4, column 4\" full=\"alias expansion limit exceeded for anchor id 1: 3 > 2 at line 4, column 4\""),
    ("limit_total_replayed", "ERR kind=AliasError at=3:3[c22+2 bSome(22)+Some(2)] pair=(ref=3:3[c22+2 bSome(22)+Some(2)] def=1:6[c5+1 bSome(5)+Some(1)]) plain=\"alias replay limit exceeded: total_replayed_events=8 > 7 at line 1, column 10 (defined at line 1, column 6) at line 3, column 3\" full=\"alias replay limit exceeded: total_replayed_events=8 > 7 at line 1, column 10 (defined at line 1, column 6) at line 3, column 3\""),
    ("limit_budget_nodes", "ERR kind=Budget at=3:3[c10+1 bSome(10)+Some(1)] pair=(ref=3:3[c10+1 bSome(10)+Some(1)] def=3:3[c10+1 bSome(10)+Some(1)]) plain=\"budget breached: Nodes { nodes: 4 } at line 3, column 3\" full=\"budget breached: Nodes { nodes: 4 } at line 3, column 3\""),
];

#[test]
fn locations_are_unchanged() {
    let actual = cases();
    if std::env::var_os("DEMO_PRINT").is_some() {
        for (name, s) in &actual {
            println!("    ({name:?}, {s:?}),");
        }
        return;
    }
    assert!(actual.len() >= 30);
    assert_eq!(actual.len(), EXPECTED.len(), "number of cases");
    let mut failures = Vec::new();
    for ((name, got), (exp_name, exp)) in actual.iter().zip(EXPECTED.iter()) {
        assert_eq!(name, exp_name, "case order");
        if got != exp {
            failures.push(format!("case {name}:\n   got: {got}\n  want: {exp}"));
        }
    }
    assert!(failures.is_empty(), "{}", failures.join("\n"));
}
