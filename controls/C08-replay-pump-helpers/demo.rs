//! Differential test for the C08 control refactoring (alias replay / recording /
//! budget accounting in `src/live_events.rs`, node capture in `src/de.rs`).
//!
//! Every case renders its outcome (value as JSON / Debug, or the full error text
//! including location and snippet, plus the budget report where requested) into a
//! string that is compared with a literal obtained from the UNMODIFIED tree.
//!
//! Regenerate the literals with: `DEMO_PRINT=1 cargo test --test demo_c08 -- --nocapture`.
#![allow(deprecated)]

use std::cell::RefCell;
use std::collections::BTreeMap;
use std::rc::Rc;

use serde::Deserialize;
use serde::de::{DeserializeOwned, IgnoredAny};
use serde_json::Value;
use serde_saphyr::budget::BudgetReport;
use serde_saphyr::options::DuplicateKeyPolicy;
use serde_saphyr::{Budget, Options, RcRecursion, RcRecursive, Spanned};

// ---------------------------------------------------------------- helpers

fn opts() -> Options {
    Options::default()
}

fn no_budget() -> Options {
    let mut o = Options::default();
    o.budget = None;
    o
}

fn limits(total: usize, depth: usize, per_anchor: usize) -> Options {
    let mut o = Options::default();
    o.alias_limits.max_total_replayed_events = total;
    o.alias_limits.max_replay_stack_depth = depth;
    o.alias_limits.max_alias_expansions_per_anchor = per_anchor;
    o
}

fn with_budget(f: impl FnOnce(&mut Budget)) -> Options {
    let mut o = Options::default();
    let mut b = Budget::default();
    f(&mut b);
    o.budget = Some(b);
    o
}

fn render<T: std::fmt::Debug>(r: Result<T, serde_saphyr::Error>) -> String {
    match r {
        Ok(v) => format!("OK {v:?}"),
        Err(e) => format!("ERR {e}"),
    }
}

fn render_json(r: Result<Value, serde_saphyr::Error>) -> String {
    match r {
        Ok(v) => format!("OK {}", serde_json::to_string(&v).unwrap()),
        Err(e) => format!("ERR {e}"),
    }
}

fn json(y: &str, o: Options) -> String {
    render_json(serde_saphyr::from_str_with_options::<Value>(y, o))
}

fn json_multi(y: &str, o: Options) -> String {
    match serde_saphyr::from_multiple_with_options::<Value>(y, o) {
        Ok(v) => format!("OK {}", serde_json::to_string(&v).unwrap()),
        Err(e) => format!("ERR {e}"),
    }
}

fn json_reader(y: &str, o: Options) -> String {
    render_json(serde_saphyr::from_reader_with_options::<_, Value>(
        std::io::Cursor::new(y.as_bytes().to_vec()),
        o,
    ))
}

fn typed<T: DeserializeOwned + std::fmt::Debug>(y: &str, o: Options) -> String {
    render(serde_saphyr::from_str_with_options::<T>(y, o))
}

fn report_line(r: &BudgetReport) -> String {
    format!(
        "events={} aliases={} anchors={} documents={} nodes={} max_depth={} scalar_bytes={} merge_keys={} breached={:?}",
        r.events,
        r.aliases,
        r.anchors,
        r.documents,
        r.nodes,
        r.max_depth,
        r.total_scalar_bytes,
        r.merge_keys,
        r.breached
    )
}

/// Parse into JSON and append the final budget report (the accounting).
fn json_with_report(y: &str, o: Options) -> String {
    let slot: Rc<RefCell<Vec<String>>> = Rc::new(RefCell::new(Vec::new()));
    let sink = slot.clone();
    let o = o.with_budget_report(move |r: BudgetReport| sink.borrow_mut().push(report_line(&r)));
    let out = json(y, o);
    format!("{out}\nREPORT {}", slot.borrow().join(" | "))
}

fn reader_with_report(y: &str, o: Options) -> String {
    let slot: Rc<RefCell<Vec<String>>> = Rc::new(RefCell::new(Vec::new()));
    let sink = slot.clone();
    let o = o.with_budget_report(move |r: BudgetReport| sink.borrow_mut().push(report_line(&r)));
    let out = json_reader(y, o);
    format!("{out}\nREPORT {}", slot.borrow().join(" | "))
}

fn spanned_line<T: std::fmt::Debug>(s: &Spanned<T>) -> String {
    format!(
        "{:?}@ref {}:{} def {}:{}",
        s.value,
        s.referenced.line(),
        s.referenced.column(),
        s.defined.line(),
        s.defined.column()
    )
}

// ---------------------------------------------------------------- input builders

/// l0 is a two element list; every further level lists `fan_out` aliases of the previous one.
fn laughs(levels: usize, fan_out: usize) -> String {
    let mut y = String::from("l0: &L0 [\"LOL\", \"LOL\"]\n");
    for level in 1..=levels {
        y.push_str(&format!("l{level}: &L{level} ["));
        for idx in 0..fan_out {
            if idx > 0 {
                y.push_str(", ");
            }
            y.push_str(&format!("*L{}", level - 1));
        }
        y.push_str("]\n");
    }
    y.push_str(&format!("root: *L{levels}\n"));
    y
}

/// `&n0 [&n1 [ ... [x] ... ]]` nested `depth` deep, every level anchored, then aliases.
fn nested_anchored(depth: usize, tail: &str) -> String {
    let mut y = String::from("deep: ");
    for i in 0..depth {
        y.push_str(&format!("&n{i} ["));
    }
    y.push('x');
    for _ in 0..depth {
        y.push(']');
    }
    y.push('\n');
    y.push_str(tail);
    y
}

/// c0 anchored scalar list, c{i} = [*c{i-1}] (a long chain of single aliases).
fn chain(len: usize) -> String {
    let mut y = String::from("c0: &c0 [z]\n");
    for i in 1..=len {
        y.push_str(&format!("c{i}: &c{i} [*c{}]\n", i - 1));
    }
    y.push_str(&format!("last: *c{len}\n"));
    y
}

// ---------------------------------------------------------------- typed targets

#[derive(Debug, Deserialize)]
#[allow(dead_code)]
struct SpannedDoc {
    a: Spanned<u32>,
    b: Spanned<u32>,
    c: Vec<Spanned<String>>,
    d: Spanned<Vec<u32>>,
}

#[derive(Debug, Deserialize)]
#[allow(dead_code)]
struct OnlyB {
    b: Vec<u32>,
}

#[derive(Deserialize, Debug)]
#[allow(dead_code)]
struct Foo {
    k1: String,
    k2: String,
    k3: RcRecursion<Foo>,
}

#[derive(Deserialize, Debug)]
#[allow(dead_code)]
struct Outer {
    foo: RcRecursive<Foo>,
}

#[derive(Deserialize, Debug)]
#[allow(dead_code)]
struct King {
    from: usize,
    name: String,
    crowned_by: RcRecursion<King>,
}

#[derive(Deserialize, Debug)]
#[allow(dead_code)]
struct Kingdom {
    kings: Vec<RcRecursive<King>>,
}

// ---------------------------------------------------------------- the cases

fn cases() -> Vec<(&'static str, String)> {
    let mut out: Vec<(&'static str, String)> = Vec::new();
    let mut add = |name: &'static str, got: String| out.push((name, got));

    // --- plain replay of scalars / containers
    add("scalar_alias", json("a: &x 1\nb: *x\nc: *x\n", opts()));
    add("seq_alias_twice", json("a: &A [1, 2, 3]\nb: *A\nc: [*A, *A]\n", opts()));
    add(
        "nested_anchored_maps",
        json(
            "outer: &O\n  inner: &I {k: v, n: [1, 2]}\n  other: 5\nuse_inner: *I\nuse_outer: *O\nagain: [*I, *O]\n",
            opts(),
        ),
    );
    add(
        "alias_inside_anchored_container",
        json("a: &A [1]\nb: &B [*A, x, *A]\nc: *B\nd: &D {p: *B, q: *A}\ne: *D\n", opts()),
    );
    add(
        "anchor_inside_anchor_used_inside",
        json("r: &A [&B 1, *B, &C [*B], *C]\ns: *A\nt: *C\nu: *B\n", opts()),
    );
    add("anchor_redefinition", json("a: &x 1\nb: *x\nc: &x 2\nd: *x\n", opts()));
    add("anchored_empty_value", json("a: &x\nb: *x\nc: [*x, *x]\n", opts()));
    add(
        "tagged_anchors_replayed",
        json("a: &t !!str 12\nb: *t\nc: &s !custom [1, 2]\nd: *s\ne: &n !!null x\nf: *n\n", opts()),
    );
    add(
        "tagged_anchor_into_typed",
        typed::<BTreeMap<String, String>>("a: &t !!str 12\nb: *t\n", opts()),
    );
    add("root_alias_only_seq", json("- &a [1, {k: &b v}]\n- *a\n- *b\n", opts()));

    // --- per-anchor expansion limit
    let three_uses = "defs: &A { k: v }\nx: *A\ny: *A\nz: *A\n";
    add("per_anchor_limit_2_of_3", json(three_uses, limits(1_000_000, 64, 2)));
    add("per_anchor_limit_3_of_3", json(three_uses, limits(1_000_000, 64, 3)));
    add("per_anchor_limit_0", json("a: &A 1\nb: *A\n", limits(1_000_000, 64, 0)));
    add(
        "per_anchor_limit_other_anchor_unaffected",
        json("a: &A 1\nb: &B 2\nc: [*A, *B, *B]\nd: *A\ne: *A\n", limits(1_000_000, 64, 2)),
    );
    add(
        "per_anchor_limit_inside_recording",
        json("a: &A 1\nb: &B [*A, *A]\nc: *B\nd: *A\n", limits(1_000_000, 64, 2)),
    );

    // --- total replayed events limit
    let two_lists = "defs: &A [1, 2, 3, 4]\nlist: [*A, *A]\n";
    add("total_replayed_10_of_12", json(two_lists, limits(10, 64, usize::MAX)));
    add("total_replayed_11_of_12", json(two_lists, limits(11, 64, usize::MAX)));
    add("total_replayed_12_of_12", json(two_lists, limits(12, 64, usize::MAX)));
    add("total_replayed_0_with_alias", json("a: &A 1\nb: *A\n", limits(0, 64, usize::MAX)));
    add("total_replayed_0_without_alias", json("a: &A 1\nb: 2\n", limits(0, 64, usize::MAX)));
    add(
        "total_replayed_mid_container",
        json("a: &A {k: [1, 2], m: {x: y}}\nb: *A\n", limits(5, 64, usize::MAX)),
    );

    // --- replay stack depth
    add("stack_depth_0", json("defs: &A [1]\nout: *A\n", limits(1_000_000, 0, usize::MAX)));
    add("stack_depth_1", json("defs: &A [1]\nout: *A\n", limits(1_000_000, 1, usize::MAX)));
    add("stack_depth_1_chain", json(&chain(6), limits(1_000_000, 1, usize::MAX)));
    add("stack_depth_0_no_alias", json("defs: &A [1]\n", limits(1_000_000, 0, usize::MAX)));
    // per-anchor is checked (and counted) before the stack depth
    add(
        "per_anchor_before_stack_depth",
        json("a: &A 1\nb: *A\n", limits(1_000_000, 0, 0)),
    );

    // --- recursion
    add("recursive_into_value", json("a: &A [1, *A]\n", opts()));
    add("recursive_map_into_value", json("foo: &anchor\n k1: One\n k3: *anchor\n", opts()));
    add(
        "recursive_weak_ok",
        match serde_saphyr::from_str::<Outer>("foo: &anchor\n k1: \"One\"\n k2: \"Two\"\n k3: *anchor\n") {
            Ok(o) => {
                let guard = o.foo.borrow();
                let k3 = guard.k3.upgrade().map(|rc| rc.borrow().k1.clone());
                format!("OK k1={} k2={} k3.k1={:?}", guard.k1, guard.k2, k3)
            }
            Err(e) => format!("ERR {e}"),
        },
    );
    add(
        "recursive_weak_across_nodes",
        match serde_saphyr::from_str::<Kingdom>(
            "kings:\n  - &markus\n    from: 1920\n    name: Markus\n    crowned_by: *markus\n  - &orlan\n    from: 1950\n    name: Orlan\n    crowned_by: *markus\n",
        ) {
            Ok(k) => {
                let names: Vec<String> = k
                    .kings
                    .iter()
                    .map(|king| {
                        let g = king.borrow();
                        let by = g.crowned_by.upgrade().map(|rc| rc.borrow().name.clone());
                        format!("{}<-{:?}", g.name, by)
                    })
                    .collect();
                format!("OK {names:?}")
            }
            Err(e) => format!("ERR {e}"),
        },
    );
    add(
        "recursive_weak_limit_per_anchor",
        render(
            serde_saphyr::from_str_with_options::<Outer>(
                "foo: &anchor\n k1: \"One\"\n k2: \"Two\"\n k3: *anchor\n",
                limits(1_000_000, 64, 0),
            )
            .map(|_| "parsed"),
        ),
    );

    // --- unknown anchors / broken input
    add("unknown_anchor", json("a: *nope\n", opts()));
    add("unterminated_flow", json("a: &A [1, 2\nb: *A\n", opts()));
    add("folded_col0", json(">\nfolded text\n", opts()));
    add("folded_col0_blank", json("a: >\n\n", opts()));

    // --- budget interplay (replayed events consume the budget)
    let five = "seq:\n  - &A [1,2,3]\n  - *A\n  - *A\n  - *A\n  - *A\n";
    add("budget_nodes_10", json_with_report(five, with_budget(|b| b.max_nodes = 10)));
    add("budget_nodes_exact", json_with_report(five, with_budget(|b| b.max_nodes = 23)));
    add("budget_nodes_one_short", json_with_report(five, with_budget(|b| b.max_nodes = 22)));
    add("budget_events_20", json_with_report(five, with_budget(|b| b.max_events = 20)));
    add("budget_events_plenty", json_with_report(five, with_budget(|b| b.max_events = 1000)));
    add("budget_aliases_3", json_with_report(five, with_budget(|b| b.max_aliases = 3)));
    add("budget_anchors_0", json_with_report(five, with_budget(|b| b.max_anchors = 0)));
    add(
        "budget_depth_by_replay",
        json_with_report(
            "a: &A [[[1]]]\nb: [[*A]]\n",
            with_budget(|b| b.max_depth = 5),
        ),
    );
    add(
        "budget_depth_by_replay_ok",
        json_with_report(
            "a: &A [[[1]]]\nb: [[*A]]\n",
            with_budget(|b| b.max_depth = 6),
        ),
    );
    add(
        "budget_scalar_bytes_by_replay",
        json_with_report(
            "a: &A abcdefghij\nb: [*A, *A, *A]\n",
            with_budget(|b| b.max_total_scalar_bytes = 30),
        ),
    );
    add(
        "budget_merge_keys_by_replay",
        json_with_report(
            "base: &B {x: 1}\nm: &M {<<: *B, y: 2}\nn: *M\no: *M\n",
            with_budget(|b| b.max_merge_keys = 2),
        ),
    );
    add(
        "budget_tagged_merge_key_replayed",
        json_with_report(
            "base: &B {x: 1}\nm: &M {!!str <<: *B, y: 2}\nn: *M\n",
            with_budget(|b| b.max_merge_keys = 0),
        ),
    );
    add("budget_default_report", json_with_report("a: &A {k: [1, 2]}\nb: *A\nc: *A\n", opts()));
    add("no_budget_report", json_with_report("a: &A {k: [1, 2]}\nb: *A\n", no_budget()));
    add(
        "budget_and_alias_limit_race",
        json_with_report(two_lists, {
            let mut o = with_budget(|b| b.max_nodes = 12);
            o.alias_limits.max_total_replayed_events = 7;
            o
        }),
    );

    // --- bombs, chains, deep anchored nesting
    add("laughs_default_budget", typed::<IgnoredAny>(&laughs(6, 9), opts()));
    add("laughs_no_budget_replay_limit", typed::<IgnoredAny>(&laughs(7, 9), no_budget()));
    add(
        "laughs_small_accepted",
        json_with_report(&laughs(3, 3), {
            let mut o = no_budget();
            o.alias_limits.max_total_replayed_events = 320;
            o
        }),
    );
    add(
        "laughs_small_one_short",
        typed::<IgnoredAny>(&laughs(3, 3), {
            let mut o = no_budget();
            o.alias_limits.max_total_replayed_events = 319;
            o
        }),
    );
    add(
        "laughs_node_budget",
        json_with_report(&laughs(4, 4), with_budget(|b| {
            b.max_nodes = 300;
            b.enforce_alias_anchor_ratio = false;
        })),
    );
    add("chain_40", json(&chain(40), opts()));
    add("chain_40_per_anchor_1", json(&chain(40), limits(1_000_000, 64, 1)));
    add(
        "nested_anchored_30",
        json_with_report(&nested_anchored(30, "o: *n0\nm: *n15\ni: *n29\n"), opts()),
    );
    add(
        "nested_anchored_30_replay_limit",
        json(&nested_anchored(30, "o: *n0\nm: *n15\ni: *n29\n"), limits(70, 64, usize::MAX)),
    );
    add(
        "nested_anchored_depth_budget",
        json(&nested_anchored(30, "o: [*n0]\n"), with_budget(|b| b.max_depth = 31)),
    );

    // --- documents: per-document reset of anchors and counters
    add("multi_anchor_not_shared", json_multi("---\na: &x 1\n---\nb: *x\n", opts()));
    add(
        "multi_per_anchor_counter_reset",
        json_multi("---\na: &x 1\nb: *x\n---\na: &x 2\nb: *x\n---\na: &y [3]\nb: *y\n", limits(1_000_000, 64, 1)),
    );
    add(
        "multi_total_counter_reset",
        json_multi("---\na: &x [1, 2]\nb: *x\n---\na: &x [3, 4]\nb: *x\n", limits(4, 64, usize::MAX)),
    );
    add(
        "multi_total_counter_exceeded_in_second",
        json_multi("---\na: &x [1, 2]\nb: *x\n---\na: &x [3, 4]\nb: [*x, *x]\n", limits(4, 64, usize::MAX)),
    );
    add("multi_empty_docs", json_multi("---\n---\na: 1\n---\n...\n", opts()));
    add("single_empty", json("", opts()));
    add("single_only_comment", json("# nothing\n", opts()));
    add("single_doc_markers_only", json("---\n...\n", opts()));
    add("single_two_docs", json("a: &x 1\n---\nb: 2\n", opts()));
    add("single_doc_end_then_doc", json("a: &x 1\n...\n---\nb: *x\n", opts()));
    add("single_doc_end_then_garbage", json("a: &x [1]\nb: *x\n...\nzzz\n", opts()));
    add("bom_prefixed", json("\u{FEFF}a: &x 1\nb: *x\n", opts()));

    // --- node capture: complex keys, merges, duplicates
    add(
        "merge_alias",
        json("base: &b {x: 1, y: 2}\nd:\n  <<: *b\n  y: 3\n  z: 4\n", opts()),
    );
    add(
        "merge_seq_of_aliases",
        json("b1: &b1 {x: 1}\nb2: &b2 {x: 9, y: 2}\nd:\n  <<: [*b1, *b2]\n  z: 4\n", opts()),
    );
    add(
        "merge_nested_merge_via_alias",
        json("a: &a {p: 1}\nb: &b {<<: *a, q: 2}\nc: {<<: *b, r: 3}\nd: {<<: [*b, *a], p: 0}\n", opts()),
    );
    add("merge_scalar_value", json("a: &a 5\nb: {<<: *a}\n", opts()));
    add("merge_unterminated", json("a: &a {p: 1}\nb: {<<: *a, q: [1, 2\n", opts()));
    add(
        "complex_keys",
        typed::<Vec<(Value, Value)>>("- [[a, b], 1]\n- [{k: v}, 2]\n", opts()),
    );
    add(
        "complex_key_map",
        typed::<BTreeMap<Vec<String>, u32>>("? [a, b]\n: 1\n? [c]\n: 2\n? &k [d, e]\n: 3\n", opts()),
    );
    add(
        "complex_key_duplicate",
        typed::<BTreeMap<Vec<String>, u32>>("? [a, b]\n: 1\n? [a, b]\n: 2\n", opts()),
    );
    add(
        "complex_key_duplicate_via_alias",
        typed::<BTreeMap<Vec<String>, u32>>("? &k [a, b]\n: 1\n? *k\n: 2\n", opts()),
    );
    add(
        "map_as_key_in_pair",
        typed::<Vec<(BTreeMap<String, Vec<u32>>, u32)>>("- [{a: [1, 2]}, 1]\n", opts()),
    );
    add(
        "map_key_is_map",
        typed::<BTreeMap<BTreeMap<String, Vec<u32>>, u32>>(
            "? {a: [1, 2]}\n: 1\n? {a: [1, 3], b: []}\n: 2\n",
            opts(),
        ),
    );
    add(
        "map_key_is_map_duplicate",
        typed::<BTreeMap<BTreeMap<String, Vec<u32>>, u32>>(
            "? {a: [1, 2]}\n: 1\n? {a: [1, 2]}\n: 2\n",
            opts(),
        ),
    );
    add(
        "map_key_is_map_duplicate_last_wins",
        typed::<BTreeMap<BTreeMap<String, Vec<u32>>, u32>>(
            "? &m {a: [1, 2]}\n: 1\n? *m\n: 2\n",
            {
                let mut o = opts();
                o.duplicate_keys = DuplicateKeyPolicy::LastWins;
                o
            },
        ),
    );
    add("scalar_key_duplicate_alias", json("&k key: 1\n*k : 2\n", opts()));
    add(
        "scalar_key_duplicate_first_wins",
        json("&k key: &v [1]\n*k : 2\nother: *v\n", {
            let mut o = opts();
            o.duplicate_keys = DuplicateKeyPolicy::FirstWins;
            o
        }),
    );
    add(
        "scalar_key_duplicate_last_wins",
        json("&k key: &v [1]\n*k : {a: *v}\nother: *v\n", {
            let mut o = opts();
            o.duplicate_keys = DuplicateKeyPolicy::LastWins;
            o
        }),
    );
    add(
        "struct_ignores_anchor_uses_alias",
        typed::<OnlyB>("a: &A [1, 2, 3]\nb: *A\nc: {deep: [*A, {x: *A}]}\n", opts()),
    );
    add(
        "struct_alias_limit_in_ignored_field",
        typed::<OnlyB>("a: &A [1, 2, 3]\nb: *A\nc: {deep: [*A, {x: *A}]}\n", limits(12, 64, usize::MAX)),
    );

    // --- reference vs definition locations (replay frame kept until the next pump)
    add(
        "spanned_alias_locations",
        match serde_saphyr::from_str::<SpannedDoc>(
            "a: &x 7\nb: *x\nc:\n  - &s hello\n  - *s\n  - tail\nd: &l [1, 2]\n",
        ) {
            Ok(doc) => format!(
                "OK a={} b={} c=[{}] d={}",
                spanned_line(&doc.a),
                spanned_line(&doc.b),
                doc.c.iter().map(spanned_line).collect::<Vec<_>>().join(", "),
                spanned_line(&doc.d)
            ),
            Err(e) => format!("ERR {e}"),
        },
    );
    add(
        "spanned_alias_container",
        match serde_saphyr::from_str::<BTreeMap<String, Spanned<Vec<Spanned<u32>>>>>(
            "k1: &l [1, 2]\nk2: *l\nk3: [3]\n",
        ) {
            Ok(m) => {
                let parts: Vec<String> = m
                    .iter()
                    .map(|(k, v)| {
                        format!(
                            "{k}:ref {}:{} def {}:{} [{}]",
                            v.referenced.line(),
                            v.referenced.column(),
                            v.defined.line(),
                            v.defined.column(),
                            v.value.iter().map(spanned_line).collect::<Vec<_>>().join(", ")
                        )
                    })
                    .collect();
                format!("OK {}", parts.join(" ; "))
            }
            Err(e) => format!("ERR {e}"),
        },
    );
    add(
        "type_error_inside_replay",
        typed::<BTreeMap<String, Vec<u32>>>("a: &A [1, 2]\nb: &B [1, oops]\nc: *A\n", opts()),
    );
    add(
        "type_error_at_alias_use",
        typed::<(Vec<u32>, Vec<String>, Vec<u32>)>("- &A [1, 2]\n- &B [x, y]\n- *B\n", opts()),
    );

    // --- reader based input goes through the same pump
    add("reader_alias", reader_with_report("a: &A [1, {k: v}]\nb: *A\nc: [*A]\n", opts()));
    add(
        "reader_per_anchor_limit",
        json_reader(three_uses, limits(1_000_000, 64, 2)),
    );
    add("reader_total_limit", json_reader(two_lists, limits(10, 64, usize::MAX)));
    add("reader_stack_depth", json_reader("defs: &A [1]\nout: *A\n", limits(1_000_000, 0, usize::MAX)));
    add("reader_recursive", json_reader("a: &A [1, *A]\n", opts()));
    add("reader_budget_nodes", reader_with_report(five, with_budget(|b| b.max_nodes = 10)));
    add("reader_empty", json_reader("", opts()));
    add(
        "reader_merge_complex_keys",
        json_reader("base: &b {x: 1}\nd: {<<: *b, y: 2}\ne: {<<: [*b, {z: 3}]}\n", opts()),
    );
    add(
        "reader_complex_key_typed",
        render(serde_saphyr::from_reader_with_options::<_, BTreeMap<Vec<String>, Vec<u32>>>(
            std::io::Cursor::new(b"? &k [p, q]\n: &v [1, 2]\n? [r]\n: *v\n? [p, q, r]\n: []\n".to_vec()),
            opts(),
        )),
    );
    add(
        "reader_multi_iter",
        {
            let mut cur = std::io::Cursor::new(b"---\na: &x [1]\nb: *x\n---\nb: *x\n".to_vec());
            let items: Vec<String> = serde_saphyr::read_with_options::<_, Value>(&mut cur, limits(1_000_000, 64, 1))
                .map(render_json)
                .collect();
            items.join(" || ")
        },
    );

    // --- emitted text of a value obtained through replay
    add(
        "roundtrip_emit",
        match serde_saphyr::from_str::<BTreeMap<String, Value>>(
            "a: &A {k: [1, 2], s: text}\nb: *A\nc: [*A, null]\n",
        ) {
            Ok(v) => format!("OK\n{}", serde_saphyr::to_string(&v).unwrap()),
            Err(e) => format!("ERR {e}"),
        },
    );

    out
}

#[test]
fn demo_c08_differential() {
    let got = cases();
    if std::env::var_os("DEMO_PRINT").is_some() {
        println!("const EXPECTED: &[(&str, &str)] = &[");
        for (name, text) in &got {
            println!("    ({name:?}, {text:?}),");
        }
        println!("];");
        return;
    }
    assert!(got.len() >= 30);
    assert_eq!(got.len(), EXPECTED.len(), "number of cases");
    let mut failures = Vec::new();
    for ((name, text), (exp_name, exp_text)) in got.iter().zip(EXPECTED.iter()) {
        assert_eq!(name, exp_name, "case order");
        if text != exp_text {
            failures.push(format!("--- {name}\n expected: {exp_text:?}\n      got: {text:?}"));
        }
    }
    assert!(failures.is_empty(), "{} case(s) differ:\n{}", failures.len(), failures.join("\n"));
}

#[rustfmt::skip]
const EXPECTED: &[(&str, &str)] = &[
    ("scalar_alias", "OK {\"a\":1,\"b\":1,\"c\":1}"),
    ("seq_alias_twice", "OK {\"a\":[1,2,3],\"b\":[1,2,3],\"c\":[[1,2,3],[1,2,3]]}"),
    ("nested_anchored_maps", "OK {\"outer\":{\"inner\":{\"k\":\"v\",\"n\":[1,2]},\"other\":5},\"use_inner\":{\"k\":\"v\",\"n\":[1,2]},\"use_outer\":{\"inner\":{\"k\":\"v\",\"n\":[1,2]},\"other\":5},\"again\":[{\"k\":\"v\",\"n\":[1,2]},{\"inner\":{\"k\":\"v\",\"n\":[1,2]},\"other\":5}]}"),
    ("alias_inside_anchored_container", "OK {\"a\":[1],\"b\":[[1],\"x\",[1]],\"c\":[[1],\"x\",[1]],\"d\":{\"p\":[[1],\"x\",[1]],\"q\":[1]},\"e\":{\"p\":[[1],\"x\",[1]],\"q\":[1]}}"),
    ("anchor_inside_anchor_used_inside", "OK {\"r\":[1,1,[1],[1]],\"s\":[1,1,[1],[1]],\"t\":[1],\"u\":1}"),
    ("anchor_redefinition", "OK {\"a\":1,\"b\":1,\"c\":2,\"d\":2}"),
    ("anchored_empty_value", "OK {\"a\":null,\"b\":null,\"c\":[null,null]}"),
    ("tagged_anchors_replayed", "OK {\"a\":\"12\",\"b\":\"12\",\"c\":[1,2],\"d\":[1,2],\"e\":null,\"f\":null}"),
    ("tagged_anchor_into_typed", "OK {\"a\": \"12\", \"b\": \"12\"}"),
    ("root_alias_only_seq", "OK [[1,{\"k\":\"v\"}],[1,{\"k\":\"v\"}],\"v\"]"),
    ("per_anchor_limit_2_of_3", "ERR error: line 4 column 4: alias expansion limit exceeded for anchor id 1: 3 > 2\n --> <input>:4:4\n  |\n2 | x: *A\n3 | y: *A\n4 | z: *A\n  |    ^ alias expansion limit exceeded for anchor id 1: 3 > 2"),
    ("per_anchor_limit_3_of_3", "OK {\"defs\":{\"k\":\"v\"},\"x\":{\"k\":\"v\"},\"y\":{\"k\":\"v\"},\"z\":{\"k\":\"v\"}}"),
    ("per_anchor_limit_0", "ERR error: line 2 column 4: alias expansion limit exceeded for anchor id 1: 1 > 0\n --> <input>:2:4\n  |\n1 | a: &A 1\n2 | b: *A\n  |    ^ alias expansion limit exceeded for anchor id 1: 1 > 0"),
    ("per_anchor_limit_other_anchor_unaffected", "ERR error: line 5 column 4: alias expansion limit exceeded for anchor id 1: 3 > 2\n --> <input>:5:4\n  |\n3 | c: [*A, *B, *B]\n4 | d: *A\n5 | e: *A\n  |    ^ alias expansion limit exceeded for anchor id 1: 3 > 2"),
    ("per_anchor_limit_inside_recording", "ERR error: line 4 column 4: alias expansion limit exceeded for anchor id 1: 3 > 2\n --> <input>:4:4\n  |\n2 | b: &B [*A, *A]\n3 | c: *B\n4 | d: *A\n  |    ^ alias expansion limit exceeded for anchor id 1: 3 > 2"),
    ("total_replayed_10_of_12", "ERR error: line 2 column 12: alias replay limit exceeded: total_replayed_events=11 > 10 at line 1, column 20\n --> the value is used here:2:12\n  |\n1 | defs: &A [1, 2, 3, 4]\n2 | list: [*A, *A]\n  |            ^ alias replay limit exceeded: total_replayed_events=11 > 10 at line 1, column 20\n  | This value comes indirectly from the anchor at line 1 column 10:\n  |\n1 | defs: &A [1, 2, 3, 4]\n  |          ^ defined here\n2 | list: [*A, *A]\n3 |\n  |\n"),
    ("total_replayed_11_of_12", "ERR error: line 2 column 12: alias replay limit exceeded: total_replayed_events=12 > 11 at line 1, column 21\n --> the value is used here:2:12\n  |\n1 | defs: &A [1, 2, 3, 4]\n2 | list: [*A, *A]\n  |            ^ alias replay limit exceeded: total_replayed_events=12 > 11 at line 1, column 21\n  | This value comes indirectly from the anchor at line 1 column 10:\n  |\n1 | defs: &A [1, 2, 3, 4]\n  |          ^ defined here\n2 | list: [*A, *A]\n3 |\n  |\n"),
    ("total_replayed_12_of_12", "OK {\"defs\":[1,2,3,4],\"list\":[[1,2,3,4],[1,2,3,4]]}"),
    ("total_replayed_0_with_alias", "ERR error: line 1 column 7: alias replay limit exceeded: total_replayed_events=1 > 0\n --> <input>:1:7\n  |\n1 | a: &A 1\n  |       ^ alias replay limit exceeded: total_replayed_events=1 > 0\n2 | b: *A\n  |"),
    ("total_replayed_0_without_alias", "OK {\"a\":1,\"b\":2}"),
    ("total_replayed_mid_container", "ERR error: line 2 column 4: alias replay limit exceeded: total_replayed_events=6 > 5 at line 1, column 16 (defined at line 1, column 11) at line 2, column 4\n --> the value is used here:2:4\n  |\n1 | a: &A {k: [1, 2], m: {x: y}}\n2 | b: *A\n  |    ^ alias replay limit exceeded: total_replayed_events=6 > 5 at line 1, column 16 (defined at line 1, column 11) at line 2, column 4\n  | This value comes indirectly from the anchor at line 1 column 7:\n  |\n1 | a: &A {k: [1, 2], m: {x: y}}\n  |       ^ defined here\n2 | b: *A\n3 |\n  |\n"),
    ("stack_depth_0", "ERR error: line 2 column 6: alias replay stack depth exceeded: depth=1 > 0\n --> <input>:2:6\n  |\n1 | defs: &A [1]\n2 | out: *A\n  |      ^ alias replay stack depth exceeded: depth=1 > 0"),
    ("stack_depth_1", "OK {\"defs\":[1],\"out\":[1]}"),
    ("stack_depth_1_chain", "OK {\"c0\":[\"z\"],\"c1\":[[\"z\"]],\"c2\":[[[\"z\"]]],\"c3\":[[[[\"z\"]]]],\"c4\":[[[[[\"z\"]]]]],\"c5\":[[[[[[\"z\"]]]]]],\"c6\":[[[[[[[\"z\"]]]]]]],\"last\":[[[[[[[\"z\"]]]]]]]}"),
    ("stack_depth_0_no_alias", "OK {\"defs\":[1]}"),
    ("per_anchor_before_stack_depth", "ERR error: line 2 column 4: alias expansion limit exceeded for anchor id 1: 1 > 0\n --> <input>:2:4\n  |\n1 | a: &A 1\n2 | b: *A\n  |    ^ alias expansion limit exceeded for anchor id 1: 1 > 0"),
    ("recursive_into_value", "ERR error: line 1 column 11: recursive references require weak recursion types\n --> <input>:1:11\n  |\n1 | a: &A [1, *A]\n  |           ^ recursive references require weak recursion types"),
    ("recursive_map_into_value", "ERR error: line 3 column 6: recursive references require weak recursion types\n --> <input>:3:6\n  |\n1 | foo: &anchor\n2 |  k1: One\n3 |  k3: *anchor\n  |      ^ recursive references require weak recursion types"),
    ("recursive_weak_ok", "OK k1=One k2=Two k3.k1=Some(\"One\")"),
    ("recursive_weak_across_nodes", "OK [\"Markus<-Some(\\\"Markus\\\")\", \"Orlan<-Some(\\\"Markus\\\")\"]"),
    ("recursive_weak_limit_per_anchor", "ERR error: line 4 column 6: alias expansion limit exceeded for anchor id 1: 1 > 0\n --> <input>:4:6\n  |\n2 |  k1: \"One\"\n3 |  k2: \"Two\"\n4 |  k3: *anchor\n  |      ^ alias expansion limit exceeded for anchor id 1: 1 > 0"),
    ("unknown_anchor", "ERR error: line 1 column 4: alias references unknown anchor\n --> <input>:1:4\n  |\n1 | a: *nope\n  |    ^ alias references unknown anchor"),
    ("unterminated_flow", "ERR error: line 2 column 2: illegal placement of ':' indicator\n --> <input>:2:2\n  |\n1 | a: &A [1, 2\n2 | b: *A\n  |  ^ illegal placement of ':' indicator"),
    ("folded_col0", "ERR error: line 2 column 1: folded block scalars must indent their content\n --> <input>:2:1\n  |\n1 | >\n2 | folded text\n  | ^ folded block scalars must indent their content"),
    ("folded_col0_blank", "OK {\"a\":\"\\n\"}"),
    ("budget_nodes_10", "ERR error: line 3 column 5: budget breached: Nodes { nodes: 11 } at line 2, column 13\n --> the value is used here:3:5\n  |\n1 | seq:\n2 |   - &A [1,2,3]\n3 |   - *A\n  |     ^ budget breached: Nodes { nodes: 11 } at line 2, column 13\n4 |   - *A\n5 |   - *A\n  |\n  | This value comes indirectly from the anchor at line 2 column 8:\n  |\n1 | seq:\n2 |   - &A [1,2,3]\n  |        ^ defined here\n3 |   - *A\n4 |   - *A\n  |\n\nREPORT "),
    ("budget_nodes_exact", "OK {\"seq\":[[1,2,3],[1,2,3],[1,2,3],[1,2,3],[1,2,3]]}\nREPORT events=38 aliases=4 anchors=1 documents=1 nodes=23 max_depth=3 scalar_bytes=18 merge_keys=0 breached=None"),
    ("budget_nodes_one_short", "ERR error: line 6 column 5: budget breached: Nodes { nodes: 23 } at line 2, column 13\n --> the value is used here:6:5\n  |\n4 |   - *A\n5 |   - *A\n6 |   - *A\n  |     ^ budget breached: Nodes { nodes: 23 } at line 2, column 13\n  | This value comes indirectly from the anchor at line 2 column 8:\n  |\n1 | seq:\n2 |   - &A [1,2,3]\n  |        ^ defined here\n3 |   - *A\n4 |   - *A\n  |\n\nREPORT "),
    ("budget_events_20", "ERR error: line 4 column 5: budget breached: Events { events: 21 } at line 2, column 13\n --> the value is used here:4:5\n  |\n2 |   - &A [1,2,3]\n3 |   - *A\n4 |   - *A\n  |     ^ budget breached: Events { events: 21 } at line 2, column 13\n5 |   - *A\n6 |   - *A\n  |\n  | This value comes indirectly from the anchor at line 2 column 8:\n  |\n2 |   - &A [1,2,3]\n  |        ^ defined here\n3 |   - *A\n4 |   - *A\n  |\n\nREPORT "),
    ("budget_events_plenty", "OK {\"seq\":[[1,2,3],[1,2,3],[1,2,3],[1,2,3],[1,2,3]]}\nREPORT events=38 aliases=4 anchors=1 documents=1 nodes=23 max_depth=3 scalar_bytes=18 merge_keys=0 breached=None"),
    ("budget_aliases_3", "ERR error: line 6 column 5: budget breached: Aliases { aliases: 4 }\n --> <input>:6:5\n  |\n4 |   - *A\n5 |   - *A\n6 |   - *A\n  |     ^ budget breached: Aliases { aliases: 4 }\nREPORT "),
    ("budget_anchors_0", "ERR error: line 2 column 8: budget breached: Anchors { anchors: 1 }\n --> <input>:2:8\n  |\n1 | seq:\n2 |   - &A [1,2,3]\n  |        ^ budget breached: Anchors { anchors: 1 }\n3 |   - *A\n4 |   - *A\n  |\nREPORT "),
    ("budget_depth_by_replay", "ERR error: line 2 column 6: budget breached: Depth { depth: 6 } at line 1, column 9 (defined at line 1, column 8) at line 2, column 6\n --> the value is used here:2:6\n  |\n1 | a: &A [[[1]]]\n2 | b: [[*A]]\n  |      ^ budget breached: Depth { depth: 6 } at line 1, column 9 (defined at line 1, column 8) at line 2, column 6\n  | This value comes indirectly from the anchor at line 1 column 7:\n  |\n1 | a: &A [[[1]]]\n  |       ^ defined here\n2 | b: [[*A]]\n3 |\n  |\n\nREPORT "),
    ("budget_depth_by_replay_ok", "OK {\"a\":[[[1]]],\"b\":[[[[[1]]]]]}\nREPORT events=27 aliases=1 anchors=1 documents=1 nodes=13 max_depth=6 scalar_bytes=4 merge_keys=0 breached=None"),
    ("budget_scalar_bytes_by_replay", "ERR error: line 1 column 7: budget breached: ScalarBytes { total_scalar_bytes: 32 }\n --> <input>:1:7\n  |\n1 | a: &A abcdefghij\n  |       ^ budget breached: ScalarBytes { total_scalar_bytes: 32 }\n2 | b: [*A, *A, *A]\n  |\nREPORT "),
    ("budget_merge_keys_by_replay", "ERR error: line 4 column 4: budget breached: MergeKeys { merge_keys: 3 } at line 2, column 8\n --> the value is used here:4:4\n  |\n2 | m: &M {<<: *B, y: 2}\n3 | n: *M\n4 | o: *M\n  |    ^ budget breached: MergeKeys { merge_keys: 3 } at line 2, column 8\n  | This value comes indirectly from the anchor at line 2 column 7:\n  |\n2 | m: &M {<<: *B, y: 2}\n  |       ^ defined here\n3 | n: *M\n4 | o: *M\n  |\n\nREPORT "),
    ("budget_tagged_merge_key_replayed", "OK {\"base\":{\"x\":1},\"m\":{\"<<\":{\"x\":1},\"y\":2},\"n\":{\"<<\":{\"x\":1},\"y\":2}}\nREPORT events=33 aliases=2 anchors=2 documents=1 nodes=21 max_depth=3 scalar_bytes=20 merge_keys=0 breached=None"),
    ("budget_default_report", "OK {\"a\":{\"k\":[1,2]},\"b\":{\"k\":[1,2]},\"c\":{\"k\":[1,2]}}\nREPORT events=32 aliases=2 anchors=1 documents=1 nodes=19 max_depth=3 scalar_bytes=12 merge_keys=0 breached=None"),
    ("no_budget_report", "OK {\"a\":{\"k\":[1,2]},\"b\":{\"k\":[1,2]}}\nREPORT "),
    ("budget_and_alias_limit_race", "ERR error: line 2 column 8: budget breached: Nodes { nodes: 13 } at line 1, column 17\n --> the value is used here:2:8\n  |\n1 | defs: &A [1, 2, 3, 4]\n2 | list: [*A, *A]\n  |        ^ budget breached: Nodes { nodes: 13 } at line 1, column 17\n  | This value comes indirectly from the anchor at line 1 column 10:\n  |\n1 | defs: &A [1, 2, 3, 4]\n  |          ^ defined here\n2 | list: [*A, *A]\n3 |\n  |\n\nREPORT "),
    ("laughs_default_budget", "ERR error: line 7 column 10: budget breached: Nodes { nodes: 250001 } at line 1, column 10 (defined at line 1, column 9) at line 7, column 10 (defined at line 2, column 9) at line 7, column 10 (defined at line 3, column 9) at line 7, column 10 (defined at line 4, column 9) at line 7, column 10 (defined at line 5, column 9) at line 7, column 10\n --> the value is used here:7:10\n  |\n5 | l4: &L4 [*L3, *L3, *L3, *L3, *L3, *L3, *L3, *L3, *L3]\n6 | l5: &L5 [*L4, *L4, *L4, *L4, *L4, *L4, *L4, *L4, *L4]\n7 | l6: &L6 [*L5, *L5, *L5, *L5, *L5, *L5, *L5, *L5, *L5]\n  |          ^ budget breached: Nodes { nodes: 250001 } at line 1, column 10 (defined at line 1, column 9) at line 7, column 10 (defined at line 2, column 9) at line 7, column 10 (defined at line 3, column 9) at line 7, column 10 (defined at line 4, column 9) at line 7, column 10 (defined at line 5, column 9) at line 7, column 10\n8 | root: *L6\n  |\n  | This value comes indirectly from the anchor at line 6 column 9:\n  |\n5 | l4: &L4 [*L3, *L3, *L3, *L3, *L3, *L3, *L3, *L3, *L3]\n6 | l5: &L5 [*L4, *L4, *L4, *L4, *L4, *L4, *L4, *L4, *L4]\n  |         ^ defined here\n7 | l6: &L6 [*L5, *L5, *L5, *L5, *L5, *L5, *L5, *L5, *L5]\n8 | root: *L6\n  |\n"),
    ("laughs_no_budget_replay_limit", "ERR error: line 7 column 20: alias replay limit exceeded: total_replayed_events=1000001 > 1000000 at line 1, column 10 (defined at line 1, column 9) at line 7, column 20 (defined at line 2, column 9) at line 7, column 20 (defined at line 3, column 9) at line 7, column 20 (defined at line 4, column 9) at line 7, column 20 (defined at line 5, column 9) at line 7, column 20\n --> the value is used here:7:20\n  |\n5 | l4: &L4 [*L3, *L3, *L3, *L3, *L3, *L3, *L3, *L3, *L3]\n6 | l5: &L5 [*L4, *L4, *L4, *L4, *L4, *L4, *L4, *L4, *L4]\n7 | l6: &L6 [*L5, *L5, *L5, *L5, *L5, *L5, *L5, *L5, *L5]\n  |                    ^ alias replay limit exceeded: total_replayed_events=1000001 > 1000000 at line 1, column 10 (defined at line 1, column 9) at line 7, column 20 (defined at line 2, column 9) at line 7, column 20 (defined at line 3, column 9) at line 7, column 20 (defined at line 4, column 9) at line 7, column 20 (defined at line 5, column 9) at line 7, column 20\n8 | l7: &L7 [*L6, *L6, *L6, *L6, *L6, *L6, *L6, *L6, *L6]\n9 | root: *L7\n  |\n  | This value comes indirectly from the anchor at line 6 column 9:\n  |\n5 | l4: &L4 [*L3, *L3, *L3, *L3, *L3, *L3, *L3, *L3, *L3]\n6 | l5: &L5 [*L4, *L4, *L4, *L4, *L4, *L4, *L4, *L4, *L4]\n  |         ^ defined here\n7 | l6: &L6 [*L5, *L5, *L5, *L5, *L5, *L5, *L5, *L5, *L5]\n8 | l7: &L7 [*L6, *L6, *L6, *L6, *L6, *L6, *L6, *L6, *L6]\n  |\n"),
    ("laughs_small_accepted", "OK {\"l0\":[\"LOL\",\"LOL\"],\"l1\":[[\"LOL\",\"LOL\"],[\"LOL\",\"LOL\"],[\"LOL\",\"LOL\"]],\"l2\":[[[\"LOL\",\"LOL\"],[\"LOL\",\"LOL\"],[\"LOL\",\"LOL\"]],[[\"LOL\",\"LOL\"],[\"LOL\",\"LOL\"],[\"LOL\",\"LOL\"]],[[\"LOL\",\"LOL\"],[\"LOL\",\"LOL\"],[\"LOL\",\"LOL\"]]],\"l3\":[[[[\"LOL\",\"LOL\"],[\"LOL\",\"LOL\"],[\"LOL\",\"LOL\"]],[[\"LOL\",\"LOL\"],[\"LOL\",\"LOL\"],[\"LOL\",\"LOL\"]],[[\"LOL\",\"LOL\"],[\"LOL\",\"LOL\"],[\"LOL\",\"LOL\"]]],[[[\"LOL\",\"LOL\"],[\"LOL\",\"LOL\"],[\"LOL\",\"LOL\"]],[[\"LOL\",\"LOL\"],[\"LOL\",\"LOL\"],[\"LOL\",\"LOL\"]],[[\"LOL\",\"LOL\"],[\"LOL\",\"LOL\"],[\"LOL\",\"LOL\"]]],[[[\"LOL\",\"LOL\"],[\"LOL\",\"LOL\"],[\"LOL\",\"LOL\"]],[[\"LOL\",\"LOL\"],[\"LOL\",\"LOL\"],[\"LOL\",\"LOL\"]],[[\"LOL\",\"LOL\"],[\"LOL\",\"LOL\"],[\"LOL\",\"LOL\"]]]],\"root\":[[[[\"LOL\",\"LOL\"],[\"LOL\",\"LOL\"],[\"LOL\",\"LOL\"]],[[\"LOL\",\"LOL\"],[\"LOL\",\"LOL\"],[\"LOL\",\"LOL\"]],[[\"LOL\",\"LOL\"],[\"LOL\",\"LOL\"],[\"LOL\",\"LOL\"]]],[[[\"LOL\",\"LOL\"],[\"LOL\",\"LOL\"],[\"LOL\",\"LOL\"]],[[\"LOL\",\"LOL\"],[\"LOL\",\"LOL\"],[\"LOL\",\"LOL\"]],[[\"LOL\",\"LOL\"],[\"LOL\",\"LOL\"],[\"LOL\",\"LOL\"]]],[[[\"LOL\",\"LOL\"],[\"LOL\",\"LOL\"],[\"LOL\",\"LOL\"]],[[\"LOL\",\"LOL\"],[\"LOL\",\"LOL\"],[\"LOL\",\"LOL\"]],[[\"LOL\",\"LOL\"],[\"LOL\",\"LOL\"],[\"LOL\",\"LOL\"]]]]}\nREPORT "),
    ("laughs_small_one_short", "ERR error: line 5 column 7: alias replay limit exceeded: total_replayed_events=320 > 319 at line 4, column 23\n --> the value is used here:5:7\n  |\n3 | l2: &L2 [*L1, *L1, *L1]\n4 | l3: &L3 [*L2, *L2, *L2]\n5 | root: *L3\n  |       ^ alias replay limit exceeded: total_replayed_events=320 > 319 at line 4, column 23\n  | This value comes indirectly from the anchor at line 4 column 9:\n  |\n3 | l2: &L2 [*L1, *L1, *L1]\n4 | l3: &L3 [*L2, *L2, *L2]\n  |         ^ defined here\n5 | root: *L3\n6 |\n  |\n"),
    ("laughs_node_budget", "ERR error: line 5 column 10: budget breached: Nodes { nodes: 301 } at line 1, column 17 (defined at line 1, column 9) at line 5, column 10 (defined at line 2, column 9) at line 5, column 10 (defined at line 3, column 9) at line 5, column 10\n --> the value is used here:5:10\n  |\n3 | l2: &L2 [*L1, *L1, *L1, *L1]\n4 | l3: &L3 [*L2, *L2, *L2, *L2]\n5 | l4: &L4 [*L3, *L3, *L3, *L3]\n  |          ^ budget breached: Nodes { nodes: 301 } at line 1, column 17 (defined at line 1, column 9) at line 5, column 10 (defined at line 2, column 9) at line 5, column 10 (defined at line 3, column 9) at line 5, column 10\n6 | root: *L4\n  |\n  | This value comes indirectly from the anchor at line 4 column 9:\n  |\n3 | l2: &L2 [*L1, *L1, *L1, *L1]\n4 | l3: &L3 [*L2, *L2, *L2, *L2]\n  |         ^ defined here\n5 | l4: &L4 [*L3, *L3, *L3, *L3]\n6 | root: *L4\n  |\n\nREPORT "),
    ("chain_40", "OK {\"c0\":[\"z\"],\"c1\":[[\"z\"]],\"c2\":[[[\"z\"]]],\"c3\":[[[[\"z\"]]]],\"c4\":[[[[[\"z\"]]]]],\"c5\":[[[[[[\"z\"]]]]]],\"c6\":[[[[[[[\"z\"]]]]]]],\"c7\":[[[[[[[[\"z\"]]]]]]]],\"c8\":[[[[[[[[[\"z\"]]]]]]]]],\"c9\":[[[[[[[[[[\"z\"]]]]]]]]]],\"c10\":[[[[[[[[[[[\"z\"]]]]]]]]]]],\"c11\":[[[[[[[[[[[[\"z\"]]]]]]]]]]]],\"c12\":[[[[[[[[[[[[[\"z\"]]]]]]]]]]]]],\"c13\":[[[[[[[[[[[[[[\"z\"]]]]]]]]]]]]]],\"c14\":[[[[[[[[[[[[[[[\"z\"]]]]]]]]]]]]]]],\"c15\":[[[[[[[[[[[[[[[[\"z\"]]]]]]]]]]]]]]]],\"c16\":[[[[[[[[[[[[[[[[[\"z\"]]]]]]]]]]]]]]]]],\"c17\":[[[[[[[[[[[[[[[[[[\"z\"]]]]]]]]]]]]]]]]]],\"c18\":[[[[[[[[[[[[[[[[[[[\"z\"]]]]]]]]]]]]]]]]]]],\"c19\":[[[[[[[[[[[[[[[[[[[[\"z\"]]]]]]]]]]]]]]]]]]]],\"c20\":[[[[[[[[[[[[[[[[[[[[[\"z\"]]]]]]]]]]]]]]]]]]]]],\"c21\":[[[[[[[[[[[[[[[[[[[[[[\"z\"]]]]]]]]]]]]]]]]]]]]]],\"c22\":[[[[[[[[[[[[[[[[[[[[[[[\"z\"]]]]]]]]]]]]]]]]]]]]]]],\"c23\":[[[[[[[[[[[[[[[[[[[[[[[[\"z\"]]]]]]]]]]]]]]]]]]]]]]]],\"c24\":[[[[[[[[[[[[[[[[[[[[[[[[[\"z\"]]]]]]]]]]]]]]]]]]]]]]]]],\"c25\":[[[[[[[[[[[[[[[[[[[[[[[[[[\"z\"]]]]]]]]]]]]]]]]]]]]]]]]]],\"c26\":[[[[[[[[[[[[[[[[[[[[[[[[[[[\"z\"]]]]]]]]]]]]]]]]]]]]]]]]]]],\"c27\":[[[[[[[[[[[[[[[[[[[[[[[[[[[[\"z\"]]]]]]]]]]]]]]]]]]]]]]]]]]]],\"c28\":[[[[[[[[[[[[[[[[[[[[[[[[[[[[[\"z\"]]]]]]]]]]]]]]]]]]]]]]]]]]]]],\"c29\":[[[[[[[[[[[[[[[[[[[[[[[[[[[[[[\"z\"]]]]]]]]]]]]]]]]]]]]]]]]]]]]]],\"c30\":[[[[[[[[[[[[[[[[[[[[[[[[[[[[[[[\"z\"]]]]]]]]]]]]]]]]]]]]]]]]]]]]]]],\"c31\":[[[[[[[[[[[[[[[[[[[[[[[[[[[[[[[[\"z\"]]]]]]]]]]]]]]]]]]]]]]]]]]]]]]]],\"c32\":[[[[[[[[[[[[[[[[[[[[[[[[[[[[[[[[[\"z\"]]]]]]]]]]]]]]]]]]]]]]]]]]]]]]]]],\"c33\":[[[[[[[[[[[[[[[[[[[[[[[[[[[[[[[[[[\"z\"]]]]]]]]]]]]]]]]]]]]]]]]]]]]]]]]]],\"c34\":[[[[[[[[[[[[[[[[[[[[[[[[[[[[[[[[[[[\"z\"]]]]]]]]]]]]]]]]]]]]]]]]]]]]]]]]]]],\"c35\":[[[[[[[[[[[[[[[[[[[[[[[[[[[[[[[[[[[[\"z\"]]]]]]]]]]]]]]]]]]]]]]]]]]]]]]]]]]]],\"c36\":[[[[[[[[[[[[[[[[[[[[[[[[[[[[[[[[[[[[[\"z\"]]]]]]]]]]]]]]]]]]]]]]]]]]]]]]]]]]]]],\"c37\":[[[[[[[[[[[[[[[[[[[[[[[[[[[[[[[[[[[[[[\"z\"]]]]]]]]]]]]]]]]]]]]]]]]]]]]]]]]]]]]]],\"c38\":[[[[[[[[[[[[[[[[[[[[[[[[[[[[[[[[[[[[[[[\"z\"]]]]]]]]]]]]]]]]]]]]]]]]]]]]]]]]]]]]]]],\"c39\":[[[[[[[[[[[[[[[[[[[[[[[[[[[[[[[[[[[[[[[[\"z\"]]]]]]]]]]]]]]]]]]]]]]]]]]]]]]]]]]]]]]]],\"c40\":[[[[[[[[[[[[[[[[[[[[[[[[[[[[[[[[[[[[[[[[[\"z\"]]]]]]]]]]]]]]]]]]]]]]]]]]]]]]]]]]]]]]]]],\"last\":[[[[[[[[[[[[[[[[[[[[[[[[[[[[[[[[[[[[[[[[[\"z\"]]]]]]]]]]]]]]]]]]]]]]]]]]]]]]]]]]]]]]]]]}"),
    ("chain_40_per_anchor_1", "OK {\"c0\":[\"z\"],\"c1\":[[\"z\"]],\"c2\":[[[\"z\"]]],\"c3\":[[[[\"z\"]]]],\"c4\":[[[[[\"z\"]]]]],\"c5\":[[[[[[\"z\"]]]]]],\"c6\":[[[[[[[\"z\"]]]]]]],\"c7\":[[[[[[[[\"z\"]]]]]]]],\"c8\":[[[[[[[[[\"z\"]]]]]]]]],\"c9\":[[[[[[[[[[\"z\"]]]]]]]]]],\"c10\":[[[[[[[[[[[\"z\"]]]]]]]]]]],\"c11\":[[[[[[[[[[[[\"z\"]]]]]]]]]]]],\"c12\":[[[[[[[[[[[[[\"z\"]]]]]]]]]]]]],\"c13\":[[[[[[[[[[[[[[\"z\"]]]]]]]]]]]]]],\"c14\":[[[[[[[[[[[[[[[\"z\"]]]]]]]]]]]]]]],\"c15\":[[[[[[[[[[[[[[[[\"z\"]]]]]]]]]]]]]]]],\"c16\":[[[[[[[[[[[[[[[[[\"z\"]]]]]]]]]]]]]]]]],\"c17\":[[[[[[[[[[[[[[[[[[\"z\"]]]]]]]]]]]]]]]]]],\"c18\":[[[[[[[[[[[[[[[[[[[\"z\"]]]]]]]]]]]]]]]]]]],\"c19\":[[[[[[[[[[[[[[[[[[[[\"z\"]]]]]]]]]]]]]]]]]]]],\"c20\":[[[[[[[[[[[[[[[[[[[[[\"z\"]]]]]]]]]]]]]]]]]]]]],\"c21\":[[[[[[[[[[[[[[[[[[[[[[\"z\"]]]]]]]]]]]]]]]]]]]]]],\"c22\":[[[[[[[[[[[[[[[[[[[[[[[\"z\"]]]]]]]]]]]]]]]]]]]]]]],\"c23\":[[[[[[[[[[[[[[[[[[[[[[[[\"z\"]]]]]]]]]]]]]]]]]]]]]]]],\"c24\":[[[[[[[[[[[[[[[[[[[[[[[[[\"z\"]]]]]]]]]]]]]]]]]]]]]]]]],\"c25\":[[[[[[[[[[[[[[[[[[[[[[[[[[\"z\"]]]]]]]]]]]]]]]]]]]]]]]]]],\"c26\":[[[[[[[[[[[[[[[[[[[[[[[[[[[\"z\"]]]]]]]]]]]]]]]]]]]]]]]]]]],\"c27\":[[[[[[[[[[[[[[[[[[[[[[[[[[[[\"z\"]]]]]]]]]]]]]]]]]]]]]]]]]]]],\"c28\":[[[[[[[[[[[[[[[[[[[[[[[[[[[[[\"z\"]]]]]]]]]]]]]]]]]]]]]]]]]]]]],\"c29\":[[[[[[[[[[[[[[[[[[[[[[[[[[[[[[\"z\"]]]]]]]]]]]]]]]]]]]]]]]]]]]]]],\"c30\":[[[[[[[[[[[[[[[[[[[[[[[[[[[[[[[\"z\"]]]]]]]]]]]]]]]]]]]]]]]]]]]]]]],\"c31\":[[[[[[[[[[[[[[[[[[[[[[[[[[[[[[[[\"z\"]]]]]]]]]]]]]]]]]]]]]]]]]]]]]]]],\"c32\":[[[[[[[[[[[[[[[[[[[[[[[[[[[[[[[[[\"z\"]]]]]]]]]]]]]]]]]]]]]]]]]]]]]]]]],\"c33\":[[[[[[[[[[[[[[[[[[[[[[[[[[[[[[[[[[\"z\"]]]]]]]]]]]]]]]]]]]]]]]]]]]]]]]]]],\"c34\":[[[[[[[[[[[[[[[[[[[[[[[[[[[[[[[[[[[\"z\"]]]]]]]]]]]]]]]]]]]]]]]]]]]]]]]]]]],\"c35\":[[[[[[[[[[[[[[[[[[[[[[[[[[[[[[[[[[[[\"z\"]]]]]]]]]]]]]]]]]]]]]]]]]]]]]]]]]]]],\"c36\":[[[[[[[[[[[[[[[[[[[[[[[[[[[[[[[[[[[[[\"z\"]]]]]]]]]]]]]]]]]]]]]]]]]]]]]]]]]]]]],\"c37\":[[[[[[[[[[[[[[[[[[[[[[[[[[[[[[[[[[[[[[\"z\"]]]]]]]]]]]]]]]]]]]]]]]]]]]]]]]]]]]]]],\"c38\":[[[[[[[[[[[[[[[[[[[[[[[[[[[[[[[[[[[[[[[\"z\"]]]]]]]]]]]]]]]]]]]]]]]]]]]]]]]]]]]]]]],\"c39\":[[[[[[[[[[[[[[[[[[[[[[[[[[[[[[[[[[[[[[[[\"z\"]]]]]]]]]]]]]]]]]]]]]]]]]]]]]]]]]]]]]]]],\"c40\":[[[[[[[[[[[[[[[[[[[[[[[[[[[[[[[[[[[[[[[[[\"z\"]]]]]]]]]]]]]]]]]]]]]]]]]]]]]]]]]]]]]]]]],\"last\":[[[[[[[[[[[[[[[[[[[[[[[[[[[[[[[[[[[[[[[[[\"z\"]]]]]]]]]]]]]]]]]]]]]]]]]]]]]]]]]]]]]]]]]}"),
    ("nested_anchored_30", "OK {\"deep\":[[[[[[[[[[[[[[[[[[[[[[[[[[[[[[\"x\"]]]]]]]]]]]]]]]]]]]]]]]]]]]]]],\"o\":[[[[[[[[[[[[[[[[[[[[[[[[[[[[[[\"x\"]]]]]]]]]]]]]]]]]]]]]]]]]]]]]],\"m\":[[[[[[[[[[[[[[[\"x\"]]]]]]]]]]]]]]],\"i\":[\"x\"]}\nREPORT events=169 aliases=3 anchors=30 documents=1 nodes=85 max_depth=31 scalar_bytes=11 merge_keys=0 breached=None"),
    ("nested_anchored_30_replay_limit", "ERR error: line 3 column 4: alias replay limit exceeded: total_replayed_events=71 > 70 at line 1, column 146 (defined at line 1, column 140) at line 3, column 4 (defined at line 1, column 134) at line 3, column 4 (defined at line 1, column 128) at line 3, column 4 (defined at line 1, column 122) at line 3, column 4 (defined at line 1, column 116) at line 3, column 4 (defined at line 1, column 110) at line 3, column 4 (defined at line 1, column 104) at line 3, column 4 (defined at line 1, column 98) at line 3, column 4\n --> the value is used here:3:4\n  |\n1 | deep: &n0 [&n1 [&n2 [&n3 [&n4 [&n5 [&n6 [&n7 [&n8 [&n9 [&n10 [&n11 […\n2 | o: *n0\n3 | m: *n15\n  |    ^ alias replay limit exceeded: total_replayed_events=71 > 70 at line 1, column 146 (defined at line 1, column 140) at line 3, column 4 (defined at line 1, column 134) at line 3, column 4 (defined at line 1, column 128) at line 3, column 4 (defined at line 1, column 122) at line 3, column 4 (defined at line 1, column 116) at line 3, column 4 (defined at line 1, column 110) at line 3, column 4 (defined at line 1, column 104) at line 3, column 4 (defined at line 1, column 98) at line 3, column 4\n4 | i: *n29\n  |\n  | This value comes indirectly from the anchor at line 1 column 92:\n  |\n1 | …n4 [&n5 [&n6 [&n7 [&n8 [&n9 [&n10 [&n11 [&n12 [&n13 [&n14 [&n15 [&n16 [&n17 [&n18 [&n19 [&n20 [&n21 [&n22 [&n23 [&n24 [&n25 [&n26…\n  |                                                                  ^ defined here\n2 | o: *n0\n3 | m: *n15\n  |\n"),
    ("nested_anchored_depth_budget", "ERR error: line 2 column 5: budget breached: Depth { depth: 32 } at line 1, column 176 (defined at line 1, column 170) at line 2, column 5 (defined at line 1, column 164) at line 2, column 5 (defined at line 1, column 158) at line 2, column 5 (defined at line 1, column 152) at line 2, column 5 (defined at line 1, column 146) at line 2, column 5 (defined at line 1, column 140) at line 2, column 5 (defined at line 1, column 134) at line 2, column 5 (defined at line 1, column 128) at line 2, column 5 (defined at line 1, column 122) at line 2, column 5 (defined at line 1, column 116) at line 2, column 5 (defined at line 1, column 110) at line 2, column 5 (defined at line 1, column 104) at line 2, column 5 (defined at line 1, column 98) at line 2, column 5 (defined at line 1, column 92) at line 2, column 5 (defined at line 1, column 86) at line 2, column 5 (defined at line 1, column 80) at line 2, column 5 (defined at line 1, column 74) at line 2, column 5 (defined at line 1, column 68) at line 2, column 5 (defined at line 1, column 62) at line 2, column 5 (defined at line 1, column 56) at line 2, column 5 (defined at line 1, column 51) at line 2, column 5 (defined at line 1, column 46) at line 2, column 5 (defined at line 1, column 41) at line 2, column 5 (defined at line 1, column 36) at line 2, column 5 (defined at line 1, column 31) at line 2, column 5 (defined at line 1, column 26) at line 2, column 5 (defined at line 1, column 21) at line 2, column 5 (defined at line 1, column 16) at line 2, column 5\n --> the value is used here:2:5\n  |\n1 | deep: &n0 [&n1 [&n2 [&n3 [&n4 [&n5 [&n6 [&n7 [&n8 [&n9 [&n10 [&n11 [&…\n2 | o: [*n0]\n  |     ^ budget breached: Depth { depth: 32 } at line 1, column 176 (defined at line 1, column 170) at line 2, column 5 (defined at line 1, column 164) at line 2, column 5 (defined at line 1, column 158) at line 2, column 5 (defined at line 1, column 152) at line 2, column 5 (defined at line 1, column 146) at line 2, column 5 (defined at line 1, column 140) at line 2, column 5 (defined at line 1, column 134) at line 2, column 5 (defined at line 1, column 128) at line 2, column 5 (defined at line 1, column 122) at line 2, column 5 (defined at line 1, column 116) at line 2, column 5 (defined at line 1, column 110) at line 2, column 5 (defined at line 1, column 104) at line 2, column 5 (defined at line 1, column 98) at line 2, column 5 (defined at line 1, column 92) at line 2, column 5 (defined at line 1, column 86) at line 2, column 5 (defined at line 1, column 80) at line 2, column 5 (defined at line 1, column 74) at line 2, column 5 (defined at line 1, column 68) at line 2, column 5 (defined at line 1, column 62) at line 2, column 5 (defined at line 1, column 56) at line 2, column 5 (defined at line 1, column 51) at line 2, column 5 (defined at line 1, column 46) at line 2, column 5 (defined at line 1, column 41) at line 2, column 5 (defined at line 1, column 36) at line 2, column 5 (defined at line 1, column 31) at line 2, column 5 (defined at line 1, column 26) at line 2, column 5 (defined at line 1, column 21) at line 2, column 5 (defined at line 1, column 16) at line 2, column 5\n  | This value comes indirectly from the anchor at line 1 column 11:\n  |\n1 | deep: &n0 [&n1 [&n2 [&n3 [&n4 [&n5 [&n6 [&n7 [&n8 [&n9 [&n10 [&n11 [&n12 [&…\n  |           ^ defined here\n2 | o: [*n0]\n3 |\n  |\n"),
    ("multi_anchor_not_shared", "ERR error: line 4 column 4: alias references unknown anchor\n --> <input>:4:4\n  |\n2 | a: &x 1\n3 | ---\n4 | b: *x\n  |    ^ alias references unknown anchor"),
    ("multi_per_anchor_counter_reset", "OK [{\"a\":1,\"b\":1},{\"a\":2,\"b\":2},{\"a\":[3],\"b\":[3]}]"),
    ("multi_total_counter_reset", "OK [{\"a\":[1,2],\"b\":[1,2]},{\"a\":[3,4],\"b\":[3,4]}]"),
    ("multi_total_counter_exceeded_in_second", "ERR error: line 5 column 7: alias replay limit exceeded: total_replayed_events=5 > 4\n --> <input>:5:7\n  |\n3 | b: *x\n4 | ---\n5 | a: &x [3, 4]\n  |       ^ alias replay limit exceeded: total_replayed_events=5 > 4\n6 | b: [*x, *x]\n  |"),
    ("multi_empty_docs", "OK [{\"a\":1}]"),
    ("single_empty", "OK null"),
    ("single_only_comment", "OK null"),
    ("single_doc_markers_only", "OK null"),
    ("single_two_docs", "ERR error: line 3 column 1: multiple YAML documents detected; use from_multiple or from_multiple_with_options\n --> <input>:3:1\n  |\n1 | a: &x 1\n2 | ---\n3 | b: 2\n  | ^ multiple YAML documents detected; use from_multiple or from_multiple_with_options"),
    ("single_doc_end_then_doc", "ERR error: line 4 column 1: multiple YAML documents detected; use from_multiple or from_multiple_with_options\n --> <input>:4:1\n  |\n2 | ...\n3 | ---\n4 | b: *x\n  | ^ multiple YAML documents detected; use from_multiple or from_multiple_with_options"),
    ("single_doc_end_then_garbage", "ERR error: line 4 column 1: multiple YAML documents detected; use from_multiple or from_multiple_with_options\n --> <input>:4:1\n  |\n2 | b: *x\n3 | ...\n4 | zzz\n  | ^ multiple YAML documents detected; use from_multiple or from_multiple_with_options"),
    ("bom_prefixed", "OK {\"a\":1,\"b\":1}"),
    ("merge_alias", "OK {\"base\":{\"x\":1,\"y\":2},\"d\":{\"y\":3,\"z\":4,\"x\":1}}"),
    ("merge_seq_of_aliases", "OK {\"b1\":{\"x\":1},\"b2\":{\"x\":9,\"y\":2},\"d\":{\"z\":4,\"x\":9,\"y\":2}}"),
    ("merge_nested_merge_via_alias", "OK {\"a\":{\"p\":1},\"b\":{\"q\":2,\"p\":1},\"c\":{\"r\":3,\"q\":2,\"p\":1},\"d\":{\"p\":0,\"q\":2}}"),
    ("merge_scalar_value", "ERR error: line 1 column 7: YAML merge value must be mapping or sequence of mappings\n --> <input>:1:7\n  |\n1 | a: &a 5\n  |       ^ YAML merge value must be mapping or sequence of mappings\n2 | b: {<<: *a}\n  |"),
    ("merge_unterminated", "ERR error: line 2 column 16: unclosed bracket '['\n --> <input>:2:16\n  |\n1 | a: &a {p: 1}\n2 | b: {<<: *a, q: [1, 2\n  |                ^ unclosed bracket '['"),
    ("complex_keys", "OK [(Array [String(\"a\"), String(\"b\")], Number(1)), (Object {\"k\": String(\"v\")}, Number(2))]"),
    ("complex_key_map", "OK {[\"a\", \"b\"]: 1, [\"c\"]: 2, [\"d\", \"e\"]: 3}"),
    ("complex_key_duplicate", "ERR error: line 3 column 3: duplicate mapping key, set DuplicateKeyPolicy in Options if acceptable\n --> <input>:3:3\n  |\n1 | ? [a, b]\n2 | : 1\n3 | ? [a, b]\n  |   ^ duplicate mapping key, set DuplicateKeyPolicy in Options if acceptable\n4 | : 2\n  |"),
    ("complex_key_duplicate_via_alias", "ERR error: line 3 column 3: duplicate mapping key, set DuplicateKeyPolicy in Options if acceptable\n --> <input>:3:3\n  |\n1 | ? &k [a, b]\n2 | : 1\n3 | ? *k\n  |   ^ duplicate mapping key, set DuplicateKeyPolicy in Options if acceptable\n4 | : 2\n  |"),
    ("map_as_key_in_pair", "OK [({\"a\": [1, 2]}, 1)]"),
    ("map_key_is_map", "OK {{\"a\": [1, 2]}: 1, {\"a\": [1, 3], \"b\": []}: 2}"),
    ("map_key_is_map_duplicate", "ERR error: line 3 column 3: duplicate mapping key, set DuplicateKeyPolicy in Options if acceptable\n --> <input>:3:3\n  |\n1 | ? {a: [1, 2]}\n2 | : 1\n3 | ? {a: [1, 2]}\n  |   ^ duplicate mapping key, set DuplicateKeyPolicy in Options if acceptable\n4 | : 2\n  |"),
    ("map_key_is_map_duplicate_last_wins", "OK {{\"a\": [1, 2]}: 2}"),
    ("scalar_key_duplicate_alias", "ERR error: line 2 column 1: duplicate mapping key: key, set DuplicateKeyPolicy in Options if acceptable\n --> <input>:2:1\n  |\n1 | &k key: 1\n2 | *k : 2\n  | ^ duplicate mapping key: key, set DuplicateKeyPolicy in Options if acceptable"),
    ("scalar_key_duplicate_first_wins", "OK {\"key\":[1],\"other\":[1]}"),
    ("scalar_key_duplicate_last_wins", "OK {\"key\":{\"a\":[1]},\"other\":[1]}"),
    ("struct_ignores_anchor_uses_alias", "OK OnlyB { b: [1, 2, 3] }"),
    ("struct_alias_limit_in_ignored_field", "ERR error: line 3 column 20: alias replay limit exceeded: total_replayed_events=13 > 12 at line 1, column 11\n --> the value is used here:3:20\n  |\n1 | a: &A [1, 2, 3]\n2 | b: *A\n3 | c: {deep: [*A, {x: *A}]}\n  |                    ^ alias replay limit exceeded: total_replayed_events=13 > 12 at line 1, column 11\n  | This value comes indirectly from the anchor at line 1 column 7:\n  |\n1 | a: &A [1, 2, 3]\n  |       ^ defined here\n2 | b: *A\n3 | c: {deep: [*A, {x: *A}]}\n  |\n"),
    ("spanned_alias_locations", "OK a=7@ref 1:7 def 1:7 b=7@ref 2:4 def 1:7 c=[\"hello\"@ref 4:8 def 4:8, \"hello\"@ref 5:5 def 4:8, \"tail\"@ref 6:5 def 6:5] d=[1, 2]@ref 7:7 def 7:7"),
    ("spanned_alias_container", "OK k1:ref 1:8 def 1:8 [1@ref 1:9 def 1:9, 2@ref 1:12 def 1:12] ; k2:ref 2:5 def 1:8 [1@ref 2:5 def 1:9, 2@ref 2:5 def 1:12] ; k3:ref 3:5 def 3:5 [3@ref 3:6 def 3:6]"),
    ("type_error_inside_replay", "ERR error: line 2 column 11: invalid u32\n --> <input>:2:11\n  |\n1 | a: &A [1, 2]\n2 | b: &B [1, oops]\n  |           ^ invalid u32\n3 | c: *A\n  |"),
    ("type_error_at_alias_use", "ERR error: line 3 column 3: invalid u32 at line 2, column 7 (defined at line 2, column 7) at line 3, column 3\n --> the value is used here:3:3\n  |\n1 | - &A [1, 2]\n2 | - &B [x, y]\n3 | - *B\n  |   ^ invalid u32 at line 2, column 7 (defined at line 2, column 7) at line 3, column 3\n  | This value comes indirectly from the anchor at line 2 column 6:\n  |\n1 | - &A [1, 2]\n2 | - &B [x, y]\n  |      ^ defined here\n3 | - *B\n4 |\n  |\n"),
    ("reader_alias", "OK {\"a\":[1,{\"k\":\"v\"}],\"b\":[1,{\"k\":\"v\"}],\"c\":[[1,{\"k\":\"v\"}]]}\nREPORT events=34 aliases=2 anchors=1 documents=1 nodes=20 max_depth=4 scalar_bytes=12 merge_keys=0 breached=None"),
    ("reader_per_anchor_limit", "ERR error: line 4 column 4: alias expansion limit exceeded for anchor id 1: 3 > 2\n --> <input>:4:4\n  |\n2 | x: *A\n3 | y: *A\n4 | z: *A\n  |    ^ alias expansion limit exceeded for anchor id 1: 3 > 2"),
    ("reader_total_limit", "ERR error: line 2 column 12: alias replay limit exceeded: total_replayed_events=11 > 10 at line 1, column 20\n --> the value is used here:2:12\n  |\n1 | defs: &A [1, 2, 3, 4]\n2 | list: [*A, *A]\n  |            ^ alias replay limit exceeded: total_replayed_events=11 > 10 at line 1, column 20\n  | This value comes indirectly from the anchor at line 1 column 10:\n  |\n1 | defs: &A [1, 2, 3, 4]\n  |          ^ defined here\n2 | list: [*A, *A]\n3 |\n  |\n"),
    ("reader_stack_depth", "ERR error: line 2 column 6: alias replay stack depth exceeded: depth=1 > 0\n --> <input>:2:6\n  |\n1 | defs: &A [1]\n2 | out: *A\n  |      ^ alias replay stack depth exceeded: depth=1 > 0"),
    ("reader_recursive", "ERR error: line 1 column 11: recursive references require weak recursion types\n --> <input>:1:11\n  |\n1 | a: &A [1, *A]\n  |           ^ recursive references require weak recursion types"),
    ("reader_budget_nodes", "ERR error: line 3 column 5: budget breached: Nodes { nodes: 11 } at line 2, column 13\n --> the value is used here:3:5\n  |\n1 | seq:\n2 |   - &A [1,2,3]\n3 |   - *A\n  |     ^ budget breached: Nodes { nodes: 11 } at line 2, column 13\n4 |   - *A\n5 |   - *A\n  |\n  | This value comes indirectly from the anchor at line 2 column 8:\n  |\n1 | seq:\n2 |   - &A [1,2,3]\n  |        ^ defined here\n3 |   - *A\n4 |   - *A\n  |\n\nREPORT "),
    ("reader_empty", "OK null"),
    ("reader_merge_complex_keys", "OK {\"base\":{\"x\":1},\"d\":{\"y\":2,\"x\":1},\"e\":{\"z\":3,\"x\":1}}"),
    ("reader_complex_key_typed", "OK {[\"p\", \"q\"]: [1, 2], [\"p\", \"q\", \"r\"]: [], [\"r\"]: [1, 2]}"),
    ("reader_multi_iter", "OK {\"a\":[1],\"b\":[1]} || ERR alias references unknown anchor at line 5, column 4"),
    ("roundtrip_emit", "OK\na:\n  k:\n    - 1\n    - 2\n  s: text\nb:\n  k:\n    - 1\n    - 2\n  s: text\nc:\n  - k:\n      - 1\n      - 2\n    s: text\n  - null\n"),
];
