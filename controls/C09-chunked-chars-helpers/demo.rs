//! Differential test for the C09 control refactoring (entry points agree: str / slice / reader,
//! any chunking, borrowed vs owned).
//!
//! Every case renders its outcome into one line of text; the lines are compared with literals
//! recorded on the unmodified tree. Run with `DEMO_PRINT=1` to print the lines as Rust literals.

use serde::Deserialize;
use serde::de::{Deserializer, Visitor};
use serde_saphyr::{Error, Options};
use std::collections::BTreeMap;
use std::fmt::{self, Debug};
use std::io::{self, Read};

// ---------------------------------------------------------------------------------------------
// Readers
// ---------------------------------------------------------------------------------------------

/// What a scripted reader does on one `read` call.
#[derive(Clone, Debug)]
enum Step {
    /// Hand out at most this many bytes.
    Give(usize),
    /// Fail with this kind (does not consume bytes).
    Fail(io::ErrorKind),
}

/// Serves `data` following `script`; once the script is exhausted it keeps using `rest` bytes per
/// call.
struct Scripted {
    data: Vec<u8>,
    pos: usize,
    script: Vec<Step>,
    at: usize,
    rest: usize,
}

impl Scripted {
    fn new(data: &[u8], script: Vec<Step>, rest: usize) -> Self {
        Self {
            data: data.to_vec(),
            pos: 0,
            script,
            at: 0,
            rest: rest.max(1),
        }
    }
    /// Every read hands out at most `n` bytes.
    fn chunks(data: &[u8], n: usize) -> Self {
        Self::new(data, Vec::new(), n)
    }
    /// Cycle through the given sizes.
    fn pattern(data: &[u8], sizes: &[usize]) -> Self {
        let mut script = Vec::new();
        let mut total = 0;
        while total < data.len() + 8 {
            for s in sizes {
                script.push(Step::Give(*s));
                total += *s;
            }
        }
        Self::new(data, script, 1)
    }
}

impl Read for Scripted {
    fn read(&mut self, buf: &mut [u8]) -> io::Result<usize> {
        if buf.is_empty() {
            return Ok(0);
        }
        let step = if self.at < self.script.len() {
            let s = self.script[self.at].clone();
            self.at += 1;
            s
        } else {
            Step::Give(self.rest)
        };
        match step {
            Step::Fail(kind) => Err(io::Error::new(kind, "scripted failure")),
            Step::Give(n) => {
                let left = self.data.len() - self.pos;
                let n = n.min(left).min(buf.len());
                buf[..n].copy_from_slice(&self.data[self.pos..self.pos + n]);
                self.pos += n;
                Ok(n)
            }
        }
    }
}

// ---------------------------------------------------------------------------------------------
// Target types
// ---------------------------------------------------------------------------------------------

#[derive(Debug, Deserialize, PartialEq)]
struct Doc {
    name: String,
    n: i32,
    #[serde(default)]
    tags: Vec<String>,
}

#[derive(Debug, Deserialize, PartialEq)]
struct Lent<'a> {
    #[serde(borrow)]
    name: &'a str,
    n: i32,
}

/// Records which visitor method `deserialize_str` used.
#[derive(Debug, PartialEq)]
struct Probe(String);

impl<'de> Deserialize<'de> for Probe {
    fn deserialize<D: Deserializer<'de>>(d: D) -> Result<Self, D::Error> {
        struct V;
        impl<'de> Visitor<'de> for V {
            type Value = Probe;
            fn expecting(&self, f: &mut fmt::Formatter<'_>) -> fmt::Result {
                f.write_str("a string")
            }
            fn visit_borrowed_str<E>(self, v: &'de str) -> Result<Probe, E> {
                Ok(Probe(format!("borrowed:{v}")))
            }
            fn visit_str<E>(self, v: &str) -> Result<Probe, E> {
                Ok(Probe(format!("transient:{v}")))
            }
            fn visit_string<E>(self, v: String) -> Result<Probe, E> {
                Ok(Probe(format!("owned:{v}")))
            }
        }
        d.deserialize_str(V)
    }
}

// ---------------------------------------------------------------------------------------------
// Rendering
// ---------------------------------------------------------------------------------------------

fn show<T: Debug>(r: Result<T, Error>) -> String {
    match r {
        Ok(v) => format!("Ok({v:?})"),
        Err(e) => {
            let loc = e.location().map(|l| (l.line(), l.column()));
            format!("Err@{loc:?}: {e}")
        }
    }
}

fn no_snippet() -> Options {
    serde_saphyr::options! { with_snippet: false, crop_radius: 0 }
}

fn limited(n: usize) -> Options {
    serde_saphyr::options! {
        budget: serde_saphyr::budget! { max_reader_input_bytes: Some(n) },
        with_snippet: false,
        crop_radius: 0,
    }
}

/// Runs the text through every entry point (owned target) and renders all outcomes; the reader is
/// driven with several partitions of the bytes.
fn all_entry_points<T>(bytes: &[u8], opts: &Options) -> Vec<String>
where
    T: serde::de::DeserializeOwned + Debug,
{
    let mut out = Vec::new();
    match std::str::from_utf8(bytes) {
        Ok(s) => out.push(format!(
            "str: {}",
            show(serde_saphyr::from_str_with_options::<T>(s, opts.clone()))
        )),
        Err(_) => out.push("str: n/a".to_string()),
    }
    out.push(format!(
        "slice: {}",
        show(serde_saphyr::from_slice_with_options::<T>(
            bytes,
            opts.clone()
        ))
    ));
    out.push(format!(
        "with_slice: {}",
        show(serde_saphyr::with_deserializer_from_slice_with_options(
            bytes,
            opts.clone(),
            |de| T::deserialize(de)
        ))
    ));
    for n in [1usize, 2, 3, 5, 4096] {
        out.push(format!(
            "reader/{n}: {}",
            show(serde_saphyr::from_reader_with_options::<_, T>(
                Scripted::chunks(bytes, n),
                opts.clone()
            ))
        ));
    }
    out.push(format!(
        "reader/1-2-3: {}",
        show(serde_saphyr::from_reader_with_options::<_, T>(
            Scripted::pattern(bytes, &[1, 2, 3]),
            opts.clone()
        ))
    ));
    out.push(format!(
        "with_reader/2: {}",
        show(serde_saphyr::with_deserializer_from_reader_with_options(
            Scripted::chunks(bytes, 2),
            opts.clone(),
            |de| T::deserialize(de)
        ))
    ));
    out
}

fn collect() -> Vec<String> {
    let mut lines: Vec<String> = Vec::new();
    let mut case = |label: &str, results: Vec<String>| {
        for r in results {
            lines.push(format!("{label} | {r}"));
        }
    };

    let snip = Options::default();
    let plain = no_snippet();

    // 1. plain ASCII mapping
    case(
        "ascii",
        all_entry_points::<Doc>(b"name: alpha\nn: 7\ntags: [x, y]\n", &snip),
    );
    // 2. 2-, 3- and 4-byte characters, in keys, values and comments
    let multi = "name: \"\u{e9}\u{20ac}\u{1f600}\" # \u{1f600}\nn: 3\ntags:\n  - \u{43f}\u{440}\u{438}\n  - \u{65e5}\u{672c}\n";
    case("multibyte", all_entry_points::<Doc>(multi.as_bytes(), &snip));
    // 3. leading UTF-8 BOM
    let bom = "\u{feff}name: bom\nn: 1\n";
    case("bom", all_entry_points::<Doc>(bom.as_bytes(), &snip));
    // 4. BOM only / empty / whitespace only into Option and into bool (EOF error)
    case(
        "bom-only-opt",
        all_entry_points::<Option<i32>>("\u{feff}".as_bytes(), &snip),
    );
    case("empty-bool", all_entry_points::<bool>(b"", &snip));
    case(
        "bom-only-bool",
        all_entry_points::<bool>("\u{feff}".as_bytes(), &plain),
    );
    case("blank-bool", all_entry_points::<bool>(b"  \n\n", &snip));
    // 5. two BOMs: only the first one is ignored
    case(
        "bom-twice",
        all_entry_points::<String>("\u{feff}\u{feff}x".as_bytes(), &plain),
    );
    // 6. type error with a location after multi-byte text (columns count chars, not bytes)
    let bad_type = "name: \u{1f600}\u{1f600}\nn: \u{e9}t\u{e9}\n";
    case(
        "type-error",
        all_entry_points::<Doc>(bad_type.as_bytes(), &snip),
    );
    case(
        "type-error-plain",
        all_entry_points::<Doc>(bad_type.as_bytes(), &plain),
    );
    // 7. type error behind a BOM
    case(
        "bom-type-error",
        all_entry_points::<Doc>("\u{feff}name: a\nn: zz\n".as_bytes(), &snip),
    );
    // 8. syntax error
    case(
        "syntax",
        all_entry_points::<Doc>("name: [\u{20ac}, b\nn: 1\n".as_bytes(), &snip),
    );
    case(
        "syntax-plain",
        all_entry_points::<BTreeMap<String, String>>(b"a: 'unterminated\nb: 2\n", &plain),
    );
    // 9. several documents / trailing garbage after "..."
    case(
        "two-docs",
        all_entry_points::<Doc>(b"name: a\nn: 1\n---\nname: b\nn: 2\n", &snip),
    );
    case(
        "garbage-after-end",
        all_entry_points::<Doc>(b"name: a\nn: 1\n...\n]]] \x7b\n", &snip),
    );
    case(
        "garbage-no-end",
        all_entry_points::<Vec<i32>>(b"[1, 2]\n]\n", &plain),
    );
    // 10. anchors / aliases / merge across entry points
    case(
        "alias",
        all_entry_points::<Vec<Vec<String>>>("- &a [\u{e9}, z]\n- *a\n- *a\n".as_bytes(), &snip),
    );
    case(
        "unknown-alias",
        all_entry_points::<Vec<String>>(b"- *nope\n", &plain),
    );
    // 11. invalid UTF-8: the string entry points refuse up front, the reader reports an IO error
    case(
        "invalid-lead-0x80",
        all_entry_points::<String>(b"a\x80b", &plain),
    );
    case(
        "invalid-lead-0xff",
        all_entry_points::<String>(b"key: \xffx\n", &snip),
    );
    case(
        "invalid-lead-0xf8",
        all_entry_points::<String>(b"\xf8\x88\x80\x80\x80", &plain),
    );
    case(
        "bad-continuation",
        all_entry_points::<String>(b"ab\xc3\x28cd", &plain),
    );
    case(
        "overlong",
        all_entry_points::<String>(b"ab\xc0\x80cd", &plain),
    );
    case(
        "surrogate",
        all_entry_points::<String>(b"x\xed\xa0\x80y", &plain),
    );
    case(
        "beyond-max",
        all_entry_points::<String>(b"x\xf5\x80\x80\x80y", &plain),
    );
    case(
        "truncated-2of3",
        all_entry_points::<String>(b"abc\xe2\x82", &plain),
    );
    case(
        "truncated-1of4",
        all_entry_points::<String>(b"abc\xf0", &snip),
    );
    case(
        "truncated-3of4",
        all_entry_points::<Vec<String>>(b"- a\n- \xf0\x9f\x98", &plain),
    );
    // 12. UTF-16 input with BOM is decoded by the reader only
    let mut utf16le = vec![0xFF, 0xFE];
    for u in "name: \u{e9}\u{1f600}\nn: 5\n".encode_utf16() {
        utf16le.extend_from_slice(&u.to_le_bytes());
    }
    case("utf16le", all_entry_points::<Doc>(&utf16le, &plain));
    let mut utf16be = vec![0xFE, 0xFF];
    for u in "[1, 2, x]".encode_utf16() {
        utf16be.extend_from_slice(&u.to_be_bytes());
    }
    case("utf16be", all_entry_points::<Vec<i32>>(&utf16be, &plain));

    // 13. reader byte limit: exactly enough, one short, cut inside a 4-byte char, zero
    let sized = "k: \u{1f600}\u{1f600}\n"; // 3 + 8 + 1 = 12 bytes
    for limit in [0usize, 1, 3, 6, 7, 10, 11, 12, 13] {
        let mut results = Vec::new();
        for n in [1usize, 3, 64] {
            results.push(format!(
                "reader/{n}: {}",
                show(serde_saphyr::from_reader_with_options::<
                    _,
                    BTreeMap<String, String>,
                >(
                    Scripted::chunks(sized.as_bytes(), n), limited(limit)
                ))
            ));
        }
        results.push(format!(
            "with_reader/2: {}",
            show(serde_saphyr::with_deserializer_from_reader_with_options(
                Scripted::chunks(sized.as_bytes(), 2),
                limited(limit),
                |de| BTreeMap::<String, String>::deserialize(de)
            ))
        ));
        // the limit never applies to in-memory input
        results.push(format!(
            "str: {}",
            show(serde_saphyr::from_str_with_options::<
                BTreeMap<String, String>,
            >(sized, limited(limit)))
        ));
        case(&format!("limit-{limit}"), results);
    }
    // limit with a BOM in front (the decoder drops the BOM before the bytes are counted)
    {
        let text = "\u{feff}ab: c\n"; // 3 + 6
        let mut results = Vec::new();
        for limit in [5usize, 6, 8, 9] {
            results.push(format!(
                "limit={limit}: {}",
                show(serde_saphyr::from_reader_with_options::<
                    _,
                    BTreeMap<String, String>,
                >(
                    Scripted::chunks(text.as_bytes(), 2), limited(limit)
                ))
            ));
        }
        case("limit-bom", results);
    }
    // no budget at all
    {
        let opts = serde_saphyr::options! { budget: None };
        case(
            "no-budget",
            all_entry_points::<Doc>("name: \u{e9}\nn: 2\n".as_bytes(), &opts),
        );
    }

    // 14. IO failures: at the first byte, between characters, inside a character; Interrupted
    {
        let text = "a: \u{20ac}\u{20ac}\nb: c\n".as_bytes(); // euro = E2 82 AC
        use io::ErrorKind::*;
        let scripts: Vec<(&str, Vec<Step>)> = vec![
            ("fail-first", vec![Step::Fail(PermissionDenied)]),
            (
                "fail-between",
                vec![Step::Give(3), Step::Fail(BrokenPipe)],
            ),
            (
                "fail-inside-char",
                vec![Step::Give(3), Step::Give(1), Step::Fail(ConnectionReset)],
            ),
            (
                "fail-inside-char-2",
                vec![Step::Give(3), Step::Give(2), Step::Fail(TimedOut)],
            ),
            (
                "interrupted-first",
                vec![Step::Fail(Interrupted), Step::Give(2)],
            ),
            (
                "interrupted-between",
                vec![Step::Give(3), Step::Give(4), Step::Fail(Interrupted), Step::Give(1)],
            ),
            (
                "interrupted-inside-char",
                vec![Step::Give(3), Step::Give(1), Step::Fail(Interrupted), Step::Give(1)],
            ),
            (
                "eof-kind-first",
                vec![Step::Fail(UnexpectedEof), Step::Give(2)],
            ),
            (
                "eof-kind-later",
                vec![Step::Give(9), Step::Fail(UnexpectedEof), Step::Give(2)],
            ),
            (
                "would-block-late",
                vec![Step::Give(11), Step::Fail(WouldBlock)],
            ),
        ];
        for (label, script) in scripts {
            let mut results = Vec::new();
            for (oname, opts) in [("snip", &snip), ("plain", &plain)] {
                results.push(format!(
                    "from_reader/{oname}: {}",
                    show(serde_saphyr::from_reader_with_options::<
                        _,
                        BTreeMap<String, String>,
                    >(
                        Scripted::new(text, script.clone(), 1), opts.clone()
                    ))
                ));
            }
            results.push(format!(
                "with_reader: {}",
                show(serde_saphyr::with_deserializer_from_reader(
                    Scripted::new(text, script.clone(), 1),
                    |de| BTreeMap::<String, String>::deserialize(de)
                ))
            ));
            let mut rd = Scripted::new(text, script.clone(), 1);
            let items: Vec<String> =
                serde_saphyr::read_with_options::<_, BTreeMap<String, String>>(
                    &mut rd,
                    plain.clone(),
                )
                .take(4)
                .map(show)
                .collect();
            results.push(format!("read: {items:?}"));
            case(label, results);
        }
    }

    // 15. borrowing
    {
        let mut results = Vec::new();
        let texts: Vec<(&str, String)> = vec![
            ("plain", "name: hello\nn: 1\n".to_string()),
            ("plain-multibyte", "name: h\u{e9}llo \u{1f600}\nn: 1\n".to_string()),
            ("bom", "\u{feff}name: hello\nn: 1\n".to_string()),
            ("single-quoted", "name: 'it is'\nn: 1\n".to_string()),
            ("single-quoted-escape", "name: 'it''s'\nn: 1\n".to_string()),
            ("double-quoted", "name: \"abc\"\nn: 1\n".to_string()),
            ("double-quoted-escape", "name: \"a\\tb\"\nn: 1\n".to_string()),
            ("multi-line-plain", "name: a\n  b\nn: 1\n".to_string()),
            ("literal", "name: |\n  text\nn: 1\n".to_string()),
            ("folded", "name: >\n  te\n  xt\nn: 1\n".to_string()),
            ("null", "name: ~\nn: 1\n".to_string()),
            ("tagged-str-null", "name: !!str null\nn: 1\n".to_string()),
            ("alias", "- &x\n  name: &y hi\n  n: 1\n- name: *y\n  n: 2\n".to_string()),
        ];
        for (label, text) in &texts {
            if *label == "alias" {
                results.push(format!(
                    "{label}: str={} | slice={}",
                    show(serde_saphyr::from_str::<Vec<Lent>>(text)),
                    show(serde_saphyr::from_slice_with_options::<Vec<Lent>>(
                        text.as_bytes(),
                        plain.clone()
                    )),
                ));
                continue;
            }
            results.push(format!(
                "{label}: str={} | slice={} | with_str={} | owned={}",
                show(serde_saphyr::from_str::<Lent>(text)),
                show(serde_saphyr::from_slice_with_options::<Lent>(
                    text.as_bytes(),
                    plain.clone()
                )),
                show(serde_saphyr::with_deserializer_from_str_with_options(
                    text,
                    plain.clone(),
                    |de| Lent::deserialize(de)
                )),
                show(serde_saphyr::from_str::<Doc>(text)),
            ));
        }
        case("borrow", results);

        // which visitor method is used: strings lend, readers never do
        let mut results = Vec::new();
        for text in ["hello", "\u{feff}h\u{e9}llo", "\"a\\nb\"", "'q'", "|\n  lit\n", "[a]", "~"] {
            results.push(format!(
                "{text:?}: str={} | slice={} | with_str={} | reader={} | with_reader={}",
                show(serde_saphyr::from_str_with_options::<Probe>(
                    text,
                    plain.clone()
                )),
                show(serde_saphyr::from_slice::<Probe>(text.as_bytes())),
                show(serde_saphyr::with_deserializer_from_str(text, |de| {
                    Probe::deserialize(de)
                })),
                show(serde_saphyr::from_reader_with_options::<_, Probe>(
                    Scripted::chunks(text.as_bytes(), 1),
                    plain.clone()
                )),
                show(serde_saphyr::with_deserializer_from_reader(
                    Scripted::chunks(text.as_bytes(), 3),
                    |de| Probe::deserialize(de)
                )),
            ));
        }
        case("probe", results);
    }

    // 16. ring buffer: long input, error late, different chunkings; snippet comes from the ring
    {
        let mut text = String::new();
        for i in 0..400 {
            text.push_str(&format!("- {{id: {i}, label: \"\u{43f}\u{1f600} {i}\"}}\n"));
        }
        text.push_str("- {id: oops\u{20ac}, label: x}\n");
        for i in 0..100 {
            text.push_str(&format!("- {{id: {i}, label: tail}}\n"));
        }
        #[derive(Debug, Deserialize)]
        #[allow(dead_code)]
        struct Row {
            id: u32,
            label: String,
        }
        let mut results = Vec::new();
        results.push(format!(
            "str: {}",
            show(serde_saphyr::from_str::<Vec<Row>>(&text).map(|v| v.len()))
        ));
        for n in [1usize, 7, 1000, 100_000] {
            results.push(format!(
                "reader/{n}: {}",
                show(
                    serde_saphyr::from_reader::<_, Vec<Row>>(Scripted::chunks(text.as_bytes(), n))
                        .map(|v| v.len())
                )
            ));
        }
        results.push(format!(
            "reader/pattern: {}",
            show(
                serde_saphyr::from_reader::<_, Vec<Row>>(Scripted::pattern(
                    text.as_bytes(),
                    &[1, 4, 2, 9]
                ))
                .map(|v| v.len())
            )
        ));
        case("ring-late-error", results);

        // the same document without the bad row parses to the same value everywhere
        let good: String = text.replace("oops\u{20ac}", "4000");
        let from_str = serde_saphyr::from_str::<Vec<BTreeMap<String, String>>>(&good).unwrap();
        let mut same = Vec::new();
        for n in [1usize, 2, 3, 4, 5, 6, 7, 8, 9, 511, 512, 513, 8191, 8192, 8193] {
            let from_reader = serde_saphyr::from_reader::<_, Vec<BTreeMap<String, String>>>(
                Scripted::chunks(good.as_bytes(), n),
            )
            .unwrap();
            same.push(format!("{n}:{}", from_reader == from_str));
        }
        case(
            "ring-long-good",
            vec![format!("rows={} same={same:?}", from_str.len())],
        );
    }

    // 17. streaming iterator with chunked multi-document input
    {
        let text = "\u{feff}a: 1\n---\nb: \u{1f600}\n---\n---\nc: [\n---\nd: 4\n";
        let mut results = Vec::new();
        for n in [1usize, 2, 5, 100] {
            let mut rd = Scripted::chunks(text.as_bytes(), n);
            let items: Vec<String> = serde_saphyr::read::<_, BTreeMap<String, String>>(&mut rd)
                .take(8)
                .map(show)
                .collect();
            results.push(format!("read/{n}: {items:?}"));
        }
        results.push(format!(
            "from_multiple: {}",
            show(serde_saphyr::from_multiple::<BTreeMap<String, String>>(text))
        ));
        case("stream", results);
    }

    // 18. budget report is delivered once per call by every entry point
    {
        use std::cell::RefCell;
        use std::rc::Rc;
        let text = "a: &x [1, 2]\nb: *x\n";
        let seen: Rc<RefCell<Vec<String>>> = Rc::new(RefCell::new(Vec::new()));
        let mk = |tag: &'static str| {
            let seen = Rc::clone(&seen);
            Options::default().with_budget_report(move |r| {
                seen.borrow_mut().push(format!(
                    "{tag}: events={} aliases={} anchors={} docs={} nodes={} depth={} bytes={} breached={:?}",
                    r.events,
                    r.aliases,
                    r.anchors,
                    r.documents,
                    r.nodes,
                    r.max_depth,
                    r.total_scalar_bytes,
                    r.breached
                ))
            })
        };
        type M = BTreeMap<String, Vec<i32>>;
        let a = show(serde_saphyr::from_str_with_options::<M>(text, mk("str")));
        let b = show(serde_saphyr::from_slice_with_options::<M>(
            text.as_bytes(),
            mk("slice"),
        ));
        let c = show(serde_saphyr::from_reader_with_options::<_, M>(
            Scripted::chunks(text.as_bytes(), 1),
            mk("reader"),
        ));
        let d = show(serde_saphyr::with_deserializer_from_str_with_options(
            text,
            mk("with_str"),
            |de| M::deserialize(de),
        ));
        let e = show(serde_saphyr::with_deserializer_from_reader_with_options(
            Scripted::chunks(text.as_bytes(), 3),
            mk("with_reader"),
            |de| M::deserialize(de),
        ));
        let mut results = vec![a, b, c, d, e];
        results.extend(seen.borrow().iter().cloned());
        case("budget-report", results);

        // a breached budget is reported by all of them alike
        let tight = |tag: &'static str| {
            let mut o = mk(tag);
            o.budget = serde_saphyr::budget! { max_nodes: 3 };
            o
        };
        seen.borrow_mut().clear();
        let mut results = vec![
            show(serde_saphyr::from_str_with_options::<M>(text, tight("str"))),
            show(serde_saphyr::from_reader_with_options::<_, M>(
                Scripted::chunks(text.as_bytes(), 2),
                tight("reader"),
            )),
            show(serde_saphyr::with_deserializer_from_reader_with_options(
                Scripted::chunks(text.as_bytes(), 2),
                tight("with_reader"),
                |de| M::deserialize(de),
            )),
        ];
        results.extend(seen.borrow().iter().cloned());
        case("budget-breach", results);
    }

    lines
}

#[test]
fn control_c09_differential() {
    let actual = collect();
    if std::env::var_os("DEMO_PRINT").is_some() {
        for l in &actual {
            println!("    {l:?},");
        }
        return;
    }
    let mut mismatches = Vec::new();
    for (i, a) in actual.iter().enumerate() {
        match EXPECTED.get(i) {
            Some(e) if *e == a.as_str() => {}
            Some(e) => mismatches.push(format!("line {i}:\n  expected: {e:?}\n  actual:   {a:?}")),
            None => mismatches.push(format!("line {i}: unexpected extra: {a:?}")),
        }
    }
    assert!(
        mismatches.is_empty(),
        "{} mismatch(es):\n{}",
        mismatches.len(),
        mismatches.join("\n")
    );
    assert_eq!(actual.len(), EXPECTED.len(), "number of recorded lines");
    assert!(actual.len() >= 30);
}

const EXPECTED: &[&str] = &[
//EXPECTED-BEGIN
    "ascii | str: Ok(Doc { name: \"alpha\", n: 7, tags: [\"x\", \"y\"] })",
    "ascii | slice: Ok(Doc { name: \"alpha\", n: 7, tags: [\"x\", \"y\"] })",
    "ascii | with_slice: Ok(Doc { name: \"alpha\", n: 7, tags: [\"x\", \"y\"] })",
    "ascii | reader/1: Ok(Doc { name: \"alpha\", n: 7, tags: [\"x\", \"y\"] })",
    "ascii | reader/2: Ok(Doc { name: \"alpha\", n: 7, tags: [\"x\", \"y\"] })",
    "ascii | reader/3: Ok(Doc { name: \"alpha\", n: 7, tags: [\"x\", \"y\"] })",
    "ascii | reader/5: Ok(Doc { name: \"alpha\", n: 7, tags: [\"x\", \"y\"] })",
    "ascii | reader/4096: Ok(Doc { name: \"alpha\", n: 7, tags: [\"x\", \"y\"] })",
    "ascii | reader/1-2-3: Ok(Doc { name: \"alpha\", n: 7, tags: [\"x\", \"y\"] })",
    "ascii | with_reader/2: Ok(Doc { name: \"alpha\", n: 7, tags: [\"x\", \"y\"] })",
    "multibyte | str: Ok(Doc { name: \"é€😀\", n: 3, tags: [\"при\", \"日本\"] })",
    "multibyte | slice: Ok(Doc { name: \"é€😀\", n: 3, tags: [\"при\", \"日本\"] })",
    "multibyte | with_slice: Ok(Doc { name: \"é€😀\", n: 3, tags: [\"при\", \"日本\"] })",
    "multibyte | reader/1: Ok(Doc { name: \"é€😀\", n: 3, tags: [\"при\", \"日本\"] })",
    "multibyte | reader/2: Ok(Doc { name: \"é€😀\", n: 3, tags: [\"при\", \"日本\"] })",
    "multibyte | reader/3: Ok(Doc { name: \"é€😀\", n: 3, tags: [\"при\", \"日本\"] })",
    "multibyte | reader/5: Ok(Doc { name: \"é€😀\", n: 3, tags: [\"при\", \"日本\"] })",
    "multibyte | reader/4096: Ok(Doc { name: \"é€😀\", n: 3, tags: [\"при\", \"日本\"] })",
    "multibyte | reader/1-2-3: Ok(Doc { name: \"é€😀\", n: 3, tags: [\"при\", \"日本\"] })",
    "multibyte | with_reader/2: Ok(Doc { name: \"é€😀\", n: 3, tags: [\"при\", \"日本\"] })",
    "bom | str: Ok(Doc { name: \"bom\", n: 1, tags: [] })",
    "bom | slice: Ok(Doc { name: \"bom\", n: 1, tags: [] })",
    "bom | with_slice: Ok(Doc { name: \"bom\", n: 1, tags: [] })",
    "bom | reader/1: Ok(Doc { name: \"bom\", n: 1, tags: [] })",
    "bom | reader/2: Ok(Doc { name: \"bom\", n: 1, tags: [] })",
    "bom | reader/3: Ok(Doc { name: \"bom\", n: 1, tags: [] })",
    "bom | reader/5: Ok(Doc { name: \"bom\", n: 1, tags: [] })",
    "bom | reader/4096: Ok(Doc { name: \"bom\", n: 1, tags: [] })",
    "bom | reader/1-2-3: Ok(Doc { name: \"bom\", n: 1, tags: [] })",
    "bom | with_reader/2: Ok(Doc { name: \"bom\", n: 1, tags: [] })",
    "bom-only-opt | str: Ok(None)",
    "bom-only-opt | slice: Ok(None)",
    "bom-only-opt | with_slice: Ok(None)",
    "bom-only-opt | reader/1: Ok(None)",
    "bom-only-opt | reader/2: Ok(None)",
    "bom-only-opt | reader/3: Ok(None)",
    "bom-only-opt | reader/5: Ok(None)",
    "bom-only-opt | reader/4096: Ok(None)",
    "bom-only-opt | reader/1-2-3: Ok(None)",
    "bom-only-opt | with_reader/2: Ok(None)",
    "empty-bool | str: Err@Some((1, 1)): unexpected end of input at line 1, column 1",
    "empty-bool | slice: Err@Some((1, 1)): unexpected end of input at line 1, column 1",
    "empty-bool | with_slice: Err@Some((1, 1)): unexpected end of input at line 1, column 1",
    "empty-bool | reader/1: Err@Some((1, 1)): unexpected end of input at line 1, column 1",
    "empty-bool | reader/2: Err@Some((1, 1)): unexpected end of input at line 1, column 1",
    "empty-bool | reader/3: Err@Some((1, 1)): unexpected end of input at line 1, column 1",
    "empty-bool | reader/5: Err@Some((1, 1)): unexpected end of input at line 1, column 1",
    "empty-bool | reader/4096: Err@Some((1, 1)): unexpected end of input at line 1, column 1",
    "empty-bool | reader/1-2-3: Err@Some((1, 1)): unexpected end of input at line 1, column 1",
    "empty-bool | with_reader/2: Err@Some((1, 1)): unexpected end of input at line 1, column 1",
    "bom-only-bool | str: Err@Some((1, 1)): unexpected end of input at line 1, column 1",
    "bom-only-bool | slice: Err@Some((1, 1)): unexpected end of input at line 1, column 1",
    "bom-only-bool | with_slice: Err@Some((1, 1)): unexpected end of input at line 1, column 1",
    "bom-only-bool | reader/1: Err@Some((1, 1)): unexpected end of input at line 1, column 1",
    "bom-only-bool | reader/2: Err@Some((1, 1)): unexpected end of input at line 1, column 1",
    "bom-only-bool | reader/3: Err@Some((1, 1)): unexpected end of input at line 1, column 1",
    "bom-only-bool | reader/5: Err@Some((1, 1)): unexpected end of input at line 1, column 1",
    "bom-only-bool | reader/4096: Err@Some((1, 1)): unexpected end of input at line 1, column 1",
    "bom-only-bool | reader/1-2-3: Err@Some((1, 1)): unexpected end of input at line 1, column 1",
    "bom-only-bool | with_reader/2: Err@Some((1, 1)): unexpected end of input at line 1, column 1",
    "blank-bool | str: Err@Some((3, 1)): error: line 3 column 1: unexpected end of input\n --> <input>:2:2\n  |\n1 |   \n2 |\n  | ^ unexpected end of input",
    "blank-bool | slice: Err@Some((3, 1)): error: line 3 column 1: unexpected end of input\n --> <input>:2:2\n  |\n1 |   \n2 |\n  | ^ unexpected end of input",
    "blank-bool | with_slice: Err@Some((3, 1)): error: line 3 column 1: unexpected end of input\n --> <input>:2:2\n  |\n1 |   \n2 |\n  | ^ unexpected end of input",
    "blank-bool | reader/1: Err@Some((3, 1)): error: line 3 column 1: unexpected end of input\n --> <input>:2:2\n  |\n1 |   \n2 |\n  | ^ unexpected end of input",
    "blank-bool | reader/2: Err@Some((3, 1)): error: line 3 column 1: unexpected end of input\n --> <input>:2:2\n  |\n1 |   \n2 |\n  | ^ unexpected end of input",
    "blank-bool | reader/3: Err@Some((3, 1)): error: line 3 column 1: unexpected end of input\n --> <input>:2:2\n  |\n1 |   \n2 |\n  | ^ unexpected end of input",
    "blank-bool | reader/5: Err@Some((3, 1)): error: line 3 column 1: unexpected end of input\n --> <input>:2:2\n  |\n1 |   \n2 |\n  | ^ unexpected end of input",
    "blank-bool | reader/4096: Err@Some((3, 1)): error: line 3 column 1: unexpected end of input\n --> <input>:2:2\n  |\n1 |   \n2 |\n  | ^ unexpected end of input",
    "blank-bool | reader/1-2-3: Err@Some((3, 1)): error: line 3 column 1: unexpected end of input\n --> <input>:2:2\n  |\n1 |   \n2 |\n  | ^ unexpected end of input",
    "blank-bool | with_reader/2: Err@Some((3, 1)): unexpected end of input at line 3, column 1",
    "bom-twice | str: Ok(\"\\u{feff}x\")",
    "bom-twice | slice: Ok(\"\\u{feff}x\")",
    "bom-twice | with_slice: Ok(\"\\u{feff}x\")",
    "bom-twice | reader/1: Ok(\"\\u{feff}x\")",
    "bom-twice | reader/2: Ok(\"\\u{feff}x\")",
    "bom-twice | reader/3: Ok(\"\\u{feff}x\")",
    "bom-twice | reader/5: Ok(\"\\u{feff}x\")",
    "bom-twice | reader/4096: Ok(\"\\u{feff}x\")",
    "bom-twice | reader/1-2-3: Ok(\"\\u{feff}x\")",
    "bom-twice | with_reader/2: Ok(\"\\u{feff}x\")",
    "type-error | str: Err@Some((2, 4)): error: line 2 column 4: invalid i32\n --> <input>:2:4\n  |\n1 | name: 😀😀\n2 | n: été\n  |    ^ invalid i32",
    "type-error | slice: Err@Some((2, 4)): error: line 2 column 4: invalid i32\n --> <input>:2:4\n  |\n1 | name: 😀😀\n2 | n: été\n  |    ^ invalid i32",
    "type-error | with_slice: Err@Some((2, 4)): error: line 2 column 4: invalid i32\n --> <input>:2:4\n  |\n1 | name: 😀😀\n2 | n: été\n  |    ^ invalid i32",
    "type-error | reader/1: Err@Some((2, 4)): error: line 2 column 4: invalid i32\n --> <input>:2:4\n  |\n1 | name: 😀😀\n2 | n: été\n  |    ^ invalid i32",
    "type-error | reader/2: Err@Some((2, 4)): error: line 2 column 4: invalid i32\n --> <input>:2:4\n  |\n1 | name: 😀😀\n2 | n: été\n  |    ^ invalid i32",
    "type-error | reader/3: Err@Some((2, 4)): error: line 2 column 4: invalid i32\n --> <input>:2:4\n  |\n1 | name: 😀😀\n2 | n: été\n  |    ^ invalid i32",
    "type-error | reader/5: Err@Some((2, 4)): error: line 2 column 4: invalid i32\n --> <input>:2:4\n  |\n1 | name: 😀😀\n2 | n: été\n  |    ^ invalid i32",
    "type-error | reader/4096: Err@Some((2, 4)): error: line 2 column 4: invalid i32\n --> <input>:2:4\n  |\n1 | name: 😀😀\n2 | n: été\n  |    ^ invalid i32",
    "type-error | reader/1-2-3: Err@Some((2, 4)): error: line 2 column 4: invalid i32\n --> <input>:2:4\n  |\n1 | name: 😀😀\n2 | n: été\n  |    ^ invalid i32",
    "type-error | with_reader/2: Err@Some((2, 4)): invalid i32 at line 2, column 4",
    "type-error-plain | str: Err@Some((2, 4)): invalid i32 at line 2, column 4",
    "type-error-plain | slice: Err@Some((2, 4)): invalid i32 at line 2, column 4",
    "type-error-plain | with_slice: Err@Some((2, 4)): invalid i32 at line 2, column 4",
    "type-error-plain | reader/1: Err@Some((2, 4)): invalid i32 at line 2, column 4",
    "type-error-plain | reader/2: Err@Some((2, 4)): invalid i32 at line 2, column 4",
    "type-error-plain | reader/3: Err@Some((2, 4)): invalid i32 at line 2, column 4",
    "type-error-plain | reader/5: Err@Some((2, 4)): invalid i32 at line 2, column 4",
    "type-error-plain | reader/4096: Err@Some((2, 4)): invalid i32 at line 2, column 4",
    "type-error-plain | reader/1-2-3: Err@Some((2, 4)): invalid i32 at line 2, column 4",
    "type-error-plain | with_reader/2: Err@Some((2, 4)): invalid i32 at line 2, column 4",
    "bom-type-error | str: Err@Some((2, 4)): error: line 2 column 4: invalid i32\n --> <input>:2:4\n  |\n1 | name: a\n2 | n: zz\n  |    ^ invalid i32",
    "bom-type-error | slice: Err@Some((2, 4)): error: line 2 column 4: invalid i32\n --> <input>:2:4\n  |\n1 | name: a\n2 | n: zz\n  |    ^ invalid i32",
    "bom-type-error | with_slice: Err@Some((2, 4)): error: line 2 column 4: invalid i32\n --> <input>:2:4\n  |\n1 | name: a\n2 | n: zz\n  |    ^ invalid i32",
    "bom-type-error | reader/1: Err@Some((2, 4)): error: line 2 column 4: invalid i32\n --> <input>:2:4\n  |\n1 | name: a\n2 | n: zz\n  |    ^ invalid i32",
    "bom-type-error | reader/2: Err@Some((2, 4)): error: line 2 column 4: invalid i32\n --> <input>:2:4\n  |\n1 | name: a\n2 | n: zz\n  |    ^ invalid i32",
    "bom-type-error | reader/3: Err@Some((2, 4)): error: line 2 column 4: invalid i32\n --> <input>:2:4\n  |\n1 | name: a\n2 | n: zz\n  |    ^ invalid i32",
    "bom-type-error | reader/5: Err@Some((2, 4)): error: line 2 column 4: invalid i32\n --> <input>:2:4\n  |\n1 | name: a\n2 | n: zz\n  |    ^ invalid i32",
    "bom-type-error | reader/4096: Err@Some((2, 4)): error: line 2 column 4: invalid i32\n --> <input>:2:4\n  |\n1 | name: a\n2 | n: zz\n  |    ^ invalid i32",
    "bom-type-error | reader/1-2-3: Err@Some((2, 4)): error: line 2 column 4: invalid i32\n --> <input>:2:4\n  |\n1 | name: a\n2 | n: zz\n  |    ^ invalid i32",
    "bom-type-error | with_reader/2: Err@Some((2, 4)): invalid i32 at line 2, column 4",
    "syntax | str: Err@Some((1, 7)): error: line 1 column 7: unexpected event: expected string scalar\n --> <input>:1:7\n  |\n1 | name: [€, b\n  |       ^ unexpected event: expected string scalar\n2 | n: 1\n  |",
    "syntax | slice: Err@Some((1, 7)): error: line 1 column 7: unexpected event: expected string scalar\n --> <input>:1:7\n  |\n1 | name: [€, b\n  |       ^ unexpected event: expected string scalar\n2 | n: 1\n  |",
    "syntax | with_slice: Err@Some((1, 7)): error: line 1 column 7: unexpected event: expected string scalar\n --> <input>:1:7\n  |\n1 | name: [€, b\n  |       ^ unexpected event: expected string scalar\n2 | n: 1\n  |",
    "syntax | reader/1: Err@Some((1, 7)): error: line 1 column 7: unexpected event: expected string scalar\n --> <input>:1:7\n  |\n1 | name: [€, b\n  |       ^ unexpected event: expected string scalar\n2 | n: 1\n  |",
    "syntax | reader/2: Err@Some((1, 7)): error: line 1 column 7: unexpected event: expected string scalar\n --> <input>:1:7\n  |\n1 | name: [€, b\n  |       ^ unexpected event: expected string scalar\n2 | n: 1\n  |",
    "syntax | reader/3: Err@Some((1, 7)): error: line 1 column 7: unexpected event: expected string scalar\n --> <input>:1:7\n  |\n1 | name: [€, b\n  |       ^ unexpected event: expected string scalar\n2 | n: 1\n  |",
    "syntax | reader/5: Err@Some((1, 7)): error: line 1 column 7: unexpected event: expected string scalar\n --> <input>:1:7\n  |\n1 | name: [€, b\n  |       ^ unexpected event: expected string scalar\n2 | n: 1\n  |",
    "syntax | reader/4096: Err@Some((1, 7)): error: line 1 column 7: unexpected event: expected string scalar\n --> <input>:1:7\n  |\n1 | name: [€, b\n  |       ^ unexpected event: expected string scalar\n2 | n: 1\n  |",
    "syntax | reader/1-2-3: Err@Some((1, 7)): error: line 1 column 7: unexpected event: expected string scalar\n --> <input>:1:7\n  |\n1 | name: [€, b\n  |       ^ unexpected event: expected string scalar\n2 | n: 1\n  |",
    "syntax | with_reader/2: Err@Some((1, 7)): unexpected event: expected string scalar at line 1, column 7",
    "syntax-plain | str: Err@Some((2, 1)): invalid indentation in multiline quoted scalar at line 2, column 1",
    "syntax-plain | slice: Err@Some((2, 1)): invalid indentation in multiline quoted scalar at line 2, column 1",
    "syntax-plain | with_slice: Err@Some((2, 1)): invalid indentation in multiline quoted scalar at line 2, column 1",
    "syntax-plain | reader/1: Err@Some((2, 1)): invalid indentation in multiline quoted scalar at line 2, column 1",
    "syntax-plain | reader/2: Err@Some((2, 1)): invalid indentation in multiline quoted scalar at line 2, column 1",
    "syntax-plain | reader/3: Err@Some((2, 1)): invalid indentation in multiline quoted scalar at line 2, column 1",
    "syntax-plain | reader/5: Err@Some((2, 1)): invalid indentation in multiline quoted scalar at line 2, column 1",
    "syntax-plain | reader/4096: Err@Some((2, 1)): invalid indentation in multiline quoted scalar at line 2, column 1",
    "syntax-plain | reader/1-2-3: Err@Some((2, 1)): invalid indentation in multiline quoted scalar at line 2, column 1",
    "syntax-plain | with_reader/2: Err@Some((2, 1)): invalid indentation in multiline quoted scalar at line 2, column 1",
    "two-docs | str: Err@Some((4, 1)): error: line 4 column 1: multiple YAML documents detected; use from_multiple or from_multiple_with_options\n --> <input>:4:1\n  |\n2 | n: 1\n3 | ---\n4 | name: b\n  | ^ multiple YAML documents detected; use from_multiple or from_multiple_with_options\n5 | n: 2\n  |",
    "two-docs | slice: Err@Some((4, 1)): error: line 4 column 1: multiple YAML documents detected; use from_multiple or from_multiple_with_options\n --> <input>:4:1\n  |\n2 | n: 1\n3 | ---\n4 | name: b\n  | ^ multiple YAML documents detected; use from_multiple or from_multiple_with_options\n5 | n: 2\n  |",
    "two-docs | with_slice: Err@Some((4, 1)): error: line 4 column 1: multiple YAML documents detected; use from_multiple or from_multiple_with_options\n --> <input>:4:1\n  |\n2 | n: 1\n3 | ---\n4 | name: b\n  | ^ multiple YAML documents detected; use from_multiple or from_multiple_with_options\n5 | n: 2\n  |",
    "two-docs | reader/1: Err@Some((4, 1)): error: line 4 column 1: multiple YAML documents detected; use read or read_with_options to obtain the iterator\n --> <input>:4:1\n  |\n2 | n: 1\n3 | ---\n4 | name: b\n  | ^ multiple YAML documents detected; use read or read_with_options to obtain the iterator\n5 | n: 2\n  |",
    "two-docs | reader/2: Err@Some((4, 1)): error: line 4 column 1: multiple YAML documents detected; use read or read_with_options to obtain the iterator\n --> <input>:4:1\n  |\n2 | n: 1\n3 | ---\n4 | name: b\n  | ^ multiple YAML documents detected; use read or read_with_options to obtain the iterator\n5 | n: 2\n  |",
    "two-docs | reader/3: Err@Some((4, 1)): error: line 4 column 1: multiple YAML documents detected; use read or read_with_options to obtain the iterator\n --> <input>:4:1\n  |\n2 | n: 1\n3 | ---\n4 | name: b\n  | ^ multiple YAML documents detected; use read or read_with_options to obtain the iterator\n5 | n: 2\n  |",
    "two-docs | reader/5: Err@Some((4, 1)): error: line 4 column 1: multiple YAML documents detected; use read or read_with_options to obtain the iterator\n --> <input>:4:1\n  |\n2 | n: 1\n3 | ---\n4 | name: b\n  | ^ multiple YAML documents detected; use read or read_with_options to obtain the iterator\n5 | n: 2\n  |",
    "two-docs | reader/4096: Err@Some((4, 1)): error: line 4 column 1: multiple YAML documents detected; use read or read_with_options to obtain the iterator\n --> <input>:4:1\n  |\n2 | n: 1\n3 | ---\n4 | name: b\n  | ^ multiple YAML documents detected; use read or read_with_options to obtain the iterator\n5 | n: 2\n  |",
    "two-docs | reader/1-2-3: Err@Some((4, 1)): error: line 4 column 1: multiple YAML documents detected; use read or read_with_options to obtain the iterator\n --> <input>:4:1\n  |\n2 | n: 1\n3 | ---\n4 | name: b\n  | ^ multiple YAML documents detected; use read or read_with_options to obtain the iterator\n5 | n: 2\n  |",
    "two-docs | with_reader/2: Err@Some((4, 1)): multiple YAML documents detected; use read or read_with_options to obtain the iterator at line 4, column 1",
    "garbage-after-end | str: Ok(Doc { name: \"a\", n: 1, tags: [] })",
    "garbage-after-end | slice: Ok(Doc { name: \"a\", n: 1, tags: [] })",
    "garbage-after-end | with_slice: Ok(Doc { name: \"a\", n: 1, tags: [] })",
    "garbage-after-end | reader/1: Ok(Doc { name: \"a\", n: 1, tags: [] })",
    "garbage-after-end | reader/2: Ok(Doc { name: \"a\", n: 1, tags: [] })",
    "garbage-after-end | reader/3: Ok(Doc { name: \"a\", n: 1, tags: [] })",
    "garbage-after-end | reader/5: Ok(Doc { name: \"a\", n: 1, tags: [] })",
    "garbage-after-end | reader/4096: Ok(Doc { name: \"a\", n: 1, tags: [] })",
    "garbage-after-end | reader/1-2-3: Ok(Doc { name: \"a\", n: 1, tags: [] })",
    "garbage-after-end | with_reader/2: Ok(Doc { name: \"a\", n: 1, tags: [] })",
    "garbage-no-end | str: Err@Some((2, 1)): misplaced bracket at line 2, column 1",
    "garbage-no-end | slice: Err@Some((2, 1)): misplaced bracket at line 2, column 1",
    "garbage-no-end | with_slice: Err@Some((2, 1)): misplaced bracket at line 2, column 1",
    "garbage-no-end | reader/1: Err@Some((2, 1)): misplaced bracket at line 2, column 1",
    "garbage-no-end | reader/2: Err@Some((2, 1)): misplaced bracket at line 2, column 1",
    "garbage-no-end | reader/3: Err@Some((2, 1)): misplaced bracket at line 2, column 1",
    "garbage-no-end | reader/5: Err@Some((2, 1)): misplaced bracket at line 2, column 1",
    "garbage-no-end | reader/4096: Err@Some((2, 1)): misplaced bracket at line 2, column 1",
    "garbage-no-end | reader/1-2-3: Err@Some((2, 1)): misplaced bracket at line 2, column 1",
    "garbage-no-end | with_reader/2: Err@Some((2, 1)): misplaced bracket at line 2, column 1",
    "alias | str: Ok([[\"é\", \"z\"], [\"é\", \"z\"], [\"é\", \"z\"]])",
    "alias | slice: Ok([[\"é\", \"z\"], [\"é\", \"z\"], [\"é\", \"z\"]])",
    "alias | with_slice: Ok([[\"é\", \"z\"], [\"é\", \"z\"], [\"é\", \"z\"]])",
    "alias | reader/1: Ok([[\"é\", \"z\"], [\"é\", \"z\"], [\"é\", \"z\"]])",
    "alias | reader/2: Ok([[\"é\", \"z\"], [\"é\", \"z\"], [\"é\", \"z\"]])",
    "alias | reader/3: Ok([[\"é\", \"z\"], [\"é\", \"z\"], [\"é\", \"z\"]])",
    "alias | reader/5: Ok([[\"é\", \"z\"], [\"é\", \"z\"], [\"é\", \"z\"]])",
    "alias | reader/4096: Ok([[\"é\", \"z\"], [\"é\", \"z\"], [\"é\", \"z\"]])",
    "alias | reader/1-2-3: Ok([[\"é\", \"z\"], [\"é\", \"z\"], [\"é\", \"z\"]])",
    "alias | with_reader/2: Ok([[\"é\", \"z\"], [\"é\", \"z\"], [\"é\", \"z\"]])",
    "unknown-alias | str: Err@Some((1, 3)): alias references unknown anchor at line 1, column 3",
    "unknown-alias | slice: Err@Some((1, 3)): alias references unknown anchor at line 1, column 3",
    "unknown-alias | with_slice: Err@Some((1, 3)): alias references unknown anchor at line 1, column 3",
    "unknown-alias | reader/1: Err@Some((1, 3)): alias references unknown anchor at line 1, column 3",
    "unknown-alias | reader/2: Err@Some((1, 3)): alias references unknown anchor at line 1, column 3",
    "unknown-alias | reader/3: Err@Some((1, 3)): alias references unknown anchor at line 1, column 3",
    "unknown-alias | reader/5: Err@Some((1, 3)): alias references unknown anchor at line 1, column 3",
    "unknown-alias | reader/4096: Err@Some((1, 3)): alias references unknown anchor at line 1, column 3",
    "unknown-alias | reader/1-2-3: Err@Some((1, 3)): alias references unknown anchor at line 1, column 3",
    "unknown-alias | with_reader/2: Err@Some((1, 3)): alias references unknown anchor at line 1, column 3",
    "invalid-lead-0x80 | str: n/a",
    "invalid-lead-0x80 | slice: Err@None: input is not valid UTF-8",
    "invalid-lead-0x80 | with_slice: Err@None: input is not valid UTF-8",
    "invalid-lead-0x80 | reader/1: Err@None: IO error: invalid UTF-8 leading byte",
    "invalid-lead-0x80 | reader/2: Err@None: IO error: invalid UTF-8 leading byte",
    "invalid-lead-0x80 | reader/3: Err@None: IO error: invalid UTF-8 leading byte",
    "invalid-lead-0x80 | reader/5: Err@None: IO error: invalid UTF-8 leading byte",
    "invalid-lead-0x80 | reader/4096: Err@None: IO error: invalid UTF-8 leading byte",
    "invalid-lead-0x80 | reader/1-2-3: Err@None: IO error: invalid UTF-8 leading byte",
    "invalid-lead-0x80 | with_reader/2: Err@None: IO error: invalid UTF-8 leading byte",
    "invalid-lead-0xff | str: n/a",
    "invalid-lead-0xff | slice: Err@None: input is not valid UTF-8",
    "invalid-lead-0xff | with_slice: Err@None: input is not valid UTF-8",
    "invalid-lead-0xff | reader/1: Err@None: IO error: invalid UTF-8 leading byte",
    "invalid-lead-0xff | reader/2: Err@None: IO error: invalid UTF-8 leading byte",
    "invalid-lead-0xff | reader/3: Err@None: IO error: invalid UTF-8 leading byte",
    "invalid-lead-0xff | reader/5: Err@None: IO error: invalid UTF-8 leading byte",
    "invalid-lead-0xff | reader/4096: Err@None: IO error: invalid UTF-8 leading byte",
    "invalid-lead-0xff | reader/1-2-3: Err@None: IO error: invalid UTF-8 leading byte",
    "invalid-lead-0xff | with_reader/2: Err@None: IO error: invalid UTF-8 leading byte",
    "invalid-lead-0xf8 | str: n/a",
    "invalid-lead-0xf8 | slice: Err@None: input is not valid UTF-8",
    "invalid-lead-0xf8 | with_slice: Err@None: input is not valid UTF-8",
    "invalid-lead-0xf8 | reader/1: Err@Some((1, 1)): unexpected end of input at line 1, column 1",
    "invalid-lead-0xf8 | reader/2: Err@Some((1, 1)): unexpected end of input at line 1, column 1",
    "invalid-lead-0xf8 | reader/3: Err@Some((1, 1)): unexpected end of input at line 1, column 1",
    "invalid-lead-0xf8 | reader/5: Err@Some((1, 1)): unexpected end of input at line 1, column 1",
    "invalid-lead-0xf8 | reader/4096: Err@Some((1, 1)): unexpected end of input at line 1, column 1",
    "invalid-lead-0xf8 | reader/1-2-3: Err@Some((1, 1)): unexpected end of input at line 1, column 1",
    "invalid-lead-0xf8 | with_reader/2: Err@Some((1, 1)): unexpected end of input at line 1, column 1",
    "bad-continuation | str: n/a",
    "bad-continuation | slice: Err@None: input is not valid UTF-8",
    "bad-continuation | with_slice: Err@None: input is not valid UTF-8",
    "bad-continuation | reader/1: Err@None: IO error: invalid utf-8 sequence of 1 bytes from index 0",
    "bad-continuation | reader/2: Err@None: IO error: invalid utf-8 sequence of 1 bytes from index 0",
    "bad-continuation | reader/3: Err@None: IO error: invalid utf-8 sequence of 1 bytes from index 0",
    "bad-continuation | reader/5: Err@None: IO error: invalid utf-8 sequence of 1 bytes from index 0",
    "bad-continuation | reader/4096: Err@None: IO error: invalid utf-8 sequence of 1 bytes from index 0",
    "bad-continuation | reader/1-2-3: Err@None: IO error: invalid utf-8 sequence of 1 bytes from index 0",
    "bad-continuation | with_reader/2: Err@None: IO error: invalid utf-8 sequence of 1 bytes from index 0",
    "overlong | str: n/a",
    "overlong | slice: Err@None: input is not valid UTF-8",
    "overlong | with_slice: Err@None: input is not valid UTF-8",
    "overlong | reader/1: Err@None: IO error: invalid utf-8 sequence of 1 bytes from index 0",
    "overlong | reader/2: Err@None: IO error: invalid utf-8 sequence of 1 bytes from index 0",
    "overlong | reader/3: Err@None: IO error: invalid utf-8 sequence of 1 bytes from index 0",
    "overlong | reader/5: Err@None: IO error: invalid utf-8 sequence of 1 bytes from index 0",
    "overlong | reader/4096: Err@None: IO error: invalid utf-8 sequence of 1 bytes from index 0",
    "overlong | reader/1-2-3: Err@None: IO error: invalid utf-8 sequence of 1 bytes from index 0",
    "overlong | with_reader/2: Err@None: IO error: invalid utf-8 sequence of 1 bytes from index 0",
    "surrogate | str: n/a",
    "surrogate | slice: Err@None: input is not valid UTF-8",
    "surrogate | with_slice: Err@None: input is not valid UTF-8",
    "surrogate | reader/1: Err@None: IO error: invalid utf-8 sequence of 1 bytes from index 0",
    "surrogate | reader/2: Err@None: IO error: invalid utf-8 sequence of 1 bytes from index 0",
    "surrogate | reader/3: Err@None: IO error: invalid utf-8 sequence of 1 bytes from index 0",
    "surrogate | reader/5: Err@None: IO error: invalid utf-8 sequence of 1 bytes from index 0",
    "surrogate | reader/4096: Err@None: IO error: invalid utf-8 sequence of 1 bytes from index 0",
    "surrogate | reader/1-2-3: Err@None: IO error: invalid utf-8 sequence of 1 bytes from index 0",
    "surrogate | with_reader/2: Err@None: IO error: invalid utf-8 sequence of 1 bytes from index 0",
    "beyond-max | str: n/a",
    "beyond-max | slice: Err@None: input is not valid UTF-8",
    "beyond-max | with_slice: Err@None: input is not valid UTF-8",
    "beyond-max | reader/1: Err@None: IO error: invalid utf-8 sequence of 1 bytes from index 0",
    "beyond-max | reader/2: Err@None: IO error: invalid utf-8 sequence of 1 bytes from index 0",
    "beyond-max | reader/3: Err@None: IO error: invalid utf-8 sequence of 1 bytes from index 0",
    "beyond-max | reader/5: Err@None: IO error: invalid utf-8 sequence of 1 bytes from index 0",
    "beyond-max | reader/4096: Err@None: IO error: invalid utf-8 sequence of 1 bytes from index 0",
    "beyond-max | reader/1-2-3: Err@None: IO error: invalid utf-8 sequence of 1 bytes from index 0",
    "beyond-max | with_reader/2: Err@None: IO error: invalid utf-8 sequence of 1 bytes from index 0",
    "truncated-2of3 | str: n/a",
    "truncated-2of3 | slice: Err@None: input is not valid UTF-8",
    "truncated-2of3 | with_slice: Err@None: input is not valid UTF-8",
    "truncated-2of3 | reader/1: Err@None: IO error: unexpected EOF in middle of UTF-8 codepoint",
    "truncated-2of3 | reader/2: Err@None: IO error: unexpected EOF in middle of UTF-8 codepoint",
    "truncated-2of3 | reader/3: Err@None: IO error: unexpected EOF in middle of UTF-8 codepoint",
    "truncated-2of3 | reader/5: Err@None: IO error: unexpected EOF in middle of UTF-8 codepoint",
    "truncated-2of3 | reader/4096: Err@None: IO error: unexpected EOF in middle of UTF-8 codepoint",
    "truncated-2of3 | reader/1-2-3: Err@None: IO error: unexpected EOF in middle of UTF-8 codepoint",
    "truncated-2of3 | with_reader/2: Err@None: IO error: unexpected EOF in middle of UTF-8 codepoint",
    "truncated-1of4 | str: n/a",
    "truncated-1of4 | slice: Err@None: input is not valid UTF-8",
    "truncated-1of4 | with_slice: Err@None: input is not valid UTF-8",
    "truncated-1of4 | reader/1: Err@None: IO error: unexpected EOF in middle of UTF-8 codepoint",
    "truncated-1of4 | reader/2: Err@None: IO error: unexpected EOF in middle of UTF-8 codepoint",
    "truncated-1of4 | reader/3: Err@None: IO error: unexpected EOF in middle of UTF-8 codepoint",
    "truncated-1of4 | reader/5: Err@None: IO error: unexpected EOF in middle of UTF-8 codepoint",
    "truncated-1of4 | reader/4096: Err@None: IO error: unexpected EOF in middle of UTF-8 codepoint",
    "truncated-1of4 | reader/1-2-3: Err@None: IO error: unexpected EOF in middle of UTF-8 codepoint",
    "truncated-1of4 | with_reader/2: Err@None: IO error: unexpected EOF in middle of UTF-8 codepoint",
    "truncated-3of4 | str: n/a",
    "truncated-3of4 | slice: Err@None: input is not valid UTF-8",
    "truncated-3of4 | with_slice: Err@None: input is not valid UTF-8",
    "truncated-3of4 | reader/1: Err@None: IO error: unexpected EOF in middle of UTF-8 codepoint",
    "truncated-3of4 | reader/2: Err@None: IO error: unexpected EOF in middle of UTF-8 codepoint",
    "truncated-3of4 | reader/3: Err@None: IO error: unexpected EOF in middle of UTF-8 codepoint",
    "truncated-3of4 | reader/5: Err@None: IO error: unexpected EOF in middle of UTF-8 codepoint",
    "truncated-3of4 | reader/4096: Err@None: IO error: unexpected EOF in middle of UTF-8 codepoint",
    "truncated-3of4 | reader/1-2-3: Err@None: IO error: unexpected EOF in middle of UTF-8 codepoint",
    "truncated-3of4 | with_reader/2: Err@None: IO error: unexpected EOF in middle of UTF-8 codepoint",
    "utf16le | str: n/a",
    "utf16le | slice: Err@None: input is not valid UTF-8",
    "utf16le | with_slice: Err@None: input is not valid UTF-8",
    "utf16le | reader/1: Ok(Doc { name: \"é😀\", n: 5, tags: [] })",
    "utf16le | reader/2: Ok(Doc { name: \"é😀\", n: 5, tags: [] })",
    "utf16le | reader/3: Ok(Doc { name: \"é😀\", n: 5, tags: [] })",
    "utf16le | reader/5: Ok(Doc { name: \"é😀\", n: 5, tags: [] })",
    "utf16le | reader/4096: Ok(Doc { name: \"é😀\", n: 5, tags: [] })",
    "utf16le | reader/1-2-3: Ok(Doc { name: \"é😀\", n: 5, tags: [] })",
    "utf16le | with_reader/2: Ok(Doc { name: \"é😀\", n: 5, tags: [] })",
    "utf16be | str: n/a",
    "utf16be | slice: Err@None: input is not valid UTF-8",
    "utf16be | with_slice: Err@None: input is not valid UTF-8",
    "utf16be | reader/1: Err@Some((1, 8)): invalid i32 at line 1, column 8",
    "utf16be | reader/2: Err@Some((1, 8)): invalid i32 at line 1, column 8",
    "utf16be | reader/3: Err@Some((1, 8)): invalid i32 at line 1, column 8",
    "utf16be | reader/5: Err@Some((1, 8)): invalid i32 at line 1, column 8",
    "utf16be | reader/4096: Err@Some((1, 8)): invalid i32 at line 1, column 8",
    "utf16be | reader/1-2-3: Err@Some((1, 8)): invalid i32 at line 1, column 8",
    "utf16be | with_reader/2: Err@Some((1, 8)): invalid i32 at line 1, column 8",
    "limit-0 | reader/1: Err@Some((1, 1)): unexpected end of input at line 1, column 1",
    "limit-0 | reader/3: Err@Some((1, 1)): unexpected end of input at line 1, column 1",
    "limit-0 | reader/64: Err@Some((1, 1)): unexpected end of input at line 1, column 1",
    "limit-0 | with_reader/2: Err@Some((1, 1)): unexpected end of input at line 1, column 1",
    "limit-0 | str: Ok({\"k\": \"😀😀\"})",
    "limit-1 | reader/1: Err@None: IO error: input size limit of 1 bytes exceeded",
    "limit-1 | reader/3: Err@None: IO error: input size limit of 1 bytes exceeded",
    "limit-1 | reader/64: Err@None: IO error: input size limit of 1 bytes exceeded",
    "limit-1 | with_reader/2: Err@None: IO error: input size limit of 1 bytes exceeded",
    "limit-1 | str: Ok({\"k\": \"😀😀\"})",
    "limit-3 | reader/1: Err@None: IO error: input size limit of 3 bytes exceeded",
    "limit-3 | reader/3: Err@None: IO error: input size limit of 3 bytes exceeded",
    "limit-3 | reader/64: Err@None: IO error: input size limit of 3 bytes exceeded",
    "limit-3 | with_reader/2: Err@None: IO error: input size limit of 3 bytes exceeded",
    "limit-3 | str: Ok({\"k\": \"😀😀\"})",
    "limit-6 | reader/1: Err@None: IO error: input size limit of 6 bytes exceeded",
    "limit-6 | reader/3: Err@None: IO error: input size limit of 6 bytes exceeded",
    "limit-6 | reader/64: Err@None: IO error: input size limit of 6 bytes exceeded",
    "limit-6 | with_reader/2: Err@None: IO error: input size limit of 6 bytes exceeded",
    "limit-6 | str: Ok({\"k\": \"😀😀\"})",
    "limit-7 | reader/1: Err@None: IO error: input size limit of 7 bytes exceeded",
    "limit-7 | reader/3: Err@None: IO error: input size limit of 7 bytes exceeded",
    "limit-7 | reader/64: Err@None: IO error: input size limit of 7 bytes exceeded",
    "limit-7 | with_reader/2: Err@None: IO error: input size limit of 7 bytes exceeded",
    "limit-7 | str: Ok({\"k\": \"😀😀\"})",
    "limit-10 | reader/1: Err@None: IO error: input size limit of 10 bytes exceeded",
    "limit-10 | reader/3: Err@None: IO error: input size limit of 10 bytes exceeded",
    "limit-10 | reader/64: Err@None: IO error: input size limit of 10 bytes exceeded",
    "limit-10 | with_reader/2: Err@None: IO error: input size limit of 10 bytes exceeded",
    "limit-10 | str: Ok({\"k\": \"😀😀\"})",
    "limit-11 | reader/1: Err@None: IO error: input size limit of 11 bytes exceeded",
    "limit-11 | reader/3: Err@None: IO error: input size limit of 11 bytes exceeded",
    "limit-11 | reader/64: Err@None: IO error: input size limit of 11 bytes exceeded",
    "limit-11 | with_reader/2: Err@None: IO error: input size limit of 11 bytes exceeded",
    "limit-11 | str: Ok({\"k\": \"😀😀\"})",
    "limit-12 | reader/1: Ok({\"k\": \"😀😀\"})",
    "limit-12 | reader/3: Ok({\"k\": \"😀😀\"})",
    "limit-12 | reader/64: Ok({\"k\": \"😀😀\"})",
    "limit-12 | with_reader/2: Ok({\"k\": \"😀😀\"})",
    "limit-12 | str: Ok({\"k\": \"😀😀\"})",
    "limit-13 | reader/1: Ok({\"k\": \"😀😀\"})",
    "limit-13 | reader/3: Ok({\"k\": \"😀😀\"})",
    "limit-13 | reader/64: Ok({\"k\": \"😀😀\"})",
    "limit-13 | with_reader/2: Ok({\"k\": \"😀😀\"})",
    "limit-13 | str: Ok({\"k\": \"😀😀\"})",
    "limit-bom | limit=5: Err@None: IO error: input size limit of 5 bytes exceeded",
    "limit-bom | limit=6: Ok({\"ab\": \"c\"})",
    "limit-bom | limit=8: Ok({\"ab\": \"c\"})",
    "limit-bom | limit=9: Ok({\"ab\": \"c\"})",
    "no-budget | str: Ok(Doc { name: \"é\", n: 2, tags: [] })",
    "no-budget | slice: Ok(Doc { name: \"é\", n: 2, tags: [] })",
    "no-budget | with_slice: Ok(Doc { name: \"é\", n: 2, tags: [] })",
    "no-budget | reader/1: Ok(Doc { name: \"é\", n: 2, tags: [] })",
    "no-budget | reader/2: Ok(Doc { name: \"é\", n: 2, tags: [] })",
    "no-budget | reader/3: Ok(Doc { name: \"é\", n: 2, tags: [] })",
    "no-budget | reader/5: Ok(Doc { name: \"é\", n: 2, tags: [] })",
    "no-budget | reader/4096: Ok(Doc { name: \"é\", n: 2, tags: [] })",
    "no-budget | reader/1-2-3: Ok(Doc { name: \"é\", n: 2, tags: [] })",
    "no-budget | with_reader/2: Ok(Doc { name: \"é\", n: 2, tags: [] })",
    "fail-first | from_reader/snip: Err@Some((1, 1)): error: line 1 column 1: unexpected end of input\n --> <input>:1:1\n  |\n1 | a: €€\n  | ^ unexpected end of input\n2 | b: c\n  |",
    "fail-first | from_reader/plain: Err@Some((1, 1)): unexpected end of input at line 1, column 1",
    "fail-first | with_reader: Err@Some((1, 1)): unexpected end of input at line 1, column 1",
    "fail-first | read: [\"Err@None: IO error: scripted failure\"]",
    "fail-between | from_reader/snip: Err@None: IO error: scripted failure",
    "fail-between | from_reader/plain: Err@None: IO error: scripted failure",
    "fail-between | with_reader: Err@None: IO error: scripted failure",
    "fail-between | read: [\"Err@None: IO error: scripted failure\"]",
    "fail-inside-char | from_reader/snip: Err@None: IO error: invalid UTF-8 leading byte",
    "fail-inside-char | from_reader/plain: Err@None: IO error: invalid UTF-8 leading byte",
    "fail-inside-char | with_reader: Err@None: IO error: invalid UTF-8 leading byte",
    "fail-inside-char | read: [\"Err@None: IO error: invalid UTF-8 leading byte\"]",
    "fail-inside-char-2 | from_reader/snip: Err@None: IO error: invalid UTF-8 leading byte",
    "fail-inside-char-2 | from_reader/plain: Err@None: IO error: invalid UTF-8 leading byte",
    "fail-inside-char-2 | with_reader: Err@None: IO error: invalid UTF-8 leading byte",
    "fail-inside-char-2 | read: [\"Err@None: IO error: invalid UTF-8 leading byte\"]",
    "interrupted-first | from_reader/snip: Ok({\"a\": \"€€\", \"b\": \"c\"})",
    "interrupted-first | from_reader/plain: Ok({\"a\": \"€€\", \"b\": \"c\"})",
    "interrupted-first | with_reader: Ok({\"a\": \"€€\", \"b\": \"c\"})",
    "interrupted-first | read: [\"Ok({\\\"a\\\": \\\"€€\\\", \\\"b\\\": \\\"c\\\"})\"]",
    "interrupted-between | from_reader/snip: Err@None: IO error: invalid UTF-8 leading byte",
    "interrupted-between | from_reader/plain: Err@None: IO error: invalid UTF-8 leading byte",
    "interrupted-between | with_reader: Err@None: IO error: invalid UTF-8 leading byte",
    "interrupted-between | read: [\"Err@None: IO error: invalid UTF-8 leading byte\"]",
    "interrupted-inside-char | from_reader/snip: Err@None: IO error: invalid UTF-8 leading byte",
    "interrupted-inside-char | from_reader/plain: Err@None: IO error: invalid UTF-8 leading byte",
    "interrupted-inside-char | with_reader: Err@None: IO error: invalid UTF-8 leading byte",
    "interrupted-inside-char | read: [\"Err@None: IO error: invalid UTF-8 leading byte\"]",
    "eof-kind-first | from_reader/snip: Ok({})",
    "eof-kind-first | from_reader/plain: Ok({})",
    "eof-kind-first | with_reader: Ok({})",
    "eof-kind-first | read: []",
    "eof-kind-later | from_reader/snip: Err@Some((1, 2)): error: line 1 column 2: cannot deserialize null into string; use Option<String>\n --> <input>:1:2\n  |\n1 | a: €€\n  |  ^ cannot deserialize null into string; use Option<String>\n2 | b: c\n  |",
    "eof-kind-later | from_reader/plain: Err@Some((1, 2)): cannot deserialize null into string; use Option<String> at line 1, column 2",
    "eof-kind-later | with_reader: Err@Some((1, 2)): cannot deserialize null into string; use Option<String> at line 1, column 2",
    "eof-kind-later | read: [\"Err@Some((1, 2)): cannot deserialize null into string; use Option<String> at line 1, column 2\"]",
    "would-block-late | from_reader/snip: Err@None: IO error: scripted failure",
    "would-block-late | from_reader/plain: Err@None: IO error: scripted failure",
    "would-block-late | with_reader: Err@None: IO error: scripted failure",
    "would-block-late | read: [\"Err@None: IO error: scripted failure\"]",
    "borrow | plain: str=Ok(Lent { name: \"hello\", n: 1 }) | slice=Ok(Lent { name: \"hello\", n: 1 }) | with_str=Ok(Lent { name: \"hello\", n: 1 }) | owned=Ok(Doc { name: \"hello\", n: 1, tags: [] })",
    "borrow | plain-multibyte: str=Ok(Lent { name: \"héllo 😀\", n: 1 }) | slice=Ok(Lent { name: \"héllo 😀\", n: 1 }) | with_str=Ok(Lent { name: \"héllo 😀\", n: 1 }) | owned=Ok(Doc { name: \"héllo 😀\", n: 1, tags: [] })",
    "borrow | bom: str=Ok(Lent { name: \"hello\", n: 1 }) | slice=Ok(Lent { name: \"hello\", n: 1 }) | with_str=Ok(Lent { name: \"hello\", n: 1 }) | owned=Ok(Doc { name: \"hello\", n: 1, tags: [] })",
    "borrow | single-quoted: str=Ok(Lent { name: \"it is\", n: 1 }) | slice=Ok(Lent { name: \"it is\", n: 1 }) | with_str=Ok(Lent { name: \"it is\", n: 1 }) | owned=Ok(Doc { name: \"it is\", n: 1, tags: [] })",
    "borrow | single-quoted-escape: str=Err@Some((1, 7)): error: line 1 column 7: input does not contain value verbatim so cannot deserialize into &str (parser returned an owned string); use String or Cow<str> instead\n --> <input>:1:7\n  |\n1 | name: 'it''s'\n  |       ^ input does not contain value verbatim so cannot deserialize into &str (parser returned an owned string); use String or Cow<str> instead\n2 | n: 1\n  | | slice=Err@Some((1, 7)): input does not contain value verbatim so cannot deserialize into &str (parser returned an owned string); use String or Cow<str> instead at line 1, column 7 | with_str=Err@Some((1, 7)): input does not contain value verbatim so cannot deserialize into &str (parser returned an owned string); use String or Cow<str> instead at line 1, column 7 | owned=Ok(Doc { name: \"it's\", n: 1, tags: [] })",
    "borrow | double-quoted: str=Ok(Lent { name: \"abc\", n: 1 }) | slice=Ok(Lent { name: \"abc\", n: 1 }) | with_str=Ok(Lent { name: \"abc\", n: 1 }) | owned=Ok(Doc { name: \"abc\", n: 1, tags: [] })",
    "borrow | double-quoted-escape: str=Err@Some((1, 7)): error: line 1 column 7: input does not contain value verbatim so cannot deserialize into &str (parser returned an owned string); use String or Cow<str> instead\n --> <input>:1:7\n  |\n1 | name: \"a\\tb\"\n  |       ^ input does not contain value verbatim so cannot deserialize into &str (parser returned an owned string); use String or Cow<str> instead\n2 | n: 1\n  | | slice=Err@Some((1, 7)): input does not contain value verbatim so cannot deserialize into &str (parser returned an owned string); use String or Cow<str> instead at line 1, column 7 | with_str=Err@Some((1, 7)): input does not contain value verbatim so cannot deserialize into &str (parser returned an owned string); use String or Cow<str> instead at line 1, column 7 | owned=Ok(Doc { name: \"a\\tb\", n: 1, tags: [] })",
    "borrow | multi-line-plain: str=Err@Some((1, 7)): error: line 1 column 7: input does not contain value verbatim so cannot deserialize into &str (parser returned an owned string); use String or Cow<str> instead\n --> <input>:1:7\n  |\n1 | name: a\n  |       ^ input does not contain value verbatim so cannot deserialize into &str (parser returned an owned string); use String or Cow<str> instead\n2 |   b\n3 | n: 1\n  | | slice=Err@Some((1, 7)): input does not contain value verbatim so cannot deserialize into &str (parser returned an owned string); use String or Cow<str> instead at line 1, column 7 | with_str=Err@Some((1, 7)): input does not contain value verbatim so cannot deserialize into &str (parser returned an owned string); use String or Cow<str> instead at line 1, column 7 | owned=Ok(Doc { name: \"a b\", n: 1, tags: [] })",
    "borrow | literal: str=Err@Some((2, 3)): error: line 2 column 3: input does not contain value verbatim so cannot deserialize into &str (parser returned an owned string); use String or Cow<str> instead\n --> <input>:2:3\n  |\n1 | name: |\n2 |   text\n  |   ^ input does not contain value verbatim so cannot deserialize into &str (parser returned an owned string); use String or Cow<str> instead\n3 | n: 1\n  | | slice=Err@Some((2, 3)): input does not contain value verbatim so cannot deserialize into &str (parser returned an owned string); use String or Cow<str> instead at line 2, column 3 | with_str=Err@Some((2, 3)): input does not contain value verbatim so cannot deserialize into &str (parser returned an owned string); use String or Cow<str> instead at line 2, column 3 | owned=Ok(Doc { name: \"text\\n\", n: 1, tags: [] })",
    "borrow | folded: str=Err@Some((2, 3)): error: line 2 column 3: input does not contain value verbatim so cannot deserialize into &str (parser returned an owned string); use String or Cow<str> instead\n --> <input>:2:3\n  |\n1 | name: >\n2 |   te\n  |   ^ input does not contain value verbatim so cannot deserialize into &str (parser returned an owned string); use String or Cow<str> instead\n3 |   xt\n4 | n: 1\n  | | slice=Err@Some((2, 3)): input does not contain value verbatim so cannot deserialize into &str (parser returned an owned string); use String or Cow<str> instead at line 2, column 3 | with_str=Err@Some((2, 3)): input does not contain value verbatim so cannot deserialize into &str (parser returned an owned string); use String or Cow<str> instead at line 2, column 3 | owned=Ok(Doc { name: \"te xt\\n\", n: 1, tags: [] })",
    "borrow | null: str=Err@Some((1, 7)): error: line 1 column 7: cannot deserialize null into string; use Option<String>\n --> <input>:1:7\n  |\n1 | name: ~\n  |       ^ cannot deserialize null into string; use Option<String>\n2 | n: 1\n  | | slice=Err@Some((1, 7)): cannot deserialize null into string; use Option<String> at line 1, column 7 | with_str=Err@Some((1, 7)): cannot deserialize null into string; use Option<String> at line 1, column 7 | owned=Err@Some((1, 7)): error: line 1 column 7: cannot deserialize null into string; use Option<String>\n --> <input>:1:7\n  |\n1 | name: ~\n  |       ^ cannot deserialize null into string; use Option<String>\n2 | n: 1\n  |",
    "borrow | tagged-str-null: str=Ok(Lent { name: \"null\", n: 1 }) | slice=Ok(Lent { name: \"null\", n: 1 }) | with_str=Ok(Lent { name: \"null\", n: 1 }) | owned=Ok(Doc { name: \"null\", n: 1, tags: [] })",
    "borrow | alias: str=Ok([Lent { name: \"hi\", n: 1 }, Lent { name: \"hi\", n: 2 }]) | slice=Ok([Lent { name: \"hi\", n: 1 }, Lent { name: \"hi\", n: 2 }])",
    "probe | \"hello\": str=Ok(Probe(\"borrowed:hello\")) | slice=Ok(Probe(\"borrowed:hello\")) | with_str=Ok(Probe(\"borrowed:hello\")) | reader=Ok(Probe(\"owned:hello\")) | with_reader=Ok(Probe(\"owned:hello\"))",
    "probe | \"\\u{feff}héllo\": str=Ok(Probe(\"borrowed:héllo\")) | slice=Ok(Probe(\"borrowed:héllo\")) | with_str=Ok(Probe(\"borrowed:héllo\")) | reader=Ok(Probe(\"owned:héllo\")) | with_reader=Ok(Probe(\"owned:héllo\"))",
    "probe | \"\\\"a\\\\nb\\\"\": str=Ok(Probe(\"owned:a\\nb\")) | slice=Ok(Probe(\"owned:a\\nb\")) | with_str=Ok(Probe(\"owned:a\\nb\")) | reader=Ok(Probe(\"owned:a\\nb\")) | with_reader=Ok(Probe(\"owned:a\\nb\"))",
    "probe | \"'q'\": str=Ok(Probe(\"borrowed:q\")) | slice=Ok(Probe(\"borrowed:q\")) | with_str=Ok(Probe(\"borrowed:q\")) | reader=Ok(Probe(\"owned:q\")) | with_reader=Ok(Probe(\"owned:q\"))",
    "probe | \"|\\n  lit\\n\": str=Ok(Probe(\"owned:lit\\n\")) | slice=Ok(Probe(\"owned:lit\\n\")) | with_str=Ok(Probe(\"owned:lit\\n\")) | reader=Ok(Probe(\"owned:lit\\n\")) | with_reader=Ok(Probe(\"owned:lit\\n\"))",
    "probe | \"[a]\": str=Err@Some((1, 1)): unexpected event: expected string scalar at line 1, column 1 | slice=Err@Some((1, 1)): error: line 1 column 1: unexpected event: expected string scalar\n --> <input>:1:1\n  |\n1 | [a]\n  | ^ unexpected event: expected string scalar | with_str=Err@Some((1, 1)): error: line 1 column 1: unexpected event: expected string scalar\n --> <input>:1:1\n  |\n1 | [a]\n  | ^ unexpected event: expected string scalar | reader=Err@Some((1, 1)): unexpected event: expected string scalar at line 1, column 1 | with_reader=Err@Some((1, 1)): unexpected event: expected string scalar at line 1, column 1",
    "probe | \"~\": str=Err@Some((1, 1)): cannot deserialize null into string; use Option<String> at line 1, column 1 | slice=Err@Some((1, 1)): error: line 1 column 1: cannot deserialize null into string; use Option<String>\n --> <input>:1:1\n  |\n1 | ~\n  | ^ cannot deserialize null into string; use Option<String> | with_str=Err@Some((1, 1)): error: line 1 column 1: cannot deserialize null into string; use Option<String>\n --> <input>:1:1\n  |\n1 | ~\n  | ^ cannot deserialize null into string; use Option<String> | reader=Err@Some((1, 1)): cannot deserialize null into string; use Option<String> at line 1, column 1 | with_reader=Err@Some((1, 1)): cannot deserialize null into string; use Option<String> at line 1, column 1",
    "ring-late-error | str: Err@Some((401, 8)): error: line 401 column 8: invalid u32\n   --> <input>:401:8\n    |\n399 | - {id: 398, label: \"п😀 398\"}\n400 | - {id: 399, label: \"п😀 399\"}\n401 | - {id: oops€, label: x}\n    |        ^ invalid u32\n402 | - {id: 0, label: tail}\n403 | - {id: 1, label: tail}\n    |",
    "ring-late-error | reader/1: Err@Some((401, 8)): error: line 401 column 8: invalid u32\n   --> <input>:401:8\n    |\n399 | - {id: 398, label: \"п😀 398\"}\n400 | - {id: 399, label: \"п😀 399\"}\n401 | - {id: oops€, label: x}\n    |        ^ invalid u32\n402 | - {id: 0, label: tail}\n403 | - {id: 1, label: tail}\n    |",
    "ring-late-error | reader/7: Err@Some((401, 8)): error: line 401 column 8: invalid u32\n   --> <input>:401:8\n    |\n399 | - {id: 398, label: \"п😀 398\"}\n400 | - {id: 399, label: \"п😀 399\"}\n401 | - {id: oops€, label: x}\n    |        ^ invalid u32\n402 | - {id: 0, label: tail}\n403 | - {id: 1, label: tail}\n    |",
    "ring-late-error | reader/1000: Err@Some((401, 8)): error: line 401 column 8: invalid u32\n   --> <input>:401:8\n    |\n399 | - {id: 398, label: \"п😀 398\"}\n400 | - {id: 399, label: \"п😀 399\"}\n401 | - {id: oops€, label: x}\n    |        ^ invalid u32\n402 | - {id: 0, label: tail}\n403 | - {id: 1, label: tail}\n    |",
    "ring-late-error | reader/100000: Err@Some((401, 8)): error: line 401 column 8: invalid u32\n   --> <input>:401:8\n    |\n399 | - {id: 398, label: \"п😀 398\"}\n400 | - {id: 399, label: \"п😀 399\"}\n401 | - {id: oops€, label: x}\n    |        ^ invalid u32\n402 | - {id: 0, label: tail}\n403 | - {id: 1, label: tail}\n    |",
    "ring-late-error | reader/pattern: Err@Some((401, 8)): error: line 401 column 8: invalid u32\n   --> <input>:401:8\n    |\n399 | - {id: 398, label: \"п😀 398\"}\n400 | - {id: 399, label: \"п😀 399\"}\n401 | - {id: oops€, label: x}\n    |        ^ invalid u32\n402 | - {id: 0, label: tail}\n403 | - {id: 1, label: tail}\n    |",
    "ring-long-good | rows=501 same=[\"1:true\", \"2:true\", \"3:true\", \"4:true\", \"5:true\", \"6:true\", \"7:true\", \"8:true\", \"9:true\", \"511:true\", \"512:true\", \"513:true\", \"8191:true\", \"8192:true\", \"8193:true\"]",
    "stream | read/1: [\"Ok({\\\"a\\\": \\\"1\\\"})\", \"Ok({\\\"b\\\": \\\"😀\\\"})\", \"Err@Some((6, 4)): unexpected event: expected string scalar at line 6, column 4\"]",
    "stream | read/2: [\"Ok({\\\"a\\\": \\\"1\\\"})\", \"Ok({\\\"b\\\": \\\"😀\\\"})\", \"Err@Some((6, 4)): unexpected event: expected string scalar at line 6, column 4\"]",
    "stream | read/5: [\"Ok({\\\"a\\\": \\\"1\\\"})\", \"Ok({\\\"b\\\": \\\"😀\\\"})\", \"Err@Some((6, 4)): unexpected event: expected string scalar at line 6, column 4\"]",
    "stream | read/100: [\"Ok({\\\"a\\\": \\\"1\\\"})\", \"Ok({\\\"b\\\": \\\"😀\\\"})\", \"Err@Some((6, 4)): unexpected event: expected string scalar at line 6, column 4\"]",
    "stream | from_multiple: Err@Some((6, 4)): error: line 6 column 4: unexpected event: expected string scalar\n --> <input>:6:4\n  |\n4 | ---\n5 | ---\n6 | c: [\n  |    ^ unexpected event: expected string scalar\n7 | ---\n8 | d: 4\n  |",
    "budget-report | Ok({\"a\": [1, 2], \"b\": [1, 2]})",
    "budget-report | Ok({\"a\": [1, 2], \"b\": [1, 2]})",
    "budget-report | Ok({\"a\": [1, 2], \"b\": [1, 2]})",
    "budget-report | Ok({\"a\": [1, 2], \"b\": [1, 2]})",
    "budget-report | Ok({\"a\": [1, 2], \"b\": [1, 2]})",
    "budget-report | str: events=17 aliases=1 anchors=1 docs=1 nodes=9 depth=2 bytes=6 breached=None",
    "budget-report | slice: events=17 aliases=1 anchors=1 docs=1 nodes=9 depth=2 bytes=6 breached=None",
    "budget-report | reader: events=17 aliases=1 anchors=1 docs=1 nodes=9 depth=2 bytes=6 breached=None",
    "budget-report | with_str: events=17 aliases=1 anchors=1 docs=1 nodes=9 depth=2 bytes=6 breached=None",
    "budget-report | with_reader: events=17 aliases=1 anchors=1 docs=1 nodes=9 depth=2 bytes=6 breached=None",
    "budget-breach | Err@Some((1, 8)): error: line 1 column 8: budget breached: Nodes { nodes: 4 }\n --> <input>:1:8\n  |\n1 | a: &x [1, 2]\n  |        ^ budget breached: Nodes { nodes: 4 }\n2 | b: *x\n  |",
    "budget-breach | Err@Some((1, 8)): error: line 1 column 8: budget breached: Nodes { nodes: 4 }\n --> <input>:1:8\n  |\n1 | a: &x [1, 2]\n  |        ^ budget breached: Nodes { nodes: 4 }\n2 | b: *x\n  |",
    "budget-breach | Err@Some((1, 8)): budget breached: Nodes { nodes: 4 } at line 1, column 8",
//EXPECTED-END
];
