//! Differential test for the C17 control refactoring (snippet rendering, cropping,
//! terminal safety, reader snippets, miette spans).
//!
//! Every case produces one string (rendered report + location + stored snippet regions);
//! the strings are compared with the literals in `EXPECTED` below, which were recorded on
//! the UNMODIFIED tree. The file must pass unchanged before and after
//! the refactoring, with default features and with
//! `--features garde,validator,miette,robotics,figment`.
//!
//! To regenerate the literals run with `DEMO_PRINT=/path/to/out` in the environment (all
//! features on); the test then writes the `EXPECTED` entries to that file instead of comparing.

use std::collections::BTreeMap;
use std::io::{Cursor, Read};

use serde::Deserialize;
use serde_saphyr::{
    DefaultMessageFormatter, Error, Location, Options, SnippetMode, UserMessageFormatter, from_multiple, from_reader, from_reader_with_options,
    from_slice_with_options, from_str, from_str_with_options,
};

// ---------------------------------------------------------------------------------------
// Target types
// ---------------------------------------------------------------------------------------

#[derive(Debug, Deserialize)]
#[allow(dead_code)]
struct Pair {
    a: i32,
    b: i32,
}

#[derive(Debug, Deserialize)]
#[serde(deny_unknown_fields)]
#[allow(dead_code)]
struct Strict {
    a: i32,
}

#[derive(Debug, Deserialize)]
#[allow(dead_code)]
enum Color {
    Red,
    Green,
}

#[derive(Debug, Deserialize)]
#[allow(dead_code)]
struct Painted {
    color: Color,
}

#[derive(Debug, Deserialize)]
#[allow(dead_code)]
struct AliasCfg {
    count: u64,
    flag: bool,
}

#[derive(Debug, Deserialize)]
#[allow(dead_code)]
struct FarAlias {
    count: u64,
    filler: Vec<String>,
    flag: bool,
}

fn nasty<'de, D: serde::Deserializer<'de>>(d: D) -> Result<i32, D::Error> {
    let s = String::deserialize(d)?;
    Err(serde::de::Error::custom(format!(
        "bad \u{1b}[31mvalue\u{1b}[0m \u{9b}2J {s} \u{7f}\u{0}\u{85} end"
    )))
}

#[derive(Debug, Deserialize)]
#[allow(dead_code)]
struct Custom {
    ok: i32,
    #[serde(deserialize_with = "nasty")]
    v: i32,
}

// ---------------------------------------------------------------------------------------
// Describing results
// ---------------------------------------------------------------------------------------

fn fnv1a(bytes: &[u8]) -> u64 {
    let mut h = 0xcbf2_9ce4_8422_2325u64;
    for b in bytes {
        h ^= u64::from(*b);
        h = h.wrapping_mul(0x0000_0100_0000_01b3);
    }
    h
}

fn regions_summary(err: &Error) -> String {
    match err {
        Error::WithSnippet {
            regions,
            crop_radius,
            ..
        } => {
            let mut out = format!("radius={crop_radius} n={}", regions.len());
            for r in regions {
                let text = if r.text.len() <= 700 {
                    format!("{:?}", r.text)
                } else {
                    let head: String = r.text.chars().take(40).collect();
                    let tail: String = {
                        let v: Vec<char> = r.text.chars().collect();
                        v[v.len() - 40..].iter().collect()
                    };
                    format!("{head:?}..{tail:?}")
                };
                out.push_str(&format!(
                    "\n  [{}..={} len={} fnv={:016x} {}]",
                    r.start_line,
                    r.end_line,
                    r.text.len(),
                    fnv1a(r.text.as_bytes()),
                    text
                ));
            }
            out
        }
        _ => "none".to_owned(),
    }
}

/// The property itself: no C0 (other than \n, \t), DEL or C1 in a rendered report.
fn assert_terminal_safe(name: &str, rendered: &str) {
    for ch in rendered.chars() {
        let c = ch as u32;
        let bad = (c < 0x20 && ch != '\n' && ch != '\t') || c == 0x7f || (0x80..=0x9f).contains(&c);
        assert!(!bad, "case {name}: control character U+{c:04X} in {rendered:?}");
    }
}

fn describe(name: &str, err: &Error) -> String {
    let rendered = err.to_string();
    assert_terminal_safe(name, &rendered);
    assert_eq!(rendered, err.render(), "case {name}: Display != render()");
    let loc = err
        .location()
        .map(|l| format!("{}:{}", l.line(), l.column()))
        .unwrap_or_else(|| "-".to_owned());
    format!(
        "{rendered}\n@@ location {loc}\n@@ regions {}",
        regions_summary(err)
    )
}

fn describe_res<T: std::fmt::Debug>(name: &str, res: Result<T, Error>) -> String {
    match res {
        Ok(v) => format!("OK {v:?}"),
        Err(e) => describe(name, &e),
    }
}

/// Localizer with a different location suffix (everything else is the default wording).
struct ShortLocalizer;

impl serde_saphyr::localizer::Localizer for ShortLocalizer {
    fn attach_location<'a>(
        &self,
        base: std::borrow::Cow<'a, str>,
        loc: Location,
    ) -> std::borrow::Cow<'a, str> {
        if loc == Location::UNKNOWN {
            base
        } else {
            std::borrow::Cow::Owned(format!("{base} @L{}C{}", loc.line(), loc.column()))
        }
    }
}

fn all_formatters(name: &str, err: &Error) -> String {
    let mut out = String::new();
    let user = err.render_with_formatter(&UserMessageFormatter);
    let dflt = err.render_with_formatter(&DefaultMessageFormatter);
    let l10n = ShortLocalizer;
    let dev = err.render_with_formatter(&DefaultMessageFormatter.with_localizer(&l10n));
    let user_l10n = err.render_with_formatter(&UserMessageFormatter.with_localizer(&l10n));
    let off = err.render_with_options(serde_saphyr::render_options! {
        formatter: &UserMessageFormatter,
        snippets: SnippetMode::Off,
    });
    let plain = err.without_snippet().to_string();
    for (label, text) in [
        ("user", &user),
        ("default", &dflt),
        ("default+localizer", &dev),
        ("user+localizer", &user_l10n),
        ("off", &off),
        ("without_snippet", &plain),
    ] {
        assert_terminal_safe(name, text);
        out.push_str(&format!("--- {label}\n{text}\n"));
    }
    out
}

/// Reader that hands out at most `chunk` bytes per call.
struct Chunked {
    data: Cursor<Vec<u8>>,
    chunk: usize,
}

impl Read for Chunked {
    fn read(&mut self, buf: &mut [u8]) -> std::io::Result<usize> {
        let n = buf.len().min(self.chunk);
        self.data.read(&mut buf[..n])
    }
}

fn chunked(data: impl Into<Vec<u8>>, chunk: usize) -> Chunked {
    Chunked {
        data: Cursor::new(data.into()),
        chunk,
    }
}

fn radius(r: usize) -> Options {
    serde_saphyr::options! { crop_radius: r }
}

// ---------------------------------------------------------------------------------------
// Cases
// ---------------------------------------------------------------------------------------

fn cases() -> Vec<(String, String)> {
    let mut out: Vec<(String, String)> = Vec::new();
    let mut add = |name: &str, text: String| out.push((name.to_owned(), text));

    // --- vertical window ------------------------------------------------------------
    add(
        "s01_unknown_anchor_single_line",
        describe_res("s01", from_str::<String>("*missing\n")),
    );
    add(
        "s02_error_on_line_2_of_3",
        describe_res("s02", from_str::<Pair>("a: 1\nb: x\nc: 3\n")),
    );
    let nine = "l1: 1\nl2: 2\nl3: 3\nl4: 4\nl5: oops\nl6: 6\nl7: 7\nl8: 8\nl9: 9\n";
    add(
        "s03_error_on_line_5_of_9",
        describe_res("s03", from_str::<BTreeMap<String, i32>>(nine)),
    );
    add(
        "s04_error_on_last_line_no_trailing_newline",
        describe_res("s04", from_str::<Pair>("a: 1\nb: zz")),
    );
    add(
        "s05_unterminated_flow_eof",
        describe_res("s05", from_str::<Vec<i32>>("[1, 2,\n 3,\n")),
    );
    add(
        "s06_eof_into_bool_empty",
        describe_res("s06", from_str::<bool>("")),
    );
    add(
        "s07_eof_into_bool_blank_lines",
        describe_res("s07", from_str::<bool>("\n\n\n")),
    );
    add(
        "s08_comment_only",
        describe_res("s08", from_str::<Pair>("# nothing here\n# at all\n")),
    );
    // Line numbers 9 -> 11 change the gutter width.
    let mut twelve = String::new();
    for i in 1..=12 {
        if i == 9 {
            twelve.push_str("k9: bad\n");
        } else {
            twelve.push_str(&format!("k{i}: {i}\n"));
        }
    }
    add(
        "s09_gutter_width_grows",
        describe_res("s09", from_str::<BTreeMap<String, i32>>(&twelve)),
    );
    add(
        "s10_first_line_error_many_lines",
        describe_res(
            "s10",
            from_str::<BTreeMap<String, i32>>("a: nope\nb: 2\nc: 3\nd: 4\ne: 5\n"),
        ),
    );

    // --- line endings, BOM, tabs ----------------------------------------------------------
    add(
        "s11_crlf",
        describe_res("s11", from_str::<Pair>("a: 1\r\nb: x\r\nc: 3\r\n")),
    );
    add(
        "s12_crlf_error_at_eol",
        describe_res("s12", from_str::<Pair>("a: 1\r\nb: [1,\r\n")),
    );
    add(
        "s13_bom_line_1",
        describe_res("s13", from_str::<Pair>("\u{feff}a: x\nb: 2\n")),
    );
    add(
        "s14_bom_line_3",
        describe_res("s14", from_str::<Pair>("\u{feff}# c\na: 1\nb: x\n")),
    );
    add(
        "s15_tab_in_value",
        describe_res("s15", from_str::<Pair>("a: 1\nb: \"x\ty\"\n")),
    );
    add(
        "s16_tab_indentation_error",
        describe_res("s16", from_str::<Pair>("a: 1\n\tb: 2\n")),
    );
    add(
        "s17_lone_cr_inside_line",
        describe_res("s17", from_str::<Pair>("a: 1\nb: \"x\ry\"\n")),
    );

    // --- terminal safety --------------------------------------------------------------------
    add(
        "t01_raw_escape_in_source",
        describe_res(
            "t01",
            from_str::<Pair>("a: 1 # \u{1b}[31mred\u{1b}[0m\nb: x # \u{1b}]0;title\u{7}\n"),
        ),
    );
    add(
        "t02_c1_in_source",
        describe_res(
            "t02",
            from_str::<Pair>("a: 1 # \u{9b}31m \u{90} \u{9f}\nb: \u{9b}x\u{80}\n"),
        ),
    );
    add(
        "t03_del_and_nul_in_source",
        describe_res("t03", from_str::<Pair>("a: 1 # \u{7f}\u{0}\u{1}\nb: y\u{7f}\n")),
    );
    add(
        "t04_unknown_field_with_escapes",
        describe_res(
            "t04",
            from_str::<Strict>("a: 1\n\"b\\e[31m\\x7f\\u009b\\a\": 2\n"),
        ),
    );
    add(
        "t05_unknown_variant_with_escapes",
        describe_res(
            "t05",
            from_str::<Painted>("color: \"Bl\\e[2Jue\\x9d\\0\"\n"),
        ),
    );
    add(
        "t06_custom_message_with_controls",
        describe_res("t06", from_str::<Custom>("ok: 1\nv: \"pay\\x1bload\"\n")),
    );
    add(
        "t07_duplicate_key_with_escapes",
        describe_res(
            "t07",
            from_str::<BTreeMap<String, i32>>("\"k\\a\\e\": 1\n\"k\\a\\e\": 2\n"),
        ),
    );
    add(
        "t08_controls_with_cropping",
        describe_res(
            "t08",
            from_str_with_options::<Pair>(
                "a: 1 # \u{1b}[31m0123456789\u{9b}abcdefghij\u{7f}KLMNOPQRST\nb: x # \u{1b}[31m0123456789\u{9b}abcdefghij\u{7f}KLMNOPQRST\n",
                radius(12),
            ),
        ),
    );
    add(
        "t09_nel_and_line_separators",
        describe_res(
            "t09",
            from_str::<Pair>("a: 1 # \u{85} \u{2028} \u{2029}\nb: x\n"),
        ),
    );
    {
        let err = from_str::<Custom>("ok: 1\nv: \"pay\\x1bload\"\n").unwrap_err();
        add("t10_all_formatters_custom", all_formatters("t10", &err));
        let err = from_str::<Painted>("color: \"Bl\\e[2Jue\\x9d\\0\"\n").unwrap_err();
        add("t11_all_formatters_variant", all_formatters("t11", &err));
        let err = from_str::<AliasCfg>("count: &val 42\nflag: *val\n").unwrap_err();
        add("t12_all_formatters_alias", all_formatters("t12", &err));
    }

    // --- horizontal cropping --------------------------------------------------------------
    let long = "data:\n    before_0: \"@#$%^&*()_++_)(*&^%$#@!\"\n    before_1: \"ZYXWVUTSRQPONMLKJIHGFEDCBA9876543210\"\n    before_2: \"0123456789ABCDEFGHIJKLMNOPQRSTUVWXYZ\"\n    bad_bad_anchor_reference: *very_bad\n    after_1: \"0123456789abcdefghijklmnopqrstuvwxyz\"\n    after_2: \"!@#$%^&*()_++_)(*&^%$#@\"\n";
    for r in [0usize, 1, 2, 10, 25, 64, 1000, usize::MAX] {
        add(
            &format!("c01_long_lines_radius_{r}"),
            describe_res(
                "c01",
                from_str_with_options::<BTreeMap<String, BTreeMap<String, String>>>(long, radius(r)),
            ),
        );
    }
    let wide = "k1: \"ααααααααααββββββββββγγγγγγγγγγ\"\nk2: \"日本語日本語日本語日本語\" \nbad: {\"日本語のキー🙂🙂🙂🙂🙂🙂\": *nowhere, x: 1}\nk4: \"🙂🙂🙂🙂🙂🙂🙂🙂🙂🙂🙂🙂🙂🙂🙂🙂\"\nk5: é\n";
    for r in [3usize, 5, 8] {
        add(
            &format!("c02_multibyte_radius_{r}"),
            describe_res(
                "c02",
                from_str_with_options::<BTreeMap<String, serde_json::Value>>(wide, radius(r)),
            ),
        );
    }
    add(
        "c03_short_context_lines_kept",
        describe_res(
            "c03",
            from_str_with_options::<BTreeMap<String, String>>(
                "a: b\n\nsome_rather_long_key_name_here_for_cropping: *gone\nz: y\n",
                radius(4),
            ),
        ),
    );
    add(
        "c04_with_snippet_false",
        describe_res(
            "c04",
            from_str_with_options::<Pair>(
                "a: 1\nb: x\n",
                serde_saphyr::options! { with_snippet: false },
            ),
        ),
    );
    add(
        "c05_crlf_with_cropping",
        describe_res(
            "c05",
            from_str_with_options::<BTreeMap<String, String>>(
                "first_line_is_quite_long_indeed: 1\r\nsecond_line_is_quite_long_too: *gone\r\nthird: 3\r\n",
                radius(6),
            ),
        ),
    );

    // --- storage-time cropping (huge lines) -------------------------------------------------
    {
        let text = format!("key: {}\n", "A".repeat(10_000));
        add(
            "h01_huge_scalar_into_int",
            describe_res("h01", from_str_with_options::<BTreeMap<String, i32>>(&text, radius(20))),
        );
        let text = format!(
            "x: \"{}\"\nkey: {}\ny: \"{}\"\n",
            "X".repeat(9_000),
            "A".repeat(10_000),
            "Y".repeat(9_000)
        );
        add(
            "h02_huge_context_lines",
            describe_res("h02", from_str_with_options::<BTreeMap<String, i32>>(&text, radius(8))),
        );
        add(
            "h03_huge_default_radius",
            describe_res("h03", from_str::<BTreeMap<String, i32>>(&text)),
        );
        // Error in the middle of a huge flow sequence line.
        let mut seq = String::from("v: [");
        for i in 0..1500 {
            if i == 900 {
                seq.push_str("zzz, ");
            } else {
                seq.push_str(&format!("{i}, "));
            }
        }
        seq.push_str("0]\nw: [1]\n");
        add(
            "h04_error_mid_huge_line",
            describe_res("h04", from_str_with_options::<BTreeMap<String, Vec<i32>>>(&seq, radius(15))),
        );
        // Huge multi-byte line with CRLF and control characters.
        let text = format!(
            "pre: \"{}\"\r\nkey: \u{1b}{}\r\npost: 1\r\n",
            "é".repeat(3_000),
            "日\u{9b}".repeat(2_000)
        );
        add(
            "h05_huge_multibyte_crlf_controls",
            describe_res("h05", from_str_with_options::<BTreeMap<String, i32>>(&text, radius(10))),
        );
        // Window larger than 16 KiB although no single line exceeds 4 KiB.
        let mut text = String::new();
        for i in 0..5 {
            if i == 2 {
                text.push_str(&format!("k{i}: q{}\n", "7".repeat(3_900)));
            } else {
                text.push_str(&format!("k{i}: {}\n", "7".repeat(3_900)));
            }
        }
        add(
            "h06_window_over_16k",
            describe_res(
                "h06",
                from_str_with_options::<BTreeMap<String, serde_json::Number>>(&text, radius(30)),
            ),
        );
        // Just below the thresholds: stored uncropped.
        let text = format!("k: {}\nbad: x\n", "1".repeat(4_000));
        let res = from_str_with_options::<BTreeMap<String, serde_json::Number>>(&text, radius(5));
        add("h07_below_threshold", describe_res("h07", res));
    }

    // --- dual locations (alias / anchor) -----------------------------------------------------
    add(
        "a01_alias_near",
        describe_res("a01", from_str::<AliasCfg>("count: &val 42\nflag: *val\n")),
    );
    {
        let mut text = String::from("count: &val 42\nfiller:\n");
        for i in 0..120 {
            text.push_str(&format!("  - item number {i}\n"));
        }
        text.push_str("flag: *val\n");
        add("a02_alias_far", describe_res("a02", from_str::<FarAlias>(&text)));
        add(
            "a03_alias_far_radius_4",
            describe_res("a03", from_str_with_options::<FarAlias>(&text, radius(4))),
        );
        let text = text.replace('\n', "\r\n");
        add("a04_alias_far_crlf", describe_res("a04", from_str::<FarAlias>(&text)));
    }
    add(
        "a05_alias_with_controls_and_long_lines",
        describe_res(
            "a05",
            from_str_with_options::<AliasCfg>(
                "count: &val 42 # \u{1b}[1m definition comment that is fairly long \u{9b}\n\n\n\n\n\n\nflag: *val # \u{7f} usage comment that is fairly long as well ......\n",
                radius(9),
            ),
        ),
    );
    add(
        "a06_alias_same_line",
        describe_res("a06", from_str::<Vec<bool>>("[&v 42, *v]\n")),
    );

    // --- other entry points ------------------------------------------------------------------
    add(
        "e01_from_slice",
        describe_res(
            "e01",
            from_slice_with_options::<Pair>(b"a: 1\nb: \xe6\x97\xa5\n", radius(3)),
        ),
    );
    add(
        "e02_from_slice_invalid_utf8",
        describe_res(
            "e02",
            from_slice_with_options::<Pair>(b"a: 1\nb: \xff\xfe\n", Options::default()),
        ),
    );
    add(
        "e03_from_multiple_second_doc",
        describe_res("e03", from_multiple::<Pair>("a: 1\nb: 2\n---\na: 1\nb: k\n---\na: 3\nb: 4\n")),
    );
    {
        let mut rd = Cursor::new(b"a: 1\nb: 2\n---\na: x\nb: 2\n---\na: 5\nb: 6\n".to_vec());
        let items: Vec<String> = serde_saphyr::read::<_, Pair>(&mut rd)
            .map(|r| describe_res("e04", r))
            .collect();
        add("e04_read_iterator", items.join("\n=====\n"));
    }

    // --- reader snippets (ring of recent bytes) ------------------------------------------------
    add(
        "r01_reader_small",
        describe_res("r01", from_reader::<_, Pair>(Cursor::new(b"a: 1\nb: x\nc: 3\n".to_vec()))),
    );
    add(
        "r02_reader_empty_into_bool",
        describe_res("r02", from_reader::<_, bool>(Cursor::new(Vec::new()))),
    );
    add(
        "r03_reader_multiple_documents",
        describe_res("r03", from_reader::<_, Pair>(Cursor::new(b"a: 1\nb: 2\n---\na: 3\nb: 4\n".to_vec()))),
    );
    add(
        "r04_reader_radius_0",
        describe_res(
            "r04",
            from_reader_with_options::<_, Pair>(Cursor::new(b"a: 1\nb: x\n".to_vec()), radius(0)),
        ),
    );
    add(
        "r05_reader_bom_crlf",
        describe_res(
            "r05",
            from_reader::<_, Pair>(Cursor::new("\u{feff}a: 1\r\nb: x\r\n".as_bytes().to_vec())),
        ),
    );
    // Large inputs: the ring only keeps the most recent bytes, so the fragment starts at a
    // later line and (with multi-byte text) possibly in the middle of a character.
    for pad in 0..4usize {
        for chunk in [1usize, 7, 4096] {
            let mut text = String::new();
            text.push_str(&"#".repeat(pad));
            text.push('\n');
            for i in 0..400 {
                text.push_str(&format!("k{i}: \"日本語 \u{1b}[3{}m é {i}\"\n", i % 8));
            }
            text.push_str("bad: *nowhere\n");
            for i in 0..40 {
                text.push_str(&format!("t{i}: \"später {i} 🙂\"\n"));
            }
            add(
                &format!("r06_reader_large_pad{pad}_chunk{chunk}"),
                describe_res(
                    "r06",
                    from_reader_with_options::<_, BTreeMap<String, String>>(
                        chunked(text.clone(), chunk),
                        radius(16),
                    ),
                ),
            );
        }
    }
    {
        // The error is far behind the end of what the ring retains at the time of the error?
        // (type error at the very end of a long document, then nothing after it)
        let mut text = String::new();
        for i in 0..2000 {
            text.push_str(&format!("- {i}\n"));
        }
        text.push_str("- zzz");
        add(
            "r07_reader_error_at_very_end",
            describe_res("r07", from_reader::<_, Vec<i32>>(chunked(text, 13))),
        );
        // Input ends in the middle of a UTF-8 sequence.
        let mut bytes = b"a: 1\nb: x # ".to_vec();
        bytes.extend_from_slice("日本".as_bytes());
        bytes.extend_from_slice(&[0xe8, 0xaa]);
        add(
            "r08_reader_truncated_utf8_tail",
            describe_res("r08", from_reader::<_, Pair>(chunked(bytes, 5))),
        );
        // A long single line: the error column lies before the retained fragment.
        let text = format!("v: [{}zzz]\n", "1, ".repeat(3000));
        add(
            "r09_reader_long_single_line",
            describe_res("r09", from_reader::<_, BTreeMap<String, Vec<i32>>>(chunked(text, 100))),
        );
        // Alias error through a reader: definition long gone from the ring.
        let mut text = String::from("count: &val 42\nfiller:\n");
        for i in 0..600 {
            text.push_str(&format!("  - item number {i}\n"));
        }
        text.push_str("flag: *val\n");
        add(
            "r10_reader_alias_definition_evicted",
            describe_res("r10", from_reader::<_, FarAlias>(chunked(text, 64))),
        );
        let err = from_reader::<_, Custom>(Cursor::new(b"ok: 1\nv: \"pay\\x1bload\"\n".to_vec()))
            .unwrap_err();
        add("r11_reader_all_formatters", all_formatters("r11", &err));
        // The retained fragment starts in the middle of a multi-byte character (leading
        // continuation bytes are dropped) and the region includes that first line.
        for pad in 0..3usize {
            let text = format!(
                "{}k: \"{}\"\nbad: *nowhere\nz: 1\n",
                " ".repeat(pad),
                "日".repeat(2_000)
            );
            add(
                &format!("r12_reader_fragment_starts_mid_char_pad{pad}"),
                describe_res(
                    "r12",
                    from_reader::<_, BTreeMap<String, String>>(chunked(text, 11)),
                ),
            );
        }
        // The read-ahead ends in the middle of a multi-byte character (the incomplete tail
        // is dropped) and the region includes that last line.
        for pad in 0..4usize {
            let text = format!(
                "a: 1\nbad: *nowhere{}\nnext: \"{}\"\nz: 1\n",
                " ".repeat(pad),
                "🙂".repeat(1_500)
            );
            add(
                &format!("r13_reader_read_ahead_ends_mid_char_pad{pad}"),
                describe_res(
                    "r13",
                    from_reader_with_options::<_, BTreeMap<String, String>>(
                        chunked(text, 8),
                        radius(7),
                    ),
                ),
            );
        }
    }

    #[cfg(feature = "garde")]
    garde_cases(&mut out);
    #[cfg(feature = "validator")]
    validator_cases(&mut out);
    #[cfg(feature = "miette")]
    miette_cases(&mut out);

    out
}

#[cfg(feature = "garde")]
fn garde_cases(out: &mut Vec<(String, String)>) {
    use garde::Validate;

    #[derive(Debug, Deserialize, Validate)]
    #[allow(dead_code)]
    struct V {
        #[garde(skip)]
        name: String,
        #[garde(length(min = 2))]
        nickname: String,
        #[garde(range(min = 10))]
        age: u32,
    }

    let yaml = "name: &short \"x\"\n# c1\n# c2\n# c3\n# c4\n# c5\nnickname: *short\nage: 3 # \u{1b}[31m\n";
    for r in [64usize, 3] {
        let res = serde_saphyr::from_str_with_options_valid::<V>(yaml, radius(r));
        out.push((format!("g01_garde_alias_radius_{r}"), describe_res("g01", res)));
    }
    let err = serde_saphyr::from_str_valid::<V>(yaml).unwrap_err();
    out.push(("g02_garde_all_formatters".to_owned(), all_formatters("g02", &err)));
    let res = serde_saphyr::from_reader_valid::<_, V>(Cursor::new(yaml.as_bytes().to_vec()));
    out.push(("g03_garde_reader".to_owned(), describe_res("g03", res)));
    let res = serde_saphyr::from_multiple_valid::<V>(&format!("{yaml}---\n{yaml}"));
    out.push(("g04_garde_multiple".to_owned(), describe_res("g04", res)));
}

#[cfg(feature = "validator")]
fn validator_cases(out: &mut Vec<(String, String)>) {
    use validator::Validate;

    #[derive(Debug, Deserialize, Validate)]
    #[allow(dead_code)]
    struct V {
        name: String,
        #[validate(length(min = 2))]
        nickname: String,
        #[validate(range(min = 10))]
        age: u32,
    }

    let yaml = "name: &short \"x\"\n# c1\n# c2\n# c3\n# c4\n# c5\nnickname: *short\nage: 3 # \u{9b}31m\n";
    for r in [64usize, 3] {
        let res = serde_saphyr::from_str_with_options_validate::<V>(yaml, radius(r));
        out.push((format!("v01_validator_alias_radius_{r}"), describe_res("v01", res)));
    }
    let err = serde_saphyr::from_str_validate::<V>(yaml).unwrap_err();
    out.push(("v02_validator_all_formatters".to_owned(), all_formatters("v02", &err)));
    let res = serde_saphyr::from_reader_validate::<_, V>(Cursor::new(yaml.as_bytes().to_vec()));
    out.push(("v03_validator_reader".to_owned(), describe_res("v03", res)));
}

#[cfg(feature = "miette")]
fn miette_cases(out: &mut Vec<(String, String)>) {
    use miette::Diagnostic;

    fn describe_report(err: &Error, source: &str) -> String {
        let mut text = String::new();
        for (label, report) in [
            ("default", serde_saphyr::miette::to_miette_report(err, source, "in.yaml")),
            (
                "user",
                serde_saphyr::miette::to_miette_report_with_formatter(
                    err,
                    source,
                    "in.yaml",
                    &UserMessageFormatter,
                ),
            ),
        ] {
            let diag: &dyn Diagnostic = report.as_ref();
            text.push_str(&format!("--- {label}\nmessage: {report}\n"));
            assert_terminal_safe("miette message", &report.to_string());
            if let Some(labels) = diag.labels() {
                for l in labels {
                    text.push_str(&format!(
                        "label: offset={} len={} text={:?}\n",
                        l.offset(),
                        l.len(),
                        l.label()
                    ));
                }
            } else {
                text.push_str("labels: none\n");
            }
            if let Some(related) = diag.related() {
                for r in related {
                    text.push_str(&format!("related: {r}\n"));
                    if let Some(labels) = r.labels() {
                        for l in labels {
                            text.push_str(&format!(
                                "  label: offset={} len={} text={:?}\n",
                                l.offset(),
                                l.len(),
                                l.label()
                            ));
                        }
                    }
                }
            }
            let mut rendered = String::new();
            miette::GraphicalReportHandler::new_themed(miette::GraphicalTheme::none())
                .with_width(100)
                .render_report(&mut rendered, diag)
                .unwrap();
            assert_terminal_safe("miette rendered", &rendered);
            text.push_str(&rendered);
        }
        text
    }

    let inputs: [(&str, String); 7] = [
        ("m01_ascii", "a: 1\nb: x\n".to_owned()),
        ("m02_non_ascii_prefix", "αβγ: 1\nb: \"日本語\" \na: zzz\n".to_owned()),
        (
            "m03_controls_in_source",
            "a: 1 # \u{1b}[31m \u{9b} \u{7f}\nb: x\u{9b}\n".to_owned(),
        ),
        ("m04_eof", "a: [1,\n".to_owned()),
        ("m05_alias", "a: &v zz\nb: *v\n".to_owned()),
        ("m06_last_char_non_ascii", "a: 1\nb: 🙂".to_owned()),
        ("m07_empty", String::new()),
    ];
    for (name, src) in inputs {
        let text = match from_str::<Pair>(&src) {
            Ok(v) => format!("OK {v:?}"),
            Err(e) => describe_report(&e, &src),
        };
        out.push((name.to_owned(), text));
    }
    // Source handed to miette differs from the text the error came from (shorter).
    let err = from_str::<Pair>("a: 1\nb: 2\nc: 3\nd: 4\na: x\n").unwrap_err();
    out.push(("m08_source_shorter_than_span".to_owned(), describe_report(&err, "a: 1\n")));
    // Reader error (snippet from the ring) converted to a report.
    let src = "a: 1\nb: \"é\" \nb: x\n";
    let err = from_reader::<_, Pair>(Cursor::new(src.as_bytes().to_vec())).unwrap_err();
    out.push(("m09_reader_error".to_owned(), describe_report(&err, src)));
}

// ---------------------------------------------------------------------------------------
// Expected results, recorded on the unmodified tree
// ---------------------------------------------------------------------------------------

const EXPECTED: &[(&str, &str)] = &[
    ("s01_unknown_anchor_single_line", "error: line 1 column 1: alias references unknown anchor\n --> <input>:1:1\n  |\n1 | *missing\n  | ^ alias references unknown anchor\n@@ location 1:1\n@@ regions radius=64 n=1\n  [1..=2 len=9 fnv=aaa667f3afcef51f \"*missing\\n\"]"),
    ("s02_error_on_line_2_of_3", "error: line 2 column 4: invalid i32\n --> <input>:2:4\n  |\n1 | a: 1\n2 | b: x\n  |    ^ invalid i32\n3 | c: 3\n  |\n@@ location 2:4\n@@ regions radius=64 n=1\n  [1..=4 len=15 fnv=0825d5d5bbdb0699 \"a: 1\\nb: x\\nc: 3\\n\"]"),
    ("s03_error_on_line_5_of_9", "error: line 5 column 5: invalid i32\n --> <input>:5:5\n  |\n3 | l3: 3\n4 | l4: 4\n5 | l5: oops\n  |     ^ invalid i32\n6 | l6: 6\n7 | l7: 7\n  |\n@@ location 5:5\n@@ regions radius=64 n=1\n  [3..=8 len=33 fnv=b20080313841b40f \"l3: 3\\nl4: 4\\nl5: oops\\nl6: 6\\nl7: 7\\n\"]"),
    ("s04_error_on_last_line_no_trailing_newline", "error: line 2 column 4: invalid i32\n --> <input>:2:4\n  |\n1 | a: 1\n2 | b: zz\n  |    ^ invalid i32\n@@ location 2:4\n@@ regions radius=64 n=1\n  [1..=2 len=10 fnv=aefc9c850720b55f \"a: 1\\nb: zz\"]"),
    ("s05_unterminated_flow_eof", "error: line 1 column 1: unclosed bracket '['\n --> <input>:1:1\n  |\n1 | [1, 2,\n  | ^ unclosed bracket '['\n2 |  3,\n  |\n@@ location 1:1\n@@ regions radius=64 n=1\n  [1..=3 len=11 fnv=22dbf635148fa134 \"[1, 2,\\n 3,\\n\"]"),
    ("s06_eof_into_bool_empty", "unexpected end of input at line 1, column 1\n@@ location 1:1\n@@ regions radius=64 n=0"),
    ("s07_eof_into_bool_blank_lines", "error: line 4 column 1: unexpected end of input\n --> <input>:3:2\n  |\n2 |\n3 |\n  | ^ unexpected end of input\n@@ location 4:1\n@@ regions radius=64 n=1\n  [2..=4 len=2 fnv=08547e07b5084555 \"\\n\\n\"]"),
    ("s08_comment_only", "error: line 3 column 1: unexpected end of input\n --> <input>:2:10\n  |\n1 | # nothing here\n2 | # at all\n  |         ^ unexpected end of input\n@@ location 3:1\n@@ regions radius=64 n=1\n  [1..=3 len=24 fnv=75f2b2d401b86d18 \"# nothing here\\n# at all\\n\"]"),
    ("s09_gutter_width_grows", "error: line 9 column 5: invalid i32\n  --> <input>:9:5\n   |\n 7 | k7: 7\n 8 | k8: 8\n 9 | k9: bad\n   |     ^ invalid i32\n10 | k10: 10\n11 | k11: 11\n   |\n@@ location 9:5\n@@ regions radius=64 n=1\n  [7..=12 len=36 fnv=6985a331ee957ede \"k7: 7\\nk8: 8\\nk9: bad\\nk10: 10\\nk11: 11\\n\"]"),
    ("s10_first_line_error_many_lines", "error: line 1 column 4: invalid i32\n --> <input>:1:4\n  |\n1 | a: nope\n  |    ^ invalid i32\n2 | b: 2\n3 | c: 3\n  |\n@@ location 1:4\n@@ regions radius=64 n=1\n  [1..=4 len=18 fnv=7c3d4bbbe1686c32 \"a: nope\\nb: 2\\nc: 3\\n\"]"),
    ("s11_crlf", "error: line 2 column 4: invalid i32\n --> <input>:2:4\n  |\n1 | a: 1\n2 | b: x\n  |    ^ invalid i32\n3 | c: 3\n  |\n@@ location 2:4\n@@ regions radius=64 n=1\n  [1..=4 len=18 fnv=0b0833b3856c23c2 \"a: 1\\r\\nb: x\\r\\nc: 3\\r\\n\"]"),
    ("s12_crlf_error_at_eol", "error: line 2 column 4: unexpected event: expected string scalar\n --> <input>:2:4\n  |\n1 | a: 1\n2 | b: [1,\n  |    ^ unexpected event: expected string scalar\n@@ location 2:4\n@@ regions radius=64 n=1\n  [1..=3 len=14 fnv=aceaba2891a9a81d \"a: 1\\r\\nb: [1,\\r\\n\"]"),
    ("s13_bom_line_1", "error: line 1 column 4: invalid i32\n --> <input>:1:4\n  |\n1 | a: x\n  |    ^ invalid i32\n2 | b: 2\n  |\n@@ location 1:4\n@@ regions radius=64 n=1\n  [1..=3 len=10 fnv=d92b9eea80db7fd0 \"a: x\\nb: 2\\n\"]"),
    ("s14_bom_line_3", "error: line 3 column 4: invalid i32\n --> <input>:3:4\n  |\n1 | # c\n2 | a: 1\n3 | b: x\n  |    ^ invalid i32\n@@ location 3:4\n@@ regions radius=64 n=1\n  [1..=4 len=14 fnv=e1c9d2da109f971b \"# c\\na: 1\\nb: x\\n\"]"),
    ("s15_tab_in_value", "error: line 2 column 4: invalid i32\n --> <input>:2:4\n  |\n1 | a: 1\n2 | b: \"x    y\"\n  |    ^ invalid i32\n@@ location 2:4\n@@ regions radius=64 n=1\n  [1..=3 len=14 fnv=efa074253709d807 \"a: 1\\nb: \\\"x\\ty\\\"\\n\"]"),
    ("s16_tab_indentation_error", "error: line 1 column 4: while scanning a plain scalar, found a tab\n --> <input>:1:4\n  |\n1 | a: 1\n  |    ^ while scanning a plain scalar, found a tab\n2 |     b: 2\n  |\n@@ location 1:4\n@@ regions radius=64 n=1\n  [1..=3 len=11 fnv=8efbf5f0ac3bd9c4 \"a: 1\\n\\tb: 2\\n\"]"),
    ("s17_lone_cr_inside_line", "error: line 3 column 1: invalid indentation in multiline quoted scalar\n --> <input>:2:10\n  |\n1 | a: 1\n2 | b: \"x y\"\n  |         ^ invalid indentation in multiline quoted scalar\n@@ location 3:1\n@@ regions radius=64 n=1\n  [1..=3 len=14 fnv=a58fe401b8b35fc3 \"a: 1\\nb: \\\"x\\ry\\\"\\n\"]"),
    ("t01_raw_escape_in_source", "error: line 2 column 4: invalid i32\n --> <input>:2:4\n  |\n1 | a: 1 #  [31mred [0m\n2 | b: x #  ]0;title \n  |    ^ invalid i32\n@@ location 2:4\n@@ regions radius=64 n=1\n  [1..=3 len=38 fnv=ad3562bee40cdcac \"a: 1 # \\u{1b}[31mred\\u{1b}[0m\\nb: x # \\u{1b}]0;title\\u{7}\\n\"]"),
    ("t02_c1_in_source", "error: line 2 column 4: invalid i32\n --> <input>:2:4\n  |\n1 | a: 1 # \u{a0}31m \u{a0} \u{a0}\n2 | b: \u{a0}x\u{a0}\n  |    ^ invalid i32\n@@ location 2:4\n@@ regions radius=64 n=1\n  [1..=3 len=28 fnv=aaed26ca08d90932 \"a: 1 # \\u{9b}31m \\u{90} \\u{9f}\\nb: \\u{9b}x\\u{80}\\n\"]"),
    ("t03_del_and_nul_in_source", "error: line 1 column 1: missing field `b`\n --> <input>:1:1\n  |\n1 | a: 1 #    \n  | ^ missing field `b`\n2 | b: y \n  |\n@@ location 1:1\n@@ regions radius=64 n=1\n  [1..=3 len=17 fnv=7c4f728104142772 \"a: 1 # \\u{7f}\\0\\u{1}\\nb: y\\u{7f}\\n\"]"),
    ("t04_unknown_field_with_escapes", "error: line 2 column 1: unknown field `b␛[31m␡\u{a0}␇`, expected one of a\n --> <input>:2:1\n  |\n1 | a: 1\n2 | \"b\\e[31m\\x7f\\u009b\\a\": 2\n  | ^ unknown field `b [31m \u{a0} `, expected one of a\n@@ location 2:1\n@@ regions radius=64 n=1\n  [1..=3 len=30 fnv=abcb521713066fd8 \"a: 1\\n\\\"b\\\\e[31m\\\\x7f\\\\u009b\\\\a\\\": 2\\n\"]"),
    ("t05_unknown_variant_with_escapes", "error: line 1 column 8: unknown variant `Bl␛[2Jue\u{a0}␀`, expected `Red` or `Green`\n --> <input>:1:8\n  |\n1 | color: \"Bl\\e[2Jue\\x9d\\0\"\n  |        ^ unknown variant `Bl [2Jue\u{a0} `, expected `Red` or `Green`\n@@ location 1:8\n@@ regions radius=64 n=1\n  [1..=2 len=25 fnv=dea05adc94db8465 \"color: \\\"Bl\\\\e[2Jue\\\\x9d\\\\0\\\"\\n\"]"),
    ("t06_custom_message_with_controls", "error: line 2 column 4: bad ␛[31mvalue␛[0m \u{a0}2J pay␛load ␡␀\u{a0} end\n --> <input>:2:4\n  |\n1 | ok: 1\n2 | v: \"pay\\x1bload\"\n  |    ^ bad  [31mvalue [0m \u{a0}2J pay load   \u{a0} end\n@@ location 2:4\n@@ regions radius=64 n=1\n  [1..=3 len=23 fnv=a3c35cf59df05ca9 \"ok: 1\\nv: \\\"pay\\\\x1bload\\\"\\n\"]"),
    ("t07_duplicate_key_with_escapes", "error: line 2 column 1: duplicate mapping key: k␇␛, set DuplicateKeyPolicy in Options if acceptable\n --> <input>:2:1\n  |\n1 | \"k\\a\\e\": 1\n2 | \"k\\a\\e\": 2\n  | ^ duplicate mapping key: k  , set DuplicateKeyPolicy in Options if acceptable\n@@ location 2:1\n@@ regions radius=64 n=1\n  [1..=3 len=22 fnv=28bda592f04d1cda \"\\\"k\\\\a\\\\e\\\": 1\\n\\\"k\\\\a\\\\e\\\": 2\\n\"]"),
    ("t08_controls_with_cropping", "error: line 2 column 4: invalid i32\n --> <input>:2:4\n  |\n1 | a: 1 #  [31m0123…\n2 | b: x #  [31m0123…\n  |    ^ invalid i32\n@@ location 2:4\n@@ regions radius=12 n=1\n  [1..=3 len=92 fnv=0e937b662329cf0d \"a: 1 # \\u{1b}[31m0123456789\\u{9b}abcdefghij\\u{7f}KLMNOPQRST\\nb: x # \\u{1b}[31m0123456789\\u{9b}abcdefghij\\u{7f}KLMNOPQRST\\n\"]"),
    ("t09_nel_and_line_separators", "error: line 2 column 4: invalid i32\n --> <input>:2:4\n  |\n1 | a: 1 # \u{a0} \u{2028} \u{2029}\n2 | b: x\n  |    ^ invalid i32\n@@ location 2:4\n@@ regions radius=64 n=1\n  [1..=3 len=23 fnv=e90949d339349cf2 \"a: 1 # \\u{85} \\u{2028} \\u{2029}\\nb: x\\n\"]"),
    ("t10_all_formatters_custom", "--- user\nerror: line 2 column 4: bad ␛[31mvalue␛[0m \u{a0}2J pay␛load ␡␀\u{a0} end\n --> <input>:2:4\n  |\n1 | ok: 1\n2 | v: \"pay\\x1bload\"\n  |    ^ bad  [31mvalue [0m \u{a0}2J pay load   \u{a0} end\n--- default\nerror: line 2 column 4: bad ␛[31mvalue␛[0m \u{a0}2J pay␛load ␡␀\u{a0} end\n --> <input>:2:4\n  |\n1 | ok: 1\n2 | v: \"pay\\x1bload\"\n  |    ^ bad  [31mvalue [0m \u{a0}2J pay load   \u{a0} end\n--- default+localizer\nerror: line 2 column 4: bad ␛[31mvalue␛[0m \u{a0}2J pay␛load ␡␀\u{a0} end\n --> <input>:2:4\n  |\n1 | ok: 1\n2 | v: \"pay\\x1bload\"\n  |    ^ bad  [31mvalue [0m \u{a0}2J pay load   \u{a0} end\n--- user+localizer\nerror: line 2 column 4: bad ␛[31mvalue␛[0m \u{a0}2J pay␛load ␡␀\u{a0} end\n --> <input>:2:4\n  |\n1 | ok: 1\n2 | v: \"pay\\x1bload\"\n  |    ^ bad  [31mvalue [0m \u{a0}2J pay load   \u{a0} end\n--- off\nbad  [31mvalue [0m \u{a0}2J pay load   \u{a0} end at line 2, column 4\n--- without_snippet\nbad  [31mvalue [0m \u{a0}2J pay load   \u{a0} end at line 2, column 4\n"),
    ("t11_all_formatters_variant", "--- user\nerror: line 1 column 8: unknown variant `Bl␛[2Jue\u{a0}␀`, expected `Red` or `Green`\n --> <input>:1:8\n  |\n1 | color: \"Bl\\e[2Jue\\x9d\\0\"\n  |        ^ unknown variant `Bl [2Jue\u{a0} `, expected `Red` or `Green`\n--- default\nerror: line 1 column 8: unknown variant `Bl␛[2Jue\u{a0}␀`, expected `Red` or `Green`\n --> <input>:1:8\n  |\n1 | color: \"Bl\\e[2Jue\\x9d\\0\"\n  |        ^ unknown variant `Bl [2Jue\u{a0} `, expected `Red` or `Green`\n--- default+localizer\nerror: line 1 column 8: unknown variant `Bl␛[2Jue\u{a0}␀`, expected `Red` or `Green`\n --> <input>:1:8\n  |\n1 | color: \"Bl\\e[2Jue\\x9d\\0\"\n  |        ^ unknown variant `Bl [2Jue\u{a0} `, expected `Red` or `Green`\n--- user+localizer\nerror: line 1 column 8: unknown variant `Bl␛[2Jue\u{a0}␀`, expected `Red` or `Green`\n --> <input>:1:8\n  |\n1 | color: \"Bl\\e[2Jue\\x9d\\0\"\n  |        ^ unknown variant `Bl [2Jue\u{a0} `, expected `Red` or `Green`\n--- off\nunknown variant `Bl [2Jue\u{a0} `, expected `Red` or `Green` at line 1, column 8\n--- without_snippet\nunknown variant `Bl [2Jue\u{a0} `, expected `Red` or `Green` at line 1, column 8\n"),
    ("t12_all_formatters_alias", "--- user\nerror: line 2 column 7: invalid boolean at line 1, column 13\n --> the value is used here:2:7\n  |\n1 | count: &val 42\n2 | flag: *val\n  |       ^ invalid boolean at line 1, column 13\n  | This value comes indirectly from the anchor at line 1 column 13:\n  |\n1 | count: &val 42\n  |             ^ defined here\n2 | flag: *val\n3 |\n  |\n\n--- default\nerror: line 2 column 7: invalid boolean at line 1, column 13\n --> the value is used here:2:7\n  |\n1 | count: &val 42\n2 | flag: *val\n  |       ^ invalid boolean at line 1, column 13\n  | This value comes indirectly from the anchor at line 1 column 13:\n  |\n1 | count: &val 42\n  |             ^ defined here\n2 | flag: *val\n3 |\n  |\n\n--- default+localizer\nerror: line 2 column 7: invalid boolean at line 1, column 13\n --> the value is used here:2:7\n  |\n1 | count: &val 42\n2 | flag: *val\n  |       ^ invalid boolean at line 1, column 13\n  | This value comes indirectly from the anchor at line 1 column 13:\n  |\n1 | count: &val 42\n  |             ^ defined here\n2 | flag: *val\n3 |\n  |\n\n--- user+localizer\nerror: line 2 column 7: invalid boolean at line 1, column 13\n --> the value is used here:2:7\n  |\n1 | count: &val 42\n2 | flag: *val\n  |       ^ invalid boolean at line 1, column 13\n  | This value comes indirectly from the anchor at line 1 column 13:\n  |\n1 | count: &val 42\n  |             ^ defined here\n2 | flag: *val\n3 |\n  |\n\n--- off\ninvalid boolean at line 1, column 13 (defined at line 1, column 13) at line 2, column 7\n--- without_snippet\ninvalid boolean at line 1, column 13 (defined at line 1, column 13) at line 2, column 7\n"),
    ("c01_long_lines_radius_0", "alias references unknown anchor at line 5, column 31\n@@ location 5:31\n@@ regions none"),
    ("c01_long_lines_radius_1", "error: line 5 column 31: alias references unknown anchor\n --> <input>:5:3\n  |\n3 | …LKJ…\n4 | …EFG…\n5 | … *v…\n  |   ^ alias references unknown anchor\n6 | …fgh…\n7 | …(*&…\n  |\n@@ location 5:31\n@@ regions radius=1 n=1\n  [3..=8 len=237 fnv=74a4821082f0a68b \"    before_1: \\\"ZYXWVUTSRQPONMLKJIHGFEDCBA9876543210\\\"\\n    before_2: \\\"0123456789ABCDEFGHIJKLMNOPQRSTUVWXYZ\\\"\\n    bad_bad_anchor_reference: *very_bad\\n    after_1: \\\"0123456789abcdefghijklmnopqrstuvwxyz\\\"\\n    after_2: \\\"!@#$%^&*()_++_)(*&^%$#@\\\"\\n\"]"),
    ("c01_long_lines_radius_2", "error: line 5 column 31: alias references unknown anchor\n --> <input>:5:4\n  |\n3 | …MLKJI…\n4 | …DEFGH…\n5 | …: *ve…\n  |    ^ alias references unknown anchor\n6 | …efghi…\n7 | …)(*&^…\n  |\n@@ location 5:31\n@@ regions radius=2 n=1\n  [3..=8 len=237 fnv=74a4821082f0a68b \"    before_1: \\\"ZYXWVUTSRQPONMLKJIHGFEDCBA9876543210\\\"\\n    before_2: \\\"0123456789ABCDEFGHIJKLMNOPQRSTUVWXYZ\\\"\\n    bad_bad_anchor_reference: *very_bad\\n    after_1: \\\"0123456789abcdefghijklmnopqrstuvwxyz\\\"\\n    after_2: \\\"!@#$%^&*()_++_)(*&^%$#@\\\"\\n\"]"),
    ("c01_long_lines_radius_10", "error: line 5 column 31: alias references unknown anchor\n --> <input>:5:12\n  |\n3 | …UTSRQPONMLKJIHGFEDCBA…\n4 | …56789ABCDEFGHIJKLMNOP…\n5 | …eference: *very_bad\n  |            ^ alias references unknown anchor\n6 | …6789abcdefghijklmnopq…\n7 | …&*()_++_)(*&^%$#@\"\n  |\n@@ location 5:31\n@@ regions radius=10 n=1\n  [3..=8 len=237 fnv=74a4821082f0a68b \"    before_1: \\\"ZYXWVUTSRQPONMLKJIHGFEDCBA9876543210\\\"\\n    before_2: \\\"0123456789ABCDEFGHIJKLMNOPQRSTUVWXYZ\\\"\\n    bad_bad_anchor_reference: *very_bad\\n    after_1: \\\"0123456789abcdefghijklmnopqrstuvwxyz\\\"\\n    after_2: \\\"!@#$%^&*()_++_)(*&^%$#@\\\"\\n\"]"),
    ("c01_long_lines_radius_25", "error: line 5 column 31: alias references unknown anchor\n --> <input>:5:27\n  |\n3 | …efore_1: \"ZYXWVUTSRQPONMLKJIHGFEDCBA9876543210\"\n4 | …efore_2: \"0123456789ABCDEFGHIJKLMNOPQRSTUVWXYZ\"\n5 | …ad_bad_anchor_reference: *very_bad\n  |                           ^ alias references unknown anchor\n6 | …fter_1: \"0123456789abcdefghijklmnopqrstuvwxyz\"\n7 | …fter_2: \"!@#$%^&*()_++_)(*&^%$#@\"\n  |\n@@ location 5:31\n@@ regions radius=25 n=1\n  [3..=8 len=237 fnv=74a4821082f0a68b \"    before_1: \\\"ZYXWVUTSRQPONMLKJIHGFEDCBA9876543210\\\"\\n    before_2: \\\"0123456789ABCDEFGHIJKLMNOPQRSTUVWXYZ\\\"\\n    bad_bad_anchor_reference: *very_bad\\n    after_1: \\\"0123456789abcdefghijklmnopqrstuvwxyz\\\"\\n    after_2: \\\"!@#$%^&*()_++_)(*&^%$#@\\\"\\n\"]"),
    ("c01_long_lines_radius_64", "error: line 5 column 31: alias references unknown anchor\n --> <input>:5:31\n  |\n3 |     before_1: \"ZYXWVUTSRQPONMLKJIHGFEDCBA9876543210\"\n4 |     before_2: \"0123456789ABCDEFGHIJKLMNOPQRSTUVWXYZ\"\n5 |     bad_bad_anchor_reference: *very_bad\n  |                               ^ alias references unknown anchor\n6 |     after_1: \"0123456789abcdefghijklmnopqrstuvwxyz\"\n7 |     after_2: \"!@#$%^&*()_++_)(*&^%$#@\"\n  |\n@@ location 5:31\n@@ regions radius=64 n=1\n  [3..=8 len=237 fnv=74a4821082f0a68b \"    before_1: \\\"ZYXWVUTSRQPONMLKJIHGFEDCBA9876543210\\\"\\n    before_2: \\\"0123456789ABCDEFGHIJKLMNOPQRSTUVWXYZ\\\"\\n    bad_bad_anchor_reference: *very_bad\\n    after_1: \\\"0123456789abcdefghijklmnopqrstuvwxyz\\\"\\n    after_2: \\\"!@#$%^&*()_++_)(*&^%$#@\\\"\\n\"]"),
    ("c01_long_lines_radius_1000", "error: line 5 column 31: alias references unknown anchor\n --> <input>:5:31\n  |\n3 |     before_1: \"ZYXWVUTSRQPONMLKJIHGFEDCBA9876543210\"\n4 |     before_2: \"0123456789ABCDEFGHIJKLMNOPQRSTUVWXYZ\"\n5 |     bad_bad_anchor_reference: *very_bad\n  |                               ^ alias references unknown anchor\n6 |     after_1: \"0123456789abcdefghijklmnopqrstuvwxyz\"\n7 |     after_2: \"!@#$%^&*()_++_)(*&^%$#@\"\n  |\n@@ location 5:31\n@@ regions radius=1000 n=1\n  [3..=8 len=237 fnv=74a4821082f0a68b \"    before_1: \\\"ZYXWVUTSRQPONMLKJIHGFEDCBA9876543210\\\"\\n    before_2: \\\"0123456789ABCDEFGHIJKLMNOPQRSTUVWXYZ\\\"\\n    bad_bad_anchor_reference: *very_bad\\n    after_1: \\\"0123456789abcdefghijklmnopqrstuvwxyz\\\"\\n    after_2: \\\"!@#$%^&*()_++_)(*&^%$#@\\\"\\n\"]"),
    ("c01_long_lines_radius_18446744073709551615", "error: line 5 column 31: alias references unknown anchor\n --> <input>:5:31\n  |\n3 |     before_1: \"ZYXWVUTSRQPONMLKJIHGFEDCBA9876543210\"\n4 |     before_2: \"0123456789ABCDEFGHIJKLMNOPQRSTUVWXYZ\"\n5 |     bad_bad_anchor_reference: *very_bad\n  |                               ^ alias references unknown anchor\n6 |     after_1: \"0123456789abcdefghijklmnopqrstuvwxyz\"\n7 |     after_2: \"!@#$%^&*()_++_)(*&^%$#@\"\n  |\n@@ location 5:31\n@@ regions radius=18446744073709551615 n=1\n  [3..=8 len=237 fnv=74a4821082f0a68b \"    before_1: \\\"ZYXWVUTSRQPONMLKJIHGFEDCBA9876543210\\\"\\n    before_2: \\\"0123456789ABCDEFGHIJKLMNOPQRSTUVWXYZ\\\"\\n    bad_bad_anchor_reference: *very_bad\\n    after_1: \\\"0123456789abcdefghijklmnopqrstuvwxyz\\\"\\n    after_2: \\\"!@#$%^&*()_++_)(*&^%$#@\\\"\\n\"]"),
    ("c02_multibyte_radius_3", "error: line 3 column 23: alias references unknown anchor\n --> <input>:3:5\n  |\n1 | …ββββββγ…\n2 | k2: \"日本語日本語日本語日本語\" \n3 | …\": *now…\n  |     ^ alias references unknown anchor\n4 | …🙂🙂\"\n5 | k5: é\n  |\n@@ location 3:23\n@@ regions radius=3 n=1\n  [1..=6 len=257 fnv=5892a0c2e9e936c3 \"k1: \\\"ααααααααααββββββββββγγγγγγγγγγ\\\"\\nk2: \\\"日本語日本語日本語日本語\\\" \\nbad: {\\\"日本語のキー🙂🙂🙂🙂🙂🙂\\\": *nowhere, x: 1}\\nk4: \\\"🙂🙂🙂🙂🙂🙂🙂🙂🙂🙂🙂🙂🙂🙂🙂🙂\\\"\\nk5: é\\n\"]"),
    ("c02_multibyte_radius_5", "error: line 3 column 23: alias references unknown anchor\n --> <input>:3:7\n  |\n1 | …ββββββββγγγ…\n2 | …\" \n3 | …🙂🙂\": *nowhe…\n  |         ^ alias references unknown anchor\n4 | …🙂🙂🙂🙂\"\n5 | k5: é\n  |\n@@ location 3:23\n@@ regions radius=5 n=1\n  [1..=6 len=257 fnv=5892a0c2e9e936c3 \"k1: \\\"ααααααααααββββββββββγγγγγγγγγγ\\\"\\nk2: \\\"日本語日本語日本語日本語\\\" \\nbad: {\\\"日本語のキー🙂🙂🙂🙂🙂🙂\\\": *nowhere, x: 1}\\nk4: \\\"🙂🙂🙂🙂🙂🙂🙂🙂🙂🙂🙂🙂🙂🙂🙂🙂\\\"\\nk5: é\\n\"]"),
    ("c02_multibyte_radius_8", "error: line 3 column 23: alias references unknown anchor\n --> <input>:3:10\n  |\n1 | …αββββββββββγγγγγγ…\n2 | …日本語\" \n3 | …🙂🙂🙂🙂🙂\": *nowhere,…\n  |               ^ alias references unknown anchor\n4 | …🙂🙂🙂🙂🙂🙂🙂\"\n5 | k5: é\n  |\n@@ location 3:23\n@@ regions radius=8 n=1\n  [1..=6 len=257 fnv=5892a0c2e9e936c3 \"k1: \\\"ααααααααααββββββββββγγγγγγγγγγ\\\"\\nk2: \\\"日本語日本語日本語日本語\\\" \\nbad: {\\\"日本語のキー🙂🙂🙂🙂🙂🙂\\\": *nowhere, x: 1}\\nk4: \\\"🙂🙂🙂🙂🙂🙂🙂🙂🙂🙂🙂🙂🙂🙂🙂🙂\\\"\\nk5: é\\n\"]"),
    ("c03_short_context_lines_kept", "error: line 3 column 46: alias references unknown anchor\n --> <input>:3:6\n  |\n1 | a: b\n2 |\n3 | …ng: *gone\n  |      ^ alias references unknown anchor\n4 | z: y\n  |\n@@ location 3:46\n@@ regions radius=4 n=1\n  [1..=5 len=62 fnv=2f211c6e3c05ee08 \"a: b\\n\\nsome_rather_long_key_name_here_for_cropping: *gone\\nz: y\\n\"]"),
    ("c04_with_snippet_false", "invalid i32 at line 2, column 4\n@@ location 2:4\n@@ regions none"),
    ("c05_crlf_with_cropping", "error: line 2 column 32: alias references unknown anchor\n --> <input>:2:8\n  |\n1 | …indeed: 1\n2 | …_too: *gone\n  |        ^ alias references unknown anchor\n3 | third: 3\n  |\n@@ location 2:32\n@@ regions radius=6 n=1\n  [1..=4 len=84 fnv=92f1c2b92b3dd735 \"first_line_is_quite_long_indeed: 1\\r\\nsecond_line_is_quite_long_too: *gone\\r\\nthird: 3\\r\\n\"]"),
    ("h01_huge_scalar_into_int", "error: line 1 column 6: invalid i32\n --> <input>:1:6\n  |\n1 | key: AAAAAAAAAAAAAAAAAAAAA…\n  |      ^ invalid i32\n@@ location 1:6\n@@ regions radius=20 n=1\n  [1..=2 len=30 fnv=27a0c057f417364f \"key: AAAAAAAAAAAAAAAAAAAAA…\\n\"]"),
    ("h02_huge_context_lines", "error: line 1 column 4: invalid i32\n --> <input>:1:4\n  |\n1 | x: \"XXXXXXXX…\n  |    ^ invalid i32\n2 | key: AAAAAAA…\n3 | y: \"YYYYYYYY…\n  |\n@@ location 1:4\n@@ regions radius=8 n=1\n  [1..=4 len=48 fnv=22ca4be588102404 \"x: \\\"XXXXXXXX…\\nkey: AAAAAAA…\\ny: \\\"YYYYYYYY…\\n\"]"),
    ("h03_huge_default_radius", "error: line 1 column 4: invalid i32\n --> <input>:1:4\n  |\n1 | x: \"XXXXXXXXXXXXXXXXXXXXXXXXXXXXXXXXXXXXXXXXXXXXXXXXXXXXXXXXXXXXXXXX…\n  |    ^ invalid i32\n2 | key: AAAAAAAAAAAAAAAAAAAAAAAAAAAAAAAAAAAAAAAAAAAAAAAAAAAAAAAAAAAAAAA…\n3 | y: \"YYYYYYYYYYYYYYYYYYYYYYYYYYYYYYYYYYYYYYYYYYYYYYYYYYYYYYYYYYYYYYYY…\n  |\n@@ location 1:4\n@@ regions radius=64 n=1\n  [1..=4 len=216 fnv=8ec41a68a5970234 \"x: \\\"XXXXXXXXXXXXXXXXXXXXXXXXXXXXXXXXXXXXXXXXXXXXXXXXXXXXXXXXXXXXXXXX…\\nkey: AAAAAAAAAAAAAAAAAAAAAAAAAAAAAAAAAAAAAAAAAAAAAAAAAAAAAAAAAAAAAAA…\\ny: \\\"YYYYYYYYYYYYYYYYYYYYYYYYYYYYYYYYYYYYYYYYYYYYYYYYYYYYYYYYYYYYYYYY…\\n\"]"),
    ("h04_error_mid_huge_line", "error: line 1 column 4395: invalid i32\n --> <input>:1:17\n  |\n1 | …897, 898, 899, zzz, 901, 902, 9…\n  |                 ^ invalid i32\n2 | w: [1]\n  |\n@@ location 1:4395\n@@ regions radius=15 n=1\n  [1..=3 len=4421 fnv=8cee380fe7f5e650 \"v: [0, 1, 2, 3, 4, 5, 6, 7, 8, 9, 10, 11\"..\"897, 898, 899, zzz, 901, 902, 9…\\nw: [1]\\n\"]"),
    ("h05_huge_multibyte_crlf_controls", "error: line 1 column 6: invalid i32\n --> <input>:1:6\n  |\n1 | pre: \"éééééééééé…\n  |      ^ invalid i32\n2 | key:  日\u{a0}日\u{a0}日\u{a0}日\u{a0}日\u{a0}…\n3 | post: 1\n  |\n@@ location 1:6\n@@ regions radius=10 n=1\n  [1..=4 len=73 fnv=53509d2abf193f7c \"pre: \\\"éééééééééé…\\nkey:  日\\u{a0}日\\u{a0}日\\u{a0}日\\u{a0}日\\u{a0}…\\npost: 1\\n\"]"),
    ("h06_window_over_16k", "error: line 1 column 5: invalid type: string \".inf\", expected a JSON number\n --> <input>:1:5\n  |\n1 | k0: 7777777777777777777777777777777…\n  |     ^ invalid type: string \".inf\", expected a JSON number\n2 | k1: 7777777777777777777777777777777…\n3 | k2: q777777777777777777777777777777…\n  |\n@@ location 1:5\n@@ regions radius=30 n=1\n  [1..=4 len=11716 fnv=2cc5a02f507cca72 \"k0: 777777777777777777777777777777777777\"..\"777777777777777777777777777777777777777\\n\"]"),
    ("h07_below_threshold", "error: line 1 column 4: invalid type: string \".inf\", expected a JSON number\n --> <input>:1:4\n  |\n1 | k: 111111…\n  |    ^ invalid type: string \".inf\", expected a JSON number\n2 | bad: x\n  |\n@@ location 1:4\n@@ regions radius=5 n=1\n  [1..=3 len=4011 fnv=c969012b26e11e21 \"k: 1111111111111111111111111111111111111\"..\"11111111111111111111111111111111\\nbad: x\\n\"]"),
    ("a01_alias_near", "error: line 2 column 7: invalid boolean at line 1, column 13\n --> the value is used here:2:7\n  |\n1 | count: &val 42\n2 | flag: *val\n  |       ^ invalid boolean at line 1, column 13\n  | This value comes indirectly from the anchor at line 1 column 13:\n  |\n1 | count: &val 42\n  |             ^ defined here\n2 | flag: *val\n3 |\n  |\n\n@@ location 2:7\n@@ regions radius=64 n=2\n  [1..=3 len=26 fnv=33b87e29e4503a6c \"count: &val 42\\nflag: *val\\n\"]\n  [1..=3 len=26 fnv=33b87e29e4503a6c \"count: &val 42\\nflag: *val\\n\"]"),
    ("a02_alias_far", "error: line 123 column 7: invalid boolean at line 1, column 13\n   --> the value is used here:123:7\n    |\n121 |   - item number 118\n122 |   - item number 119\n123 | flag: *val\n    |       ^ invalid boolean at line 1, column 13\n  | This value comes indirectly from the anchor at line 1 column 13:\n  |\n1 | count: &val 42\n  |             ^ defined here\n2 | filler:\n3 |   - item number 0\n  |\n\n@@ location 123:7\n@@ regions radius=64 n=2\n  [121..=124 len=51 fnv=d3a497e23fa3e345 \"  - item number 118\\n  - item number 119\\nflag: *val\\n\"]\n  [1..=4 len=41 fnv=d49b6f9efd524a8e \"count: &val 42\\nfiller:\\n  - item number 0\\n\"]"),
    ("a03_alias_far_radius_4", "error: line 123 column 7: invalid boolean at line 1, column 13\n   --> the value is used here:123:6\n    |\n121 | …- item nu…\n122 | …- item nu…\n123 | …ag: *val\n    |      ^ invalid boolean at line 1, column 13\n  | This value comes indirectly from the anchor at line 1 column 13:\n  |\n1 | …val 42\n  |      ^ defined here\n2 | filler:\n3 | … number 0\n  |\n\n@@ location 123:7\n@@ regions radius=4 n=2\n  [121..=124 len=51 fnv=d3a497e23fa3e345 \"  - item number 118\\n  - item number 119\\nflag: *val\\n\"]\n  [1..=4 len=41 fnv=d49b6f9efd524a8e \"count: &val 42\\nfiller:\\n  - item number 0\\n\"]"),
    ("a04_alias_far_crlf", "error: line 123 column 7: invalid boolean at line 1, column 13\n   --> the value is used here:123:7\n    |\n121 |   - item number 118\n122 |   - item number 119\n123 | flag: *val\n    |       ^ invalid boolean at line 1, column 13\n  | This value comes indirectly from the anchor at line 1 column 13:\n  |\n1 | count: &val 42\n  |             ^ defined here\n2 | filler:\n3 |   - item number 0\n  |\n\n@@ location 123:7\n@@ regions radius=64 n=2\n  [121..=124 len=54 fnv=76947c23167b990c \"  - item number 118\\r\\n  - item number 119\\r\\nflag: *val\\r\\n\"]\n  [1..=4 len=44 fnv=495cd1a39b556c7d \"count: &val 42\\r\\nfiller:\\r\\n  - item number 0\\r\\n\"]"),
    ("a05_alias_with_controls_and_long_lines", "error: line 8 column 7: invalid boolean at line 1, column 13\n --> the value is used here:8:7\n  |\n6 |\n7 |\n8 | flag: *val #   u…\n  |       ^ invalid boolean at line 1, column 13\n  | This value comes indirectly from the anchor at line 1 column 13:\n  |\n1 | …nt: &val 42 #  [1m …\n  |           ^ defined here\n2 | \n3 | \n  |\n\n@@ location 8:7\n@@ regions radius=9 n=2\n  [6..=9 len=66 fnv=8b185784f789a4ea \"\\n\\nflag: *val # \\u{7f} usage comment that is fairly long as well ......\\n\"]\n  [1..=4 len=66 fnv=8f5fefb26c4c6a3f \"count: &val 42 # \\u{1b}[1m definition comment that is fairly long \\u{9b}\\n\\n\\n\"]"),
    ("a06_alias_same_line", "error: line 1 column 5: invalid boolean\n --> <input>:1:5\n  |\n1 | [&v 42, *v]\n  |     ^ invalid boolean\n@@ location 1:5\n@@ regions radius=64 n=1\n  [1..=2 len=12 fnv=2acaff8d4969792b \"[&v 42, *v]\\n\"]"),
    ("e01_from_slice", "error: line 2 column 4: invalid i32\n --> <input>:2:4\n  |\n1 | a: 1\n2 | b: 日\n  |    ^^ invalid i32\n@@ location 2:4\n@@ regions radius=3 n=1\n  [1..=3 len=12 fnv=aaa0a0b6abffd05b \"a: 1\\nb: 日\\n\"]"),
    ("e02_from_slice_invalid_utf8", "input is not valid UTF-8\n@@ location -\n@@ regions none"),
    ("e03_from_multiple_second_doc", "error: line 5 column 4: invalid i32\n --> <input>:5:4\n  |\n3 | ---\n4 | a: 1\n5 | b: k\n  |    ^ invalid i32\n6 | ---\n7 | a: 3\n  |\n@@ location 5:4\n@@ regions radius=64 n=1\n  [3..=8 len=23 fnv=207ae1e0b59a9ab2 \"---\\na: 1\\nb: k\\n---\\na: 3\\n\"]"),
    ("e04_read_iterator", "OK Pair { a: 1, b: 2 }\n=====\ninvalid i32 at line 4, column 4\n@@ location 4:4\n@@ regions none\n=====\nOK Pair { a: 5, b: 6 }"),
    ("r01_reader_small", "error: line 2 column 4: invalid i32\n --> <input>:2:4\n  |\n1 | a: 1\n2 | b: x\n  |    ^ invalid i32\n3 | c: 3\n  |\n@@ location 2:4\n@@ regions radius=64 n=1\n  [1..=4 len=15 fnv=0825d5d5bbdb0699 \"a: 1\\nb: x\\nc: 3\\n\"]"),
    ("r02_reader_empty_into_bool", "unexpected end of input at line 1, column 1\n@@ location 1:1\n@@ regions radius=64 n=0"),
    ("r03_reader_multiple_documents", "error: line 4 column 1: multiple YAML documents detected; use read or read_with_options to obtain the iterator\n --> <input>:4:1\n  |\n2 | b: 2\n3 | ---\n4 | a: 3\n  | ^ multiple YAML documents detected; use read or read_with_options to obtain the iterator\n5 | b: 4\n  |\n@@ location 4:1\n@@ regions radius=64 n=1\n  [2..=6 len=19 fnv=34c3db9b23cc6fdc \"b: 2\\n---\\na: 3\\nb: 4\\n\"]"),
    ("r04_reader_radius_0", "invalid i32 at line 2, column 4\n@@ location 2:4\n@@ regions none"),
    ("r05_reader_bom_crlf", "error: line 2 column 4: invalid i32\n --> <input>:2:4\n  |\n1 | a: 1\n2 | b: x\n  |    ^ invalid i32\n@@ location 2:4\n@@ regions radius=64 n=1\n  [1..=3 len=12 fnv=88259f321070418d \"a: 1\\r\\nb: x\\r\\n\"]"),
    ("r06_reader_large_pad0_chunk1", "error: line 402 column 6: alias references unknown anchor\n   --> <input>:402:6\n    |\n400 | k398: \"日本語  [36m é 398…\n401 | k399: \"日本語  [37m é 399…\n402 | bad: *nowhere\n    |      ^ alias references unknown anchor\n403 | t0: \"später 0 🙂\"\n404 | t1: \"später 1 🙂\"\n    |\n@@ location 402:6\n@@ regions radius=16 n=1\n  [400..=405 len=118 fnv=cd734fc70734cd89 \"k398: \\\"日本語 \\u{1b}[36m é 398\\\"\\nk399: \\\"日本語 \\u{1b}[37m é 399\\\"\\nbad: *nowhere\\nt0: \\\"später 0 🙂\\\"\\nt1: \\\"später 1 🙂\\\"\\n\"]"),
    ("r06_reader_large_pad0_chunk7", "error: line 402 column 6: alias references unknown anchor\n   --> <input>:402:6\n    |\n400 | k398: \"日本語  [36m é 398…\n401 | k399: \"日本語  [37m é 399…\n402 | bad: *nowhere\n    |      ^ alias references unknown anchor\n403 | t0: \"später 0 🙂\"\n404 | t1: \"später 1 🙂\"\n    |\n@@ location 402:6\n@@ regions radius=16 n=1\n  [400..=405 len=118 fnv=cd734fc70734cd89 \"k398: \\\"日本語 \\u{1b}[36m é 398\\\"\\nk399: \\\"日本語 \\u{1b}[37m é 399\\\"\\nbad: *nowhere\\nt0: \\\"später 0 🙂\\\"\\nt1: \\\"später 1 🙂\\\"\\n\"]"),
    ("r06_reader_large_pad0_chunk4096", "error: line 402 column 6: alias references unknown anchor\n   --> <input>:402:6\n    |\n400 | k398: \"日本語  [36m é 398…\n401 | k399: \"日本語  [37m é 399…\n402 | bad: *nowhere\n    |      ^ alias references unknown anchor\n403 | t0: \"später 0 🙂\"\n404 | t1: \"später 1 🙂\"\n    |\n@@ location 402:6\n@@ regions radius=16 n=1\n  [400..=405 len=118 fnv=cd734fc70734cd89 \"k398: \\\"日本語 \\u{1b}[36m é 398\\\"\\nk399: \\\"日本語 \\u{1b}[37m é 399\\\"\\nbad: *nowhere\\nt0: \\\"später 0 🙂\\\"\\nt1: \\\"später 1 🙂\\\"\\n\"]"),
    ("r06_reader_large_pad1_chunk1", "error: line 402 column 6: alias references unknown anchor\n   --> <input>:402:6\n    |\n400 | k398: \"日本語  [36m é 398…\n401 | k399: \"日本語  [37m é 399…\n402 | bad: *nowhere\n    |      ^ alias references unknown anchor\n403 | t0: \"später 0 🙂\"\n404 | t1: \"später 1 🙂\"\n    |\n@@ location 402:6\n@@ regions radius=16 n=1\n  [400..=405 len=118 fnv=cd734fc70734cd89 \"k398: \\\"日本語 \\u{1b}[36m é 398\\\"\\nk399: \\\"日本語 \\u{1b}[37m é 399\\\"\\nbad: *nowhere\\nt0: \\\"später 0 🙂\\\"\\nt1: \\\"später 1 🙂\\\"\\n\"]"),
    ("r06_reader_large_pad1_chunk7", "error: line 402 column 6: alias references unknown anchor\n   --> <input>:402:6\n    |\n400 | k398: \"日本語  [36m é 398…\n401 | k399: \"日本語  [37m é 399…\n402 | bad: *nowhere\n    |      ^ alias references unknown anchor\n403 | t0: \"später 0 🙂\"\n404 | t1: \"später 1 🙂\"\n    |\n@@ location 402:6\n@@ regions radius=16 n=1\n  [400..=405 len=118 fnv=cd734fc70734cd89 \"k398: \\\"日本語 \\u{1b}[36m é 398\\\"\\nk399: \\\"日本語 \\u{1b}[37m é 399\\\"\\nbad: *nowhere\\nt0: \\\"später 0 🙂\\\"\\nt1: \\\"später 1 🙂\\\"\\n\"]"),
    ("r06_reader_large_pad1_chunk4096", "error: line 402 column 6: alias references unknown anchor\n   --> <input>:402:6\n    |\n400 | k398: \"日本語  [36m é 398…\n401 | k399: \"日本語  [37m é 399…\n402 | bad: *nowhere\n    |      ^ alias references unknown anchor\n403 | t0: \"später 0 🙂\"\n404 | t1: \"später 1 🙂\"\n    |\n@@ location 402:6\n@@ regions radius=16 n=1\n  [400..=405 len=118 fnv=cd734fc70734cd89 \"k398: \\\"日本語 \\u{1b}[36m é 398\\\"\\nk399: \\\"日本語 \\u{1b}[37m é 399\\\"\\nbad: *nowhere\\nt0: \\\"später 0 🙂\\\"\\nt1: \\\"später 1 🙂\\\"\\n\"]"),
    ("r06_reader_large_pad2_chunk1", "error: line 402 column 6: alias references unknown anchor\n   --> <input>:402:6\n    |\n400 | k398: \"日本語  [36m é 398…\n401 | k399: \"日本語  [37m é 399…\n402 | bad: *nowhere\n    |      ^ alias references unknown anchor\n403 | t0: \"später 0 🙂\"\n404 | t1: \"später 1 🙂\"\n    |\n@@ location 402:6\n@@ regions radius=16 n=1\n  [400..=405 len=118 fnv=cd734fc70734cd89 \"k398: \\\"日本語 \\u{1b}[36m é 398\\\"\\nk399: \\\"日本語 \\u{1b}[37m é 399\\\"\\nbad: *nowhere\\nt0: \\\"später 0 🙂\\\"\\nt1: \\\"später 1 🙂\\\"\\n\"]"),
    ("r06_reader_large_pad2_chunk7", "error: line 402 column 6: alias references unknown anchor\n   --> <input>:402:6\n    |\n400 | k398: \"日本語  [36m é 398…\n401 | k399: \"日本語  [37m é 399…\n402 | bad: *nowhere\n    |      ^ alias references unknown anchor\n403 | t0: \"später 0 🙂\"\n404 | t1: \"später 1 🙂\"\n    |\n@@ location 402:6\n@@ regions radius=16 n=1\n  [400..=405 len=118 fnv=cd734fc70734cd89 \"k398: \\\"日本語 \\u{1b}[36m é 398\\\"\\nk399: \\\"日本語 \\u{1b}[37m é 399\\\"\\nbad: *nowhere\\nt0: \\\"später 0 🙂\\\"\\nt1: \\\"später 1 🙂\\\"\\n\"]"),
    ("r06_reader_large_pad2_chunk4096", "error: line 402 column 6: alias references unknown anchor\n   --> <input>:402:6\n    |\n400 | k398: \"日本語  [36m é 398…\n401 | k399: \"日本語  [37m é 399…\n402 | bad: *nowhere\n    |      ^ alias references unknown anchor\n403 | t0: \"später 0 🙂\"\n404 | t1: \"später 1 🙂\"\n    |\n@@ location 402:6\n@@ regions radius=16 n=1\n  [400..=405 len=118 fnv=cd734fc70734cd89 \"k398: \\\"日本語 \\u{1b}[36m é 398\\\"\\nk399: \\\"日本語 \\u{1b}[37m é 399\\\"\\nbad: *nowhere\\nt0: \\\"später 0 🙂\\\"\\nt1: \\\"später 1 🙂\\\"\\n\"]"),
    ("r06_reader_large_pad3_chunk1", "error: line 402 column 6: alias references unknown anchor\n   --> <input>:402:6\n    |\n400 | k398: \"日本語  [36m é 398…\n401 | k399: \"日本語  [37m é 399…\n402 | bad: *nowhere\n    |      ^ alias references unknown anchor\n403 | t0: \"später 0 🙂\"\n404 | t1: \"später 1 🙂\"\n    |\n@@ location 402:6\n@@ regions radius=16 n=1\n  [400..=405 len=118 fnv=cd734fc70734cd89 \"k398: \\\"日本語 \\u{1b}[36m é 398\\\"\\nk399: \\\"日本語 \\u{1b}[37m é 399\\\"\\nbad: *nowhere\\nt0: \\\"später 0 🙂\\\"\\nt1: \\\"später 1 🙂\\\"\\n\"]"),
    ("r06_reader_large_pad3_chunk7", "error: line 402 column 6: alias references unknown anchor\n   --> <input>:402:6\n    |\n400 | k398: \"日本語  [36m é 398…\n401 | k399: \"日本語  [37m é 399…\n402 | bad: *nowhere\n    |      ^ alias references unknown anchor\n403 | t0: \"später 0 🙂\"\n404 | t1: \"später 1 🙂\"\n    |\n@@ location 402:6\n@@ regions radius=16 n=1\n  [400..=405 len=118 fnv=cd734fc70734cd89 \"k398: \\\"日本語 \\u{1b}[36m é 398\\\"\\nk399: \\\"日本語 \\u{1b}[37m é 399\\\"\\nbad: *nowhere\\nt0: \\\"später 0 🙂\\\"\\nt1: \\\"später 1 🙂\\\"\\n\"]"),
    ("r06_reader_large_pad3_chunk4096", "error: line 402 column 6: alias references unknown anchor\n   --> <input>:402:6\n    |\n400 | k398: \"日本語  [36m é 398…\n401 | k399: \"日本語  [37m é 399…\n402 | bad: *nowhere\n    |      ^ alias references unknown anchor\n403 | t0: \"später 0 🙂\"\n404 | t1: \"später 1 🙂\"\n    |\n@@ location 402:6\n@@ regions radius=16 n=1\n  [400..=405 len=118 fnv=cd734fc70734cd89 \"k398: \\\"日本語 \\u{1b}[36m é 398\\\"\\nk399: \\\"日本語 \\u{1b}[37m é 399\\\"\\nbad: *nowhere\\nt0: \\\"später 0 🙂\\\"\\nt1: \\\"später 1 🙂\\\"\\n\"]"),
    ("r07_reader_error_at_very_end", "error: line 2001 column 3: invalid i32\n    --> <input>:2001:3\n     |\n1999 | - 1998\n2000 | - 1999\n2001 | - zzz\n     |   ^ invalid i32\n@@ location 2001:3\n@@ regions radius=64 n=1\n  [1999..=2001 len=19 fnv=b72365933b15f701 \"- 1998\\n- 1999\\n- zzz\"]"),
    ("r08_reader_truncated_utf8_tail", "IO error: unexpected EOF in middle of UTF-8 codepoint\n@@ location -\n@@ regions radius=64 n=0"),
    ("r09_reader_long_single_line", "invalid i32 at line 1, column 9005\n@@ location 1:9005\n@@ regions radius=64 n=1\n  [1..=2 len=3072 fnv=7a4092edb7211f66 \" 1, 1, 1, 1, 1, 1, 1, 1, 1, 1, 1, 1, 1, \"..\", 1, 1, 1, 1, 1, 1, 1, 1, 1, 1, 1, zzz]\\n\"]"),
    ("r10_reader_alias_definition_evicted", "error: line 603 column 7: invalid boolean at line 1, column 13\n   --> the value is used here:603:7\n    |\n601 |   - item number 598\n602 |   - item number 599\n603 | flag: *val\n    |       ^ invalid boolean at line 1, column 13\n  | This value comes indirectly from the anchor at line 1 column 13:\n\n@@ location 603:7\n@@ regions radius=64 n=1\n  [601..=604 len=51 fnv=ec6090c0ba04de2d \"  - item number 598\\n  - item number 599\\nflag: *val\\n\"]"),
    ("r11_reader_all_formatters", "--- user\nerror: line 2 column 4: bad ␛[31mvalue␛[0m \u{a0}2J pay␛load ␡␀\u{a0} end\n --> <input>:2:4\n  |\n1 | ok: 1\n2 | v: \"pay\\x1bload\"\n  |    ^ bad  [31mvalue [0m \u{a0}2J pay load   \u{a0} end\n--- default\nerror: line 2 column 4: bad ␛[31mvalue␛[0m \u{a0}2J pay␛load ␡␀\u{a0} end\n --> <input>:2:4\n  |\n1 | ok: 1\n2 | v: \"pay\\x1bload\"\n  |    ^ bad  [31mvalue [0m \u{a0}2J pay load   \u{a0} end\n--- default+localizer\nerror: line 2 column 4: bad ␛[31mvalue␛[0m \u{a0}2J pay␛load ␡␀\u{a0} end\n --> <input>:2:4\n  |\n1 | ok: 1\n2 | v: \"pay\\x1bload\"\n  |    ^ bad  [31mvalue [0m \u{a0}2J pay load   \u{a0} end\n--- user+localizer\nerror: line 2 column 4: bad ␛[31mvalue␛[0m \u{a0}2J pay␛load ␡␀\u{a0} end\n --> <input>:2:4\n  |\n1 | ok: 1\n2 | v: \"pay\\x1bload\"\n  |    ^ bad  [31mvalue [0m \u{a0}2J pay load   \u{a0} end\n--- off\nbad  [31mvalue [0m \u{a0}2J pay load   \u{a0} end at line 2, column 4\n--- without_snippet\nbad  [31mvalue [0m \u{a0}2J pay load   \u{a0} end at line 2, column 4\n"),
    ("r12_reader_fragment_starts_mid_char_pad0", "error: line 2 column 6: alias references unknown anchor\n --> <input>:2:6\n  |\n1 | 日日日日日日日日日日日日日日日日日日日日日日日日日日日日日日日日日日日日日日日日日日日日日日日日日日日日日日日日日日日日日日日日日日...\n2 | bad: *nowhere\n  |      ^ alias references unknown anchor\n3 | z: 1\n  |\n@@ location 2:6\n@@ regions radius=64 n=1\n  [1..=4 len=3072 fnv=e81cfcc862507573 \"日日日日日日日日日日日日日日日日日日日日日日日日日日日日日日日日日日日日日日日日\"..\"日日日日日日日日日日日日日日日日日日日\\\"\\nbad: *nowhere\\nz: 1\\n\"]"),
    ("r12_reader_fragment_starts_mid_char_pad1", "OK {\"k\": \"日日日日日日日日日日日日日日日日日日日日日日日日日日日日日日日日日日日日日日日日日日日日日日日日日日日日日日日日日日日日日日日日日日日日日日日日日日日日日日日日日日日日日日日日日日日日日日日日日日日日日日日日日日日日日日日日日日日日日日日日日日日日日日日日日日日日日日日日日日日日日日日日日日日日日日日日日日日日日日日日日日日日日日日日日日日日日日日日日日日日日日日日日日日日日日日日日日日日日日日日日日日日日日日日日日日日日日日日日日日日日日日日日日日日日日日日日日日日日日日日日日日日日日日日日日日日日日日日日日日日日日日日日日日日日日日日日日日日日日日日日日日日日日日日日日日日日日日日日日日日日日日日日日日日日日日日日日日日日日日日日日日日日日日日日日日日日日日日日日日日日日日日日日日日日日日日日日日日日日日日日日日日日日日日日日日日日日日日日日日日日日日日日日日日日日日日日日日日日日日日日日日日日日日日日日日日日日日日日日日日日日日日日日日日日日日日日日日日日日日日日日日日日日日日日日日日日日日日日日日日日日日日日日日日日日日日日日日日日日日日日日日日日日日日日日日日日日日日日日日日日日日日日日日日日日日日日日日日日日日日日日日日日日日日日日日日日日日日日日日日日日日日日日日日日日日日日日日日日日日日日日日日日日日日日日日日日日日日日日日日日日日日日日日日日日日日日日日日日日日日日日日日日日日日日日日日日日日日日日日日日日日日日日日日日日日日日日日日日日日日日日日日日日日日日日日日日日日日日日日日日日日日日日日日日日日日日日日日日日日日日日日日日日日日日日日日日日日日日日日日日日日日日日日日日日日日日日日日日日日日日日日日日日日日日日日日日日日日日日日日日日日日日日日日日日日日日日日日日日日日日日日日日日日日日日日日日日日日日日日日日日日日日日日日日日日日日日日日日日日日日日日日日日日日日日日日日日日日日日日日日日日日日日日日日日日日日日日日日日日日日日日日日日日日日日日日日日日日日日日日日日日日日日日日日日日日日日日日日日日日日日日日日日日日日日日日日日日日日日日日日日日日日日日日日日日日日日日日日日日日日日日日日日日日日日日日日日日日日日日日日日日日日日日日日日日日日日日日日日日日日日日日日日日日日日日日日日日日日日日日日日日日日日日日日日日日日日日日日日日日日日日日日日日日日日日日日日日日日日日日日日日日日日日日日日日日日日日日日日日日日日日日日日日日日日日日日日日日日日日日日日日日日日日日日日日日日日日日日日日日日日日日日日日日日日日日日日日日日日日日日日日日日日日日日日日日日日日日日日日日日日日日日日日日日日日日日日日日日日日日日日日日日日日日日日日日日日日日日日日日日日日日日日日日日日日日日日日日日日日日日日日日日日日日日日日日日日日日日日日日日日日日日日日日日日日日日日日日日日日日日日日日日日日日日日日日日日日日日日日日日日日日日日日日日日日日日日日日日日日日日日日日日日日日日日日日日日日日日日日日日日日日日日日日日日日日日日日日日日日日日日日日日日日日日日日日日日日日日日日日日日日日日日日日日日日日日日日日日日日日日日日日日日日日日日日日日日日日日日日日日日日日日日日日日日日日日日日日日日日日日日日日日日日日日日日日日日日日日日日日日日日日日日日日日日日日日日日日日日日日日日日日日日日日日日日日日日日日日日日日日日日日日日日日日日日日日日日日日日日日日日日日日日日日日日日日日日日日日日日日日日日日日日日日日日日日日日日日日日日日日日日日日日日日日日日日日日日日日日日日日日日日日日日日日日日日日日日日日日日日日日日日日日日日日日日日日日日日日日日日日日日日日日日日日日日日日日日日日日日日日日日日日日日日日日日日日日日日日日日日日日日日日日日日日日日日日日日日日日日日日日日日日日日日日日日日日日日日日日日日日日日日日日日日日日日日日日日日日日日日日日日日日日日日日日日日日日日日日日日日日日日日日日日日日日日日日日日日日日日日日日日日日日日日日日日日日日日日日日日日日日日日日日日日日日日日日日日日日日日日日日日日日日日日日日日日日日日日日日日日日日日日日日日日日日日日日日日日日日日日日日日日日日日日日日日日日日日日日日日日日日日日日日日日日日日日日日日日日日日日日日日日日日日日日日日日日日日日日日日日日日日日日日日日日日日日日日日日日日日日日日日日日日日日日日日日日日日日日日日日日日日日日日日日日日日日日日日日日日日日日日日日日日日日日日日日日日日日日日日日日日日日日日日日日日日日日日日日日日日日日日日日日日日日日日日日日日日日日日日日日日日日日日日日日日日日日日日日日日日日日日日日日日日日日日日日日日日日日日日日\"}"),
    ("r12_reader_fragment_starts_mid_char_pad2", "OK {\"k\": \"日日日日日日日日日日日日日日日日日日日日日日日日日日日日日日日日日日日日日日日日日日日日日日日日日日日日日日日日日日日日日日日日日日日日日日日日日日日日日日日日日日日日日日日日日日日日日日日日日日日日日日日日日日日日日日日日日日日日日日日日日日日日日日日日日日日日日日日日日日日日日日日日日日日日日日日日日日日日日日日日日日日日日日日日日日日日日日日日日日日日日日日日日日日日日日日日日日日日日日日日日日日日日日日日日日日日日日日日日日日日日日日日日日日日日日日日日日日日日日日日日日日日日日日日日日日日日日日日日日日日日日日日日日日日日日日日日日日日日日日日日日日日日日日日日日日日日日日日日日日日日日日日日日日日日日日日日日日日日日日日日日日日日日日日日日日日日日日日日日日日日日日日日日日日日日日日日日日日日日日日日日日日日日日日日日日日日日日日日日日日日日日日日日日日日日日日日日日日日日日日日日日日日日日日日日日日日日日日日日日日日日日日日日日日日日日日日日日日日日日日日日日日日日日日日日日日日日日日日日日日日日日日日日日日日日日日日日日日日日日日日日日日日日日日日日日日日日日日日日日日日日日日日日日日日日日日日日日日日日日日日日日日日日日日日日日日日日日日日日日日日日日日日日日日日日日日日日日日日日日日日日日日日日日日日日日日日日日日日日日日日日日日日日日日日日日日日日日日日日日日日日日日日日日日日日日日日日日日日日日日日日日日日日日日日日日日日日日日日日日日日日日日日日日日日日日日日日日日日日日日日日日日日日日日日日日日日日日日日日日日日日日日日日日日日日日日日日日日日日日日日日日日日日日日日日日日日日日日日日日日日日日日日日日日日日日日日日日日日日日日日日日日日日日日日日日日日日日日日日日日日日日日日日日日日日日日日日日日日日日日日日日日日日日日日日日日日日日日日日日日日日日日日日日日日日日日日日日日日日日日日日日日日日日日日日日日日日日日日日日日日日日日日日日日日日日日日日日日日日日日日日日日日日日日日日日日日日日日日日日日日日日日日日日日日日日日日日日日日日日日日日日日日日日日日日日日日日日日日日日日日日日日日日日日日日日日日日日日日日日日日日日日日日日日日日日日日日日日日日日日日日日日日日日日日日日日日日日日日日日日日日日日日日日日日日日日日日日日日日日日日日日日日日日日日日日日日日日日日日日日日日日日日日日日日日日日日日日日日日日日日日日日日日日日日日日日日日日日日日日日日日日日日日日日日日日日日日日日日日日日日日日日日日日日日日日日日日日日日日日日日日日日日日日日日日日日日日日日日日日日日日日日日日日日日日日日日日日日日日日日日日日日日日日日日日日日日日日日日日日日日日日日日日日日日日日日日日日日日日日日日日日日日日日日日日日日日日日日日日日日日日日日日日日日日日日日日日日日日日日日日日日日日日日日日日日日日日日日日日日日日日日日日日日日日日日日日日日日日日日日日日日日日日日日日日日日日日日日日日日日日日日日日日日日日日日日日日日日日日日日日日日日日日日日日日日日日日日日日日日日日日日日日日日日日日日日日日日日日日日日日日日日日日日日日日日日日日日日日日日日日日日日日日日日日日日日日日日日日日日日日日日日日日日日日日日日日日日日日日日日日日日日日日日日日日日日日日日日日日日日日日日日日日日日日日日日日日日日日日日日日日日日日日日日日日日日日日日日日日日日日日日日日日日日日日日日日日日日日日日日日日日日日日日日日日日日日日日日日日日日日日日日日日日日日日日日日日日日日日日日日日日日日日日日日日日日日日日日日日日日日日日日日日日日日日日日日日日日日日日日日日日日日日日日日日日日日日日日日日日日日日日日日日日日日日日日日日日日日日日日日日日日日日日日日日日日日日日日日日日日日日日日日日日日日日日日日日日日日日日日日日日日日日日日日日日日日日日日日日日日日日日日日日日日日日日日日日日日日日日日日日日日日日日日日日日日日日日日日日日日日日日日日日日日日日日日日日日日日日日日日日日日日日日日日日日日日日日日日日日日日日日日日日日日日日日日日日日日日日日日日日日日日日日日日日日日日日日日日日日日日日日日日日日日日日日日日日日日日日日日日日日日日日日日日日日日日日日日日日日日日日日日日日日日日日日日日日日日日日日日日日日日日日日日日日日日日日日日日日日日日日日日日日日日日日日日日日日日日日日日日日日日日日日日日日日日日日日日日日日日日日日日日日日日日日日日日日日日日日日日日日日日日日日日日日日日日日日日日日日日日日日日日日日日日日日日日日日日日日日日日日日日日日日日日日日日日日日日日日日日日日日日日日日日日日日日日日日日日日日日\"}"),
    ("r13_reader_read_ahead_ends_mid_char_pad0", "error: line 2 column 6: alias references unknown anchor\n --> <input>:2:6\n  |\n1 | a: 1\n2 | bad: *nowhere\n  |      ^ alias references unknown anchor\n3 | next: \"🙂🙂🙂🙂🙂🙂…\n  |\n@@ location 2:6\n@@ regions radius=7 n=1\n  [1..=3 len=1050 fnv=d9d968fd9ac599d7 \"a: 1\\nbad: *nowhere\\nnext: \\\"🙂🙂🙂🙂🙂🙂🙂🙂🙂🙂🙂🙂🙂🙂\"..\"🙂🙂🙂🙂🙂🙂🙂🙂🙂🙂🙂🙂🙂🙂🙂🙂🙂🙂🙂🙂🙂🙂🙂🙂🙂🙂🙂🙂🙂🙂🙂🙂🙂🙂🙂🙂🙂🙂🙂🙂\"]"),
    ("r13_reader_read_ahead_ends_mid_char_pad1", "error: line 2 column 6: alias references unknown anchor\n --> <input>:2:6\n  |\n1 | a: 1\n2 | bad: *nowhere…\n  |      ^ alias references unknown anchor\n3 | next: \"🙂🙂🙂🙂🙂🙂…\n  |\n@@ location 2:6\n@@ regions radius=7 n=1\n  [1..=3 len=1051 fnv=eef0caf60aa8bb4b \"a: 1\\nbad: *nowhere \\nnext: \\\"🙂🙂🙂🙂🙂🙂🙂🙂🙂🙂🙂🙂🙂\"..\"🙂🙂🙂🙂🙂🙂🙂🙂🙂🙂🙂🙂🙂🙂🙂🙂🙂🙂🙂🙂🙂🙂🙂🙂🙂🙂🙂🙂🙂🙂🙂🙂🙂🙂🙂🙂🙂🙂🙂🙂\"]"),
    ("r13_reader_read_ahead_ends_mid_char_pad2", "error: line 2 column 6: alias references unknown anchor\n --> <input>:2:6\n  |\n1 | a: 1\n2 | bad: *nowhere…\n  |      ^ alias references unknown anchor\n3 | next: \"🙂🙂🙂🙂🙂🙂…\n  |\n@@ location 2:6\n@@ regions radius=7 n=1\n  [1..=3 len=1048 fnv=b095c12025d46e99 \"a: 1\\nbad: *nowhere  \\nnext: \\\"🙂🙂🙂🙂🙂🙂🙂🙂🙂🙂🙂🙂\"..\"🙂🙂🙂🙂🙂🙂🙂🙂🙂🙂🙂🙂🙂🙂🙂🙂🙂🙂🙂🙂🙂🙂🙂🙂🙂🙂🙂🙂🙂🙂🙂🙂🙂🙂🙂🙂🙂🙂🙂🙂\"]"),
    ("r13_reader_read_ahead_ends_mid_char_pad3", "error: line 2 column 6: alias references unknown anchor\n --> <input>:2:6\n  |\n1 | a: 1\n2 | bad: *nowhere…\n  |      ^ alias references unknown anchor\n3 | next: \"🙂🙂🙂🙂🙂🙂…\n  |\n@@ location 2:6\n@@ regions radius=7 n=1\n  [1..=3 len=1049 fnv=914faccff4dfb375 \"a: 1\\nbad: *nowhere   \\nnext: \\\"🙂🙂🙂🙂🙂🙂🙂🙂🙂🙂🙂\"..\"🙂🙂🙂🙂🙂🙂🙂🙂🙂🙂🙂🙂🙂🙂🙂🙂🙂🙂🙂🙂🙂🙂🙂🙂🙂🙂🙂🙂🙂🙂🙂🙂🙂🙂🙂🙂🙂🙂🙂🙂\"]"),
    ("g01_garde_alias_radius_64", "error: line 8 column 6: validation error: lower than 10 for `age`\n --> (defined):8:6\n  |\n6 | # c5\n7 | nickname: *short\n8 | age: 3 #  [31m\n  |      ^ validation error: lower than 10 for `age`\nerror: line 7 column 11: invalid here, validation error: length is lower than 2 for `nickname`\n --> the value is used here:7:11\n  |\n6 | # c5\n7 | nickname: *short\n  |           ^ invalid here, validation error: length is lower than 2 for `nickname`\n8 | age: 3 #  [31m\n  |\n  | This value comes indirectly from the anchor at line 1 column 14:\n  |\n1 | name: &short \"x\"\n  |              ^ defined here\n2 | # c1\n3 | # c2\n  |\n\n@@ location 8:6\n@@ regions radius=64 n=3\n  [6..=9 len=37 fnv=24e68fab659a12b4 \"# c5\\nnickname: *short\\nage: 3 # \\u{1b}[31m\\n\"]\n  [5..=9 len=42 fnv=0d9ea3236fb3a2d8 \"# c4\\n# c5\\nnickname: *short\\nage: 3 # \\u{1b}[31m\\n\"]\n  [1..=4 len=27 fnv=b5c7690b8a80f693 \"name: &short \\\"x\\\"\\n# c1\\n# c2\\n\"]"),
    ("g01_garde_alias_radius_3", "error: line 8 column 6: validation error: lower than 10 for `age`\n --> (defined):8:5\n  |\n6 | …c5\n7 | …ckname:…\n8 | …e: 3 # …\n  |     ^ validation error: lower than 10 for `age`\nerror: line 7 column 11: invalid here, validation error: length is lower than 2 for `nickname`\n --> the value is used here:7:5\n  |\n6 | # c5\n7 | …e: *sho…\n  |     ^ invalid here, validation error: length is lower than 2 for `nickname`\n8 | …#  [31m\n  |\n  | This value comes indirectly from the anchor at line 1 column 14:\n  |\n1 | …rt \"x\"\n  |     ^ defined here\n2 | # c1\n3 | # c2\n  |\n\n@@ location 8:6\n@@ regions radius=3 n=3\n  [6..=9 len=37 fnv=24e68fab659a12b4 \"# c5\\nnickname: *short\\nage: 3 # \\u{1b}[31m\\n\"]\n  [5..=9 len=42 fnv=0d9ea3236fb3a2d8 \"# c4\\n# c5\\nnickname: *short\\nage: 3 # \\u{1b}[31m\\n\"]\n  [1..=4 len=27 fnv=b5c7690b8a80f693 \"name: &short \\\"x\\\"\\n# c1\\n# c2\\n\"]"),
    ("g02_garde_all_formatters", "--- user\nerror: line 8 column 6: validation error: lower than 10 for `age`\n --> (defined):8:6\n  |\n6 | # c5\n7 | nickname: *short\n8 | age: 3 #  [31m\n  |      ^ validation error: lower than 10 for `age`\nerror: line 7 column 11: invalid here, validation error: length is lower than 2 for `nickname`\n --> the value is used here:7:11\n  |\n6 | # c5\n7 | nickname: *short\n  |           ^ invalid here, validation error: length is lower than 2 for `nickname`\n8 | age: 3 #  [31m\n  |\n  | This value comes indirectly from the anchor at line 1 column 14:\n  |\n1 | name: &short \"x\"\n  |              ^ defined here\n2 | # c1\n3 | # c2\n  |\n\n--- default\nerror: line 8 column 6: validation error: lower than 10 for `age`\n --> (defined):8:6\n  |\n6 | # c5\n7 | nickname: *short\n8 | age: 3 #  [31m\n  |      ^ validation error: lower than 10 for `age`\nerror: line 7 column 11: invalid here, validation error: length is lower than 2 for `nickname`\n --> the value is used here:7:11\n  |\n6 | # c5\n7 | nickname: *short\n  |           ^ invalid here, validation error: length is lower than 2 for `nickname`\n8 | age: 3 #  [31m\n  |\n  | This value comes indirectly from the anchor at line 1 column 14:\n  |\n1 | name: &short \"x\"\n  |              ^ defined here\n2 | # c1\n3 | # c2\n  |\n\n--- default+localizer\nerror: line 8 column 6: validation error: lower than 10 for `age`\n --> (defined):8:6\n  |\n6 | # c5\n7 | nickname: *short\n8 | age: 3 #  [31m\n  |      ^ validation error: lower than 10 for `age`\nerror: line 7 column 11: invalid here, validation error: length is lower than 2 for `nickname`\n --> the value is used here:7:11\n  |\n6 | # c5\n7 | nickname: *short\n  |           ^ invalid here, validation error: length is lower than 2 for `nickname`\n8 | age: 3 #  [31m\n  |\n  | This value comes indirectly from the anchor at line 1 column 14:\n  |\n1 | name: &short \"x\"\n  |              ^ defined here\n2 | # c1\n3 | # c2\n  |\n\n--- user+localizer\nerror: line 8 column 6: validation error: lower than 10 for `age`\n --> (defined):8:6\n  |\n6 | # c5\n7 | nickname: *short\n8 | age: 3 #  [31m\n  |      ^ validation error: lower than 10 for `age`\nerror: line 7 column 11: invalid here, validation error: length is lower than 2 for `nickname`\n --> the value is used here:7:11\n  |\n6 | # c5\n7 | nickname: *short\n  |           ^ invalid here, validation error: length is lower than 2 for `nickname`\n8 | age: 3 #  [31m\n  |\n  | This value comes indirectly from the anchor at line 1 column 14:\n  |\n1 | name: &short \"x\"\n  |              ^ defined here\n2 | # c1\n3 | # c2\n  |\n\n--- off\nvalidation error at age: lower than 10 at line 8, column 6\nvalidation error at nickname: length is lower than 2 at line 7, column 11\n--- without_snippet\nvalidation error at age: lower than 10 at line 8, column 6\nvalidation error at nickname: length is lower than 2 at line 7, column 11\n"),
    ("g03_garde_reader", "validation error at age: lower than 10 at line 8, column 6\nvalidation error at nickname: length is lower than 2 at line 7, column 11\n@@ location 8:6\n@@ regions none"),
    ("g04_garde_multiple", "validation failed for 2 document(s)\nerror: line 8 column 6: validation error: lower than 10 for `age`\n  --> (defined):8:6\n   |\n 6 | # c5\n 7 | nickname: *short\n 8 | age: 3 #  [31m\n   |      ^ validation error: lower than 10 for `age`\n 9 | ---\n10 | name: &short \"x\"\n   |\nerror: line 7 column 11: invalid here, validation error: length is lower than 2 for `nickname`\n --> the value is used here:7:11\n  |\n6 | # c5\n7 | nickname: *short\n  |           ^ invalid here, validation error: length is lower than 2 for `nickname`\n8 | age: 3 #  [31m\n9 | ---\n  |\n  | This value comes indirectly from the anchor at line 1 column 14:\n  |\n1 | name: &short \"x\"\n  |              ^ defined here\n2 | # c1\n3 | # c2\n  |\n\n\nerror: line 17 column 6: validation error: lower than 10 for `age`\n  --> (defined):17:6\n   |\n15 | # c5\n16 | nickname: *short\n17 | age: 3 #  [31m\n   |      ^ validation error: lower than 10 for `age`\nerror: line 16 column 11: invalid here, validation error: length is lower than 2 for `nickname`\n  --> the value is used here:16:11\n   |\n15 | # c5\n16 | nickname: *short\n   |           ^ invalid here, validation error: length is lower than 2 for `nickname`\n17 | age: 3 #  [31m\n   |\n  | This value comes indirectly from the anchor at line 10 column 14:\n   |\n 8 | age: 3 #  [31m\n 9 | ---\n10 | name: &short \"x\"\n   |              ^ defined here\n11 | # c1\n12 | # c2\n   |\n\n@@ location 8:6\n@@ regions none"),
    ("v01_validator_alias_radius_64", "error: line 8 column 6: validation error: range (min=10, value=3) for `age`\n --> (defined):8:6\n  |\n6 | # c5\n7 | nickname: *short\n8 | age: 3 # \u{a0}31m\n  |      ^ validation error: range (min=10, value=3) for `age`\nerror: line 7 column 11: invalid here, validation error: length (min=2, value=\"x\") for `nickname`\n --> the value is used here:7:11\n  |\n6 | # c5\n7 | nickname: *short\n  |           ^ invalid here, validation error: length (min=2, value=\"x\") for `nickname`\n8 | age: 3 # \u{a0}31m\n  |\n  | This value comes indirectly from the anchor at line 1 column 14:\n  |\n1 | name: &short \"x\"\n  |              ^ defined here\n2 | # c1\n3 | # c2\n  |\n\n@@ location 8:6\n@@ regions radius=64 n=3\n  [6..=9 len=37 fnv=1363f6604b511d4d \"# c5\\nnickname: *short\\nage: 3 # \\u{9b}31m\\n\"]\n  [5..=9 len=42 fnv=98840f94268aaa91 \"# c4\\n# c5\\nnickname: *short\\nage: 3 # \\u{9b}31m\\n\"]\n  [1..=4 len=27 fnv=b5c7690b8a80f693 \"name: &short \\\"x\\\"\\n# c1\\n# c2\\n\"]"),
    ("v01_validator_alias_radius_3", "error: line 8 column 6: validation error: range (min=10, value=3) for `age`\n --> (defined):8:5\n  |\n6 | …c5\n7 | …ckname:…\n8 | …e: 3 # …\n  |     ^ validation error: range (min=10, value=3) for `age`\nerror: line 7 column 11: invalid here, validation error: length (min=2, value=\"x\") for `nickname`\n --> the value is used here:7:5\n  |\n6 | # c5\n7 | …e: *sho…\n  |     ^ invalid here, validation error: length (min=2, value=\"x\") for `nickname`\n8 | …# \u{a0}31m\n  |\n  | This value comes indirectly from the anchor at line 1 column 14:\n  |\n1 | …rt \"x\"\n  |     ^ defined here\n2 | # c1\n3 | # c2\n  |\n\n@@ location 8:6\n@@ regions radius=3 n=3\n  [6..=9 len=37 fnv=1363f6604b511d4d \"# c5\\nnickname: *short\\nage: 3 # \\u{9b}31m\\n\"]\n  [5..=9 len=42 fnv=98840f94268aaa91 \"# c4\\n# c5\\nnickname: *short\\nage: 3 # \\u{9b}31m\\n\"]\n  [1..=4 len=27 fnv=b5c7690b8a80f693 \"name: &short \\\"x\\\"\\n# c1\\n# c2\\n\"]"),
    ("v02_validator_all_formatters", "--- user\nerror: line 8 column 6: validation error: range (min=10, value=3) for `age`\n --> (defined):8:6\n  |\n6 | # c5\n7 | nickname: *short\n8 | age: 3 # \u{a0}31m\n  |      ^ validation error: range (min=10, value=3) for `age`\nerror: line 7 column 11: invalid here, validation error: length (min=2, value=\"x\") for `nickname`\n --> the value is used here:7:11\n  |\n6 | # c5\n7 | nickname: *short\n  |           ^ invalid here, validation error: length (min=2, value=\"x\") for `nickname`\n8 | age: 3 # \u{a0}31m\n  |\n  | This value comes indirectly from the anchor at line 1 column 14:\n  |\n1 | name: &short \"x\"\n  |              ^ defined here\n2 | # c1\n3 | # c2\n  |\n\n--- default\nerror: line 8 column 6: validation error: range (min=10, value=3) for `age`\n --> (defined):8:6\n  |\n6 | # c5\n7 | nickname: *short\n8 | age: 3 # \u{a0}31m\n  |      ^ validation error: range (min=10, value=3) for `age`\nerror: line 7 column 11: invalid here, validation error: length (min=2, value=\"x\") for `nickname`\n --> the value is used here:7:11\n  |\n6 | # c5\n7 | nickname: *short\n  |           ^ invalid here, validation error: length (min=2, value=\"x\") for `nickname`\n8 | age: 3 # \u{a0}31m\n  |\n  | This value comes indirectly from the anchor at line 1 column 14:\n  |\n1 | name: &short \"x\"\n  |              ^ defined here\n2 | # c1\n3 | # c2\n  |\n\n--- default+localizer\nerror: line 8 column 6: validation error: range (min=10, value=3) for `age`\n --> (defined):8:6\n  |\n6 | # c5\n7 | nickname: *short\n8 | age: 3 # \u{a0}31m\n  |      ^ validation error: range (min=10, value=3) for `age`\nerror: line 7 column 11: invalid here, validation error: length (min=2, value=\"x\") for `nickname`\n --> the value is used here:7:11\n  |\n6 | # c5\n7 | nickname: *short\n  |           ^ invalid here, validation error: length (min=2, value=\"x\") for `nickname`\n8 | age: 3 # \u{a0}31m\n  |\n  | This value comes indirectly from the anchor at line 1 column 14:\n  |\n1 | name: &short \"x\"\n  |              ^ defined here\n2 | # c1\n3 | # c2\n  |\n\n--- user+localizer\nerror: line 8 column 6: validation error: range (min=10, value=3) for `age`\n --> (defined):8:6\n  |\n6 | # c5\n7 | nickname: *short\n8 | age: 3 # \u{a0}31m\n  |      ^ validation error: range (min=10, value=3) for `age`\nerror: line 7 column 11: invalid here, validation error: length (min=2, value=\"x\") for `nickname`\n --> the value is used here:7:11\n  |\n6 | # c5\n7 | nickname: *short\n  |           ^ invalid here, validation error: length (min=2, value=\"x\") for `nickname`\n8 | age: 3 # \u{a0}31m\n  |\n  | This value comes indirectly from the anchor at line 1 column 14:\n  |\n1 | name: &short \"x\"\n  |              ^ defined here\n2 | # c1\n3 | # c2\n  |\n\n--- off\nvalidation error at age: range (min=10, value=3) at line 8, column 6\nvalidation error at nickname: length (min=2, value=\"x\") at line 7, column 11\n--- without_snippet\nvalidation error at age: range (min=10, value=3) at line 8, column 6\nvalidation error at nickname: length (min=2, value=\"x\") at line 7, column 11\n"),
    ("v03_validator_reader", "validation error at age: range (min=10, value=3) at line 8, column 6\nvalidation error at nickname: length (min=2, value=\"x\") at line 7, column 11\n@@ location 8:6\n@@ regions none"),
    ("m01_ascii", "--- default\nmessage: invalid i32\nlabel: offset=8 len=1 text=Some(\"invalid i32\")\n  x invalid i32\n   ,-[in.yaml:2:4]\n 1 | a: 1\n 2 | b: x\n   :    |\n   :    `-- invalid i32\n   `----\n--- user\nmessage: invalid i32\nlabel: offset=8 len=1 text=Some(\"invalid i32\")\n  x invalid i32\n   ,-[in.yaml:2:4]\n 1 | a: 1\n 2 | b: x\n   :    |\n   :    `-- invalid i32\n   `----\n"),
    ("m02_non_ascii_prefix", "--- default\nmessage: invalid i32\nlabel: offset=13 len=12 text=Some(\"invalid i32\")\n  x invalid i32\n   ,-[in.yaml:2:4]\n 1 | αβγ: 1\n 2 | b: \"日本語\" \n   :    ^^^^|^^^^\n   :        `-- invalid i32\n 3 | a: zzz\n   `----\n--- user\nmessage: invalid i32\nlabel: offset=13 len=12 text=Some(\"invalid i32\")\n  x invalid i32\n   ,-[in.yaml:2:4]\n 1 | αβγ: 1\n 2 | b: \"日本語\" \n   :    ^^^^|^^^^\n   :        `-- invalid i32\n 3 | a: zzz\n   `----\n"),
    ("m03_controls_in_source", "--- default\nmessage: invalid i32\nlabel: offset=21 len=3 text=Some(\"invalid i32\")\n  x invalid i32\n   ,-[in.yaml:2:4]\n 1 | a: 1 #  [31m \u{a0}  \n 2 | b: x\u{a0}\n   :    ^|\n   :     `-- invalid i32\n   `----\n--- user\nmessage: invalid i32\nlabel: offset=21 len=3 text=Some(\"invalid i32\")\n  x invalid i32\n   ,-[in.yaml:2:4]\n 1 | a: 1 #  [31m \u{a0}  \n 2 | b: x\u{a0}\n   :    ^|\n   :     `-- invalid i32\n   `----\n"),
    ("m04_eof", "--- default\nmessage: unexpected event: expected string scalar\nlabel: offset=3 len=1 text=Some(\"unexpected event: expected string scalar\")\n  x unexpected event: expected string scalar\n   ,-[in.yaml:1:4]\n 1 | a: [1,\n   :    |\n   :    `-- unexpected event: expected string scalar\n   `----\n--- user\nmessage: unexpected event: expected string scalar\nlabel: offset=3 len=1 text=Some(\"unexpected event: expected string scalar\")\n  x unexpected event: expected string scalar\n   ,-[in.yaml:1:4]\n 1 | a: [1,\n   :    |\n   :    `-- unexpected event: expected string scalar\n   `----\n"),
    ("m05_alias", "--- default\nmessage: invalid i32\nlabel: offset=6 len=2 text=Some(\"invalid i32\")\n  x invalid i32\n   ,-[in.yaml:1:7]\n 1 | a: &v zz\n   :       ^|\n   :        `-- invalid i32\n 2 | b: *v\n   `----\n--- user\nmessage: invalid i32\nlabel: offset=6 len=2 text=Some(\"invalid i32\")\n  x invalid i32\n   ,-[in.yaml:1:7]\n 1 | a: &v zz\n   :       ^|\n   :        `-- invalid i32\n 2 | b: *v\n   `----\n"),
    ("m06_last_char_non_ascii", "--- default\nmessage: invalid i32\nlabel: offset=8 len=4 text=Some(\"invalid i32\")\n  x invalid i32\n   ,-[in.yaml:2:4]\n 1 | a: 1\n 2 | b: 🙂\n   :    ^|\n   :     `-- invalid i32\n   `----\n--- user\nmessage: invalid i32\nlabel: offset=8 len=4 text=Some(\"invalid i32\")\n  x invalid i32\n   ,-[in.yaml:2:4]\n 1 | a: 1\n 2 | b: 🙂\n   :    ^|\n   :     `-- invalid i32\n   `----\n"),
    ("m07_empty", "--- default\nmessage: unexpected end of input\nlabel: offset=0 len=0 text=Some(\"unexpected end of input\")\n  x unexpected end of input\n   ,-[in.yaml:1:1]\n   `----\n--- user\nmessage: unexpected end of file\nlabel: offset=0 len=0 text=Some(\"unexpected end of file\")\n  x unexpected end of file\n   ,-[in.yaml:1:1]\n   `----\n"),
    ("m08_source_shorter_than_span", "--- default\nmessage: duplicate mapping key: a, set DuplicateKeyPolicy in Options if acceptable\nlabels: none\n  x duplicate mapping key: a, set DuplicateKeyPolicy in Options if acceptable\n--- user\nmessage: duplicate mapping key: a not allowed here\nlabels: none\n  x duplicate mapping key: a not allowed here\n"),
    ("m09_reader_error", "--- default\nmessage: invalid i32\nlabel: offset=8 len=5 text=Some(\"invalid i32\")\n  x invalid i32\n   ,-[in.yaml:2:4]\n 1 | a: 1\n 2 | b: \"é\" \n   :    ^^|^\n   :      `-- invalid i32\n 3 | b: x\n   `----\n--- user\nmessage: invalid i32\nlabel: offset=8 len=5 text=Some(\"invalid i32\")\n  x invalid i32\n   ,-[in.yaml:2:4]\n 1 | a: 1\n 2 | b: \"é\" \n   :    ^^|^\n   :      `-- invalid i32\n 3 | b: x\n   `----\n"),
];

#[test]
fn differential() {
    let cases = cases();

    if let Ok(path) = std::env::var("DEMO_PRINT") {
        let mut text = String::new();
        for (name, got) in &cases {
            text.push_str(&format!("    ({name:?}, {got:?}),\n"));
        }
        std::fs::write(&path, text).unwrap();
        return;
    }

    let expected: BTreeMap<&str, &str> = EXPECTED.iter().copied().collect();
    assert!(cases.len() >= 30, "only {} cases", cases.len());

    let mut failures = Vec::new();
    for (name, got) in &cases {
        match expected.get(name.as_str()) {
            None => failures.push(format!("case {name}: no expected value recorded")),
            Some(want) if *want != got.as_str() => failures.push(format!(
                "case {name}:\n--- expected\n{want}\n--- got\n{got}\n"
            )),
            Some(_) => {}
        }
    }
    assert!(
        failures.is_empty(),
        "{} of {} cases differ:\n{}",
        failures.len(),
        cases.len(),
        failures.join("\n")
    );
}
