//! Differential test for the C04 control refactoring (duplicate-key policy, key capture,
//! `MA::next_key_seed`, `MA::skip_one_node`, `capture_node`).
//!
//! The transcript in `EXPECTED` was generated on the UNMODIFIED tree with
//! `DEMO_PRINT=1 cargo test --offline --test demo -- --nocapture` and pasted in verbatim.
//! The same file must pass on the unmodified tree and on the refactored tree.

use std::collections::BTreeMap;
use std::fmt;
use std::marker::PhantomData;

use serde::Deserialize;
use serde::de::{self, DeserializeOwned, Deserializer, IgnoredAny, MapAccess, SeqAccess, Visitor};
use serde_saphyr::options::DuplicateKeyPolicy;
use serde_saphyr::{Error, Spanned, from_multiple_with_options, from_str_with_options};

// ---------------------------------------------------------------------------------------------
// An untyped node that keeps mapping entries in delivery order (so LastWins shows every entry).
// ---------------------------------------------------------------------------------------------

#[derive(Clone, PartialEq)]
enum Node {
    Null,
    Bool(bool),
    I(i64),
    U(u64),
    F(f64),
    S(String),
    Seq(Vec<Node>),
    Map(Vec<(Node, Node)>),
}

impl fmt::Debug for Node {
    fn fmt(&self, f: &mut fmt::Formatter<'_>) -> fmt::Result {
        match self {
            Node::Null => write!(f, "~"),
            Node::Bool(b) => write!(f, "{b}"),
            Node::I(i) => write!(f, "{i}i"),
            Node::U(u) => write!(f, "{u}u"),
            Node::F(x) => write!(f, "{x:?}f"),
            Node::S(s) => write!(f, "{s:?}"),
            Node::Seq(v) => {
                write!(f, "[")?;
                for (i, n) in v.iter().enumerate() {
                    if i > 0 {
                        write!(f, ", ")?;
                    }
                    write!(f, "{n:?}")?;
                }
                write!(f, "]")
            }
            Node::Map(v) => {
                write!(f, "{{")?;
                for (i, (k, val)) in v.iter().enumerate() {
                    if i > 0 {
                        write!(f, ", ")?;
                    }
                    write!(f, "{k:?}: {val:?}")?;
                }
                write!(f, "}}")
            }
        }
    }
}

impl<'de> Deserialize<'de> for Node {
    fn deserialize<D: Deserializer<'de>>(d: D) -> Result<Self, D::Error> {
        struct V;
        impl<'de> Visitor<'de> for V {
            type Value = Node;
            fn expecting(&self, f: &mut fmt::Formatter) -> fmt::Result {
                f.write_str("any YAML node")
            }
            fn visit_unit<E>(self) -> Result<Node, E> {
                Ok(Node::Null)
            }
            fn visit_none<E>(self) -> Result<Node, E> {
                Ok(Node::Null)
            }
            fn visit_some<D: Deserializer<'de>>(self, d: D) -> Result<Node, D::Error> {
                Node::deserialize(d)
            }
            fn visit_bool<E>(self, v: bool) -> Result<Node, E> {
                Ok(Node::Bool(v))
            }
            fn visit_i64<E>(self, v: i64) -> Result<Node, E> {
                Ok(Node::I(v))
            }
            fn visit_u64<E>(self, v: u64) -> Result<Node, E> {
                Ok(Node::U(v))
            }
            fn visit_f64<E>(self, v: f64) -> Result<Node, E> {
                Ok(Node::F(v))
            }
            fn visit_str<E>(self, v: &str) -> Result<Node, E> {
                Ok(Node::S(v.to_owned()))
            }
            fn visit_string<E>(self, v: String) -> Result<Node, E> {
                Ok(Node::S(v))
            }
            fn visit_bytes<E>(self, v: &[u8]) -> Result<Node, E> {
                Ok(Node::S(format!("bytes{v:?}")))
            }
            fn visit_seq<A: SeqAccess<'de>>(self, mut a: A) -> Result<Node, A::Error> {
                let mut out = Vec::new();
                while let Some(n) = a.next_element::<Node>()? {
                    out.push(n);
                }
                Ok(Node::Seq(out))
            }
            fn visit_map<A: MapAccess<'de>>(self, mut a: A) -> Result<Node, A::Error> {
                let mut out = Vec::new();
                while let Some(k) = a.next_key::<Node>()? {
                    let v = a.next_value::<Node>()?;
                    out.push((k, v));
                }
                Ok(Node::Map(out))
            }
        }
        d.deserialize_any(V)
    }
}

/// Typed ordered list of entries, through `deserialize_map`.
#[derive(Debug)]
struct Pairs<K, V>(#[allow(dead_code)] Vec<(K, V)>);

impl<'de, K: Deserialize<'de>, V: Deserialize<'de>> Deserialize<'de> for Pairs<K, V> {
    fn deserialize<D: Deserializer<'de>>(d: D) -> Result<Self, D::Error> {
        struct Vis<K, V>(PhantomData<(K, V)>);
        impl<'de, K: Deserialize<'de>, V: Deserialize<'de>> Visitor<'de> for Vis<K, V> {
            type Value = Pairs<K, V>;
            fn expecting(&self, f: &mut fmt::Formatter) -> fmt::Result {
                f.write_str("a mapping")
            }
            fn visit_map<A: MapAccess<'de>>(self, mut a: A) -> Result<Self::Value, A::Error> {
                let mut out = Vec::new();
                while let Some(k) = a.next_key::<K>()? {
                    let v = a.next_value::<V>()?;
                    out.push((k, v));
                }
                Ok(Pairs(out))
            }
        }
        d.deserialize_map(Vis(PhantomData))
    }
}

/// Unusual call sequence: asks for keys only, never for values.
#[derive(Debug)]
struct KeysOnly(#[allow(dead_code)] Vec<Node>);

impl<'de> Deserialize<'de> for KeysOnly {
    fn deserialize<D: Deserializer<'de>>(d: D) -> Result<Self, D::Error> {
        struct Vis;
        impl<'de> Visitor<'de> for Vis {
            type Value = KeysOnly;
            fn expecting(&self, f: &mut fmt::Formatter) -> fmt::Result {
                f.write_str("a mapping")
            }
            fn visit_map<A: MapAccess<'de>>(self, mut a: A) -> Result<Self::Value, A::Error> {
                let mut out = Vec::new();
                while let Some(k) = a.next_key::<Node>()? {
                    out.push(k);
                    if out.len() > 64 {
                        return Err(de::Error::custom("runaway"));
                    }
                }
                Ok(KeysOnly(out))
            }
        }
        d.deserialize_map(Vis)
    }
}

/// Unusual call sequence: asks for a value before any key.
#[derive(Debug)]
struct ValueFirst(#[allow(dead_code)] Node);

impl<'de> Deserialize<'de> for ValueFirst {
    fn deserialize<D: Deserializer<'de>>(d: D) -> Result<Self, D::Error> {
        struct Vis;
        impl<'de> Visitor<'de> for Vis {
            type Value = ValueFirst;
            fn expecting(&self, f: &mut fmt::Formatter) -> fmt::Result {
                f.write_str("a mapping")
            }
            fn visit_map<A: MapAccess<'de>>(self, mut a: A) -> Result<Self::Value, A::Error> {
                let v = a.next_value::<Node>()?;
                Ok(ValueFirst(v))
            }
        }
        d.deserialize_map(Vis)
    }
}

/// Unusual call sequence: reads the first entry, then stops without draining the mapping.
#[derive(Debug)]
struct FirstEntryThenIgnoreRest(#[allow(dead_code)] Node, #[allow(dead_code)] Node);

impl<'de> Deserialize<'de> for FirstEntryThenIgnoreRest {
    fn deserialize<D: Deserializer<'de>>(d: D) -> Result<Self, D::Error> {
        struct Vis;
        impl<'de> Visitor<'de> for Vis {
            type Value = FirstEntryThenIgnoreRest;
            fn expecting(&self, f: &mut fmt::Formatter) -> fmt::Result {
                f.write_str("a mapping")
            }
            fn visit_map<A: MapAccess<'de>>(self, mut a: A) -> Result<Self::Value, A::Error> {
                let k = a.next_key::<Node>()?.unwrap_or(Node::Null);
                let v = a.next_value::<Node>()?;
                while let Some(_k) = a.next_key::<IgnoredAny>()? {
                    let _v = a.next_value::<IgnoredAny>()?;
                }
                Ok(FirstEntryThenIgnoreRest(k, v))
            }
        }
        d.deserialize_map(Vis)
    }
}

#[derive(Debug, Deserialize)]
#[allow(dead_code)]
struct Plain {
    a: i32,
    b: Option<String>,
}

#[derive(Debug, Deserialize)]
#[serde(deny_unknown_fields)]
#[allow(dead_code)]
struct Strict {
    a: i32,
    #[serde(default)]
    b: Vec<i32>,
}

#[derive(Debug, Deserialize)]
#[allow(dead_code)]
struct Flat {
    id: i32,
    #[serde(flatten)]
    rest: BTreeMap<String, serde_json::Value>,
}

#[derive(Debug, Deserialize)]
#[allow(dead_code)]
struct Outer {
    base: Plain,
    child: Plain,
}

// ---------------------------------------------------------------------------------------------
// Transcript machinery
// ---------------------------------------------------------------------------------------------

const POLICIES: [(&str, DuplicateKeyPolicy); 3] = [
    ("Error", DuplicateKeyPolicy::Error),
    ("FirstWins", DuplicateKeyPolicy::FirstWins),
    ("LastWins", DuplicateKeyPolicy::LastWins),
];

fn render<T: fmt::Debug>(r: Result<T, Error>) -> String {
    match r {
        Ok(v) => format!("OK {v:?}"),
        Err(e) => {
            let loc = match e.location() {
                Some(l) => format!("{}:{}", l.line(), l.column()),
                None => "-".to_owned(),
            };
            format!("ERR@{loc} {:?}", e.to_string())
        }
    }
}

fn run<T: DeserializeOwned + fmt::Debug>(out: &mut Vec<String>, name: &str, yaml: &str) {
    for (pname, policy) in POLICIES {
        let opts = serde_saphyr::options! { duplicate_keys: policy };
        let r = from_str_with_options::<T>(yaml, opts);
        out.push(format!("{name} [{pname}] {}", render(r)));
    }
}

fn run_multi<T: DeserializeOwned + fmt::Debug>(out: &mut Vec<String>, name: &str, yaml: &str) {
    for (pname, policy) in POLICIES {
        let opts = serde_saphyr::options! { duplicate_keys: policy };
        let r = from_multiple_with_options::<T>(yaml, opts);
        out.push(format!("{name} [{pname}] {}", render(r)));
    }
}

type StrMap = BTreeMap<String, serde_json::Value>;

fn transcript() -> Vec<String> {
    let mut o = Vec::new();
    let o = &mut o;

    // --- no duplicates: identical under all policies
    run::<Node>(o, "01 nodup", "a: 1\nb: [x, y]\nc: {d: e}\n");
    run::<Node>(o, "02 empty-map", "{}\n");

    // --- scalar duplicates
    run::<Node>(o, "03 scalar-dup", "a: 1\na: 2\nb: 3\n");
    run::<StrMap>(o, "04 scalar-dup-btree", "a: 1\na: 2\nb: 3\n");
    run::<Node>(
        o,
        "05 many-later-dups",
        "a: 1\nb: 2\na: [9, {x: y}]\nc: 4\na: {deep: {deeper: [1, 2, {z: 1}]}}\nd: 5\n",
    );
    run::<Node>(o, "06 flow-dup", "{a: 1, a: 2, a: 3, b: 4}\n");
    run::<Node>(o, "07 indented-dup", "top:\n    inner: 1\n    other: 2\n    inner: 3\n");
    run::<Node>(o, "08 unicode-dup", "ключ: 1\nключ: 2\n");

    // --- keys of other kinds
    run::<Node>(
        o,
        "09 seq-keys",
        "? [1, 2]\n: first\n? [1, 2]\n: second\n? [2, 1]\n: third\n",
    );
    run::<Node>(
        o,
        "10 map-keys",
        "? {x: 1, y: 2}\n: first\n? {x: 1, y: 2}\n: second\n? {y: 2, x: 1}\n: third\n",
    );
    run::<Node>(
        o,
        "11 nested-complex-keys",
        "? [[1, {a: b}], x]\n: 1\n? [[1, {a: b}], x]\n: 2\n? [[1, {a: c}], x]\n: 3\n",
    );
    run::<Node>(o, "12 seq-vs-scalar-key", "? [a]\n: 1\na: 2\n? [a]\n: 3\n");

    // --- tags and styles
    run::<Node>(
        o,
        "13 tags",
        "1: int\n!!str 1: str\n\"1\": dq\n'1': sq\n1: again\n",
    );
    run::<Node>(o, "14 custom-tags", "!foo a: 1\n!bar a: 2\n!foo a: 3\na: 4\n");
    run::<Node>(o, "15 binary-key", "!!binary aGk=: 1\n!!binary aGk=: 2\n");
    run::<Node>(o, "16 int-tag-key", "!!int 7: a\n!!int 7: b\n");
    run::<Node>(o, "17 block-vs-quoted", "? |\n  text\n: 1\n? \"text\\n\"\n: 2\n");
    run::<Node>(o, "18 quoted-merge-key", "\"<<\": 1\n\"<<\": 2\n");

    // --- null-ish and empty keys
    run::<Node>(o, "19 null-keys", "~: 1\nnull: 2\n? \n: 3\n~: 4\n");
    run::<Node>(o, "20 empty-map-key", "{}: 1\n{}: 2\nz: 3\n");
    run::<Node>(
        o,
        "21 kemn-one-entry",
        "? {~: inner}\n: outer\n? {~: inner}\n: outer2\nz: 1\n",
    );
    run::<Node>(o, "22 kemn-differing", "? {~: a}\n: 1\n? {~: b}\n: 2\n? {null: a}\n: 3\n");
    run::<Pairs<Option<String>, Spanned<Node>>>(
        o,
        "23 kemn-spanned",
        "v: &v [1, 2]\n? {~: inner}\n: *v\n? {~: inner}\n: 5\n",
    );
    run::<Node>(o, "24 kemn-empty-inner", "? {'': [q]}\n: 1\nk: 2\n? {'': [q]}\n: 3\n");

    // --- aliases
    run::<Node>(o, "25 alias-key", "&k a: 1\n*k : 2\nb: 3\n");
    run::<Node>(o, "26 alias-seq-key", "? &s [1, 2]\n: 1\n? *s\n: 2\nt: 3\n");
    run::<Node>(o, "27 dup-value-alias", "v: &v [1, 2]\na: 1\na: *v\nb: *v\n");
    run::<Node>(o, "28 anchor-in-skipped", "a: 1\na: &late [7]\nb: *late\n");
    run::<Pairs<String, Spanned<Node>>>(o, "29 spanned-values", "x: &x 5\na: *x\na: 6\nb: *x\n");

    // --- merges
    run::<Node>(
        o,
        "30 merge-own-dup",
        "base: &b {a: 1, b: 2}\nchild:\n  <<: *b\n  a: 10\n  a: 11\n  c: 3\n",
    );
    run::<Node>(
        o,
        "31 merge-list",
        "x: &x {a: 1, k: x}\ny: &y {a: 2, k: y, z: 9}\nm:\n  <<: [*x, *y]\n  q: 1\n",
    );
    run::<Node>(o, "32 merge-after-own", "b: &b {a: 1, n: 0}\nm:\n  a: 0\n  <<: *b\n  a: 5\n");
    run::<Node>(
        o,
        "33 two-merge-keys",
        "b: &b {a: 1}\nc: &c {a: 2, d: 3}\nm:\n  <<: *b\n  <<: *c\n  e: 4\n",
    );
    run::<Node>(o, "34 merge-inline-dup", "m:\n  <<: {a: 1, a: 2}\n  b: 1\n");
    run::<Node>(o, "35 merge-scalar", "m:\n  <<: 3\n  b: 1\n");
    run::<Node>(
        o,
        "36 merge-kemn",
        "b: &b\n  ? {~: i}\n  : o\n  p: 1\nm:\n  <<: *b\n  ? {~: i}\n  : o2\n  p: 2\n",
    );
    run::<Node>(o, "37 merge-complex-keys", "b: &b {[1]: x, {k: v}: y}\nm:\n  [1]: own\n  <<: *b\n");
    run::<Outer>(
        o,
        "38 merge-struct",
        "base: &b {a: 1, b: hello}\nchild:\n  <<: *b\n  a: 2\n  a: 3\n",
    );
    run::<Pairs<u8, Node>>(o, "39 merge-bad-key", "b: &b {x: 1}\nm: {1: a, <<: *b}\n");

    // --- nesting
    run::<Node>(o, "40 nested-dup", "o:\n  i: 1\n  i: 2\no2: {p: [{q: 1, q: 2}]}\n");
    run::<Vec<StrMap>>(o, "41 seq-of-maps", "- {a: 1, a: 2}\n- {b: 1}\n- {c: 1, d: 2, c: 3}\n");
    run::<Node>(o, "42 dup-in-skipped-value", "a: 1\na: {x: 1, x: 2}\nb: {y: 1, y: 2}\n");

    // --- skipping exactly one node
    run::<Node>(o, "43 skip-null-value", "a: 1\na:\nb: 2\n");
    run::<Node>(o, "44 skip-unclosed-seq", "a: 1\na: [1, 2\n");
    run::<Node>(o, "45 skip-unclosed-map", "{a: 1, a: {b: [2, 3]}\n");
    run::<Node>(o, "46 skip-deep", "a: 0\na: [[[[{k: [{}, [], ~]}]]]]\nb: [[1]]\na: x\n");
    run::<BTreeMap<String, i32>>(o, "47 skip-bad-value", "a: 1\na: x\nb: 2\n");
    run::<Node>(o, "48 skip-block-scalar", "a: 1\na: |\n  line1\n  line2\nb: >-\n  folded\n  text\n");

    // --- typed targets
    run::<Plain>(o, "49 struct-dup-field", "a: 1\nb: x\na: 2\n");
    run::<Plain>(o, "50 struct-missing", "b: x\nb: y\n");
    run::<Strict>(o, "51 strict-unknown", "a: 1\nzzz: 2\n");
    run::<Strict>(o, "52 strict-unknown-dup", "a: 1\nzzz: 1\nzzz: 2\n");
    run::<Strict>(o, "53 strict-dup-seq", "a: 1\nb: [1]\nb: [2, 3]\n");
    run::<Flat>(o, "54 flatten", "id: 1\nx: 1\nx: 2\nid: 3\n");
    run::<BTreeMap<u32, String>>(o, "55 int-keys", "1: a\n01: b\n1: c\n");
    run::<BTreeMap<u32, String>>(o, "56 bad-int-key", "1: a\nx: b\n");
    run::<BTreeMap<bool, i32>>(o, "57 bool-keys", "true: 1\nyes: 2\ntrue: 3\n");
    run::<Option<StrMap>>(o, "58 option-map", "k: 1\nk: 2\n");

    // --- unusual call sequences
    run::<KeysOnly>(o, "59 keys-only", "a: 1\nb: 2\n");
    run::<KeysOnly>(o, "60 keys-only-dup", "a: a\nb: b\n");
    run::<KeysOnly>(o, "61 keys-only-kemn", "? {~: i}\n: o\nq: r\n");
    run::<ValueFirst>(o, "62 value-first", "a: 1\n");
    run::<FirstEntryThenIgnoreRest>(o, "63 ignore-rest", "a: 1\nb: 2\nb: [3]\na: {c: d}\n");

    // --- many keys (seen-set grows past its initial capacity)
    let mut big = String::new();
    for i in 0..24 {
        big.push_str(&format!("k{i}: {i}\n"));
    }
    big.push_str("k0: again\nk15: again\n");
    run::<StrMap>(o, "64 many-keys", &big);

    // --- multiple documents
    run_multi::<Node>(o, "65 multi-doc", "a: 1\n---\na: 2\na: 3\n---\nb: 1\n");
    run_multi::<Node>(o, "66 multi-doc-same-key", "a: 1\n---\na: 2\n");

    // --- structural errors while capturing keys
    run::<Node>(o, "67 unclosed-key", "? [1, 2\n");
    run::<Node>(o, "68 eof-after-key", "{a: 1, [b, c\n");

    o.clone()
}

#[test]
fn differential_transcript() {
    let lines = transcript();
    if std::env::var_os("DEMO_PRINT").is_some() {
        println!("=====BEGIN");
        for l in &lines {
            println!("{l}");
        }
        println!("=====END");
        return;
    }
    let expected: Vec<&str> = EXPECTED.lines().filter(|l| !l.is_empty()).collect();
    let mut mismatches = Vec::new();
    for (i, l) in lines.iter().enumerate() {
        match expected.get(i) {
            Some(e) if e == l => {}
            Some(e) => mismatches.push(format!("line {i}:\n  expected: {e}\n  actual:   {l}")),
            None => mismatches.push(format!("line {i}: unexpected extra line: {l}")),
        }
    }
    assert!(mismatches.is_empty(), "{}", mismatches.join("\n"));
    assert_eq!(lines.len(), expected.len(), "transcript length");
    assert!(lines.len() >= 3 * 60);
}

const EXPECTED: &str = r####"
01 nodup [Error] OK {"a": 1u, "b": ["x", true], "c": {"d": "e"}}
01 nodup [FirstWins] OK {"a": 1u, "b": ["x", true], "c": {"d": "e"}}
01 nodup [LastWins] OK {"a": 1u, "b": ["x", true], "c": {"d": "e"}}
02 empty-map [Error] OK {}
02 empty-map [FirstWins] OK {}
02 empty-map [LastWins] OK {}
03 scalar-dup [Error] ERR@2:1 "error: line 2 column 1: duplicate mapping key: a, set DuplicateKeyPolicy in Options if acceptable\n --> <input>:2:1\n  |\n1 | a: 1\n2 | a: 2\n  | ^ duplicate mapping key: a, set DuplicateKeyPolicy in Options if acceptable\n3 | b: 3\n  |"
03 scalar-dup [FirstWins] OK {"a": 1u, "b": 3u}
03 scalar-dup [LastWins] OK {"a": 1u, "a": 2u, "b": 3u}
04 scalar-dup-btree [Error] ERR@2:1 "error: line 2 column 1: duplicate mapping key: a, set DuplicateKeyPolicy in Options if acceptable\n --> <input>:2:1\n  |\n1 | a: 1\n2 | a: 2\n  | ^ duplicate mapping key: a, set DuplicateKeyPolicy in Options if acceptable\n3 | b: 3\n  |"
04 scalar-dup-btree [FirstWins] OK {"a": Number(1), "b": Number(3)}
04 scalar-dup-btree [LastWins] OK {"a": Number(2), "b": Number(3)}
05 many-later-dups [Error] ERR@3:1 "error: line 3 column 1: duplicate mapping key: a, set DuplicateKeyPolicy in Options if acceptable\n --> <input>:3:1\n  |\n1 | a: 1\n2 | b: 2\n3 | a: [9, {x: y}]\n  | ^ duplicate mapping key: a, set DuplicateKeyPolicy in Options if acceptable\n4 | c: 4\n5 | a: {deep: {deeper: [1, 2, {z: 1}]}}\n  |"
05 many-later-dups [FirstWins] OK {"a": 1u, "b": 2u, "c": 4u, "d": 5u}
05 many-later-dups [LastWins] OK {"a": 1u, "b": 2u, "a": [9u, {"x": true}], "c": 4u, "a": {"deep": {"deeper": [1u, 2u, {"z": 1u}]}}, "d": 5u}
06 flow-dup [Error] ERR@1:8 "error: line 1 column 8: duplicate mapping key: a, set DuplicateKeyPolicy in Options if acceptable\n --> <input>:1:8\n  |\n1 | {a: 1, a: 2, a: 3, b: 4}\n  |        ^ duplicate mapping key: a, set DuplicateKeyPolicy in Options if acceptable"
06 flow-dup [FirstWins] OK {"a": 1u, "b": 4u}
06 flow-dup [LastWins] OK {"a": 1u, "a": 2u, "a": 3u, "b": 4u}
07 indented-dup [Error] ERR@4:5 "error: line 4 column 5: duplicate mapping key: inner, set DuplicateKeyPolicy in Options if acceptable\n --> <input>:4:5\n  |\n2 |     inner: 1\n3 |     other: 2\n4 |     inner: 3\n  |     ^ duplicate mapping key: inner, set DuplicateKeyPolicy in Options if acceptable"
07 indented-dup [FirstWins] OK {"top": {"inner": 1u, "other": 2u}}
07 indented-dup [LastWins] OK {"top": {"inner": 1u, "other": 2u, "inner": 3u}}
08 unicode-dup [Error] ERR@2:1 "error: line 2 column 1: duplicate mapping key: ключ, set DuplicateKeyPolicy in Options if acceptable\n --> <input>:2:1\n  |\n1 | ключ: 1\n2 | ключ: 2\n  | ^ duplicate mapping key: ключ, set DuplicateKeyPolicy in Options if acceptable"
08 unicode-dup [FirstWins] OK {"ключ": 1u}
08 unicode-dup [LastWins] OK {"ключ": 1u, "ключ": 2u}
09 seq-keys [Error] ERR@3:3 "error: line 3 column 3: duplicate mapping key, set DuplicateKeyPolicy in Options if acceptable\n --> <input>:3:3\n  |\n1 | ? [1, 2]\n2 | : first\n3 | ? [1, 2]\n  |   ^ duplicate mapping key, set DuplicateKeyPolicy in Options if acceptable\n4 | : second\n5 | ? [2, 1]\n  |"
09 seq-keys [FirstWins] OK {[1u, 2u]: "first", [2u, 1u]: "third"}
09 seq-keys [LastWins] OK {[1u, 2u]: "first", [1u, 2u]: "second", [2u, 1u]: "third"}
10 map-keys [Error] ERR@3:3 "error: line 3 column 3: duplicate mapping key, set DuplicateKeyPolicy in Options if acceptable\n --> <input>:3:3\n  |\n1 | ? {x: 1, y: 2}\n2 | : first\n3 | ? {x: 1, y: 2}\n  |   ^ duplicate mapping key, set DuplicateKeyPolicy in Options if acceptable\n4 | : second\n5 | ? {y: 2, x: 1}\n  |"
10 map-keys [FirstWins] OK {{"x": 1u, true: 2u}: "first", {true: 2u, "x": 1u}: "third"}
10 map-keys [LastWins] OK {{"x": 1u, true: 2u}: "first", {"x": 1u, true: 2u}: "second", {true: 2u, "x": 1u}: "third"}
11 nested-complex-keys [Error] ERR@3:3 "error: line 3 column 3: duplicate mapping key, set DuplicateKeyPolicy in Options if acceptable\n --> <input>:3:3\n  |\n1 | ? [[1, {a: b}], x]\n2 | : 1\n3 | ? [[1, {a: b}], x]\n  |   ^ duplicate mapping key, set DuplicateKeyPolicy in Options if acceptable\n4 | : 2\n5 | ? [[1, {a: c}], x]\n  |"
11 nested-complex-keys [FirstWins] OK {[[1u, {"a": "b"}], "x"]: 1u, [[1u, {"a": "c"}], "x"]: 3u}
11 nested-complex-keys [LastWins] OK {[[1u, {"a": "b"}], "x"]: 1u, [[1u, {"a": "b"}], "x"]: 2u, [[1u, {"a": "c"}], "x"]: 3u}
12 seq-vs-scalar-key [Error] ERR@4:3 "error: line 4 column 3: duplicate mapping key, set DuplicateKeyPolicy in Options if acceptable\n --> <input>:4:3\n  |\n2 | : 1\n3 | a: 2\n4 | ? [a]\n  |   ^ duplicate mapping key, set DuplicateKeyPolicy in Options if acceptable\n5 | : 3\n  |"
12 seq-vs-scalar-key [FirstWins] OK {["a"]: 1u, "a": 2u}
12 seq-vs-scalar-key [LastWins] OK {["a"]: 1u, "a": 2u, ["a"]: 3u}
13 tags [Error] ERR@3:1 "error: line 3 column 1: duplicate mapping key: 1, set DuplicateKeyPolicy in Options if acceptable\n --> <input>:3:1\n  |\n1 | 1: int\n2 | !!str 1: str\n3 | \"1\": dq\n  | ^ duplicate mapping key: 1, set DuplicateKeyPolicy in Options if acceptable\n4 | '1': sq\n5 | 1: again\n  |"
13 tags [FirstWins] OK {1u: "int", "1": "str"}
13 tags [LastWins] OK {1u: "int", "1": "str", "1": "dq", "1": "sq", 1u: "again"}
14 custom-tags [Error] ERR@3:6 "error: line 3 column 6: duplicate mapping key: a, set DuplicateKeyPolicy in Options if acceptable\n --> <input>:3:6\n  |\n1 | !foo a: 1\n2 | !bar a: 2\n3 | !foo a: 3\n  |      ^ duplicate mapping key: a, set DuplicateKeyPolicy in Options if acceptable\n4 | a: 4\n  |"
14 custom-tags [FirstWins] OK {"a": 1u, "a": 2u, "a": 4u}
14 custom-tags [LastWins] OK {"a": 1u, "a": 2u, "a": 3u, "a": 4u}
15 binary-key [Error] ERR@2:10 "error: line 2 column 10: duplicate mapping key, set DuplicateKeyPolicy in Options if acceptable\n --> <input>:2:10\n  |\n1 | !!binary aGk=: 1\n2 | !!binary aGk=: 2\n  |          ^ duplicate mapping key, set DuplicateKeyPolicy in Options if acceptable"
15 binary-key [FirstWins] OK {"hi": 1u}
15 binary-key [LastWins] OK {"hi": 1u, "hi": 2u}
16 int-tag-key [Error] ERR@1:7 "error: line 1 column 7: cannot deserialize tagged scalar into string\n --> <input>:1:7\n  |\n1 | !!int 7: a\n  |       ^ cannot deserialize tagged scalar into string\n2 | !!int 7: b\n  |"
16 int-tag-key [FirstWins] ERR@1:7 "error: line 1 column 7: cannot deserialize tagged scalar into string\n --> <input>:1:7\n  |\n1 | !!int 7: a\n  |       ^ cannot deserialize tagged scalar into string\n2 | !!int 7: b\n  |"
16 int-tag-key [LastWins] ERR@1:7 "error: line 1 column 7: cannot deserialize tagged scalar into string\n --> <input>:1:7\n  |\n1 | !!int 7: a\n  |       ^ cannot deserialize tagged scalar into string\n2 | !!int 7: b\n  |"
17 block-vs-quoted [Error] ERR@4:3 "error: line 4 column 3: duplicate mapping key: text\n       , set DuplicateKeyPolicy in Options if acceptable\n --> <input>:4:3\n  |\n2 |   text\n3 | : 1\n4 | ? \"text\\n\"\n  |   ^ duplicate mapping key: text\n, set DuplicateKeyPolicy in Options if acceptable\n5 | : 2\n  |"
17 block-vs-quoted [FirstWins] OK {"text\n": 1u}
17 block-vs-quoted [LastWins] OK {"text\n": 1u, "text\n": 2u}
18 quoted-merge-key [Error] ERR@2:1 "error: line 2 column 1: duplicate mapping key: <<, set DuplicateKeyPolicy in Options if acceptable\n --> <input>:2:1\n  |\n1 | \"<<\": 1\n2 | \"<<\": 2\n  | ^ duplicate mapping key: <<, set DuplicateKeyPolicy in Options if acceptable"
18 quoted-merge-key [FirstWins] OK {"<<": 1u}
18 quoted-merge-key [LastWins] OK {"<<": 1u, "<<": 2u}
19 null-keys [Error] ERR@4:1 "error: line 4 column 1: duplicate mapping key: ~, set DuplicateKeyPolicy in Options if acceptable\n --> <input>:4:1\n  |\n2 | null: 2\n3 | ? \n4 | : 3\n  | ^ duplicate mapping key: ~, set DuplicateKeyPolicy in Options if acceptable\n5 | ~: 4\n  |"
19 null-keys [FirstWins] OK {~: 1u, ~: 2u}
19 null-keys [LastWins] OK {~: 1u, ~: 2u, ~: 3u, ~: 4u}
20 empty-map-key [Error] ERR@2:1 "error: line 2 column 1: duplicate mapping key, set DuplicateKeyPolicy in Options if acceptable\n --> <input>:2:1\n  |\n1 | {}: 1\n2 | {}: 2\n  | ^ duplicate mapping key, set DuplicateKeyPolicy in Options if acceptable\n3 | z: 3\n  |"
20 empty-map-key [FirstWins] OK {{}: 1u, "z": 3u}
20 empty-map-key [LastWins] OK {{}: 1u, {}: 2u, "z": 3u}
21 kemn-one-entry [Error] ERR@3:3 "error: line 3 column 3: duplicate mapping key, set DuplicateKeyPolicy in Options if acceptable\n --> <input>:3:3\n  |\n1 | ? {~: inner}\n2 | : outer\n3 | ? {~: inner}\n  |   ^ duplicate mapping key, set DuplicateKeyPolicy in Options if acceptable\n4 | : outer2\n5 | z: 1\n  |"
21 kemn-one-entry [FirstWins] OK {{}: "inner", "z": 1u}
21 kemn-one-entry [LastWins] OK {{}: "inner", {}: "inner", "z": 1u}
22 kemn-differing [Error] OK {{}: "a", {}: "b", {}: "a"}
22 kemn-differing [FirstWins] OK {{}: "a", {}: "b", {}: "a"}
22 kemn-differing [LastWins] OK {{}: "a", {}: "b", {}: "a"}
23 kemn-spanned [Error] ERR@4:3 "error: line 4 column 3: duplicate mapping key, set DuplicateKeyPolicy in Options if acceptable\n --> <input>:4:3\n  |\n2 | ? {~: inner}\n3 | : *v\n4 | ? {~: inner}\n  |   ^ duplicate mapping key, set DuplicateKeyPolicy in Options if acceptable\n5 | : 5\n  |"
23 kemn-spanned [FirstWins] OK Pairs([(Some("v"), Spanned { value: [1u, 2u], referenced: Location { line: 1, column: 7, span: Span { offset: 6, len: 1, byte_info: (6, 1) } }, defined: Location { line: 1, column: 7, span: Span { offset: 6, len: 1, byte_info: (6, 1) } } }), (None, Spanned { value: "inner", referenced: Location { line: 3, column: 3, span: Span { offset: 28, len: 2, byte_info: (28, 2) } }, defined: Location { line: 2, column: 7, span: Span { offset: 19, len: 5, byte_info: (19, 5) } } })])
23 kemn-spanned [LastWins] OK Pairs([(Some("v"), Spanned { value: [1u, 2u], referenced: Location { line: 1, column: 7, span: Span { offset: 6, len: 1, byte_info: (6, 1) } }, defined: Location { line: 1, column: 7, span: Span { offset: 6, len: 1, byte_info: (6, 1) } } }), (None, Spanned { value: "inner", referenced: Location { line: 3, column: 3, span: Span { offset: 28, len: 2, byte_info: (28, 2) } }, defined: Location { line: 2, column: 7, span: Span { offset: 19, len: 5, byte_info: (19, 5) } } }), (None, Spanned { value: "inner", referenced: Location { line: 5, column: 3, span: Span { offset: 46, len: 1, byte_info: (46, 1) } }, defined: Location { line: 4, column: 7, span: Span { offset: 37, len: 5, byte_info: (37, 5) } } })])
24 kemn-empty-inner [Error] ERR@4:3 "error: line 4 column 3: duplicate mapping key, set DuplicateKeyPolicy in Options if acceptable\n --> <input>:4:3\n  |\n2 | : 1\n3 | k: 2\n4 | ? {'': [q]}\n  |   ^ duplicate mapping key, set DuplicateKeyPolicy in Options if acceptable\n5 | : 3\n  |"
24 kemn-empty-inner [FirstWins] OK {{}: ["q"], "k": 2u}
24 kemn-empty-inner [LastWins] OK {{}: ["q"], "k": 2u, {}: ["q"]}
25 alias-key [Error] ERR@2:1 "error: line 2 column 1: duplicate mapping key: a, set DuplicateKeyPolicy in Options if acceptable\n --> <input>:2:1\n  |\n1 | &k a: 1\n2 | *k : 2\n  | ^ duplicate mapping key: a, set DuplicateKeyPolicy in Options if acceptable\n3 | b: 3\n  |"
25 alias-key [FirstWins] OK {"a": 1u, "b": 3u}
25 alias-key [LastWins] OK {"a": 1u, "a": 2u, "b": 3u}
26 alias-seq-key [Error] ERR@3:3 "error: line 3 column 3: duplicate mapping key, set DuplicateKeyPolicy in Options if acceptable\n --> <input>:3:3\n  |\n1 | ? &s [1, 2]\n2 | : 1\n3 | ? *s\n  |   ^ duplicate mapping key, set DuplicateKeyPolicy in Options if acceptable\n4 | : 2\n5 | t: 3\n  |"
26 alias-seq-key [FirstWins] OK {[1u, 2u]: 1u, "t": 3u}
26 alias-seq-key [LastWins] OK {[1u, 2u]: 1u, [1u, 2u]: 2u, "t": 3u}
27 dup-value-alias [Error] ERR@3:1 "error: line 3 column 1: duplicate mapping key: a, set DuplicateKeyPolicy in Options if acceptable\n --> <input>:3:1\n  |\n1 | v: &v [1, 2]\n2 | a: 1\n3 | a: *v\n  | ^ duplicate mapping key: a, set DuplicateKeyPolicy in Options if acceptable\n4 | b: *v\n  |"
27 dup-value-alias [FirstWins] OK {"v": [1u, 2u], "a": 1u, "b": [1u, 2u]}
27 dup-value-alias [LastWins] OK {"v": [1u, 2u], "a": 1u, "a": [1u, 2u], "b": [1u, 2u]}
28 anchor-in-skipped [Error] ERR@2:1 "error: line 2 column 1: duplicate mapping key: a, set DuplicateKeyPolicy in Options if acceptable\n --> <input>:2:1\n  |\n1 | a: 1\n2 | a: &late [7]\n  | ^ duplicate mapping key: a, set DuplicateKeyPolicy in Options if acceptable\n3 | b: *late\n  |"
28 anchor-in-skipped [FirstWins] OK {"a": 1u, "b": [7u]}
28 anchor-in-skipped [LastWins] OK {"a": 1u, "a": [7u], "b": [7u]}
29 spanned-values [Error] ERR@3:1 "error: line 3 column 1: duplicate mapping key: a, set DuplicateKeyPolicy in Options if acceptable\n --> <input>:3:1\n  |\n1 | x: &x 5\n2 | a: *x\n3 | a: 6\n  | ^ duplicate mapping key: a, set DuplicateKeyPolicy in Options if acceptable\n4 | b: *x\n  |"
29 spanned-values [FirstWins] OK Pairs([("x", Spanned { value: 5u, referenced: Location { line: 1, column: 7, span: Span { offset: 6, len: 1, byte_info: (6, 1) } }, defined: Location { line: 1, column: 7, span: Span { offset: 6, len: 1, byte_info: (6, 1) } } }), ("a", Spanned { value: 5u, referenced: Location { line: 2, column: 4, span: Span { offset: 11, len: 2, byte_info: (11, 2) } }, defined: Location { line: 1, column: 7, span: Span { offset: 6, len: 1, byte_info: (6, 1) } } }), ("b", Spanned { value: 5u, referenced: Location { line: 4, column: 4, span: Span { offset: 22, len: 2, byte_info: (22, 2) } }, defined: Location { line: 1, column: 7, span: Span { offset: 6, len: 1, byte_info: (6, 1) } } })])
29 spanned-values [LastWins] OK Pairs([("x", Spanned { value: 5u, referenced: Location { line: 1, column: 7, span: Span { offset: 6, len: 1, byte_info: (6, 1) } }, defined: Location { line: 1, column: 7, span: Span { offset: 6, len: 1, byte_info: (6, 1) } } }), ("a", Spanned { value: 5u, referenced: Location { line: 2, column: 4, span: Span { offset: 11, len: 2, byte_info: (11, 2) } }, defined: Location { line: 1, column: 7, span: Span { offset: 6, len: 1, byte_info: (6, 1) } } }), ("a", Spanned { value: 6u, referenced: Location { line: 3, column: 4, span: Span { offset: 17, len: 1, byte_info: (17, 1) } }, defined: Location { line: 3, column: 4, span: Span { offset: 17, len: 1, byte_info: (17, 1) } } }), ("b", Spanned { value: 5u, referenced: Location { line: 4, column: 4, span: Span { offset: 22, len: 2, byte_info: (22, 2) } }, defined: Location { line: 1, column: 7, span: Span { offset: 6, len: 1, byte_info: (6, 1) } } })])
30 merge-own-dup [Error] ERR@5:3 "error: line 5 column 3: duplicate mapping key: a, set DuplicateKeyPolicy in Options if acceptable\n --> <input>:5:3\n  |\n3 |   <<: *b\n4 |   a: 10\n5 |   a: 11\n  |   ^ duplicate mapping key: a, set DuplicateKeyPolicy in Options if acceptable\n6 |   c: 3\n  |"
30 merge-own-dup [FirstWins] OK {"base": {"a": 1u, "b": 2u}, "child": {"a": 10u, "c": 3u, "b": 2u}}
30 merge-own-dup [LastWins] OK {"base": {"a": 1u, "b": 2u}, "child": {"a": 10u, "a": 11u, "c": 3u, "b": 2u}}
31 merge-list [Error] OK {"x": {"a": 1u, "k": "x"}, true: {"a": 2u, "k": true, "z": 9u}, "m": {"q": 1u, "a": 2u, "k": true, "z": 9u}}
31 merge-list [FirstWins] OK {"x": {"a": 1u, "k": "x"}, true: {"a": 2u, "k": true, "z": 9u}, "m": {"q": 1u, "a": 2u, "k": true, "z": 9u}}
31 merge-list [LastWins] OK {"x": {"a": 1u, "k": "x"}, true: {"a": 2u, "k": true, "z": 9u}, "m": {"q": 1u, "a": 2u, "k": true, "z": 9u}}
32 merge-after-own [Error] ERR@5:3 "error: line 5 column 3: duplicate mapping key: a, set DuplicateKeyPolicy in Options if acceptable\n --> <input>:5:3\n  |\n3 |   a: 0\n4 |   <<: *b\n5 |   a: 5\n  |   ^ duplicate mapping key: a, set DuplicateKeyPolicy in Options if acceptable"
32 merge-after-own [FirstWins] OK {"b": {"a": 1u, false: 0u}, "m": {"a": 0u, false: 0u}}
32 merge-after-own [LastWins] OK {"b": {"a": 1u, false: 0u}, "m": {"a": 0u, "a": 5u, false: 0u}}
33 two-merge-keys [Error] OK {"b": {"a": 1u}, "c": {"a": 2u, "d": 3u}, "m": {"e": 4u, "a": 2u, "d": 3u}}
33 two-merge-keys [FirstWins] OK {"b": {"a": 1u}, "c": {"a": 2u, "d": 3u}, "m": {"e": 4u, "a": 2u, "d": 3u}}
33 two-merge-keys [LastWins] OK {"b": {"a": 1u}, "c": {"a": 2u, "d": 3u}, "m": {"e": 4u, "a": 2u, "d": 3u}}
34 merge-inline-dup [Error] OK {"m": {"b": 1u, "a": 1u}}
34 merge-inline-dup [FirstWins] OK {"m": {"b": 1u, "a": 1u}}
34 merge-inline-dup [LastWins] OK {"m": {"b": 1u, "a": 1u}}
35 merge-scalar [Error] ERR@2:7 "error: line 2 column 7: YAML merge value must be mapping or sequence of mappings\n --> <input>:2:7\n  |\n1 | m:\n2 |   <<: 3\n  |       ^ YAML merge value must be mapping or sequence of mappings\n3 |   b: 1\n  |"
35 merge-scalar [FirstWins] ERR@2:7 "error: line 2 column 7: YAML merge value must be mapping or sequence of mappings\n --> <input>:2:7\n  |\n1 | m:\n2 |   <<: 3\n  |       ^ YAML merge value must be mapping or sequence of mappings\n3 |   b: 1\n  |"
35 merge-scalar [LastWins] ERR@2:7 "error: line 2 column 7: YAML merge value must be mapping or sequence of mappings\n --> <input>:2:7\n  |\n1 | m:\n2 |   <<: 3\n  |       ^ YAML merge value must be mapping or sequence of mappings\n3 |   b: 1\n  |"
36 merge-kemn [Error] OK {"b": {{}: "i", "p": 1u}, "m": {{}: "i", "p": 2u}}
36 merge-kemn [FirstWins] OK {"b": {{}: "i", "p": 1u}, "m": {{}: "i", "p": 2u}}
36 merge-kemn [LastWins] OK {"b": {{}: "i", "p": 1u}, "m": {{}: "i", "p": 2u}}
37 merge-complex-keys [Error] OK {"b": {[1u]: "x", {"k": "v"}: true}, "m": {[1u]: "own", {"k": "v"}: true}}
37 merge-complex-keys [FirstWins] OK {"b": {[1u]: "x", {"k": "v"}: true}, "m": {[1u]: "own", {"k": "v"}: true}}
37 merge-complex-keys [LastWins] OK {"b": {[1u]: "x", {"k": "v"}: true}, "m": {[1u]: "own", {"k": "v"}: true}}
38 merge-struct [Error] ERR@5:3 "error: line 5 column 3: duplicate mapping key: a, set DuplicateKeyPolicy in Options if acceptable\n --> <input>:5:3\n  |\n3 |   <<: *b\n4 |   a: 2\n5 |   a: 3\n  |   ^ duplicate mapping key: a, set DuplicateKeyPolicy in Options if acceptable"
38 merge-struct [FirstWins] OK Outer { base: Plain { a: 1, b: Some("hello") }, child: Plain { a: 2, b: Some("hello") } }
38 merge-struct [LastWins] ERR@3:3 "error: line 3 column 3: duplicate field `a`\n --> <input>:3:3\n  |\n1 | base: &b {a: 1, b: hello}\n2 | child:\n3 |   <<: *b\n  |   ^ duplicate field `a`\n4 |   a: 2\n5 |   a: 3\n  |"
39 merge-bad-key [Error] ERR@1:1 "error: line 1 column 1: invalid u8\n --> <input>:1:1\n  |\n1 | b: &b {x: 1}\n  | ^ invalid u8\n2 | m: {1: a, <<: *b}\n  |"
39 merge-bad-key [FirstWins] ERR@1:1 "error: line 1 column 1: invalid u8\n --> <input>:1:1\n  |\n1 | b: &b {x: 1}\n  | ^ invalid u8\n2 | m: {1: a, <<: *b}\n  |"
39 merge-bad-key [LastWins] ERR@1:1 "error: line 1 column 1: invalid u8\n --> <input>:1:1\n  |\n1 | b: &b {x: 1}\n  | ^ invalid u8\n2 | m: {1: a, <<: *b}\n  |"
40 nested-dup [Error] ERR@3:3 "error: line 3 column 3: duplicate mapping key: i, set DuplicateKeyPolicy in Options if acceptable\n --> <input>:3:3\n  |\n1 | o:\n2 |   i: 1\n3 |   i: 2\n  |   ^ duplicate mapping key: i, set DuplicateKeyPolicy in Options if acceptable\n4 | o2: {p: [{q: 1, q: 2}]}\n  |"
40 nested-dup [FirstWins] OK {"o": {"i": 1u}, "o2": {"p": [{"q": 1u}]}}
40 nested-dup [LastWins] OK {"o": {"i": 1u, "i": 2u}, "o2": {"p": [{"q": 1u, "q": 2u}]}}
41 seq-of-maps [Error] ERR@1:10 "error: line 1 column 10: duplicate mapping key: a, set DuplicateKeyPolicy in Options if acceptable\n --> <input>:1:10\n  |\n1 | - {a: 1, a: 2}\n  |          ^ duplicate mapping key: a, set DuplicateKeyPolicy in Options if acceptable\n2 | - {b: 1}\n3 | - {c: 1, d: 2, c: 3}\n  |"
41 seq-of-maps [FirstWins] OK [{"a": Number(1)}, {"b": Number(1)}, {"c": Number(1), "d": Number(2)}]
41 seq-of-maps [LastWins] OK [{"a": Number(2)}, {"b": Number(1)}, {"c": Number(3), "d": Number(2)}]
42 dup-in-skipped-value [Error] ERR@2:1 "error: line 2 column 1: duplicate mapping key: a, set DuplicateKeyPolicy in Options if acceptable\n --> <input>:2:1\n  |\n1 | a: 1\n2 | a: {x: 1, x: 2}\n  | ^ duplicate mapping key: a, set DuplicateKeyPolicy in Options if acceptable\n3 | b: {y: 1, y: 2}\n  |"
42 dup-in-skipped-value [FirstWins] OK {"a": 1u, "b": {true: 1u}}
42 dup-in-skipped-value [LastWins] OK {"a": 1u, "a": {"x": 1u, "x": 2u}, "b": {true: 1u, true: 2u}}
43 skip-null-value [Error] ERR@2:1 "error: line 2 column 1: duplicate mapping key: a, set DuplicateKeyPolicy in Options if acceptable\n --> <input>:2:1\n  |\n1 | a: 1\n2 | a:\n  | ^ duplicate mapping key: a, set DuplicateKeyPolicy in Options if acceptable\n3 | b: 2\n  |"
43 skip-null-value [FirstWins] OK {"a": 1u, "b": 2u}
43 skip-null-value [LastWins] OK {"a": 1u, "a": ~, "b": 2u}
44 skip-unclosed-seq [Error] ERR@2:1 "error: line 2 column 1: duplicate mapping key: a, set DuplicateKeyPolicy in Options if acceptable\n --> <input>:2:1\n  |\n1 | a: 1\n2 | a: [1, 2\n  | ^ duplicate mapping key: a, set DuplicateKeyPolicy in Options if acceptable"
44 skip-unclosed-seq [FirstWins] ERR@2:4 "error: line 2 column 4: unclosed bracket '['\n --> <input>:2:4\n  |\n1 | a: 1\n2 | a: [1, 2\n  |    ^ unclosed bracket '['"
44 skip-unclosed-seq [LastWins] ERR@2:4 "error: line 2 column 4: unclosed bracket '['\n --> <input>:2:4\n  |\n1 | a: 1\n2 | a: [1, 2\n  |    ^ unclosed bracket '['"
45 skip-unclosed-map [Error] ERR@1:1 "error: line 1 column 1: unclosed bracket '{'\n --> <input>:1:1\n  |\n1 | {a: 1, a: {b: [2, 3]}\n  | ^ unclosed bracket '{'"
45 skip-unclosed-map [FirstWins] ERR@1:1 "error: line 1 column 1: unclosed bracket '{'\n --> <input>:1:1\n  |\n1 | {a: 1, a: {b: [2, 3]}\n  | ^ unclosed bracket '{'"
45 skip-unclosed-map [LastWins] ERR@1:1 "error: line 1 column 1: unclosed bracket '{'\n --> <input>:1:1\n  |\n1 | {a: 1, a: {b: [2, 3]}\n  | ^ unclosed bracket '{'"
46 skip-deep [Error] ERR@2:1 "error: line 2 column 1: duplicate mapping key: a, set DuplicateKeyPolicy in Options if acceptable\n --> <input>:2:1\n  |\n1 | a: 0\n2 | a: [[[[{k: [{}, [], ~]}]]]]\n  | ^ duplicate mapping key: a, set DuplicateKeyPolicy in Options if acceptable\n3 | b: [[1]]\n4 | a: x\n  |"
46 skip-deep [FirstWins] OK {"a": 0u, "b": [[1u]]}
46 skip-deep [LastWins] OK {"a": 0u, "a": [[[[{"k": [{}, [], ~]}]]]], "b": [[1u]], "a": "x"}
47 skip-bad-value [Error] ERR@2:1 "error: line 2 column 1: duplicate mapping key: a, set DuplicateKeyPolicy in Options if acceptable\n --> <input>:2:1\n  |\n1 | a: 1\n2 | a: x\n  | ^ duplicate mapping key: a, set DuplicateKeyPolicy in Options if acceptable\n3 | b: 2\n  |"
47 skip-bad-value [FirstWins] OK {"a": 1, "b": 2}
47 skip-bad-value [LastWins] ERR@2:4 "error: line 2 column 4: invalid i32\n --> <input>:2:4\n  |\n1 | a: 1\n2 | a: x\n  |    ^ invalid i32\n3 | b: 2\n  |"
48 skip-block-scalar [Error] ERR@2:1 "error: line 2 column 1: duplicate mapping key: a, set DuplicateKeyPolicy in Options if acceptable\n --> <input>:2:1\n  |\n1 | a: 1\n2 | a: |\n  | ^ duplicate mapping key: a, set DuplicateKeyPolicy in Options if acceptable\n3 |   line1\n4 |   line2\n  |"
48 skip-block-scalar [FirstWins] OK {"a": 1u, "b": "folded text"}
48 skip-block-scalar [LastWins] OK {"a": 1u, "a": "line1\nline2\n", "b": "folded text"}
49 struct-dup-field [Error] ERR@3:1 "error: line 3 column 1: duplicate mapping key: a, set DuplicateKeyPolicy in Options if acceptable\n --> <input>:3:1\n  |\n1 | a: 1\n2 | b: x\n3 | a: 2\n  | ^ duplicate mapping key: a, set DuplicateKeyPolicy in Options if acceptable"
49 struct-dup-field [FirstWins] OK Plain { a: 1, b: Some("x") }
49 struct-dup-field [LastWins] ERR@- "duplicate field `a`"
50 struct-missing [Error] ERR@2:1 "error: line 2 column 1: duplicate mapping key: b, set DuplicateKeyPolicy in Options if acceptable\n --> <input>:2:1\n  |\n1 | b: x\n2 | b: y\n  | ^ duplicate mapping key: b, set DuplicateKeyPolicy in Options if acceptable"
50 struct-missing [FirstWins] ERR@1:1 "error: line 1 column 1: missing field `a`\n --> <input>:1:1\n  |\n1 | b: x\n  | ^ missing field `a`\n2 | b: y\n  |"
50 struct-missing [LastWins] ERR@- "duplicate field `b`"
51 strict-unknown [Error] ERR@2:1 "error: line 2 column 1: unknown field `zzz`, expected one of a, b\n --> <input>:2:1\n  |\n1 | a: 1\n2 | zzz: 2\n  | ^ unknown field `zzz`, expected one of a, b"
51 strict-unknown [FirstWins] ERR@2:1 "error: line 2 column 1: unknown field `zzz`, expected one of a, b\n --> <input>:2:1\n  |\n1 | a: 1\n2 | zzz: 2\n  | ^ unknown field `zzz`, expected one of a, b"
51 strict-unknown [LastWins] ERR@2:1 "error: line 2 column 1: unknown field `zzz`, expected one of a, b\n --> <input>:2:1\n  |\n1 | a: 1\n2 | zzz: 2\n  | ^ unknown field `zzz`, expected one of a, b"
52 strict-unknown-dup [Error] ERR@2:1 "error: line 2 column 1: unknown field `zzz`, expected one of a, b\n --> <input>:2:1\n  |\n1 | a: 1\n2 | zzz: 1\n  | ^ unknown field `zzz`, expected one of a, b\n3 | zzz: 2\n  |"
52 strict-unknown-dup [FirstWins] ERR@2:1 "error: line 2 column 1: unknown field `zzz`, expected one of a, b\n --> <input>:2:1\n  |\n1 | a: 1\n2 | zzz: 1\n  | ^ unknown field `zzz`, expected one of a, b\n3 | zzz: 2\n  |"
52 strict-unknown-dup [LastWins] ERR@2:1 "error: line 2 column 1: unknown field `zzz`, expected one of a, b\n --> <input>:2:1\n  |\n1 | a: 1\n2 | zzz: 1\n  | ^ unknown field `zzz`, expected one of a, b\n3 | zzz: 2\n  |"
53 strict-dup-seq [Error] ERR@3:1 "error: line 3 column 1: duplicate mapping key: b, set DuplicateKeyPolicy in Options if acceptable\n --> <input>:3:1\n  |\n1 | a: 1\n2 | b: [1]\n3 | b: [2, 3]\n  | ^ duplicate mapping key: b, set DuplicateKeyPolicy in Options if acceptable"
53 strict-dup-seq [FirstWins] OK Strict { a: 1, b: [1] }
53 strict-dup-seq [LastWins] ERR@- "duplicate field `b`"
54 flatten [Error] ERR@3:1 "error: line 3 column 1: duplicate mapping key: x, set DuplicateKeyPolicy in Options if acceptable\n --> <input>:3:1\n  |\n1 | id: 1\n2 | x: 1\n3 | x: 2\n  | ^ duplicate mapping key: x, set DuplicateKeyPolicy in Options if acceptable\n4 | id: 3\n  |"
54 flatten [FirstWins] OK Flat { id: 1, rest: {"x": Number(1)} }
54 flatten [LastWins] ERR@- "duplicate field `id`"
55 int-keys [Error] ERR@3:1 "error: line 3 column 1: duplicate mapping key: 1, set DuplicateKeyPolicy in Options if acceptable\n --> <input>:3:1\n  |\n1 | 1: a\n2 | 01: b\n3 | 1: c\n  | ^ duplicate mapping key: 1, set DuplicateKeyPolicy in Options if acceptable"
55 int-keys [FirstWins] OK {1: "b"}
55 int-keys [LastWins] OK {1: "c"}
56 bad-int-key [Error] ERR@2:1 "error: line 2 column 1: invalid u32\n --> <input>:2:1\n  |\n1 | 1: a\n2 | x: b\n  | ^ invalid u32"
56 bad-int-key [FirstWins] ERR@2:1 "error: line 2 column 1: invalid u32\n --> <input>:2:1\n  |\n1 | 1: a\n2 | x: b\n  | ^ invalid u32"
56 bad-int-key [LastWins] ERR@2:1 "error: line 2 column 1: invalid u32\n --> <input>:2:1\n  |\n1 | 1: a\n2 | x: b\n  | ^ invalid u32"
57 bool-keys [Error] ERR@3:1 "error: line 3 column 1: duplicate mapping key: true, set DuplicateKeyPolicy in Options if acceptable\n --> <input>:3:1\n  |\n1 | true: 1\n2 | yes: 2\n3 | true: 3\n  | ^ duplicate mapping key: true, set DuplicateKeyPolicy in Options if acceptable"
57 bool-keys [FirstWins] OK {true: 2}
57 bool-keys [LastWins] OK {true: 3}
58 option-map [Error] ERR@2:1 "error: line 2 column 1: duplicate mapping key: k, set DuplicateKeyPolicy in Options if acceptable\n --> <input>:2:1\n  |\n1 | k: 1\n2 | k: 2\n  | ^ duplicate mapping key: k, set DuplicateKeyPolicy in Options if acceptable"
58 option-map [FirstWins] OK Some({"k": Number(1)})
58 option-map [LastWins] OK Some({"k": Number(2)})
59 keys-only [Error] OK KeysOnly(["a", 1u, "b", 2u])
59 keys-only [FirstWins] OK KeysOnly(["a", 1u, "b", 2u])
59 keys-only [LastWins] OK KeysOnly(["a", 1u, "b", 2u])
60 keys-only-dup [Error] ERR@1:4 "error: line 1 column 4: duplicate mapping key: a, set DuplicateKeyPolicy in Options if acceptable\n --> <input>:1:4\n  |\n1 | a: a\n  |    ^ duplicate mapping key: a, set DuplicateKeyPolicy in Options if acceptable\n2 | b: b\n  |"
60 keys-only-dup [FirstWins] OK KeysOnly(["a", "b"])
60 keys-only-dup [LastWins] OK KeysOnly(["a", "a", "b", "b"])
61 keys-only-kemn [Error] OK KeysOnly([{}, "q", "r"])
61 keys-only-kemn [FirstWins] OK KeysOnly([{}, "q", "r"])
61 keys-only-kemn [LastWins] OK KeysOnly([{}, "q", "r"])
62 value-first [Error] ERR@1:1 "error: line 1 column 1: value requested before key\n --> <input>:1:1\n  |\n1 | a: 1\n  | ^ value requested before key"
62 value-first [FirstWins] ERR@1:1 "error: line 1 column 1: value requested before key\n --> <input>:1:1\n  |\n1 | a: 1\n  | ^ value requested before key"
62 value-first [LastWins] ERR@1:1 "error: line 1 column 1: value requested before key\n --> <input>:1:1\n  |\n1 | a: 1\n  | ^ value requested before key"
63 ignore-rest [Error] ERR@3:1 "error: line 3 column 1: duplicate mapping key: b, set DuplicateKeyPolicy in Options if acceptable\n --> <input>:3:1\n  |\n1 | a: 1\n2 | b: 2\n3 | b: [3]\n  | ^ duplicate mapping key: b, set DuplicateKeyPolicy in Options if acceptable\n4 | a: {c: d}\n  |"
63 ignore-rest [FirstWins] OK FirstEntryThenIgnoreRest("a", 1u)
63 ignore-rest [LastWins] OK FirstEntryThenIgnoreRest("a", 1u)
64 many-keys [Error] ERR@25:1 "error: line 25 column 1: duplicate mapping key: k0, set DuplicateKeyPolicy in Options if acceptable\n  --> <input>:25:1\n   |\n23 | k22: 22\n24 | k23: 23\n25 | k0: again\n   | ^ duplicate mapping key: k0, set DuplicateKeyPolicy in Options if acceptable\n26 | k15: again\n   |"
64 many-keys [FirstWins] OK {"k0": Number(0), "k1": Number(1), "k10": Number(10), "k11": Number(11), "k12": Number(12), "k13": Number(13), "k14": Number(14), "k15": Number(15), "k16": Number(16), "k17": Number(17), "k18": Number(18), "k19": Number(19), "k2": Number(2), "k20": Number(20), "k21": Number(21), "k22": Number(22), "k23": Number(23), "k3": Number(3), "k4": Number(4), "k5": Number(5), "k6": Number(6), "k7": Number(7), "k8": Number(8), "k9": Number(9)}
64 many-keys [LastWins] OK {"k0": String("again"), "k1": Number(1), "k10": Number(10), "k11": Number(11), "k12": Number(12), "k13": Number(13), "k14": Number(14), "k15": String("again"), "k16": Number(16), "k17": Number(17), "k18": Number(18), "k19": Number(19), "k2": Number(2), "k20": Number(20), "k21": Number(21), "k22": Number(22), "k23": Number(23), "k3": Number(3), "k4": Number(4), "k5": Number(5), "k6": Number(6), "k7": Number(7), "k8": Number(8), "k9": Number(9)}
65 multi-doc [Error] ERR@4:1 "error: line 4 column 1: duplicate mapping key: a, set DuplicateKeyPolicy in Options if acceptable\n --> <input>:4:1\n  |\n2 | ---\n3 | a: 2\n4 | a: 3\n  | ^ duplicate mapping key: a, set DuplicateKeyPolicy in Options if acceptable\n5 | ---\n6 | b: 1\n  |"
65 multi-doc [FirstWins] OK [{"a": 1u}, {"a": 2u}, {"b": 1u}]
65 multi-doc [LastWins] OK [{"a": 1u}, {"a": 2u, "a": 3u}, {"b": 1u}]
66 multi-doc-same-key [Error] OK [{"a": 1u}, {"a": 2u}]
66 multi-doc-same-key [FirstWins] OK [{"a": 1u}, {"a": 2u}]
66 multi-doc-same-key [LastWins] OK [{"a": 1u}, {"a": 2u}]
67 unclosed-key [Error] ERR@1:3 "error: line 1 column 3: unclosed bracket '['\n --> <input>:1:3\n  |\n1 | ? [1, 2\n  |   ^ unclosed bracket '['"
67 unclosed-key [FirstWins] ERR@1:3 "error: line 1 column 3: unclosed bracket '['\n --> <input>:1:3\n  |\n1 | ? [1, 2\n  |   ^ unclosed bracket '['"
67 unclosed-key [LastWins] ERR@1:3 "error: line 1 column 3: unclosed bracket '['\n --> <input>:1:3\n  |\n1 | ? [1, 2\n  |   ^ unclosed bracket '['"
68 eof-after-key [Error] ERR@1:8 "error: line 1 column 8: unclosed bracket '['\n --> <input>:1:8\n  |\n1 | {a: 1, [b, c\n  |        ^ unclosed bracket '['"
68 eof-after-key [FirstWins] ERR@1:8 "error: line 1 column 8: unclosed bracket '['\n --> <input>:1:8\n  |\n1 | {a: 1, [b, c\n  |        ^ unclosed bracket '['"
68 eof-after-key [LastWins] ERR@1:8 "error: line 1 column 8: unclosed bracket '['\n --> <input>:1:8\n  |\n1 | {a: 1, [b, c\n  |        ^ unclosed bracket '['"
"####;
