//! Differential test for the C05 refactoring (typed deserialization is position-faithful).
//!
//! Every case renders its result (value via `Debug`, or the error via `Display`, which carries
//! the message, the location and - when enabled - the snippet) into one string. The strings are
//! compared with literals captured on the UNMODIFIED tree. Run with `DEMO_PRINT=1` to print the
//! actual strings as Rust literals.

use serde::Deserialize;
use serde::de::DeserializeOwned;
use serde_saphyr::Options;
use std::collections::BTreeMap;
use std::fmt::Debug;

#[derive(Debug, Deserialize, PartialEq)]
struct P {
    a: i32,
    b: Option<String>,
}

#[derive(Debug, Deserialize, PartialEq)]
#[serde(deny_unknown_fields)]
struct Strict {
    a: i32,
    #[serde(default)]
    b: i32,
}

#[derive(Debug, Deserialize, PartialEq, Default)]
#[serde(default)]
struct Defaults {
    x: i32,
    y: Vec<i32>,
}

#[derive(Debug, Deserialize, PartialEq)]
struct U;

#[derive(Debug, Deserialize, PartialEq)]
struct TS(i32, String);

#[derive(Debug, Deserialize, PartialEq)]
enum E {
    Unit,
    New(i32),
    Tup(i32, i32),
    St { x: i32 },
    Opt(Option<i32>),
    Lst(Vec<Vec<i32>>, BTreeMap<String, i32>),
    Txt(String),
}

#[derive(Debug, Deserialize, PartialEq)]
struct Pair {
    a: (i32, i32),
    b: (i32, i32),
}

#[derive(Debug, Deserialize, PartialEq)]
struct PairShort {
    a: (i32, i32),
    b: (i32,),
}

#[derive(Debug, Deserialize, PartialEq)]
struct Holder {
    e: E,
    after: i32,
}

fn show<T: Debug>(r: Result<T, serde_saphyr::Error>) -> String {
    match r {
        Ok(v) => format!("OK {v:?}"),
        Err(e) => format!("ERR {e}"),
    }
}

fn d<T: DeserializeOwned + Debug>(y: &str) -> String {
    show(serde_saphyr::from_str::<T>(y))
}

fn plain() -> Options {
    serde_saphyr::options! { with_snippet: false }
}

fn no_schema() -> Options {
    serde_saphyr::options! { no_schema: true, with_snippet: false }
}

fn o<T: DeserializeOwned + Debug>(y: &str, opts: Options) -> String {
    show(serde_saphyr::from_str_with_options::<T>(y, opts))
}

fn multi<T: DeserializeOwned + Debug>(y: &str) -> String {
    show(serde_saphyr::from_multiple::<T>(y))
}

fn actual() -> Vec<String> {
    vec![
        // ---- sequences / tuples / arrays: arity ----
        d::<(i32, String)>("[1, two]"),
        d::<(i32, String)>("[1, two, 3]"),
        d::<(i32, String)>("[1]"),
        d::<(i32, String)>("- 1\n- two\n- 3\n"),
        d::<[u8; 3]>("- 1\n- 2\n- 3\n"),
        d::<[u8; 3]>("[1, 2, 3, 4]"),
        d::<[u8; 3]>("[1, 2]"),
        d::<TS>("[7, seven]"),
        d::<TS>("[7, seven, [8]]"),
        d::<Vec<(i32, i32)>>("[[1, 2], [3, 4, 5], [6, 7]]"),
        d::<Vec<(i32, i32)>>("- [1, 2]\n- [3]\n- [6, 7]\n"),
        d::<((i32, i32), i32)>("[[1, 2, 3], 4]"),
        d::<(Vec<i32>, i32)>("[[1, 2, 3], 4]"),
        d::<Vec<i32>>("{a: 1}"),
        d::<Vec<i32>>("5"),
        d::<(i32, i32)>("[1, 2"),
        d::<Vec<i32>>("- 1\n- [2]\n"),
        // ---- !!binary as a sequence of u8 ----
        d::<[u8; 3]>("!!binary AQID"),
        d::<[u8; 3]>("!!binary AQIDBA=="),
        d::<[u8; 3]>("!!binary AQI="),
        d::<Vec<u8>>("!!binary AQIDBA=="),
        d::<Vec<u8>>("!!binary '***'"),
        d::<(u8, (u8, u8))>("- 1\n- !!binary AQID\n"),
        // ---- null-like scalar as empty sequence / map ----
        d::<Vec<i32>>("~"),
        d::<Vec<i32>>(""),
        d::<Vec<i32>>("null"),
        d::<Vec<i32>>("!!null whatever"),
        d::<Vec<i32>>("!!str null"),
        d::<Vec<i32>>("!!str ~"),
        d::<Vec<i32>>("\"null\""),
        d::<Vec<u8>>("!!binary null"),
        d::<(i32, i32)>("~"),
        d::<()>("~"),
        d::<BTreeMap<String, i32>>("~"),
        d::<BTreeMap<String, i32>>("!!null 5"),
        d::<BTreeMap<String, i32>>("!!str ~"),
        d::<BTreeMap<String, i32>>("'~'"),
        d::<BTreeMap<String, i32>>("!!binary null"),
        d::<Defaults>("null"),
        d::<Defaults>("NULL"),
        d::<Defaults>("a: ~\n"),
        d::<P>("~"),
        d::<BTreeMap<String, Vec<i32>>>("a: ~\nb:\nc: [1]\nd: !!null x\n"),
        d::<BTreeMap<String, Defaults>>("a: ~\nb:\nc: {x: 1}\n"),
        // ---- maps / structs ----
        d::<P>("{a: 1, b: x}"),
        d::<P>("a: 1\n"),
        d::<P>("b: x\n"),
        d::<P>("\n\n  b: x\n"),
        d::<P>("a: [1]\nb: x\n"),
        d::<P>("[1, x]"),
        d::<Strict>("a: 1\nc: 2\n"),
        d::<Strict>("a: 1\nb: 2\n"),
        d::<BTreeMap<String, i32>>("[1]"),
        d::<BTreeMap<String, (i32, i32)>>("k: [1, 2]\nl: [3, 4, 5]\n"),
        d::<BTreeMap<String, i32>>("{a: 1, b: 2"),
        // ---- options ----
        d::<Option<i32>>("~"),
        d::<Option<i32>>(""),
        d::<Option<i32>>("5"),
        d::<Option<i32>>("!!null 5"),
        d::<Option<String>>("!!str null"),
        d::<Option<String>>("!!str ~"),
        d::<Option<String>>("'~'"),
        d::<Option<String>>("Null"),
        d::<Option<serde_bytes::ByteBuf>>("!!binary null"),
        d::<Vec<Option<i32>>>("[1, ~, 3, null, ]"),
        d::<Vec<Option<i32>>>("- 1\n-\n- 3\n"),
        d::<BTreeMap<String, Option<i32>>>("{a: , b: 2, c}"),
        d::<(Option<i32>, Option<i32>)>("[1]"),
        d::<(Option<i32>, Option<i32>)>("[1, ~, ~]"),
        d::<Option<(i32, i32)>>("[1, 2, 3]"),
        d::<Option<Vec<i32>>>("~"),
        d::<Option<E>>("~"),
        d::<BTreeMap<Option<String>, i32>>(": 1\n"),
        d::<BTreeMap<Option<String>, i32>>("~: 1\nx: 2\n"),
        d::<BTreeMap<Option<String>, i32>>("{}: 1\n"),
        d::<BTreeMap<Option<String>, i32>>("? {}\n: 1\n? y\n: 2\n"),
        d::<BTreeMap<Option<String>, i32>>("? {a: 1}\n: 1\n"),
        d::<BTreeMap<Option<BTreeMap<String, i32>>, i32>>("? {}\n: 1\n? {a: 1}\n: 2\n"),
        d::<BTreeMap<Option<Vec<i32>>, i32>>("? []\n: 1\n"),
        // ---- units / unit structs ----
        d::<()>(""),
        d::<()>("5"),
        d::<()>("!!str ~"),
        d::<()>("[]"),
        d::<((), ())>("[~, ~]"),
        d::<((), ())>("[~]"),
        d::<((),)>("[]"),
        d::<BTreeMap<String, ()>>("{a: , b: ~, c}"),
        d::<U>("{}"),
        d::<U>("~"),
        d::<U>(""),
        d::<U>("{a: 1}"),
        d::<U>("[]"),
        d::<U>("x"),
        d::<(U, U, i32)>("[{}, ~, 3]"),
        d::<(U, i32)>("[{x: 1}, 3]"),
        d::<Vec<U>>("- {}\n- ~\n-\n- {}\n"),
        d::<U>("{"),
        // ---- enums: every notation ----
        d::<E>("Unit"),
        d::<E>("New"),
        d::<E>("Opt"),
        d::<E>("Tup"),
        d::<E>("St"),
        d::<E>("Txt"),
        d::<E>("{New: 5}"),
        d::<E>("New: 5\n"),
        d::<E>("!New 5"),
        d::<E>("!New five"),
        d::<E>("!Txt 5"),
        d::<E>("!Opt ~"),
        d::<E>("!Opt 3"),
        d::<E>("!Unit"),
        d::<E>("!Unit ~"),
        d::<E>("!Unit 3"),
        d::<E>("!Unit 'null'"),
        d::<E>("{Unit: ~}"),
        d::<E>("{Unit: }"),
        d::<E>("Unit:\n"),
        d::<E>("{Unit: 3}"),
        d::<E>("{Unit: !!str ~}"),
        d::<E>("{Unit: ~, New: 1}"),
        d::<E>("{Unit}"),
        d::<E>("!Tup [1, 2]"),
        d::<E>("!Tup [1, 2, 3]"),
        d::<E>("!Tup [1]"),
        d::<E>("!Tup\n- 1\n- 2\n"),
        d::<E>("{Tup: [1, 2]}"),
        d::<E>("{Tup: [1, 2, 3]}"),
        d::<E>("{Tup: [1, 2], extra: 1}"),
        d::<E>("Tup: [1, 2]\nNew: 3\n"),
        d::<E>("{St: {x: 1}}"),
        d::<E>("St:\n  x: 1\n"),
        d::<E>("{St: {x: 1}, y: 2}"),
        d::<E>("{St: {y: 1}}"),
        d::<E>("!St {x: 1}"),
        d::<E>("!Lst [[[1], [2, 3]], {a: 1, b: 2}]"),
        d::<E>("!Lst [[[1], [2, 3]], {a: 1, b: 2}, 7]"),
        d::<E>("!Lst\n- - [1]\n  - []\n- a: 1\n"),
        d::<E>("!Lst [[[1], [2, 3]]"),
        d::<E>("Bogus"),
        d::<E>("{Bogus: 1}"),
        d::<E>("!Bogus 5"),
        d::<E>("!Bogus [1, 2]"),
        d::<E>("!E Unit"),
        d::<E>("!E New"),
        d::<E>("!!str Unit"),
        d::<E>("[Unit]"),
        d::<E>("{}"),
        d::<E>("{[a]: 1}"),
        d::<E>("{{a: 1}: 1}"),
        d::<E>(""),
        d::<E>("{New: 5"),
        d::<E>("{New: "),
        d::<E>("{New"),
        d::<Vec<E>>("[Unit, {New: 1}, !New 2, !Tup [3, 4], Opt, {St: {x: 5}}]"),
        d::<Vec<E>>("- Unit\n- New: 1\n- !New 2\n- !Tup [3, 4]\n- Opt\n- St: {x: 5}\n"),
        d::<Vec<E>>("[New, 5]"),
        d::<(E, i32)>("[Opt, 5]"),
        d::<(E, i32)>("[New, 5]"),
        d::<(E, i32)>("[Tup, [1, 2]]"),
        d::<(E, E)>("[!Tup [1, 2], Unit]"),
        d::<(E, E)>("[!Tup [1, 2, 3], Unit]"),
        d::<Holder>("e: Opt\nafter: 9\n"),
        d::<Holder>("e: !New 4\nafter: 9\n"),
        d::<Holder>("e: {Tup: [1, 2]}\nafter: 9\n"),
        d::<Holder>("e: {Tup: [1, 2], after: 9}\n"),
        d::<Holder>("e:\n  Tup: [1, 2]\n  after: 9\n"),
        d::<BTreeMap<String, E>>("a: Unit\nb: {Unit: ~}\nc: !Unit\nd: {New: 1}\n"),
        // ---- no_schema and snippet-less options ----
        o::<E>("123", no_schema()),
        o::<E>("true", no_schema()),
        o::<E>("Unit", no_schema()),
        o::<E>("{123: 1}", no_schema()),
        o::<E>("{New: 1}", no_schema()),
        o::<E>("!Txt 5", no_schema()),
        o::<E>("!New 5", no_schema()),
        o::<E>("!!str 123", no_schema()),
        o::<(i32, i32)>("[1, 2, 3]", plain()),
        o::<E>("{Tup: [1, 2], extra: 1}", plain()),
        o::<E>("!Bogus 5", plain()),
        o::<P>("b: x\n", plain()),
        o::<U>("{a: 1}", plain()),
        o::<i32>("", plain()),
        o::<i32>("1\n---\n2\n", plain()),
        // ---- aliases (locations of use and definition) ----
        d::<Pair>("a: &x [1, 2]\nb: *x\n"),
        d::<PairShort>("a: &x [1, 2]\nb: *x\n"),
        d::<BTreeMap<String, E>>("a: &v {Tup: [1, 2, 3]}\n"),
        d::<BTreeMap<String, E>>("a: &v {New: 1}\nb: *v\n"),
        d::<BTreeMap<String, E>>("a: &v {New: x}\n"),
        d::<Vec<E>>("- &t !Tup [1, 2]\n- *t\n"),
        // ---- single-document entry point: nothing may be left over ----
        d::<i32>(""),
        d::<String>(""),
        d::<Option<i32>>("# only a comment\n"),
        d::<i32>("1\n---\n2\n"),
        d::<(i32, i32)>("[1, 2]\n---\n3\n"),
        d::<i32>("1\n...\n"),
        d::<i32>("1\n...\ngarbage: [\n"),
        d::<i32>("1\n...\n---\n2\n"),
        d::<i32>("--- 1\n--- 2\n"),
        d::<i32>("1 2: [\n"),
        d::<Vec<i32>>("[1, 2] ]"),
        d::<Vec<i32>>("[1, 2]\n- 3\n"),
        d::<E>("Unit\n---\nUnit\n"),
        multi::<(i32, i32)>("[1, 2]\n---\n[3, 4]\n"),
        multi::<(i32, i32)>("[1, 2]\n---\n[3, 4, 5]\n---\n[6, 7]\n"),
        multi::<E>("Unit\n---\n!Tup [1, 2]\n---\n{New: 3}\n"),
        multi::<E>("Opt\n---\n5\n"),
    ]
}

const EXPECTED: &[&str] = &[
    "OK (1, \"two\")",
    "ERR error: line 1 column 10: unexpected event: expected sequence end\n --> <input>:1:10\n  |\n1 | [1, two, 3]\n  |          ^ unexpected event: expected sequence end",
    "ERR invalid length 1, expected a tuple of size 2",
    "ERR error: line 3 column 3: unexpected event: expected sequence end\n --> <input>:3:3\n  |\n1 | - 1\n2 | - two\n3 | - 3\n  |   ^ unexpected event: expected sequence end",
    "OK [1, 2, 3]",
    "ERR error: line 1 column 11: unexpected event: expected sequence end\n --> <input>:1:11\n  |\n1 | [1, 2, 3, 4]\n  |           ^ unexpected event: expected sequence end",
    "ERR invalid length 2, expected an array of length 3",
    "OK TS(7, \"seven\")",
    "ERR error: line 1 column 12: unexpected event: expected sequence end\n --> <input>:1:12\n  |\n1 | [7, seven, [8]]\n  |            ^ unexpected event: expected sequence end",
    "ERR error: line 1 column 17: unexpected event: expected sequence end\n --> <input>:1:17\n  |\n1 | [[1, 2], [3, 4, 5], [6, 7]]\n  |                 ^ unexpected event: expected sequence end",
    "ERR error: line 2 column 3: invalid length 1, expected a tuple of size 2\n --> <input>:2:3\n  |\n1 | - [1, 2]\n2 | - [3]\n  |   ^ invalid length 1, expected a tuple of size 2\n3 | - [6, 7]\n  |",
    "ERR error: line 1 column 9: unexpected event: expected sequence end\n --> <input>:1:9\n  |\n1 | [[1, 2, 3], 4]\n  |         ^ unexpected event: expected sequence end",
    "OK ([1, 2, 3], 4)",
    "ERR error: line 1 column 1: unexpected event: expected sequence start\n --> <input>:1:1\n  |\n1 | {a: 1}\n  | ^ unexpected event: expected sequence start",
    "ERR error: line 1 column 1: unexpected event: expected sequence start\n --> <input>:1:1\n  |\n1 | 5\n  | ^ unexpected event: expected sequence start",
    "ERR error: line 1 column 1: unclosed bracket '['\n --> <input>:1:1\n  |\n1 | [1, 2\n  | ^ unclosed bracket '['",
    "ERR error: line 2 column 3: unexpected event: expected string scalar\n --> <input>:2:3\n  |\n1 | - 1\n2 | - [2]\n  |   ^ unexpected event: expected string scalar",
    "OK [1, 2, 3]",
    "ERR error: line 1 column 10: unexpected event: expected sequence end\n --> <input>:1:10\n  |\n1 | !!binary AQIDBA==\n  |          ^ unexpected event: expected sequence end",
    "ERR invalid length 2, expected an array of length 3",
    "OK [1, 2, 3, 4]",
    "ERR error: line 1 column 10: invalid !!binary base64\n --> <input>:1:10\n  |\n1 | !!binary '***'\n  |          ^ invalid !!binary base64",
    "ERR error: line 2 column 12: unexpected event: expected sequence end\n --> <input>:2:12\n  |\n1 | - 1\n2 | - !!binary AQID\n  |            ^ unexpected event: expected sequence end",
    "OK []",
    "OK []",
    "OK []",
    "OK []",
    "ERR error: line 1 column 7: unexpected event: expected sequence start\n --> <input>:1:7\n  |\n1 | !!str null\n  |       ^ unexpected event: expected sequence start",
    "ERR error: line 1 column 7: unexpected event: expected sequence start\n --> <input>:1:7\n  |\n1 | !!str ~\n  |       ^ unexpected event: expected sequence start",
    "ERR error: line 1 column 1: unexpected event: expected sequence start\n --> <input>:1:1\n  |\n1 | \"null\"\n  | ^ unexpected event: expected sequence start",
    "OK [158, 233, 101]",
    "ERR invalid length 0, expected a tuple of size 2",
    "OK ()",
    "OK {}",
    "OK {}",
    "ERR error: line 1 column 7: unexpected event: expected mapping start\n --> <input>:1:7\n  |\n1 | !!str ~\n  |       ^ unexpected event: expected mapping start",
    "ERR error: line 1 column 1: unexpected event: expected mapping start\n --> <input>:1:1\n  |\n1 | '~'\n  | ^ unexpected event: expected mapping start",
    "ERR error: line 1 column 10: unexpected event: expected mapping start\n --> <input>:1:10\n  |\n1 | !!binary null\n  |          ^ unexpected event: expected mapping start",
    "OK Defaults { x: 0, y: [] }",
    "OK Defaults { x: 0, y: [] }",
    "OK Defaults { x: 0, y: [] }",
    "ERR missing field `a`",
    "OK {\"a\": [], \"b\": [], \"c\": [1], \"d\": []}",
    "OK {\"a\": Defaults { x: 0, y: [] }, \"b\": Defaults { x: 0, y: [] }, \"c\": Defaults { x: 1, y: [] }}",
    "OK P { a: 1, b: Some(\"x\") }",
    "OK P { a: 1, b: None }",
    "ERR error: line 1 column 1: missing field `a`\n --> <input>:1:1\n  |\n1 | b: x\n  | ^ missing field `a`",
    "ERR error: line 3 column 3: missing field `a`\n --> <input>:3:3\n  |\n1 |\n2 |\n3 |   b: x\n  |   ^ missing field `a`",
    "ERR error: line 1 column 4: unexpected event: expected string scalar\n --> <input>:1:4\n  |\n1 | a: [1]\n  |    ^ unexpected event: expected string scalar\n2 | b: x\n  |",
    "ERR error: line 1 column 1: unexpected event: expected mapping start\n --> <input>:1:1\n  |\n1 | [1, x]\n  | ^ unexpected event: expected mapping start",
    "ERR error: line 2 column 1: unknown field `c`, expected one of a, b\n --> <input>:2:1\n  |\n1 | a: 1\n2 | c: 2\n  | ^ unknown field `c`, expected one of a, b",
    "OK Strict { a: 1, b: 2 }",
    "ERR error: line 1 column 1: unexpected event: expected mapping start\n --> <input>:1:1\n  |\n1 | [1]\n  | ^ unexpected event: expected mapping start",
    "ERR error: line 2 column 11: unexpected event: expected sequence end\n --> <input>:2:11\n  |\n1 | k: [1, 2]\n2 | l: [3, 4, 5]\n  |           ^ unexpected event: expected sequence end",
    "ERR error: line 1 column 1: unclosed bracket '{'\n --> <input>:1:1\n  |\n1 | {a: 1, b: 2\n  | ^ unclosed bracket '{'",
    "OK None",
    "OK None",
    "OK Some(5)",
    "OK None",
    "OK Some(\"null\")",
    "OK Some(\"~\")",
    "OK Some(\"~\")",
    "OK None",
    "OK Some([158, 233, 101])",
    "OK [Some(1), None, Some(3), None]",
    "OK [Some(1), None, Some(3)]",
    "OK {\"a\": None, \"b\": Some(2), \"c\": None}",
    "ERR invalid length 1, expected a tuple of size 2",
    "ERR error: line 1 column 8: unexpected event: expected sequence end\n --> <input>:1:8\n  |\n1 | [1, ~, ~]\n  |        ^ unexpected event: expected sequence end",
    "ERR error: line 1 column 8: unexpected event: expected sequence end\n --> <input>:1:8\n  |\n1 | [1, 2, 3]\n  |        ^ unexpected event: expected sequence end",
    "OK None",
    "OK None",
    "OK {None: 1}",
    "OK {None: 1, Some(\"x\"): 2}",
    "OK {None: 1}",
    "OK {None: 1, Some(\"y\"): 2}",
    "ERR error: line 1 column 3: unexpected event: expected string scalar\n --> <input>:1:3\n  |\n1 | ? {a: 1}\n  |   ^ unexpected event: expected string scalar\n2 | : 1\n  |",
    "OK {None: 1, Some({\"a\": 1}): 2}",
    "OK {Some([]): 1}",
    "OK ()",
    "ERR error: line 1 column 1: unexpected value for unit\n --> <input>:1:1\n  |\n1 | 5\n  | ^ unexpected value for unit",
    "ERR error: line 1 column 7: unexpected value for unit\n --> <input>:1:7\n  |\n1 | !!str ~\n  |       ^ unexpected value for unit",
    "ERR error: line 1 column 1: unexpected value for unit\n --> <input>:1:1\n  |\n1 | []\n  | ^ unexpected value for unit",
    "OK ((), ())",
    "ERR invalid length 1, expected a tuple of size 2",
    "ERR invalid length 0, expected a tuple of size 1",
    "OK {\"a\": (), \"b\": (), \"c\": ()}",
    "OK U",
    "OK U",
    "OK U",
    "ERR error: line 1 column 2: expected empty mapping for unit struct\n --> <input>:1:2\n  |\n1 | {a: 1}\n  |  ^ expected empty mapping for unit struct",
    "ERR error: line 1 column 1: unexpected value for unit\n --> <input>:1:1\n  |\n1 | []\n  | ^ unexpected value for unit",
    "ERR error: line 1 column 1: unexpected value for unit\n --> <input>:1:1\n  |\n1 | x\n  | ^ unexpected value for unit",
    "OK (U, U, 3)",
    "ERR error: line 1 column 3: expected empty mapping for unit struct\n --> <input>:1:3\n  |\n1 | [{x: 1}, 3]\n  |   ^ expected empty mapping for unit struct",
    "OK [U, U, U, U]",
    "ERR error: line 1 column 1: unclosed bracket '{'\n --> <input>:1:1\n  |\n1 | {\n  | ^ unclosed bracket '{'",
    "OK Unit",
    "ERR error: line 1 column 1: invalid i32\n --> <input>:1:1\n  |\n1 | New\n  | ^ invalid i32",
    "OK Opt(None)",
    "ERR invalid length 0, expected tuple variant E::Tup with 2 elements",
    "ERR missing field `x`",
    "ERR error: line 1 column 1: cannot deserialize null into string; use Option<String>\n --> <input>:1:1\n  |\n1 | Txt\n  | ^ cannot deserialize null into string; use Option<String>",
    "OK New(5)",
    "OK New(5)",
    "OK New(5)",
    "ERR error: line 1 column 6: invalid i32\n --> <input>:1:6\n  |\n1 | !New five\n  |      ^ invalid i32",
    "OK Txt(\"5\")",
    "OK Opt(None)",
    "OK Opt(Some(3))",
    "OK Unit",
    "OK Unit",
    "ERR error: line 1 column 7: unexpected value for unit enum variant\n --> <input>:1:7\n  |\n1 | !Unit 3\n  |       ^ unexpected value for unit enum variant",
    "ERR error: line 1 column 7: unexpected value for unit enum variant\n --> <input>:1:7\n  |\n1 | !Unit 'null'\n  |       ^ unexpected value for unit enum variant",
    "OK Unit",
    "OK Unit",
    "OK Unit",
    "ERR error: line 1 column 8: unexpected value for unit enum variant\n --> <input>:1:8\n  |\n1 | {Unit: 3}\n  |        ^ unexpected value for unit enum variant",
    "ERR error: line 1 column 14: unexpected value for unit enum variant\n --> <input>:1:14\n  |\n1 | {Unit: !!str ~}\n  |              ^ unexpected value for unit enum variant",
    "ERR error: line 1 column 11: expected end of mapping after enum variant value\n --> <input>:1:11\n  |\n1 | {Unit: ~, New: 1}\n  |           ^ expected end of mapping after enum variant value",
    "OK Unit",
    "OK Tup(1, 2)",
    "ERR error: line 1 column 13: unexpected event: expected sequence end\n --> <input>:1:13\n  |\n1 | !Tup [1, 2, 3]\n  |             ^ unexpected event: expected sequence end",
    "ERR invalid length 1, expected tuple variant E::Tup with 2 elements",
    "OK Tup(1, 2)",
    "OK Tup(1, 2)",
    "ERR error: line 1 column 14: unexpected event: expected sequence end\n --> <input>:1:14\n  |\n1 | {Tup: [1, 2, 3]}\n  |              ^ unexpected event: expected sequence end",
    "ERR error: line 1 column 15: expected end of mapping after enum variant value\n --> <input>:1:15\n  |\n1 | {Tup: [1, 2], extra: 1}\n  |               ^ expected end of mapping after enum variant value",
    "ERR error: line 2 column 1: expected end of mapping after enum variant value\n --> <input>:2:1\n  |\n1 | Tup: [1, 2]\n2 | New: 3\n  | ^ expected end of mapping after enum variant value",
    "OK St { x: 1 }",
    "OK St { x: 1 }",
    "ERR error: line 1 column 14: expected end of mapping after enum variant value\n --> <input>:1:14\n  |\n1 | {St: {x: 1}, y: 2}\n  |              ^ expected end of mapping after enum variant value",
    "ERR error: line 1 column 7: missing field `x`\n --> <input>:1:7\n  |\n1 | {St: {y: 1}}\n  |       ^ missing field `x`",
    "ERR error: line 1 column 6: unknown variant `x`, expected one of `Unit`, `New`, `Tup`, `St`, `Opt`, `Lst`, `Txt`\n --> <input>:1:6\n  |\n1 | !St {x: 1}\n  |      ^ unknown variant `x`, expected one of `Unit`, `New`, `Tup`, `St`, `Opt`, `Lst`, `Txt`",
    "OK Lst([[1], [2, 3]], {\"a\": 1, \"b\": 2})",
    "ERR error: line 1 column 36: unexpected event: expected sequence end\n --> <input>:1:36\n  |\n1 | !Lst [[[1], [2, 3]], {a: 1, b: 2}, 7]\n  |                                    ^ unexpected event: expected sequence end",
    "OK Lst([[1], []], {\"a\": 1})",
    "ERR error: line 1 column 6: unclosed bracket '['\n --> <input>:1:6\n  |\n1 | !Lst [[[1], [2, 3]]\n  |      ^ unclosed bracket '['",
    "ERR error: line 1 column 1: unknown variant `Bogus`, expected one of `Unit`, `New`, `Tup`, `St`, `Opt`, `Lst`, `Txt`\n --> <input>:1:1\n  |\n1 | Bogus\n  | ^ unknown variant `Bogus`, expected one of `Unit`, `New`, `Tup`, `St`, `Opt`, `Lst`, `Txt`",
    "ERR error: line 1 column 2: unknown variant `Bogus`, expected one of `Unit`, `New`, `Tup`, `St`, `Opt`, `Lst`, `Txt`\n --> <input>:1:2\n  |\n1 | {Bogus: 1}\n  |  ^ unknown variant `Bogus`, expected one of `Unit`, `New`, `Tup`, `St`, `Opt`, `Lst`, `Txt`",
    "ERR error: line 1 column 8: tagged enum `Bogus` does not match target enum `E`\n --> <input>:1:8\n  |\n1 | !Bogus 5\n  |        ^ tagged enum `Bogus` does not match target enum `E`",
    "ERR error: line 1 column 8: externally tagged enum expected scalar or mapping\n --> <input>:1:8\n  |\n1 | !Bogus [1, 2]\n  |        ^ externally tagged enum expected scalar or mapping",
    "OK Unit",
    "ERR error: line 1 column 4: invalid i32\n --> <input>:1:4\n  |\n1 | !E New\n  |    ^ invalid i32",
    "OK Unit",
    "ERR error: line 1 column 1: externally tagged enum expected scalar or mapping\n --> <input>:1:1\n  |\n1 | [Unit]\n  | ^ externally tagged enum expected scalar or mapping",
    "ERR error: line 1 column 2: expected string key for externally tagged enum\n --> <input>:1:2\n  |\n1 | {}\n  |  ^ expected string key for externally tagged enum",
    "ERR error: line 1 column 2: expected string key for externally tagged enum\n --> <input>:1:2\n  |\n1 | {[a]: 1}\n  |  ^ expected string key for externally tagged enum",
    "ERR error: line 1 column 2: expected string key for externally tagged enum\n --> <input>:1:2\n  |\n1 | {{a: 1}: 1}\n  |  ^ expected string key for externally tagged enum",
    "ERR unexpected end of input at line 1, column 1",
    "ERR error: line 1 column 1: unclosed bracket '{'\n --> <input>:1:1\n  |\n1 | {New: 5\n  | ^ unclosed bracket '{'",
    "ERR error: line 1 column 1: unclosed bracket '{'\n --> <input>:1:1\n  |\n1 | {New: \n  | ^ unclosed bracket '{'",
    "ERR error: line 1 column 1: unclosed bracket '{'\n --> <input>:1:1\n  |\n1 | {New\n  | ^ unclosed bracket '{'",
    "OK [Unit, New(1), New(2), Tup(3, 4), Opt(None), St { x: 5 }]",
    "OK [Unit, New(1), New(2), Tup(3, 4), Opt(None), St { x: 5 }]",
    "ERR error: line 1 column 2: invalid i32\n --> <input>:1:2\n  |\n1 | [New, 5]\n  |  ^ invalid i32",
    "OK (Opt(None), 5)",
    "ERR error: line 1 column 2: invalid i32\n --> <input>:1:2\n  |\n1 | [New, 5]\n  |  ^ invalid i32",
    "ERR error: line 1 column 2: invalid length 0, expected tuple variant E::Tup with 2 elements\n --> <input>:1:2\n  |\n1 | [Tup, [1, 2]]\n  |  ^ invalid length 0, expected tuple variant E::Tup with 2 elements",
    "OK (Tup(1, 2), Unit)",
    "ERR error: line 1 column 14: unexpected event: expected sequence end\n --> <input>:1:14\n  |\n1 | [!Tup [1, 2, 3], Unit]\n  |              ^ unexpected event: expected sequence end",
    "OK Holder { e: Opt(None), after: 9 }",
    "OK Holder { e: New(4), after: 9 }",
    "OK Holder { e: Tup(1, 2), after: 9 }",
    "ERR error: line 1 column 18: expected end of mapping after enum variant value\n --> <input>:1:18\n  |\n1 | e: {Tup: [1, 2], after: 9}\n  |                  ^ expected end of mapping after enum variant value",
    "ERR error: line 3 column 3: expected end of mapping after enum variant value\n --> <input>:3:3\n  |\n1 | e:\n2 |   Tup: [1, 2]\n3 |   after: 9\n  |   ^ expected end of mapping after enum variant value",
    "OK {\"a\": Unit, \"b\": Unit, \"c\": Unit, \"d\": New(1)}",
    "ERR The string value [123] must be quoted at line 1, column 1",
    "ERR The string value [true] must be quoted at line 1, column 1",
    "OK Unit",
    "ERR The string value [123] must be quoted at line 1, column 2",
    "OK New(1)",
    "ERR The string value [5] must be quoted at line 1, column 6",
    "ERR The string value [5] must be quoted at line 1, column 6",
    "ERR unknown variant `123`, expected one of `Unit`, `New`, `Tup`, `St`, `Opt`, `Lst`, `Txt` at line 1, column 7",
    "ERR unexpected event: expected sequence end at line 1, column 8",
    "ERR expected end of mapping after enum variant value at line 1, column 15",
    "ERR tagged enum `Bogus` does not match target enum `E` at line 1, column 8",
    "ERR missing field `a` at line 1, column 1",
    "ERR expected empty mapping for unit struct at line 1, column 2",
    "ERR unexpected end of input at line 1, column 1",
    "ERR multiple YAML documents detected; use from_multiple or from_multiple_with_options at line 3, column 1",
    "OK Pair { a: (1, 2), b: (1, 2) }",
    "ERR error: line 2 column 4: unexpected event: expected sequence end at line 1, column 11\n --> the value is used here:2:4\n  |\n1 | a: &x [1, 2]\n2 | b: *x\n  |    ^ unexpected event: expected sequence end at line 1, column 11\n  | This value comes indirectly from the anchor at line 1 column 7:\n  |\n1 | a: &x [1, 2]\n  |       ^ defined here\n2 | b: *x\n3 |\n  |\n",
    "ERR error: line 1 column 20: unexpected event: expected sequence end\n --> <input>:1:20\n  |\n1 | a: &v {Tup: [1, 2, 3]}\n  |                    ^ unexpected event: expected sequence end",
    "OK {\"a\": New(1), \"b\": New(1)}",
    "ERR error: line 1 column 13: invalid i32\n --> <input>:1:13\n  |\n1 | a: &v {New: x}\n  |             ^ invalid i32",
    "OK [Tup(1, 2), Tup(1, 2)]",
    "ERR unexpected end of input at line 1, column 1",
    "ERR unexpected end of input at line 1, column 1",
    "OK None",
    "ERR error: line 3 column 1: multiple YAML documents detected; use from_multiple or from_multiple_with_options\n --> <input>:3:1\n  |\n1 | 1\n2 | ---\n3 | 2\n  | ^ multiple YAML documents detected; use from_multiple or from_multiple_with_options",
    "ERR error: line 3 column 1: multiple YAML documents detected; use from_multiple or from_multiple_with_options\n --> <input>:3:1\n  |\n1 | [1, 2]\n2 | ---\n3 | 3\n  | ^ multiple YAML documents detected; use from_multiple or from_multiple_with_options",
    "OK 1",
    "ERR error: line 3 column 1: multiple YAML documents detected; use from_multiple or from_multiple_with_options\n --> <input>:3:1\n  |\n1 | 1\n2 | ...\n3 | garbage: [\n  | ^ multiple YAML documents detected; use from_multiple or from_multiple_with_options",
    "ERR error: line 4 column 1: multiple YAML documents detected; use from_multiple or from_multiple_with_options\n --> <input>:4:1\n  |\n2 | ...\n3 | ---\n4 | 2\n  | ^ multiple YAML documents detected; use from_multiple or from_multiple_with_options",
    "ERR error: line 2 column 5: multiple YAML documents detected; use from_multiple or from_multiple_with_options\n --> <input>:2:5\n  |\n1 | --- 1\n2 | --- 2\n  |     ^ multiple YAML documents detected; use from_multiple or from_multiple_with_options",
    "ERR error: line 1 column 1: unexpected event: expected string scalar\n --> <input>:1:1\n  |\n1 | 1 2: [\n  | ^ unexpected event: expected string scalar",
    "ERR error: line 1 column 8: misplaced bracket\n --> <input>:1:8\n  |\n1 | [1, 2] ]\n  |        ^ misplaced bracket",
    "OK [1, 2]",
    "ERR error: line 3 column 1: multiple YAML documents detected; use from_multiple or from_multiple_with_options\n --> <input>:3:1\n  |\n1 | Unit\n2 | ---\n3 | Unit\n  | ^ multiple YAML documents detected; use from_multiple or from_multiple_with_options",
    "OK [(1, 2), (3, 4)]",
    "ERR error: line 3 column 8: unexpected event: expected sequence end\n --> <input>:3:8\n  |\n1 | [1, 2]\n2 | ---\n3 | [3, 4, 5]\n  |        ^ unexpected event: expected sequence end\n4 | ---\n5 | [6, 7]\n  |",
    "OK [Unit, Tup(1, 2), New(3)]",
    "ERR error: line 3 column 1: unknown variant `5`, expected one of `Unit`, `New`, `Tup`, `St`, `Opt`, `Lst`, `Txt`\n --> <input>:3:1\n  |\n1 | Opt\n2 | ---\n3 | 5\n  | ^ unknown variant `5`, expected one of `Unit`, `New`, `Tup`, `St`, `Opt`, `Lst`, `Txt`",
];

#[test]
fn differential_demo() {
    let actual = actual();
    if std::env::var_os("DEMO_PRINT").is_some() {
        for a in &actual {
            println!("    {a:?},");
        }
        return;
    }
    assert!(actual.len() >= 30);
    let mut failures = Vec::new();
    for (i, a) in actual.iter().enumerate() {
        match EXPECTED.get(i) {
            Some(e) if e == a => {}
            other => failures.push(format!("case {i}:\n  actual:   {a:?}\n  expected: {other:?}")),
        }
    }
    assert_eq!(actual.len(), EXPECTED.len(), "number of cases");
    assert!(failures.is_empty(), "{}", failures.join("\n"));
}
