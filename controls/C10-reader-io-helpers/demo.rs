//! Differential test for the C10 control refactoring (I/O faults and the input-size cap).
//!
//! Every case renders its outcome (value, error text, bytes pulled from the reader, bytes
//! written to the writer, callback reports) into one line of text. The lines are compared
//! with literals that were produced on the UNMODIFIED tree. Copy this file to `tests/demo.rs`
//! and run `cargo nextest run --offline --test demo` (or `cargo test --offline --test demo`).

use serde::{Deserialize, Serialize};
use serde_saphyr::budget::BudgetReport;
use serde_saphyr::{
    Error, Options, SerializerOptions, from_reader, from_reader_with_options, read,
    read_with_options, to_io_writer, to_io_writer_with_options, with_deserializer_from_reader,
    with_deserializer_from_reader_with_options,
};
use std::cell::{Cell, RefCell};
use std::collections::BTreeMap;
use std::io::{self, Read, Write};
use std::rc::Rc;

// ---------------------------------------------------------------------------------------
// Readers
// ---------------------------------------------------------------------------------------

/// What happens once the scripted data is used up (or at a scripted position).
#[derive(Clone, Copy)]
enum Fault {
    /// Plain end of input.
    Eof,
    /// `Err(kind, "boom")`, on every call from then on.
    Fail(io::ErrorKind),
    /// One `Err(kind, "hiccup")`, then plain end of input.
    FailOnce(io::ErrorKind),
}

/// Reader that hands out `data[..cut]` in chunks of at most `chunk` bytes, then behaves as
/// `fault` says, and (for `FailOnce`) continues with `data[cut..]` afterwards. It counts
/// every byte it hands out in `pulled`.
struct Script {
    data: Vec<u8>,
    pos: usize,
    cut: usize,
    chunk: usize,
    fault: Fault,
    fired: bool,
    pulled: Rc<Cell<usize>>,
}

impl Script {
    fn new(data: &[u8]) -> Self {
        Script {
            data: data.to_vec(),
            pos: 0,
            cut: data.len(),
            chunk: usize::MAX,
            fault: Fault::Eof,
            fired: false,
            pulled: Rc::new(Cell::new(0)),
        }
    }
    fn chunk(mut self, chunk: usize) -> Self {
        self.chunk = chunk;
        self
    }
    fn fault_at(mut self, cut: usize, fault: Fault) -> Self {
        self.cut = cut;
        self.fault = fault;
        self
    }
    fn counter(&self) -> Rc<Cell<usize>> {
        self.pulled.clone()
    }
}

impl Read for Script {
    fn read(&mut self, buf: &mut [u8]) -> io::Result<usize> {
        if buf.is_empty() {
            return Ok(0);
        }
        let limit = if self.fired { self.data.len() } else { self.cut };
        if self.pos >= limit {
            return match self.fault {
                Fault::Eof => Ok(0),
                Fault::Fail(kind) => Err(io::Error::new(kind, "boom")),
                Fault::FailOnce(kind) => {
                    if self.fired {
                        Ok(0)
                    } else {
                        self.fired = true;
                        Err(io::Error::new(kind, "hiccup"))
                    }
                }
            };
        }
        let n = buf.len().min(self.chunk).min(limit - self.pos);
        buf[..n].copy_from_slice(&self.data[self.pos..self.pos + n]);
        self.pos += n;
        self.pulled.set(self.pulled.get() + n);
        Ok(n)
    }
}

// ---------------------------------------------------------------------------------------
// Writers
// ---------------------------------------------------------------------------------------

enum Full {
    /// `Err(kind, "disk full")` once the capacity is used up.
    Fail(io::ErrorKind),
    /// `Ok(0)` once the capacity is used up (`write_all` turns it into `WriteZero`).
    Zero,
}

/// Writer that accepts `capacity` bytes in total (short writes of at most `chunk`), then fails.
struct Quota {
    out: Vec<u8>,
    capacity: usize,
    chunk: usize,
    full: Full,
    calls: usize,
}

impl Quota {
    fn new(capacity: usize, full: Full) -> Self {
        Quota {
            out: Vec::new(),
            capacity,
            chunk: usize::MAX,
            full,
            calls: 0,
        }
    }
    fn chunk(mut self, chunk: usize) -> Self {
        self.chunk = chunk;
        self
    }
}

impl Write for Quota {
    fn write(&mut self, buf: &[u8]) -> io::Result<usize> {
        self.calls += 1;
        if buf.is_empty() {
            return Ok(0);
        }
        let room = self.capacity - self.out.len();
        if room == 0 {
            return match self.full {
                Full::Fail(kind) => Err(io::Error::new(kind, "disk full")),
                Full::Zero => Ok(0),
            };
        }
        let n = buf.len().min(room).min(self.chunk);
        self.out.extend_from_slice(&buf[..n]);
        Ok(n)
    }
    fn flush(&mut self) -> io::Result<()> {
        Ok(())
    }
}

// ---------------------------------------------------------------------------------------
// Rendering
// ---------------------------------------------------------------------------------------

fn io_kind(e: &Error) -> String {
    match e {
        Error::IOError { cause } => format!(" [io kind {:?}]", cause.kind()),
        Error::WithSnippet { error, .. } => io_kind(error),
        _ => String::new(),
    }
}

fn show<T: std::fmt::Debug>(r: Result<T, Error>) -> String {
    match r {
        Ok(v) => format!("Ok({v:?})"),
        Err(e) => format!("Err({:?}){}", e.to_string(), io_kind(&e)),
    }
}

fn cap(n: usize) -> Options {
    serde_saphyr::options! {
        budget: serde_saphyr::budget! { max_reader_input_bytes: Some(n) },
    }
}

fn cap_no_snippet(n: usize) -> Options {
    serde_saphyr::options! {
        crop_radius: 0,
        budget: serde_saphyr::budget! { max_reader_input_bytes: Some(n) },
    }
}

fn no_cap() -> Options {
    serde_saphyr::options! {
        budget: serde_saphyr::budget! { max_reader_input_bytes: None },
    }
}

type Map = BTreeMap<String, i32>;

#[derive(Debug, Deserialize, Serialize, PartialEq)]
struct Point {
    x: i32,
    y: i32,
}

#[derive(Debug, Serialize)]
struct Doc {
    name: String,
    tags: Vec<String>,
    point: Point,
    text: String,
    ch: char,
    none: Option<u8>,
}

fn doc() -> Doc {
    Doc {
        name: "caf\u{e9} \u{1F600}".to_string(),
        tags: vec!["a".into(), "b c".into(), "true".into()],
        point: Point { x: -1, y: 2 },
        text: "line one\nline two\n".to_string(),
        ch: '\u{e9}',
        none: None,
    }
}

/// `from_reader_with_options::<T>` on a scripted reader; also reports the bytes pulled.
fn one<T: serde::de::DeserializeOwned + std::fmt::Debug>(script: Script, options: Options) -> String {
    let pulled = script.counter();
    let r: Result<T, Error> = from_reader_with_options(script, options);
    format!("{} pulled={}", show(r), pulled.get())
}

/// `read_with_options::<_, T>` drained (at most 12 calls), then three more calls to check
/// that a finished iterator stays finished.
fn many<T: serde::de::DeserializeOwned + std::fmt::Debug>(
    mut script: Script,
    options: Options,
) -> String {
    let pulled = script.counter();
    let mut out = Vec::new();
    {
        let mut it = read_with_options::<_, T>(&mut script, options);
        let mut ended = false;
        for _ in 0..12 {
            match it.next() {
                Some(r) => out.push(show(r)),
                None => {
                    ended = true;
                    break;
                }
            }
        }
        out.push(format!("ended={ended}"));
        let after: Vec<bool> = (0..3).map(|_| it.next().is_none()).collect();
        out.push(format!("after={after:?}"));
    }
    format!("{} pulled={}", out.join(" | "), pulled.get())
}

fn write_case<T: Serialize>(value: &T, w: Quota, options: Option<SerializerOptions>) -> String {
    write_case_vs(value, w, options, None)
}

/// Serialize into `w`; when `clean` (the fault-free output) is given, also report whether
/// the bytes that reached the writer are a prefix of it.
fn write_case_vs<T: Serialize>(
    value: &T,
    mut w: Quota,
    options: Option<SerializerOptions>,
    clean: Option<&[u8]>,
) -> String {
    let r = match options {
        Some(o) => to_io_writer_with_options(&mut w, value, o),
        None => to_io_writer(&mut w, value),
    };
    let res = match r {
        Ok(()) => "Ok".to_string(),
        Err(e) => {
            let kind = match &e {
                serde_saphyr::ser::Error::IO { error } => format!(" [io kind {:?}]", error.kind()),
                _ => String::new(),
            };
            format!("Err({:?}){}", e.to_string(), kind)
        }
    };
    let prefix = match clean {
        Some(clean) => format!(" prefix={}", clean.starts_with(&w.out)),
        None => String::new(),
    };
    format!(
        "{} written={:?}{}",
        res,
        String::from_utf8_lossy(&w.out).into_owned(),
        prefix
    )
}

fn utf16(text: &str, big_endian: bool) -> Vec<u8> {
    let mut out = Vec::new();
    for cu in std::iter::once(0xFEFFu16).chain(text.encode_utf16()) {
        if big_endian {
            out.extend_from_slice(&cu.to_be_bytes());
        } else {
            out.extend_from_slice(&cu.to_le_bytes());
        }
    }
    out
}

fn report_line(r: &BudgetReport) -> String {
    format!(
        "breached={:?} events={} documents={} nodes={} scalar_bytes={}",
        r.breached, r.events, r.documents, r.nodes, r.total_scalar_bytes
    )
}

// ---------------------------------------------------------------------------------------
// The cases
// ---------------------------------------------------------------------------------------

fn run_all() -> Vec<String> {
    let mut out: Vec<String> = Vec::new();
    let mut case = |name: &str, line: String| out.push(format!("{name}: {line}"));

    let other = io::ErrorKind::Other;

    // --- from_reader_with_options: plain values and the end-of-document checks -----------
    case("r01 map", one::<Map>(Script::new(b"a: 1\nb: 2\n"), Options::default()));
    case("r02 empty->bool", one::<bool>(Script::new(b""), Options::default()));
    case("r03 empty->option", one::<Option<i32>>(Script::new(b""), Options::default()));
    case("r04 comment->bool", one::<bool>(Script::new(b"# nothing\n"), Options::default()));
    case("r05 two docs", one::<Map>(Script::new(b"a: 1\n---\nb: 2\n"), Options::default()));
    case(
        "r06 garbage after ...",
        one::<Map>(Script::new(b"a: 1\n...\n]] {{ garbage\n"), Options::default()),
    );
    case(
        "r07 garbage no end",
        one::<Vec<i32>>(Script::new(b"[1, 2]\n]] garbage\n"), Options::default()),
    );
    case("r08 type error", one::<Point>(Script::new(b"x: 1\ny: no\n"), Options::default()));
    case(
        "r09 type error no snippet",
        one::<Point>(Script::new(b"x: 1\ny: no\n"), cap_no_snippet(1000)),
    );
    case("r10 from_reader default", {
        let r: Result<Point, Error> = from_reader(Script::new(b"x: 1\ny: 2\n"));
        show(r)
    });

    // --- the input-size cap -------------------------------------------------------------
    let ten = b"a: 1\nb: 2\n"; // 10 bytes
    case("c01 cap == len", one::<Map>(Script::new(ten), cap(10)));
    case("c02 cap == len-1", one::<Map>(Script::new(ten), cap(9)));
    case("c03 cap == len+1", one::<Map>(Script::new(ten), cap(11)));
    case("c04 cap 0 nonempty", one::<Map>(Script::new(ten), cap(0)));
    case("c05 cap 0 empty", one::<Option<i32>>(Script::new(b""), cap(0)));
    case("c06 cap 0 empty bool", one::<bool>(Script::new(b""), cap(0)));
    case("c07 cap 1", one::<Map>(Script::new(ten), cap(1)));
    case("c08 cap 5 (one entry fits)", one::<Map>(Script::new(ten), cap(5)));
    case("c09 cap 9 no snippet", one::<Map>(Script::new(ten), cap_no_snippet(9)));
    case("c10 usize::MAX cap", one::<Map>(Script::new(ten), cap(usize::MAX)));
    case("c11 no cap", one::<Map>(Script::new(ten), no_cap()));
    let accented = "k: \u{e9}\u{e9}\n".as_bytes(); // 3 + 2 + 2 + 1 = 8 bytes
    case("c12 multibyte cap 8", one::<BTreeMap<String, String>>(Script::new(accented), cap(8)));
    case("c13 multibyte cap 7", one::<BTreeMap<String, String>>(Script::new(accented), cap(7)));
    case("c14 multibyte cap 6 (mid char)", one::<BTreeMap<String, String>>(Script::new(accented), cap(6)));
    case("c15 multibyte cap 4 (mid char)", one::<BTreeMap<String, String>>(Script::new(accented), cap(4)));
    let emoji = "- \u{1F600}\n- \u{20AC}\n".as_bytes(); // 2+4+1 + 2+3+1 = 13
    case("c16 emoji cap 13", one::<Vec<String>>(Script::new(emoji).chunk(1), cap(13)));
    case("c17 emoji cap 12", one::<Vec<String>>(Script::new(emoji).chunk(1), cap(12)));
    case("c18 emoji cap 5", one::<Vec<String>>(Script::new(emoji).chunk(1), cap(5)));
    case("c19 emoji cap 3", one::<Vec<String>>(Script::new(emoji).chunk(3), cap(3)));
    // A long input: the reader is not drained past the cap plus the buffering allowance.
    let mut long = Vec::new();
    for i in 0..20000 {
        long.extend_from_slice(format!("k{i}: {i}\n").as_bytes());
    }
    case("c20 long cap 100", one::<Map>(Script::new(&long), cap(100)));
    case("c21 long cap 100 small chunks", one::<Map>(Script::new(&long).chunk(7), cap(100)));
    case("c22 long cap 20000", one::<Map>(Script::new(&long).chunk(1000), cap_no_snippet(20000)));
    case("c23 long fits", {
        let script = Script::new(&long);
        let pulled = script.counter();
        let r: Result<Map, Error> = from_reader_with_options(script, cap(long.len()));
        format!("{} pulled={}", show(r.map(|m| m.len())), pulled.get())
    });
    case("c24 long one over", {
        let script = Script::new(&long);
        let pulled = script.counter();
        let r: Result<Map, Error> = from_reader_with_options(script, cap(long.len() - 1));
        format!("{} pulled={}", show(r.map(|m| m.len())), pulled.get())
    });
    // UTF-16 input: the cap counts decoded UTF-8 bytes.
    let le = utf16("a: \u{e9}\n", false); // decoded: 3 + 2 + 1 = 6
    let be = utf16("a: \u{e9}\n", true);
    case("c25 utf16le cap 6", one::<BTreeMap<String, String>>(Script::new(&le), cap(6)));
    case("c26 utf16le cap 5", one::<BTreeMap<String, String>>(Script::new(&le), cap(5)));
    case("c27 utf16be cap 6 chunk 1", one::<BTreeMap<String, String>>(Script::new(&be).chunk(1), cap(6)));
    case("c28 utf16be cap 3", one::<BTreeMap<String, String>>(Script::new(&be).chunk(3), cap(3)));
    case("c29 utf8 bom", one::<Map>(Script::new(b"\xEF\xBB\xBFa: 1\n"), cap(5)));
    case("c30 utf8 bom cap 4", one::<Map>(Script::new(b"\xEF\xBB\xBFa: 1\n"), cap(4)));

    // --- reader faults --------------------------------------------------------------------
    case("f01 fails at once", one::<Map>(Script::new(ten).fault_at(0, Fault::Fail(other)), Options::default()));
    case("f02 fails at once ->option", one::<Option<i32>>(Script::new(b"").fault_at(0, Fault::Fail(other)), Options::default()));
    case("f03 fails mid key", one::<Map>(Script::new(ten).fault_at(1, Fault::Fail(other)), Options::default()));
    case("f04 fails after first entry", one::<Map>(Script::new(ten).fault_at(5, Fault::Fail(other)), Options::default()));
    case("f05 fails after whole doc", one::<Map>(Script::new(ten).fault_at(10, Fault::Fail(other)), Options::default()));
    case("f06 fails after whole doc no snippet", one::<Map>(Script::new(ten).fault_at(10, Fault::Fail(io::ErrorKind::PermissionDenied)), cap_no_snippet(100)));
    case("f07 fails after ... marker", one::<Map>(Script::new(b"a: 1\n...\n").fault_at(9, Fault::Fail(other)), Options::default()));
    case("f08 fails once then data", one::<Map>(Script::new(ten).fault_at(5, Fault::FailOnce(other)), Options::default()));
    case("f09 interrupted at char start", one::<Map>(Script::new(ten).fault_at(5, Fault::FailOnce(io::ErrorKind::Interrupted)), Options::default()));
    case("f10 scalar seq fails before ]", one::<Vec<i32>>(Script::new(b"[1, 2, 3]\n").fault_at(8, Fault::Fail(other)), Options::default()));
    case("f11 scalar cut by failure", one::<String>(Script::new(b"hello world\n").fault_at(5, Fault::Fail(other)), Options::default()));
    case("f12 unexpected-eof kind error at start of char", one::<String>(Script::new(b"hello world\n").fault_at(5, Fault::Fail(io::ErrorKind::UnexpectedEof)), Options::default()));
    // Multi-byte characters cut in the middle.
    let cafe = "v: caf\u{e9}\n".as_bytes(); // the 2-byte char is bytes 6..8
    case("f13 eof inside 2-byte char", one::<BTreeMap<String, String>>(Script::new(&cafe[..7]), Options::default()));
    case("f14 failure inside 2-byte char", one::<BTreeMap<String, String>>(Script::new(cafe).chunk(1).fault_at(7, Fault::Fail(other)), Options::default()));
    case("f15 interrupted inside 2-byte char", one::<BTreeMap<String, String>>(Script::new(cafe).chunk(1).fault_at(7, Fault::FailOnce(io::ErrorKind::Interrupted)), Options::default()));
    case("f16 2-byte char split over reads", one::<BTreeMap<String, String>>(Script::new(cafe).chunk(1), Options::default()));
    let grin = "v: \u{1F600}!\n".as_bytes(); // the 4-byte char is bytes 3..7
    case("f17 eof after 1 of 4", one::<BTreeMap<String, String>>(Script::new(&grin[..4]).chunk(1), Options::default()));
    case("f18 eof after 3 of 4", one::<BTreeMap<String, String>>(Script::new(&grin[..6]).chunk(1), Options::default()));
    case("f19 eof after 3 of 4 one read", one::<BTreeMap<String, String>>(Script::new(&grin[..6]), Options::default()));
    case("f20 4-byte split 2+2", one::<BTreeMap<String, String>>(Script::new(grin).chunk(5), Options::default()));
    case("f21 failure after 2 of 4", one::<BTreeMap<String, String>>(Script::new(grin).chunk(1).fault_at(5, Fault::Fail(io::ErrorKind::BrokenPipe)), cap_no_snippet(100)));
    // Malformed UTF-8.
    case("f22 continuation as leading byte", one::<String>(Script::new(b"ab\x80cd\n"), Options::default()));
    case("f23 0xF8 leading byte", one::<String>(Script::new(b"ab\xF8\x88\x80\x80\x80\n"), Options::default()));
    case("f24 0xFF in the middle", one::<String>(Script::new(b"ab\xFFcd\n"), Options::default()));
    case("f25 bad continuation", one::<String>(Script::new(b"ab\xC3\x28cd\n"), Options::default()));
    case("f26 surrogate", one::<String>(Script::new(b"ab\xED\xA0\x80cd\n"), Options::default()));
    case("f27 overlong", one::<String>(Script::new(b"ab\xC0\xAFcd\n"), Options::default()));
    case("f28 above U+10FFFF", one::<String>(Script::new(b"ab\xF4\x90\x80\x80cd\n"), Options::default()));
    case("f29 bad 3rd byte with cap", one::<String>(Script::new(b"ab\xE2\x82\x28cd\n"), cap(4)));
    case("f30 bad bytes past cap", one::<String>(Script::new(b"ab\xE2\x82\x28cd\n"), cap(3)));
    case("f31 malformed after complete doc", one::<Map>(Script::new(b"a: 1\n\x80"), Options::default()));
    case("f32 malformed after ...", one::<Map>(Script::new(b"a: 1\n...\n\x80"), Options::default()));

    // --- budget report at finish ------------------------------------------------------------
    case("b01 report cb ok", {
        let seen: Rc<RefCell<Vec<String>>> = Rc::new(RefCell::new(Vec::new()));
        let sink = seen.clone();
        let options = cap(100).with_budget_report(move |r: BudgetReport| sink.borrow_mut().push(report_line(&r)));
        let s = one::<Map>(Script::new(ten), options);
        format!("{s} reports={:?}", seen.borrow())
    });
    case("b02 report cb on cap error", {
        let seen: Rc<RefCell<Vec<String>>> = Rc::new(RefCell::new(Vec::new()));
        let sink = seen.clone();
        let options = cap(9).with_budget_report(move |r: BudgetReport| sink.borrow_mut().push(report_line(&r)));
        let s = one::<Map>(Script::new(ten), options);
        format!("{s} reports={:?}", seen.borrow())
    });
    case("b03 report cb on late reader failure", {
        let seen: Rc<RefCell<Vec<String>>> = Rc::new(RefCell::new(Vec::new()));
        let sink = seen.clone();
        let options = cap(100).with_budget_report(move |r: BudgetReport| sink.borrow_mut().push(report_line(&r)));
        let s = one::<Map>(Script::new(ten).fault_at(10, Fault::Fail(other)), options);
        format!("{s} reports={:?}", seen.borrow())
    });
    case("b04 node budget breached", {
        let seen: Rc<RefCell<Vec<String>>> = Rc::new(RefCell::new(Vec::new()));
        let sink = seen.clone();
        let options = serde_saphyr::options! {
            budget: serde_saphyr::budget! { max_nodes: 3 },
        }
        .with_budget_report(move |r: BudgetReport| sink.borrow_mut().push(report_line(&r)));
        let s = one::<Map>(Script::new(ten), options);
        format!("{s} reports={:?}", seen.borrow())
    });
    case("b05 no budget at all", {
        let options = serde_saphyr::options! { budget: None };
        one::<Map>(Script::new(&long[..50]), options)
    });
    case("b06 no budget, reader failure", {
        let options = serde_saphyr::options! { budget: None };
        one::<Map>(Script::new(ten).fault_at(10, Fault::Fail(other)), options)
    });

    // --- read_with_options ----------------------------------------------------------------------
    let docs = b"x: 1\ny: 2\n---\n~\n---\nx: 3\ny: 4\n---\nnull\n---\nx: 5\ny: 6\n";
    case("m01 docs with nulls", many::<Point>(Script::new(docs), Options::default()));
    case("m02 docs chunk 1", many::<Point>(Script::new(docs).chunk(1), no_cap()));
    case("m03 empty", many::<Point>(Script::new(b""), Options::default()));
    case("m04 only nulls", many::<Point>(Script::new(b"~\n---\nnull\n---\n"), Options::default()));
    case("m05 quoted null is a value", many::<String>(Script::new(b"'null'\n--- !!str null\n--- ~\n--- x\n"), Options::default()));
    let bad_mid = b"x: 1\ny: 2\n---\nx: oops\ny: 4\n---\nx: 5\ny: 6\n";
    case("m06 recover after bad doc", many::<Point>(Script::new(bad_mid), Options::default()));
    case("m07 bad last doc", many::<Point>(Script::new(b"x: 1\ny: 2\n---\nx: oops\ny: 4\n"), Options::default()));
    case("m08 syntax error", many::<Point>(Script::new(b"x: 1\ny: 2\n---\nx: [1, 2\ny: 4\n---\nx: 5\ny: 6\n"), Options::default()));
    case("m09 cap in 3rd doc", many::<Point>(Script::new(docs), cap(30)));
    case("m10 cap == len", many::<Point>(Script::new(docs), cap(docs.len())));
    case("m11 cap == len-1", many::<Point>(Script::new(docs), cap(docs.len() - 1)));
    case("m12 cap 0", many::<Point>(Script::new(docs), cap(0)));
    case("m13 cap hit while skipping a bad doc", many::<Point>(Script::new(bad_mid), cap(22)));
    case("m14 failure while skipping a bad doc", many::<Point>(Script::new(bad_mid).chunk(1).fault_at(24, Fault::Fail(other)), Options::default()));
    case("m15 failure in 2nd doc", many::<Point>(Script::new(docs).chunk(1).fault_at(22, Fault::Fail(other)), Options::default()));
    case("m16 failure inside null doc", many::<Point>(Script::new(docs).chunk(1).fault_at(15, Fault::Fail(other)), Options::default()));
    case("m17 failure right after null doc", many::<Point>(Script::new(docs).chunk(1).fault_at(16, Fault::Fail(other)), Options::default()));
    case("m18 failure at the very end", many::<Point>(Script::new(docs).fault_at(docs.len(), Fault::Fail(other)), Options::default()));
    case("m19 failure at once", many::<Point>(Script::new(docs).fault_at(0, Fault::Fail(other)), Options::default()));
    case("m20 fail once mid stream", many::<Point>(Script::new(docs).chunk(1).fault_at(22, Fault::FailOnce(other)), Options::default()));
    case("m21 eof inside char", many::<String>(Script::new(b"a\n---\nb\xC3"), Options::default()));
    case("m22 malformed in 2nd doc", many::<String>(Script::new(b"a\n---\nb\x80c\n---\nd\n"), Options::default()));
    case("m23 read() default has no cap", {
        let mut script = Script::new(&long);
        let pulled = script.counter();
        let n = read::<_, Map>(&mut script).map(|r| r.map(|m| m.len())).map(show).collect::<Vec<_>>();
        format!("{n:?} pulled={}", pulled.get())
    });
    case("m24 long stream cap 100", {
        let mut long_docs = Vec::new();
        for i in 0..5000 {
            long_docs.extend_from_slice(format!("x: {i}\ny: {i}\n---\n").as_bytes());
        }
        many::<Point>(Script::new(&long_docs), cap(100))
    });
    case("m25 report cb with per-document budget", {
        let seen: Rc<RefCell<Vec<String>>> = Rc::new(RefCell::new(Vec::new()));
        let sink = seen.clone();
        let options = cap(1000).with_budget_report(move |r: BudgetReport| sink.borrow_mut().push(report_line(&r)));
        let s = many::<Point>(Script::new(docs), options);
        format!("{s} reports={:?}", seen.borrow())
    });
    case("m26 report cb, cap error", {
        let seen: Rc<RefCell<Vec<String>>> = Rc::new(RefCell::new(Vec::new()));
        let sink = seen.clone();
        let options = cap(30).with_budget_report(move |r: BudgetReport| sink.borrow_mut().push(report_line(&r)));
        let s = many::<Point>(Script::new(docs), options);
        format!("{s} reports={:?}", seen.borrow())
    });
    case("m27 report cb, bad last doc then failure", {
        let seen: Rc<RefCell<Vec<String>>> = Rc::new(RefCell::new(Vec::new()));
        let sink = seen.clone();
        let options = cap(1000).with_budget_report(move |r: BudgetReport| sink.borrow_mut().push(report_line(&r)));
        let data = b"x: 1\ny: 2\n---\nx: oops\ny: 4\n";
        let s = many::<Point>(Script::new(data).fault_at(data.len(), Fault::Fail(other)), options);
        format!("{s} reports={:?}", seen.borrow())
    });

    // --- with_deserializer_from_reader ----------------------------------------------------------
    case("w01 ok", show(with_deserializer_from_reader(Script::new(ten), |de| Map::deserialize(de))));
    case("w02 two docs", show(with_deserializer_from_reader(Script::new(b"a: 1\n---\nb: 2\n"), |de| Map::deserialize(de))));
    case("w03 garbage after ...", show(with_deserializer_from_reader(Script::new(b"a: 1\n...\n]] {{\n"), |de| Map::deserialize(de))));
    case("w04 garbage", show(with_deserializer_from_reader(Script::new(b"[1]\n]] {{\n"), |de| Vec::<i32>::deserialize(de))));
    case("w05 empty->bool", show(with_deserializer_from_reader(Script::new(b""), |de| bool::deserialize(de))));
    case("w06 cap == len", show(with_deserializer_from_reader_with_options(Script::new(ten), cap(10), |de| Map::deserialize(de))));
    case("w07 cap == len-1", show(with_deserializer_from_reader_with_options(Script::new(ten), cap(9), |de| Map::deserialize(de))));
    case("w08 failure after whole doc", show(with_deserializer_from_reader(Script::new(ten).fault_at(10, Fault::Fail(other)), |de| Map::deserialize(de))));
    case("w09 failure after ...", show(with_deserializer_from_reader(Script::new(b"a: 1\n...\n").fault_at(9, Fault::Fail(other)), |de| Map::deserialize(de))));
    case("w10 eof inside char", show(with_deserializer_from_reader(Script::new(b"a: \xE2\x82"), |de| BTreeMap::<String, String>::deserialize(de))));
    case("w11 closure ignores input, reader fails", show(with_deserializer_from_reader(Script::new(ten).fault_at(0, Fault::Fail(other)), |_de| Ok(7))));
    case("w12 closure ignores input", show(with_deserializer_from_reader(Script::new(ten), |_de| Ok(7))));
    case("w13 node budget", {
        let options = serde_saphyr::options! { budget: serde_saphyr::budget! { max_nodes: 3 } };
        show(with_deserializer_from_reader_with_options(Script::new(ten), options, |de| Map::deserialize(de)))
    });

    // --- writers --------------------------------------------------------------------------------
    let full_text = {
        let mut w = Quota::new(usize::MAX, Full::Zero);
        to_io_writer(&mut w, &doc()).unwrap();
        String::from_utf8(w.out).unwrap()
    };
    case("o01 full output", format!("{full_text:?}"));
    for capacity in [0usize, 1, 4, 9, 10, 11, 12, 13, 14, 15, 30, 60, 80, 100] {
        // what was written must be a prefix of the fault-free output
        let line = write_case_vs(
            &doc(),
            Quota::new(capacity, Full::Fail(other)),
            None,
            Some(full_text.as_bytes()),
        );
        case(&format!("o02 quota {capacity}"), line);
    }
    case("o03 exact fit", write_case(&doc(), Quota::new(full_text.len(), Full::Fail(other)), None));
    case("o04 one short", write_case(&doc(), Quota::new(full_text.len() - 1, Full::Fail(io::ErrorKind::StorageFull)), None));
    case("o05 write zero", write_case(&doc(), Quota::new(17, Full::Zero), None));
    case("o06 write zero at once", write_case(&doc(), Quota::new(0, Full::Zero), None));
    case("o07 short writes ok", write_case(&doc(), Quota::new(usize::MAX, Full::Zero).chunk(1), None));
    case("o08 short writes then failure", write_case(&doc(), Quota::new(13, Full::Fail(io::ErrorKind::BrokenPipe)).chunk(2), None));
    case("o09 options indent 4", write_case(&doc(), Quota::new(usize::MAX, Full::Zero), Some(serde_saphyr::ser_options! { indent_step: 4, quote_all: true })));
    case("o10 options indent 4 failing", write_case(&doc(), Quota::new(40, Full::Fail(other)), Some(serde_saphyr::ser_options! { indent_step: 4, quote_all: true })));
    case("o11 invalid options, nothing written", {
        let mut o = SerializerOptions::default();
        #[allow(deprecated)]
        {
            o.indent_step = 0;
        }
        let mut w = Quota::new(0, Full::Fail(other));
        let r = to_io_writer_with_options(&mut w, &doc(), o);
        format!("{:?} calls={}", r.map_err(|e| e.to_string()), w.calls)
    });
    case("o12 serialize error that is not I/O", {
        struct Bad;
        impl Serialize for Bad {
            fn serialize<S: serde::Serializer>(&self, _s: S) -> Result<S::Ok, S::Error> {
                Err(serde::ser::Error::custom("cannot serialize Bad"))
            }
        }
        let mut m = BTreeMap::new();
        m.insert("k", Bad);
        write_case(&m, Quota::new(usize::MAX, Full::Zero), None)
    });
    case("o13 custom error after an earlier successful write, failing writer later", {
        struct Bad;
        impl Serialize for Bad {
            fn serialize<S: serde::Serializer>(&self, _s: S) -> Result<S::Ok, S::Error> {
                Err(serde::ser::Error::custom("cannot serialize Bad"))
            }
        }
        let mut m = BTreeMap::new();
        m.insert("k", Bad);
        write_case(&m, Quota::new(1, Full::Fail(other)), None)
    });
    case("o14 scalar char", write_case(&'\u{20AC}', Quota::new(2, Full::Fail(other)), None));
    case("o15 scalar char ok", write_case(&'\u{20AC}', Quota::new(10, Full::Fail(other)), None));
    case("o16 empty seq", write_case(&Vec::<i32>::new(), Quota::new(1, Full::Fail(other)), None));
    case("o17 write calls", {
        let mut w = Quota::new(usize::MAX, Full::Zero);
        to_io_writer(&mut w, &Point { x: 1, y: 2 }).unwrap();
        format!("calls={} out={:?}", w.calls, String::from_utf8(w.out).unwrap())
    });

    out
}

const EXPECTED: &[&str] = &[
    "r01 map: Ok({\"a\": 1, \"b\": 2}) pulled=10",
    "r02 empty->bool: Err(\"unexpected end of input at line 1, column 1\") pulled=0",
    "r03 empty->option: Ok(None) pulled=0",
    "r04 comment->bool: Err(\"error: line 2 column 1: unexpected end of input\\n --> <input>:1:11\\n  |\\n1 | # nothing\\n  |          ^ unexpected end of input\") pulled=10",
    "r05 two docs: Err(\"error: line 3 column 1: multiple YAML documents detected; use read or read_with_options to obtain the iterator\\n --> <input>:3:1\\n  |\\n1 | a: 1\\n2 | ---\\n3 | b: 2\\n  | ^ multiple YAML documents detected; use read or read_with_options to obtain the iterator\") pulled=14",
    "r06 garbage after ...: Ok({\"a\": 1}) pulled=23",
    "r07 garbage no end: Err(\"error: line 2 column 1: misplaced bracket\\n --> <input>:2:1\\n  |\\n1 | [1, 2]\\n2 | ]] garbage\\n  | ^ misplaced bracket\") pulled=18",
    "r08 type error: Err(\"error: line 2 column 4: invalid i32\\n --> <input>:2:4\\n  |\\n1 | x: 1\\n2 | y: no\\n  |    ^ invalid i32\") pulled=11",
    "r09 type error no snippet: Err(\"invalid i32 at line 2, column 4\") pulled=11",
    "r10 from_reader default: Ok(Point { x: 1, y: 2 })",
    "c01 cap == len: Ok({\"a\": 1, \"b\": 2}) pulled=10",
    "c02 cap == len-1: Err(\"IO error: input size limit of 9 bytes exceeded\") [io kind FileTooLarge] pulled=10",
    "c03 cap == len+1: Ok({\"a\": 1, \"b\": 2}) pulled=10",
    "c04 cap 0 nonempty: Err(\"error: line 1 column 1: unexpected end of input\\n --> <input>:1:1\\n  |\\n1 | a: 1\\n  | ^ unexpected end of input\\n2 | b: 2\\n  |\") pulled=10",
    "c05 cap 0 empty: Ok(None) pulled=0",
    "c06 cap 0 empty bool: Err(\"unexpected end of input at line 1, column 1\") pulled=0",
    "c07 cap 1: Err(\"IO error: input size limit of 1 bytes exceeded\") [io kind FileTooLarge] pulled=10",
    "c08 cap 5 (one entry fits): Err(\"IO error: input size limit of 5 bytes exceeded\") [io kind FileTooLarge] pulled=10",
    "c09 cap 9 no snippet: Err(\"IO error: input size limit of 9 bytes exceeded\") [io kind FileTooLarge] pulled=10",
    "c10 usize::MAX cap: Ok({\"a\": 1, \"b\": 2}) pulled=10",
    "c11 no cap: Ok({\"a\": 1, \"b\": 2}) pulled=10",
    "c12 multibyte cap 8: Ok({\"k\": \"éé\"}) pulled=8",
    "c13 multibyte cap 7: Err(\"IO error: input size limit of 7 bytes exceeded\") [io kind FileTooLarge] pulled=8",
    "c14 multibyte cap 6 (mid char): Err(\"IO error: input size limit of 6 bytes exceeded\") [io kind FileTooLarge] pulled=8",
    "c15 multibyte cap 4 (mid char): Err(\"IO error: input size limit of 4 bytes exceeded\") [io kind FileTooLarge] pulled=8",
    "c16 emoji cap 13: Ok([\"😀\", \"€\"]) pulled=13",
    "c17 emoji cap 12: Err(\"IO error: input size limit of 12 bytes exceeded\") [io kind FileTooLarge] pulled=13",
    "c18 emoji cap 5: Err(\"IO error: input size limit of 5 bytes exceeded\") [io kind FileTooLarge] pulled=13",
    "c19 emoji cap 3: Err(\"IO error: input size limit of 3 bytes exceeded\") [io kind FileTooLarge] pulled=13",
    "c20 long cap 100: Err(\"IO error: input size limit of 100 bytes exceeded\") [io kind FileTooLarge] pulled=9219",
    "c21 long cap 100 small chunks: Err(\"IO error: input size limit of 100 bytes exceeded\") [io kind FileTooLarge] pulled=1125",
    "c22 long cap 20000: Err(\"IO error: input size limit of 20000 bytes exceeded\") [io kind FileTooLarge] pulled=21003",
    "c23 long fits: Ok(20000) pulled=257780",
    "c24 long one over: Err(\"IO error: input size limit of 257779 bytes exceeded\") [io kind FileTooLarge] pulled=257780",
    "c25 utf16le cap 6: Ok({\"a\": \"é\"}) pulled=12",
    "c26 utf16le cap 5: Err(\"IO error: input size limit of 5 bytes exceeded\") [io kind FileTooLarge] pulled=12",
    "c27 utf16be cap 6 chunk 1: Ok({\"a\": \"é\"}) pulled=12",
    "c28 utf16be cap 3: Err(\"IO error: input size limit of 3 bytes exceeded\") [io kind FileTooLarge] pulled=12",
    "c29 utf8 bom: Ok({\"a\": 1}) pulled=8",
    "c30 utf8 bom cap 4: Err(\"IO error: input size limit of 4 bytes exceeded\") [io kind FileTooLarge] pulled=8",
    "f01 fails at once: Err(\"unexpected end of input at line 1, column 1\") pulled=0",
    "f02 fails at once ->option: Err(\"unexpected end of input at line 1, column 1\") pulled=0",
    "f03 fails mid key: Err(\"unexpected end of input at line 1, column 1\") pulled=1",
    "f04 fails after first entry: Err(\"IO error: boom\") [io kind Other] pulled=5",
    "f05 fails after whole doc: Err(\"IO error: boom\") [io kind Other] pulled=10",
    "f06 fails after whole doc no snippet: Err(\"IO error: boom\") [io kind PermissionDenied] pulled=10",
    "f07 fails after ... marker: Err(\"IO error: boom\") [io kind Other] pulled=9",
    "f08 fails once then data: Err(\"IO error: hiccup\") [io kind Other] pulled=10",
    "f09 interrupted at char start: Ok({\"a\": 1, \"b\": 2}) pulled=10",
    "f10 scalar seq fails before ]: Err(\"unclosed bracket '[' at line 1, column 1\") pulled=8",
    "f11 scalar cut by failure: Err(\"IO error: boom\") [io kind Other] pulled=5",
    "f12 unexpected-eof kind error at start of char: Ok(\"hello\") pulled=5",
    "f13 eof inside 2-byte char: Err(\"IO error: unexpected EOF in middle of UTF-8 codepoint\") [io kind UnexpectedEof] pulled=7",
    "f14 failure inside 2-byte char: Err(\"IO error: boom\") [io kind Other] pulled=7",
    "f15 interrupted inside 2-byte char: Err(\"IO error: invalid UTF-8 leading byte\") [io kind InvalidData] pulled=9",
    "f16 2-byte char split over reads: Ok({\"v\": \"café\"}) pulled=9",
    "f17 eof after 1 of 4: Err(\"IO error: unexpected EOF in middle of UTF-8 codepoint\") [io kind UnexpectedEof] pulled=4",
    "f18 eof after 3 of 4: Err(\"IO error: unexpected EOF in middle of UTF-8 codepoint\") [io kind UnexpectedEof] pulled=6",
    "f19 eof after 3 of 4 one read: Err(\"IO error: unexpected EOF in middle of UTF-8 codepoint\") [io kind UnexpectedEof] pulled=6",
    "f20 4-byte split 2+2: Ok({\"v\": \"😀!\"}) pulled=9",
    "f21 failure after 2 of 4: Err(\"IO error: boom\") [io kind BrokenPipe] pulled=5",
    "f22 continuation as leading byte: Err(\"IO error: invalid UTF-8 leading byte\") [io kind InvalidData] pulled=6",
    "f23 0xF8 leading byte: Err(\"IO error: invalid UTF-8 leading byte\") [io kind InvalidData] pulled=8",
    "f24 0xFF in the middle: Err(\"IO error: invalid UTF-8 leading byte\") [io kind InvalidData] pulled=6",
    "f25 bad continuation: Err(\"IO error: invalid utf-8 sequence of 1 bytes from index 0\") [io kind InvalidData] pulled=7",
    "f26 surrogate: Err(\"IO error: invalid utf-8 sequence of 1 bytes from index 0\") [io kind InvalidData] pulled=8",
    "f27 overlong: Err(\"IO error: invalid utf-8 sequence of 1 bytes from index 0\") [io kind InvalidData] pulled=7",
    "f28 above U+10FFFF: Err(\"IO error: invalid utf-8 sequence of 1 bytes from index 0\") [io kind InvalidData] pulled=9",
    "f29 bad 3rd byte with cap: Err(\"IO error: input size limit of 4 bytes exceeded\") [io kind FileTooLarge] pulled=8",
    "f30 bad bytes past cap: Err(\"IO error: input size limit of 3 bytes exceeded\") [io kind FileTooLarge] pulled=8",
    "f31 malformed after complete doc: Err(\"IO error: invalid UTF-8 leading byte\") [io kind InvalidData] pulled=6",
    "f32 malformed after ...: Err(\"IO error: invalid UTF-8 leading byte\") [io kind InvalidData] pulled=10",
    "b01 report cb ok: Ok({\"a\": 1, \"b\": 2}) pulled=10 reports=[\"breached=None events=10 documents=1 nodes=5 scalar_bytes=4\"]",
    "b02 report cb on cap error: Err(\"IO error: input size limit of 9 bytes exceeded\") [io kind FileTooLarge] pulled=10 reports=[]",
    "b03 report cb on late reader failure: Err(\"IO error: boom\") [io kind Other] pulled=10 reports=[]",
    "b04 node budget breached: Err(\"error: line 2 column 1: budget breached: Nodes { nodes: 4 }\\n --> <input>:2:1\\n  |\\n1 | a: 1\\n2 | b: 2\\n  | ^ budget breached: Nodes { nodes: 4 }\") pulled=10 reports=[]",
    "b05 no budget at all: Err(\"simple key expected at line 10, column 1\") pulled=50",
    "b06 no budget, reader failure: Err(\"IO error: boom\") [io kind Other] pulled=10",
    "m01 docs with nulls: Ok(Point { x: 1, y: 2 }) | Ok(Point { x: 3, y: 4 }) | Ok(Point { x: 5, y: 6 }) | ended=true | after=[true, true, true] pulled=53",
    "m02 docs chunk 1: Ok(Point { x: 1, y: 2 }) | Ok(Point { x: 3, y: 4 }) | Ok(Point { x: 5, y: 6 }) | ended=true | after=[true, true, true] pulled=53",
    "m03 empty: ended=true | after=[true, true, true] pulled=0",
    "m04 only nulls: ended=true | after=[true, true, true] pulled=15",
    "m05 quoted null is a value: Ok(\"null\") | Ok(\"null\") | Ok(\"x\") | ended=true | after=[true, true, true] pulled=34",
    "m06 recover after bad doc: Ok(Point { x: 1, y: 2 }) | Err(\"invalid i32 at line 4, column 4\") | Ok(Point { x: 5, y: 6 }) | ended=true | after=[true, true, true] pulled=41",
    "m07 bad last doc: Ok(Point { x: 1, y: 2 }) | Err(\"invalid i32 at line 4, column 4\") | ended=true | after=[true, true, true] pulled=27",
    "m08 syntax error: Ok(Point { x: 1, y: 2 }) | Err(\"unexpected event: expected string scalar at line 4, column 4\") | ended=true | after=[true, true, true] pulled=42",
    "m09 cap in 3rd doc: Ok(Point { x: 1, y: 2 }) | Err(\"IO error: input size limit of 30 bytes exceeded\") [io kind FileTooLarge] | ended=true | after=[true, true, true] pulled=53",
    "m10 cap == len: Ok(Point { x: 1, y: 2 }) | Ok(Point { x: 3, y: 4 }) | Ok(Point { x: 5, y: 6 }) | ended=true | after=[true, true, true] pulled=53",
    "m11 cap == len-1: Ok(Point { x: 1, y: 2 }) | Ok(Point { x: 3, y: 4 }) | Err(\"IO error: input size limit of 52 bytes exceeded\") [io kind FileTooLarge] | ended=true | after=[true, true, true] pulled=53",
    "m12 cap 0: Err(\"IO error: input size limit of 0 bytes exceeded\") [io kind FileTooLarge] | ended=true | after=[true, true, true] pulled=53",
    "m13 cap hit while skipping a bad doc: Err(\"IO error: input size limit of 22 bytes exceeded\") [io kind FileTooLarge] | Err(\"IO error: input size limit of 22 bytes exceeded\") [io kind FileTooLarge] | ended=true | after=[true, true, true] pulled=41",
    "m14 failure while skipping a bad doc: Err(\"IO error: boom\") [io kind Other] | Err(\"IO error: boom\") [io kind Other] | ended=true | after=[true, true, true] pulled=24",
    "m15 failure in 2nd doc: Err(\"IO error: boom\") [io kind Other] | Err(\"IO error: boom\") [io kind Other] | ended=true | after=[true, true, true] pulled=22",
    "m16 failure inside null doc: Err(\"IO error: boom\") [io kind Other] | Err(\"IO error: boom\") [io kind Other] | ended=true | after=[true, true, true] pulled=15",
    "m17 failure right after null doc: Err(\"IO error: boom\") [io kind Other] | Err(\"IO error: boom\") [io kind Other] | ended=true | after=[true, true, true] pulled=16",
    "m18 failure at the very end: Ok(Point { x: 1, y: 2 }) | Ok(Point { x: 3, y: 4 }) | Err(\"IO error: boom\") [io kind Other] | ended=true | after=[true, true, true] pulled=53",
    "m19 failure at once: Err(\"IO error: boom\") [io kind Other] | ended=true | after=[true, true, true] pulled=0",
    "m20 fail once mid stream: Err(\"IO error: hiccup\") [io kind Other] | Err(\"invalid i32 at line 6, column 2\") | ended=true | after=[true, true, true] pulled=36",
    "m21 eof inside char: Err(\"IO error: unexpected EOF in middle of UTF-8 codepoint\") [io kind UnexpectedEof] | Ok(\"b\") | ended=true | after=[true, true, true] pulled=8",
    "m22 malformed in 2nd doc: Err(\"IO error: invalid UTF-8 leading byte\") [io kind InvalidData] | Ok(\"b\") | ended=true | after=[true, true, true] pulled=16",
    "m23 read() default has no cap: [\"Ok(20000)\"] pulled=257780",
    "m24 long stream cap 100: Ok(Point { x: 0, y: 0 }) | Ok(Point { x: 1, y: 1 }) | Ok(Point { x: 2, y: 2 }) | Ok(Point { x: 3, y: 3 }) | Ok(Point { x: 4, y: 4 }) | Ok(Point { x: 5, y: 5 }) | Err(\"IO error: input size limit of 100 bytes exceeded\") [io kind FileTooLarge] | Err(\"IO error: input size limit of 100 bytes exceeded\") [io kind FileTooLarge] | ended=true | after=[true, true, true] pulled=8195",
    "m25 report cb with per-document budget: Ok(Point { x: 1, y: 2 }) | Ok(Point { x: 3, y: 4 }) | Ok(Point { x: 5, y: 6 }) | ended=true | after=[true, true, true] pulled=53 reports=[\"breached=None events=8 documents=0 nodes=5 scalar_bytes=4\"]",
    "m26 report cb, cap error: Ok(Point { x: 1, y: 2 }) | Err(\"IO error: input size limit of 30 bytes exceeded\") [io kind FileTooLarge] | ended=true | after=[true, true, true] pulled=53 reports=[\"breached=None events=1 documents=0 nodes=1 scalar_bytes=1\"]",
    "m27 report cb, bad last doc then failure: Ok(Point { x: 1, y: 2 }) | Err(\"IO error: boom\") [io kind Other] | ended=true | after=[true, true, true] pulled=27 reports=[]",
    "w01 ok: Ok({\"a\": 1, \"b\": 2})",
    "w02 two docs: Err(\"multiple YAML documents detected; use read or read_with_options to obtain the iterator at line 3, column 1\")",
    "w03 garbage after ...: Ok({\"a\": 1})",
    "w04 garbage: Err(\"misplaced bracket at line 2, column 1\")",
    "w05 empty->bool: Err(\"unexpected end of input at line 1, column 1\")",
    "w06 cap == len: Ok({\"a\": 1, \"b\": 2})",
    "w07 cap == len-1: Err(\"IO error: input size limit of 9 bytes exceeded\") [io kind FileTooLarge]",
    "w08 failure after whole doc: Err(\"IO error: boom\") [io kind Other]",
    "w09 failure after ...: Err(\"IO error: boom\") [io kind Other]",
    "w10 eof inside char: Err(\"IO error: unexpected EOF in middle of UTF-8 codepoint\") [io kind UnexpectedEof]",
    "w11 closure ignores input, reader fails: Err(\"multiple YAML documents detected; use read or read_with_options to obtain the iterator at line 1, column 1\")",
    "w12 closure ignores input: Err(\"multiple YAML documents detected; use read or read_with_options to obtain the iterator at line 1, column 1\")",
    "w13 node budget: Err(\"budget breached: Nodes { nodes: 4 } at line 2, column 1\")",
    "o01 full output: \"name: café 😀\\ntags:\\n  - a\\n  - b c\\n  - \\\"true\\\"\\npoint:\\n  x: -1\\n  \\\"y\\\": 2\\ntext: |\\n  line one\\n  line two\\nch: é\\nnone: null\\n\"",
    "o02 quota 0: Err(\"I/O error: disk full\") [io kind Other] written=\"\" prefix=true",
    "o02 quota 1: Err(\"I/O error: disk full\") [io kind Other] written=\"n\" prefix=true",
    "o02 quota 4: Err(\"I/O error: disk full\") [io kind Other] written=\"name\" prefix=true",
    "o02 quota 9: Err(\"I/O error: disk full\") [io kind Other] written=\"name: caf\" prefix=true",
    "o02 quota 10: Err(\"I/O error: disk full\") [io kind Other] written=\"name: caf�\" prefix=true",
    "o02 quota 11: Err(\"I/O error: disk full\") [io kind Other] written=\"name: café\" prefix=true",
    "o02 quota 12: Err(\"I/O error: disk full\") [io kind Other] written=\"name: café \" prefix=true",
    "o02 quota 13: Err(\"I/O error: disk full\") [io kind Other] written=\"name: café �\" prefix=true",
    "o02 quota 14: Err(\"I/O error: disk full\") [io kind Other] written=\"name: café �\" prefix=true",
    "o02 quota 15: Err(\"I/O error: disk full\") [io kind Other] written=\"name: café �\" prefix=true",
    "o02 quota 30: Err(\"I/O error: disk full\") [io kind Other] written=\"name: café 😀\\ntags:\\n  - a\\n \" prefix=true",
    "o02 quota 60: Err(\"I/O error: disk full\") [io kind Other] written=\"name: café 😀\\ntags:\\n  - a\\n  - b c\\n  - \\\"true\\\"\\npoint:\\n  x: \" prefix=true",
    "o02 quota 80: Err(\"I/O error: disk full\") [io kind Other] written=\"name: café 😀\\ntags:\\n  - a\\n  - b c\\n  - \\\"true\\\"\\npoint:\\n  x: -1\\n  \\\"y\\\": 2\\ntext: |\\n\" prefix=true",
    "o02 quota 100: Err(\"I/O error: disk full\") [io kind Other] written=\"name: café 😀\\ntags:\\n  - a\\n  - b c\\n  - \\\"true\\\"\\npoint:\\n  x: -1\\n  \\\"y\\\": 2\\ntext: |\\n  line one\\n  line tw\" prefix=true",
    "o03 exact fit: Ok written=\"name: café 😀\\ntags:\\n  - a\\n  - b c\\n  - \\\"true\\\"\\npoint:\\n  x: -1\\n  \\\"y\\\": 2\\ntext: |\\n  line one\\n  line two\\nch: é\\nnone: null\\n\"",
    "o04 one short: Err(\"I/O error: disk full\") [io kind StorageFull] written=\"name: café 😀\\ntags:\\n  - a\\n  - b c\\n  - \\\"true\\\"\\npoint:\\n  x: -1\\n  \\\"y\\\": 2\\ntext: |\\n  line one\\n  line two\\nch: é\\nnone: null\"",
    "o05 write zero: Err(\"I/O error: failed to write whole buffer\") [io kind WriteZero] written=\"name: café 😀\\n\"",
    "o06 write zero at once: Err(\"I/O error: failed to write whole buffer\") [io kind WriteZero] written=\"\"",
    "o07 short writes ok: Ok written=\"name: café 😀\\ntags:\\n  - a\\n  - b c\\n  - \\\"true\\\"\\npoint:\\n  x: -1\\n  \\\"y\\\": 2\\ntext: |\\n  line one\\n  line two\\nch: é\\nnone: null\\n\"",
    "o08 short writes then failure: Err(\"I/O error: disk full\") [io kind BrokenPipe] written=\"name: café �\"",
    "o09 options indent 4: Ok written=\"name: 'café 😀'\\ntags:\\n    - 'a'\\n    - 'b c'\\n    - 'true'\\npoint:\\n    x: -1\\n    \\\"y\\\": 2\\ntext: \\\"line one\\\\nline two\\\\n\\\"\\nch: 'é'\\nnone: null\\n\"",
    "o10 options indent 4 failing: Err(\"I/O error: disk full\") [io kind Other] written=\"name: 'café 😀'\\ntags:\\n    - 'a'\\n    -\"",
    "o11 invalid options, nothing written: Err(\"invalid serialization options: Invalid indent step must be positive\") calls=0",
    "o12 serialize error that is not I/O: Err(\"cannot serialize Bad\") written=\"k:\"",
    "o13 custom error after an earlier successful write, failing writer later: Err(\"I/O error: disk full\") [io kind Other] written=\"k\"",
    "o14 scalar char: Err(\"I/O error: disk full\") [io kind Other] written=\"�\"",
    "o15 scalar char ok: Ok written=\"€\\n\"",
    "o16 empty seq: Err(\"I/O error: disk full\") [io kind Other] written=\"[\"",
    "o17 write calls: calls=10 out=\"x: 1\\n\\\"y\\\": 2\\n\"",
];

#[test]
fn control_c10_differential() {
    let actual = run_all();
    if std::env::var_os("DEMO_PRINT").is_some() {
        for line in &actual {
            println!("    {line:?},");
        }
        return;
    }
    let mut mismatches = Vec::new();
    for (i, line) in actual.iter().enumerate() {
        match EXPECTED.get(i) {
            Some(exp) if *exp == line => {}
            Some(exp) => mismatches.push(format!("case #{i}\n  expected: {exp}\n  actual:   {line}")),
            None => mismatches.push(format!("case #{i}\n  expected: <nothing>\n  actual:   {line}")),
        }
    }
    assert!(mismatches.is_empty(), "{}", mismatches.join("\n"));
    assert_eq!(actual.len(), EXPECTED.len(), "number of cases");
    assert!(actual.len() >= 30);
}
