//! Differential test for the C03 (merge keys) control refactoring.
//!
//! Every case deserializes one YAML document with one duplicate-key policy through one
//! entry point into one observer type and renders the outcome (value in the order the
//! `MapAccess` yields it, or the error text with its location) as a string. The expected
//! strings were produced by the UNMODIFIED tree (run with `DEMO_PRINT=1 ... -- --nocapture`
//! to print them as Rust literals) and must be identical with the refactoring applied.

use std::fmt;

use serde::Deserialize;
use serde::de::{self, Deserializer, MapAccess, SeqAccess, Visitor};
use serde_saphyr::{DuplicateKeyPolicy, Options, Spanned};

// ---------------------------------------------------------------------------------------
// Observer 1: an order-preserving tree (keeps duplicates, keeps non-string keys).
// ---------------------------------------------------------------------------------------

#[derive(Debug, Clone, PartialEq)]
enum Node {
    Null,
    Bool(bool),
    Int(i64),
    UInt(u64),
    Float(f64),
    Str(String),
    Seq(Vec<Node>),
    Map(Vec<(Node, Node)>),
}

impl fmt::Display for Node {
    fn fmt(&self, f: &mut fmt::Formatter<'_>) -> fmt::Result {
        match self {
            Node::Null => write!(f, "~"),
            Node::Bool(b) => write!(f, "{b}"),
            Node::Int(i) => write!(f, "{i}"),
            Node::UInt(u) => write!(f, "{u}u"),
            Node::Float(x) => write!(f, "{x:?}"),
            Node::Str(s) => write!(f, "{s:?}"),
            Node::Seq(items) => {
                write!(f, "[")?;
                for (i, item) in items.iter().enumerate() {
                    if i != 0 {
                        write!(f, ", ")?;
                    }
                    write!(f, "{item}")?;
                }
                write!(f, "]")
            }
            Node::Map(entries) => {
                write!(f, "{{")?;
                for (i, (k, v)) in entries.iter().enumerate() {
                    if i != 0 {
                        write!(f, ", ")?;
                    }
                    write!(f, "{k}: {v}")?;
                }
                write!(f, "}}")
            }
        }
    }
}

struct NodeVisitor;

impl<'de> Visitor<'de> for NodeVisitor {
    type Value = Node;

    fn expecting(&self, f: &mut fmt::Formatter<'_>) -> fmt::Result {
        f.write_str("any YAML node")
    }
    fn visit_unit<E: de::Error>(self) -> Result<Node, E> {
        Ok(Node::Null)
    }
    fn visit_none<E: de::Error>(self) -> Result<Node, E> {
        Ok(Node::Null)
    }
    fn visit_some<D: Deserializer<'de>>(self, d: D) -> Result<Node, D::Error> {
        Node::deserialize(d)
    }
    fn visit_bool<E: de::Error>(self, v: bool) -> Result<Node, E> {
        Ok(Node::Bool(v))
    }
    fn visit_i64<E: de::Error>(self, v: i64) -> Result<Node, E> {
        Ok(Node::Int(v))
    }
    fn visit_u64<E: de::Error>(self, v: u64) -> Result<Node, E> {
        Ok(Node::UInt(v))
    }
    fn visit_f64<E: de::Error>(self, v: f64) -> Result<Node, E> {
        Ok(Node::Float(v))
    }
    fn visit_str<E: de::Error>(self, v: &str) -> Result<Node, E> {
        Ok(Node::Str(v.to_owned()))
    }
    fn visit_bytes<E: de::Error>(self, v: &[u8]) -> Result<Node, E> {
        Ok(Node::Str(format!("bytes{v:?}")))
    }
    fn visit_seq<A: SeqAccess<'de>>(self, mut seq: A) -> Result<Node, A::Error> {
        let mut items = Vec::new();
        while let Some(item) = seq.next_element::<Node>()? {
            items.push(item);
        }
        Ok(Node::Seq(items))
    }
    fn visit_map<A: MapAccess<'de>>(self, mut map: A) -> Result<Node, A::Error> {
        let mut entries = Vec::new();
        while let Some(key) = map.next_key::<Node>()? {
            let value = map.next_value::<Node>()?;
            entries.push((key, value));
        }
        Ok(Node::Map(entries))
    }
}

impl<'de> Deserialize<'de> for Node {
    fn deserialize<D: Deserializer<'de>>(d: D) -> Result<Node, D::Error> {
        d.deserialize_any(NodeVisitor)
    }
}

// ---------------------------------------------------------------------------------------
// Observer 2: a map reader that asks for one more key after the map reported its end
// (unusual call sequence: the state left behind by the merge flush is observable).
// ---------------------------------------------------------------------------------------

#[derive(Debug)]
struct Greedy(String);

struct GreedyVisitor;

impl<'de> Visitor<'de> for GreedyVisitor {
    type Value = Greedy;

    fn expecting(&self, f: &mut fmt::Formatter<'_>) -> fmt::Result {
        f.write_str("a mapping")
    }
    fn visit_map<A: MapAccess<'de>>(self, mut map: A) -> Result<Greedy, A::Error> {
        let mut out = String::new();
        while let Some(key) = map.next_key::<Node>()? {
            let value = map.next_value::<Node>()?;
            out.push_str(&format!("{key}={value};"));
        }
        // Ask again after the end was reported.
        match map.next_key::<Node>() {
            Ok(None) => out.push_str(" again:None"),
            Ok(Some(k)) => out.push_str(&format!(" again:Some({k})")),
            Err(e) => out.push_str(&format!(" again:Err({e})")),
        }
        Ok(Greedy(out))
    }
}

impl<'de> Deserialize<'de> for Greedy {
    fn deserialize<D: Deserializer<'de>>(d: D) -> Result<Greedy, D::Error> {
        d.deserialize_map(GreedyVisitor)
    }
}

// ---------------------------------------------------------------------------------------
// Observer 3: Spanned fields (use-site / definition-site of merged values).
// Observer 4: a derive(Deserialize) struct with deny_unknown_fields (Serde-raised errors).
// ---------------------------------------------------------------------------------------

#[derive(Debug, Deserialize)]
struct SpannedDoc {
    #[allow(dead_code)]
    #[serde(default)]
    bases: Option<serde::de::IgnoredAny>,
    a: Spanned<String>,
    b: Spanned<String>,
    #[serde(default)]
    c: Option<Spanned<i32>>,
}

fn span<T: fmt::Debug>(s: &Spanned<T>) -> String {
    format!(
        "{:?}@ref{}:{}/def{}:{}",
        s.value,
        s.referenced.line(),
        s.referenced.column(),
        s.defined.line(),
        s.defined.column()
    )
}

#[derive(Debug, Deserialize, PartialEq)]
#[serde(deny_unknown_fields)]
struct Strict {
    x: i32,
    #[serde(default)]
    y: Option<i32>,
}

// ---------------------------------------------------------------------------------------
// Driver
// ---------------------------------------------------------------------------------------

#[derive(Clone, Copy, Debug)]
enum Policy {
    E,
    F,
    L,
}

#[derive(Clone, Copy, Debug)]
enum Via {
    Str,
    Slice,
    Reader,
    StrSnippet,
}

#[derive(Clone, Copy, Debug)]
enum As {
    Node,
    Greedy,
    Spanned,
    Strict,
    Multi,
}

fn opts(policy: Policy, snippet: bool) -> Options {
    let duplicate_keys = match policy {
        Policy::E => DuplicateKeyPolicy::Error,
        Policy::F => DuplicateKeyPolicy::FirstWins,
        Policy::L => DuplicateKeyPolicy::LastWins,
    };
    Options {
        duplicate_keys,
        with_snippet: snippet,
        ..Options::default()
    }
}

fn read<T: serde::de::DeserializeOwned>(
    yaml: &str,
    policy: Policy,
    via: Via,
) -> Result<T, serde_saphyr::Error> {
    match via {
        Via::Str => serde_saphyr::from_str_with_options(yaml, opts(policy, false)),
        Via::StrSnippet => serde_saphyr::from_str_with_options(yaml, opts(policy, true)),
        Via::Slice => serde_saphyr::from_slice_with_options(yaml.as_bytes(), opts(policy, false)),
        Via::Reader => {
            serde_saphyr::from_reader_with_options(yaml.as_bytes(), opts(policy, false))
        }
    }
}

fn run(yaml: &str, policy: Policy, via: Via, target: As) -> String {
    match target {
        As::Node => match read::<Node>(yaml, policy, via) {
            Ok(n) => format!("Ok {n}"),
            Err(e) => format!("Err {e}"),
        },
        As::Greedy => match read::<Vec<Greedy>>(yaml, policy, via) {
            Ok(n) => format!("Ok {n:?}"),
            Err(e) => format!("Err {e}"),
        },
        As::Spanned => match read::<SpannedDoc>(yaml, policy, via) {
            Ok(d) => format!(
                "Ok a={} b={} c={}",
                span(&d.a),
                span(&d.b),
                d.c.as_ref().map(span).unwrap_or_else(|| "-".to_owned())
            ),
            Err(e) => format!("Err {e}"),
        },
        As::Strict => match read::<Vec<Strict>>(yaml, policy, via) {
            Ok(d) => format!("Ok {d:?}"),
            Err(e) => format!("Err {e}"),
        },
        As::Multi => {
            match serde_saphyr::from_multiple_with_options::<Node>(yaml, opts(policy, false)) {
                Ok(docs) => format!(
                    "Ok {}",
                    docs.iter()
                        .map(|d| d.to_string())
                        .collect::<Vec<_>>()
                        .join(" --- ")
                ),
                Err(e) => format!("Err {e}"),
            }
        }
    }
}

const ALL: [Policy; 3] = [Policy::E, Policy::F, Policy::L];

/// (name, yaml, policies, entry points, observer)
fn cases() -> Vec<(&'static str, &'static str, &'static [Policy], &'static [Via], As)> {
    const STR: &[Via] = &[Via::Str];
    const EVERY: &[Via] = &[Via::Str, Via::Slice, Via::Reader];
    const SNIP: &[Via] = &[Via::Str, Via::StrSnippet];
    const E: &[Policy] = &[Policy::E];
    vec![
        // --- plain merges --------------------------------------------------------------
        ("inline map merge", "<<: {a: 1, b: 2}\nc: 3\n", &ALL, EVERY, As::Node),
        ("own key after merge overrides", "<<: {a: 1, b: 2}\na: 9\n", &ALL, EVERY, As::Node),
        ("own key before merge overrides", "a: 9\n<<: {a: 1, b: 2}\n", &ALL, STR, As::Node),
        (
            "two merge entries, later wins",
            "<<: {a: 1, b: 1}\n<<: {b: 2, c: 2}\nd: 4\n",
            &ALL,
            EVERY,
            As::Node,
        ),
        (
            "three merge entries interleaved with own keys",
            "k1: o\n<<: {a: 1, k1: m1}\nk2: o\n<<: {a: 2, b: 2, k2: m2}\nk3: o\n<<: {b: 3, c: 3, k3: m3}\n",
            &ALL,
            STR,
            As::Node,
        ),
        (
            "sequence merge, later element wins",
            "<<: [{a: 1, b: 1}, {b: 2, c: 2}, {c: 3, d: 3}]\n",
            &ALL,
            EVERY,
            As::Node,
        ),
        (
            "sequence merge with aliases",
            "x: &x {a: 1, b: 1}\ny: &y {b: 2, c: 2}\nt:\n  <<: [*x, *y]\n  c: own\n",
            &ALL,
            EVERY,
            As::Node,
        ),
        (
            "nested sequence of sequences",
            "<<: [[{a: 1}, {a: 2, b: 2}], [[{b: 3, c: 3}]], {c: 4, d: 4}]\n",
            &ALL,
            STR,
            As::Node,
        ),
        (
            "recursive: source has its own merge",
            "b0: &b0 {a: 0, z: 0}\nb1: &b1\n  <<: *b0\n  a: 1\n  b: 1\nt:\n  <<: *b1\n  b: own\n",
            &ALL,
            EVERY,
            As::Node,
        ),
        (
            "recursive: source has two merges and a sequence merge",
            "p: &p {a: p, b: p, c: p, d: p}\nq: &q {b: q, c: q}\nr: &r\n  <<: *p\n  c: r\n  <<: [*q, {d: inl, e: inl}]\nt:\n  own: 1\n  <<: *r\n",
            &ALL,
            STR,
            As::Node,
        ),
        (
            "duplicate inside one merge source",
            "<<: {a: 1, a: 2, b: 3}\nc: 4\n",
            &ALL,
            STR,
            As::Node,
        ),
        (
            "duplicate own keys beside a merge",
            "<<: {a: 1}\nb: 1\nb: 2\n",
            &ALL,
            SNIP,
            As::Node,
        ),
        (
            "duplicate own keys, aliased key",
            "k: &k name\nm:\n  <<: {z: 0}\n  *k : 1\n  name: 2\n",
            &ALL,
            STR,
            As::Node,
        ),
        // --- null / empty merge values -------------------------------------------------
        ("null merge value ~", "<<: ~\na: 1\n", E, EVERY, As::Node),
        ("null merge value empty", "<<:\na: 1\n", E, STR, As::Node),
        ("null merge value word", "a: 1\n<<: null\n", E, STR, As::Node),
        ("null merge value tagged !!null", "<<: !!null x\na: 1\n", E, STR, As::Node),
        ("null inside merge sequence", "<<: [~, {a: 1}, null, {b: 2}, ]\n", E, EVERY, As::Node),
        ("empty merge sequence", "<<: []\na: 1\n", E, STR, As::Node),
        ("empty merge mapping", "<<: {}\na: 1\n", E, STR, As::Node),
        ("only merges, all empty", "<<: {}\n<<: []\n<<: ~\n", E, STR, As::Node),
        ("aliased null merge value", "n: &n ~\nt:\n  <<: *n\n  a: 1\n", E, STR, As::Node),
        // --- rejected merge values -----------------------------------------------------
        ("scalar merge value", "a: 1\n<<: hello\n", E, SNIP, As::Node),
        ("quoted null merge value", "<<: \"~\"\n", E, STR, As::Node),
        ("!!str null merge value", "<<: !!str ~\n", E, STR, As::Node),
        ("!!binary empty merge value", "<<: !!binary \"\"\n", E, STR, As::Node),
        ("number merge value", "<<: 12\n", E, EVERY, As::Node),
        ("scalar inside merge sequence", "<<: [{a: 1}, oops, {b: 2}]\n", E, EVERY, As::Node),
        ("scalar inside nested merge sequence", "<<: [{a: 1}, [[7]]]\n", E, STR, As::Node),
        (
            "scalar merge value inside a merged source",
            "s: &s\n  a: 1\n  <<: nope\nt:\n  <<: *s\n",
            E,
            STR,
            As::Node,
        ),
        (
            "aliased scalar merge value",
            "s: &s text\nt:\n  b: 1\n  <<: *s\n",
            E,
            SNIP,
            As::Node,
        ),
        (
            "aliased scalar inside merge sequence",
            "s: &s text\nm: &m {a: 1}\nt:\n  <<: [*m, *s]\n",
            E,
            STR,
            As::Node,
        ),
        ("unknown alias as merge value", "t:\n  <<: *nope\n", E, STR, As::Node),
        // --- ordinary `<<` keys ---------------------------------------------------------
        ("double-quoted << is a key", "\"<<\": {a: 1}\nb: 2\n", E, STR, As::Node),
        ("single-quoted << is a key", "'<<': 5\n", E, STR, As::Node),
        ("tagged !!str << is a key", "!!str <<: {a: 1}\n", E, STR, As::Node),
        ("tagged !!merge << ", "!!merge <<: {a: 1}\n", E, STR, As::Node),
        ("local-tagged !x <<", "!x <<: {a: 1}\nb: 2\n", E, STR, As::Node),
        ("anchored << is still a merge key", "&k <<: {a: 1}\nb: 2\n", E, STR, As::Node),
        (
            "alias to a plain << scalar used as key",
            "k: &k <<\nt:\n  *k : {a: 1}\n  b: 2\n",
            E,
            STR,
            As::Node,
        ),
        ("block scalar << is a key", "? |-\n  <<\n: {a: 1}\nb: 2\n", E, STR, As::Node),
        ("<< inside a sequence is a string", "- <<\n- {<<: {a: 1}}\n", E, STR, As::Node),
        (
            "quoted << in a merge source is a key there",
            "<<: {\"<<\": {a: 1}, b: 2}\nc: 3\n",
            E,
            STR,
            As::Node,
        ),
        // --- unusual keys in sources ---------------------------------------------------
        (
            "non-scalar and null keys from merges",
            "<<: {[1, 2]: seq, {k: v}: map, ~: nul}\n[1, 2]: own\n",
            &ALL,
            STR,
            As::Node,
        ),
        (
            "same text, different style keys",
            "<<: {\"1\": quoted, 1: plain, 0x1: hex}\n1: own\n",
            &ALL,
            STR,
            As::Node,
        ),
        (
            "explicit empty key in source and own",
            "t:\n  <<: {? : merged, a: 1}\n  ? : own\n",
            &ALL,
            STR,
            As::Node,
        ),
        (
            "one-entry-map key with null inner key (buffered key path) beside merges",
            "<<: {a: 1, {~: i}: merged}\n? {~: i}\n: own\n? {null: j}\n: own2\n? {~: i}\n: again\n",
            &ALL,
            STR,
            As::Node,
        ),
        // --- merges under flow / nested contexts ---------------------------------------
        (
            "merge in flow mapping in a sequence",
            "- &m {a: 1, b: 2}\n- {<<: *m, b: 3}\n- {b: 4, <<: [*m, {c: 5}], <<: {c: 6, d: 6}}\n",
            &ALL,
            EVERY,
            As::Node,
        ),
        (
            "merge value is a deep tree",
            "<<: {a: {<<: {x: 1}, y: [1, {<<: {p: 1}, q: 2}]}, b: [~, {}]}\n",
            E,
            STR,
            As::Node,
        ),
        (
            "multi-document merges keep to their document",
            "d: &d {a: 1}\n<<: *d\n---\n<<: {b: 2}\nb: 3\n---\n<<: [{c: 1}, {c: 2}]\n",
            &ALL,
            STR,
            As::Multi,
        ),
        // --- call sequence: next_key after the end -------------------------------------
        (
            "greedy reader after merge flush",
            "- {a: 1, <<: {b: 2}}\n- {c: 3}\n",
            &ALL,
            STR,
            As::Greedy,
        ),
        (
            "greedy reader, merge flush with all-duplicate batch",
            "- {a: 1, <<: {a: 2}, <<: {a: 3}}\n- other: 1\n",
            &ALL,
            STR,
            As::Greedy,
        ),
        // --- locations ------------------------------------------------------------------
        (
            "spanned: alias merge",
            "bases:\n  m: &m\n    a: A\n    b: B\n    c: 7\n<<: *m\n",
            E,
            STR,
            As::Spanned,
        ),
        (
            "spanned: sequence merge, per element use-site, own override",
            "bases:\n  - &m1 {a: A1, c: 1}\n  - &m2\n    a: A2\n    <<: {b: Bin}\nb: Bown\n<<: [*m1, *m2]\n",
            &ALL,
            STR,
            As::Spanned,
        ),
        (
            "spanned: nested alias merge inside merged source",
            "bases:\n  - &in {b: Bdeep, c: 3}\n  - &out\n    a: Aout\n    <<: *in\n<<: *out\n",
            E,
            EVERY,
            As::Spanned,
        ),
        (
            "spanned: inline merge and inline sequence",
            "<<: {a: Ai}\n<<: [{b: Bi}, [{c: 5}]]\n",
            E,
            STR,
            As::Spanned,
        ),
        (
            "spanned: type error in merged value",
            "bases: &m {a: A, b: B, c: notanumber}\n<<: *m\n",
            E,
            SNIP,
            As::Spanned,
        ),
        (
            "spanned: missing field with merges",
            "bases: &m {a: A}\n<<: *m\n",
            E,
            SNIP,
            As::Spanned,
        ),
        // --- serde structural errors raised from merged keys -----------------------------
        (
            "deny_unknown_fields: unknown key from merge",
            "- &m {x: 1, zzz: 2}\n- <<: *m\n  y: 3\n",
            E,
            SNIP,
            As::Strict,
        ),
        (
            "deny_unknown_fields: merged ok",
            "- &m {x: 1}\n- {<<: *m, y: 3}\n- {y: 4, <<: [*m, {x: 5}]}\n- {x: 0, <<: {x: 6, y: 6}}\n",
            &ALL,
            STR,
            As::Strict,
        ),
        (
            "serde duplicate field from LastWins merges",
            "- {x: 1, <<: {y: 2}, <<: {y: 3}}\n- {x: 1, x: 2}\n",
            &ALL,
            STR,
            As::Strict,
        ),
        // --- truncated / malformed -------------------------------------------------------
        ("unterminated flow merge value", "<<: {a: 1\n", E, STR, As::Node),
        ("unterminated flow merge sequence", "a: 1\n<<: [{a: 1}, \n", E, EVERY, As::Node),
    ]
}

fn actual() -> Vec<String> {
    let mut out = Vec::new();
    for (name, yaml, policies, vias, target) in cases() {
        for policy in policies {
            for via in vias {
                let rendered = run(yaml, *policy, *via, target);
                out.push(format!("{name} [{policy:?}/{via:?}] => {rendered}"));
            }
        }
    }
    out
}

#[test]
fn merge_key_behaviour_is_unchanged() {
    let actual = actual();
    if std::env::var_os("DEMO_PRINT").is_some() {
        println!("const EXPECTED: &[&str] = &[");
        for line in &actual {
            println!("    {line:?},");
        }
        println!("];");
    }
    assert!(actual.len() >= 30, "too few cases: {}", actual.len());
    let mut mismatches = 0;
    for (i, got) in actual.iter().enumerate() {
        match EXPECTED.get(i) {
            Some(want) if want == got => {}
            Some(want) => {
                mismatches += 1;
                eprintln!("MISMATCH #{i}\n  want: {want:?}\n  got:  {got:?}");
            }
            None => {
                mismatches += 1;
                eprintln!("EXTRA #{i}: {got:?}");
            }
        }
    }
    assert_eq!(actual.len(), EXPECTED.len(), "number of outcomes differs");
    assert_eq!(mismatches, 0, "{mismatches} outcomes differ");
}

//EXPECTED-BEGIN (printed by the unmodified tree)
#[rustfmt::skip]
const EXPECTED: &[&str] = &[
    "inline map merge [E/Str] => Ok {\"c\": 3u, \"a\": 1u, \"b\": 2u}",
    "inline map merge [E/Slice] => Ok {\"c\": 3u, \"a\": 1u, \"b\": 2u}",
    "inline map merge [E/Reader] => Ok {\"c\": 3u, \"a\": 1u, \"b\": 2u}",
    "inline map merge [F/Str] => Ok {\"c\": 3u, \"a\": 1u, \"b\": 2u}",
    "inline map merge [F/Slice] => Ok {\"c\": 3u, \"a\": 1u, \"b\": 2u}",
    "inline map merge [F/Reader] => Ok {\"c\": 3u, \"a\": 1u, \"b\": 2u}",
    "inline map merge [L/Str] => Ok {\"c\": 3u, \"a\": 1u, \"b\": 2u}",
    "inline map merge [L/Slice] => Ok {\"c\": 3u, \"a\": 1u, \"b\": 2u}",
    "inline map merge [L/Reader] => Ok {\"c\": 3u, \"a\": 1u, \"b\": 2u}",
    "own key after merge overrides [E/Str] => Ok {\"a\": 9u, \"b\": 2u}",
    "own key after merge overrides [E/Slice] => Ok {\"a\": 9u, \"b\": 2u}",
    "own key after merge overrides [E/Reader] => Ok {\"a\": 9u, \"b\": 2u}",
    "own key after merge overrides [F/Str] => Ok {\"a\": 9u, \"b\": 2u}",
    "own key after merge overrides [F/Slice] => Ok {\"a\": 9u, \"b\": 2u}",
    "own key after merge overrides [F/Reader] => Ok {\"a\": 9u, \"b\": 2u}",
    "own key after merge overrides [L/Str] => Ok {\"a\": 9u, \"b\": 2u}",
    "own key after merge overrides [L/Slice] => Ok {\"a\": 9u, \"b\": 2u}",
    "own key after merge overrides [L/Reader] => Ok {\"a\": 9u, \"b\": 2u}",
    "own key before merge overrides [E/Str] => Ok {\"a\": 9u, \"b\": 2u}",
    "own key before merge overrides [F/Str] => Ok {\"a\": 9u, \"b\": 2u}",
    "own key before merge overrides [L/Str] => Ok {\"a\": 9u, \"b\": 2u}",
    "two merge entries, later wins [E/Str] => Ok {\"d\": 4u, \"b\": 2u, \"c\": 2u, \"a\": 1u}",
    "two merge entries, later wins [E/Slice] => Ok {\"d\": 4u, \"b\": 2u, \"c\": 2u, \"a\": 1u}",
    "two merge entries, later wins [E/Reader] => Ok {\"d\": 4u, \"b\": 2u, \"c\": 2u, \"a\": 1u}",
    "two merge entries, later wins [F/Str] => Ok {\"d\": 4u, \"b\": 2u, \"c\": 2u, \"a\": 1u}",
    "two merge entries, later wins [F/Slice] => Ok {\"d\": 4u, \"b\": 2u, \"c\": 2u, \"a\": 1u}",
    "two merge entries, later wins [F/Reader] => Ok {\"d\": 4u, \"b\": 2u, \"c\": 2u, \"a\": 1u}",
    "two merge entries, later wins [L/Str] => Ok {\"d\": 4u, \"b\": 2u, \"c\": 2u, \"a\": 1u}",
    "two merge entries, later wins [L/Slice] => Ok {\"d\": 4u, \"b\": 2u, \"c\": 2u, \"a\": 1u}",
    "two merge entries, later wins [L/Reader] => Ok {\"d\": 4u, \"b\": 2u, \"c\": 2u, \"a\": 1u}",
    "three merge entries interleaved with own keys [E/Str] => Ok {\"k1\": \"o\", \"k2\": \"o\", \"k3\": \"o\", \"b\": 3u, \"c\": 3u, \"a\": 2u}",
    "three merge entries interleaved with own keys [F/Str] => Ok {\"k1\": \"o\", \"k2\": \"o\", \"k3\": \"o\", \"b\": 3u, \"c\": 3u, \"a\": 2u}",
    "three merge entries interleaved with own keys [L/Str] => Ok {\"k1\": \"o\", \"k2\": \"o\", \"k3\": \"o\", \"b\": 3u, \"c\": 3u, \"a\": 2u}",
    "sequence merge, later element wins [E/Str] => Ok {\"c\": 3u, \"d\": 3u, \"b\": 2u, \"a\": 1u}",
    "sequence merge, later element wins [E/Slice] => Ok {\"c\": 3u, \"d\": 3u, \"b\": 2u, \"a\": 1u}",
    "sequence merge, later element wins [E/Reader] => Ok {\"c\": 3u, \"d\": 3u, \"b\": 2u, \"a\": 1u}",
    "sequence merge, later element wins [F/Str] => Ok {\"c\": 3u, \"d\": 3u, \"b\": 2u, \"a\": 1u}",
    "sequence merge, later element wins [F/Slice] => Ok {\"c\": 3u, \"d\": 3u, \"b\": 2u, \"a\": 1u}",
    "sequence merge, later element wins [F/Reader] => Ok {\"c\": 3u, \"d\": 3u, \"b\": 2u, \"a\": 1u}",
    "sequence merge, later element wins [L/Str] => Ok {\"c\": 3u, \"d\": 3u, \"b\": 2u, \"a\": 1u}",
    "sequence merge, later element wins [L/Slice] => Ok {\"c\": 3u, \"d\": 3u, \"b\": 2u, \"a\": 1u}",
    "sequence merge, later element wins [L/Reader] => Ok {\"c\": 3u, \"d\": 3u, \"b\": 2u, \"a\": 1u}",
    "sequence merge with aliases [E/Str] => Ok {\"x\": {\"a\": 1u, \"b\": 1u}, true: {\"b\": 2u, \"c\": 2u}, \"t\": {\"c\": \"own\", \"b\": 2u, \"a\": 1u}}",
    "sequence merge with aliases [E/Slice] => Ok {\"x\": {\"a\": 1u, \"b\": 1u}, true: {\"b\": 2u, \"c\": 2u}, \"t\": {\"c\": \"own\", \"b\": 2u, \"a\": 1u}}",
    "sequence merge with aliases [E/Reader] => Ok {\"x\": {\"a\": 1u, \"b\": 1u}, true: {\"b\": 2u, \"c\": 2u}, \"t\": {\"c\": \"own\", \"b\": 2u, \"a\": 1u}}",
    "sequence merge with aliases [F/Str] => Ok {\"x\": {\"a\": 1u, \"b\": 1u}, true: {\"b\": 2u, \"c\": 2u}, \"t\": {\"c\": \"own\", \"b\": 2u, \"a\": 1u}}",
    "sequence merge with aliases [F/Slice] => Ok {\"x\": {\"a\": 1u, \"b\": 1u}, true: {\"b\": 2u, \"c\": 2u}, \"t\": {\"c\": \"own\", \"b\": 2u, \"a\": 1u}}",
    "sequence merge with aliases [F/Reader] => Ok {\"x\": {\"a\": 1u, \"b\": 1u}, true: {\"b\": 2u, \"c\": 2u}, \"t\": {\"c\": \"own\", \"b\": 2u, \"a\": 1u}}",
    "sequence merge with aliases [L/Str] => Ok {\"x\": {\"a\": 1u, \"b\": 1u}, true: {\"b\": 2u, \"c\": 2u}, \"t\": {\"c\": \"own\", \"b\": 2u, \"a\": 1u}}",
    "sequence merge with aliases [L/Slice] => Ok {\"x\": {\"a\": 1u, \"b\": 1u}, true: {\"b\": 2u, \"c\": 2u}, \"t\": {\"c\": \"own\", \"b\": 2u, \"a\": 1u}}",
    "sequence merge with aliases [L/Reader] => Ok {\"x\": {\"a\": 1u, \"b\": 1u}, true: {\"b\": 2u, \"c\": 2u}, \"t\": {\"c\": \"own\", \"b\": 2u, \"a\": 1u}}",
    "nested sequence of sequences [E/Str] => Ok {\"c\": 4u, \"d\": 4u, \"b\": 3u, \"a\": 2u}",
    "nested sequence of sequences [F/Str] => Ok {\"c\": 4u, \"d\": 4u, \"b\": 3u, \"a\": 2u}",
    "nested sequence of sequences [L/Str] => Ok {\"c\": 4u, \"d\": 4u, \"b\": 3u, \"a\": 2u}",
    "recursive: source has its own merge [E/Str] => Ok {\"b0\": {\"a\": 0u, \"z\": 0u}, \"b1\": {\"a\": 1u, \"b\": 1u, \"z\": 0u}, \"t\": {\"b\": \"own\", \"a\": 1u, \"z\": 0u}}",
    "recursive: source has its own merge [E/Slice] => Ok {\"b0\": {\"a\": 0u, \"z\": 0u}, \"b1\": {\"a\": 1u, \"b\": 1u, \"z\": 0u}, \"t\": {\"b\": \"own\", \"a\": 1u, \"z\": 0u}}",
    "recursive: source has its own merge [E/Reader] => Ok {\"b0\": {\"a\": 0u, \"z\": 0u}, \"b1\": {\"a\": 1u, \"b\": 1u, \"z\": 0u}, \"t\": {\"b\": \"own\", \"a\": 1u, \"z\": 0u}}",
    "recursive: source has its own merge [F/Str] => Ok {\"b0\": {\"a\": 0u, \"z\": 0u}, \"b1\": {\"a\": 1u, \"b\": 1u, \"z\": 0u}, \"t\": {\"b\": \"own\", \"a\": 1u, \"z\": 0u}}",
    "recursive: source has its own merge [F/Slice] => Ok {\"b0\": {\"a\": 0u, \"z\": 0u}, \"b1\": {\"a\": 1u, \"b\": 1u, \"z\": 0u}, \"t\": {\"b\": \"own\", \"a\": 1u, \"z\": 0u}}",
    "recursive: source has its own merge [F/Reader] => Ok {\"b0\": {\"a\": 0u, \"z\": 0u}, \"b1\": {\"a\": 1u, \"b\": 1u, \"z\": 0u}, \"t\": {\"b\": \"own\", \"a\": 1u, \"z\": 0u}}",
    "recursive: source has its own merge [L/Str] => Ok {\"b0\": {\"a\": 0u, \"z\": 0u}, \"b1\": {\"a\": 1u, \"b\": 1u, \"z\": 0u}, \"t\": {\"b\": \"own\", \"a\": 1u, \"z\": 0u}}",
    "recursive: source has its own merge [L/Slice] => Ok {\"b0\": {\"a\": 0u, \"z\": 0u}, \"b1\": {\"a\": 1u, \"b\": 1u, \"z\": 0u}, \"t\": {\"b\": \"own\", \"a\": 1u, \"z\": 0u}}",
    "recursive: source has its own merge [L/Reader] => Ok {\"b0\": {\"a\": 0u, \"z\": 0u}, \"b1\": {\"a\": 1u, \"b\": 1u, \"z\": 0u}, \"t\": {\"b\": \"own\", \"a\": 1u, \"z\": 0u}}",
    "recursive: source has two merges and a sequence merge [E/Str] => Ok {\"p\": {\"a\": \"p\", \"b\": \"p\", \"c\": \"p\", \"d\": \"p\"}, \"q\": {\"b\": \"q\", \"c\": \"q\"}, \"r\": {\"c\": \"r\", \"d\": \"inl\", \"e\": \"inl\", \"b\": \"q\", \"a\": \"p\"}, \"t\": {\"own\": 1u, \"c\": \"r\", \"d\": \"inl\", \"e\": \"inl\", \"b\": \"q\", \"a\": \"p\"}}",
    "recursive: source has two merges and a sequence merge [F/Str] => Ok {\"p\": {\"a\": \"p\", \"b\": \"p\", \"c\": \"p\", \"d\": \"p\"}, \"q\": {\"b\": \"q\", \"c\": \"q\"}, \"r\": {\"c\": \"r\", \"d\": \"inl\", \"e\": \"inl\", \"b\": \"q\", \"a\": \"p\"}, \"t\": {\"own\": 1u, \"c\": \"r\", \"d\": \"inl\", \"e\": \"inl\", \"b\": \"q\", \"a\": \"p\"}}",
    "recursive: source has two merges and a sequence merge [L/Str] => Ok {\"p\": {\"a\": \"p\", \"b\": \"p\", \"c\": \"p\", \"d\": \"p\"}, \"q\": {\"b\": \"q\", \"c\": \"q\"}, \"r\": {\"c\": \"r\", \"d\": \"inl\", \"e\": \"inl\", \"b\": \"q\", \"a\": \"p\"}, \"t\": {\"own\": 1u, \"c\": \"r\", \"d\": \"inl\", \"e\": \"inl\", \"b\": \"q\", \"a\": \"p\"}}",
    "duplicate inside one merge source [E/Str] => Ok {\"c\": 4u, \"a\": 1u, \"b\": 3u}",
    "duplicate inside one merge source [F/Str] => Ok {\"c\": 4u, \"a\": 1u, \"b\": 3u}",
    "duplicate inside one merge source [L/Str] => Ok {\"c\": 4u, \"a\": 1u, \"b\": 3u}",
    "duplicate own keys beside a merge [E/Str] => Err duplicate mapping key: b, set DuplicateKeyPolicy in Options if acceptable at line 3, column 1",
    "duplicate own keys beside a merge [E/StrSnippet] => Err error: line 3 column 1: duplicate mapping key: b, set DuplicateKeyPolicy in Options if acceptable\n --> <input>:3:1\n  |\n1 | <<: {a: 1}\n2 | b: 1\n3 | b: 2\n  | ^ duplicate mapping key: b, set DuplicateKeyPolicy in Options if acceptable",
    "duplicate own keys beside a merge [F/Str] => Ok {\"b\": 1u, \"a\": 1u}",
    "duplicate own keys beside a merge [F/StrSnippet] => Ok {\"b\": 1u, \"a\": 1u}",
    "duplicate own keys beside a merge [L/Str] => Ok {\"b\": 1u, \"b\": 2u, \"a\": 1u}",
    "duplicate own keys beside a merge [L/StrSnippet] => Ok {\"b\": 1u, \"b\": 2u, \"a\": 1u}",
    "duplicate own keys, aliased key [E/Str] => Err duplicate mapping key: name, set DuplicateKeyPolicy in Options if acceptable at line 5, column 3",
    "duplicate own keys, aliased key [F/Str] => Ok {\"k\": \"name\", \"m\": {\"name\": 1u, \"z\": 0u}}",
    "duplicate own keys, aliased key [L/Str] => Ok {\"k\": \"name\", \"m\": {\"name\": 1u, \"name\": 2u, \"z\": 0u}}",
    "null merge value ~ [E/Str] => Ok {\"a\": 1u}",
    "null merge value ~ [E/Slice] => Ok {\"a\": 1u}",
    "null merge value ~ [E/Reader] => Ok {\"a\": 1u}",
    "null merge value empty [E/Str] => Ok {\"a\": 1u}",
    "null merge value word [E/Str] => Ok {\"a\": 1u}",
    "null merge value tagged !!null [E/Str] => Err YAML merge value must be mapping or sequence of mappings at line 1, column 12",
    "null inside merge sequence [E/Str] => Ok {\"b\": 2u, \"a\": 1u}",
    "null inside merge sequence [E/Slice] => Ok {\"b\": 2u, \"a\": 1u}",
    "null inside merge sequence [E/Reader] => Ok {\"b\": 2u, \"a\": 1u}",
    "empty merge sequence [E/Str] => Ok {\"a\": 1u}",
    "empty merge mapping [E/Str] => Ok {\"a\": 1u}",
    "only merges, all empty [E/Str] => Ok {}",
    "aliased null merge value [E/Str] => Ok {false: ~, \"t\": {\"a\": 1u}}",
    "scalar merge value [E/Str] => Err YAML merge value must be mapping or sequence of mappings at line 2, column 5",
    "scalar merge value [E/StrSnippet] => Err error: line 2 column 5: YAML merge value must be mapping or sequence of mappings\n --> <input>:2:5\n  |\n1 | a: 1\n2 | <<: hello\n  |     ^ YAML merge value must be mapping or sequence of mappings",
    "quoted null merge value [E/Str] => Err YAML merge value must be mapping or sequence of mappings at line 1, column 5",
    "!!str null merge value [E/Str] => Err YAML merge value must be mapping or sequence of mappings at line 1, column 11",
    "!!binary empty merge value [E/Str] => Err YAML merge value must be mapping or sequence of mappings at line 1, column 14",
    "number merge value [E/Str] => Err YAML merge value must be mapping or sequence of mappings at line 1, column 5",
    "number merge value [E/Slice] => Err YAML merge value must be mapping or sequence of mappings at line 1, column 5",
    "number merge value [E/Reader] => Err error: line 1 column 5: YAML merge value must be mapping or sequence of mappings\n --> <input>:1:5\n  |\n1 | <<: 12\n  |     ^ YAML merge value must be mapping or sequence of mappings",
    "scalar inside merge sequence [E/Str] => Err YAML merge value must be mapping or sequence of mappings at line 1, column 14",
    "scalar inside merge sequence [E/Slice] => Err YAML merge value must be mapping or sequence of mappings at line 1, column 14",
    "scalar inside merge sequence [E/Reader] => Err error: line 1 column 14: YAML merge value must be mapping or sequence of mappings\n --> <input>:1:14\n  |\n1 | <<: [{a: 1}, oops, {b: 2}]\n  |              ^ YAML merge value must be mapping or sequence of mappings",
    "scalar inside nested merge sequence [E/Str] => Err YAML merge value must be mapping or sequence of mappings at line 1, column 16",
    "scalar merge value inside a merged source [E/Str] => Err YAML merge value must be mapping or sequence of mappings at line 3, column 7",
    "aliased scalar merge value [E/Str] => Err YAML merge value must be mapping or sequence of mappings at line 1, column 7",
    "aliased scalar merge value [E/StrSnippet] => Err error: line 1 column 7: YAML merge value must be mapping or sequence of mappings\n --> <input>:1:7\n  |\n1 | s: &s text\n  |       ^ YAML merge value must be mapping or sequence of mappings\n2 | t:\n3 |   b: 1\n  |",
    "aliased scalar inside merge sequence [E/Str] => Err YAML merge value must be mapping or sequence of mappings at line 1, column 7",
    "unknown alias as merge value [E/Str] => Err alias references unknown anchor at line 2, column 7",
    "double-quoted << is a key [E/Str] => Ok {\"<<\": {\"a\": 1u}, \"b\": 2u}",
    "single-quoted << is a key [E/Str] => Ok {\"<<\": 5u}",
    "tagged !!str << is a key [E/Str] => Ok {\"<<\": {\"a\": 1u}}",
    "tagged !!merge <<  [E/Str] => Ok {\"<<\": {\"a\": 1u}}",
    "local-tagged !x << [E/Str] => Ok {\"<<\": {\"a\": 1u}, \"b\": 2u}",
    "anchored << is still a merge key [E/Str] => Ok {\"b\": 2u, \"a\": 1u}",
    "alias to a plain << scalar used as key [E/Str] => Ok {\"k\": \"<<\", \"t\": {\"b\": 2u, \"a\": 1u}}",
    "block scalar << is a key [E/Str] => Ok {\"<<\": {\"a\": 1u}, \"b\": 2u}",
    "<< inside a sequence is a string [E/Str] => Ok [\"<<\", {\"a\": 1u}]",
    "quoted << in a merge source is a key there [E/Str] => Ok {\"c\": 3u, \"<<\": {\"a\": 1u}, \"b\": 2u}",
    "non-scalar and null keys from merges [E/Str] => Ok {[1u, 2u]: \"own\", {\"k\": \"v\"}: \"map\", ~: \"nul\"}",
    "non-scalar and null keys from merges [F/Str] => Ok {[1u, 2u]: \"own\", {\"k\": \"v\"}: \"map\", ~: \"nul\"}",
    "non-scalar and null keys from merges [L/Str] => Ok {[1u, 2u]: \"own\", {\"k\": \"v\"}: \"map\", ~: \"nul\"}",
    "same text, different style keys [E/Str] => Ok {1u: \"own\", 1u: \"hex\"}",
    "same text, different style keys [F/Str] => Ok {1u: \"own\", 1u: \"hex\"}",
    "same text, different style keys [L/Str] => Ok {1u: \"own\", 1u: \"hex\"}",
    "explicit empty key in source and own [E/Str] => Ok {\"t\": {{}: \"own\", ~: \"merged\", \"a\": 1u}}",
    "explicit empty key in source and own [F/Str] => Ok {\"t\": {{}: \"own\", ~: \"merged\", \"a\": 1u}}",
    "explicit empty key in source and own [L/Str] => Ok {\"t\": {{}: \"own\", ~: \"merged\", \"a\": 1u}}",
    "one-entry-map key with null inner key (buffered key path) beside merges [E/Str] => Err duplicate mapping key, set DuplicateKeyPolicy in Options if acceptable at line 6, column 3",
    "one-entry-map key with null inner key (buffered key path) beside merges [F/Str] => Ok {{}: \"i\", {}: \"j\", \"a\": 1u}",
    "one-entry-map key with null inner key (buffered key path) beside merges [L/Str] => Ok {{}: \"i\", {}: \"j\", {}: \"i\", \"a\": 1u}",
    "merge in flow mapping in a sequence [E/Str] => Ok [{\"a\": 1u, \"b\": 2u}, {\"b\": 3u, \"a\": 1u}, {\"b\": 4u, \"c\": 6u, \"d\": 6u, \"a\": 1u}]",
    "merge in flow mapping in a sequence [E/Slice] => Ok [{\"a\": 1u, \"b\": 2u}, {\"b\": 3u, \"a\": 1u}, {\"b\": 4u, \"c\": 6u, \"d\": 6u, \"a\": 1u}]",
    "merge in flow mapping in a sequence [E/Reader] => Ok [{\"a\": 1u, \"b\": 2u}, {\"b\": 3u, \"a\": 1u}, {\"b\": 4u, \"c\": 6u, \"d\": 6u, \"a\": 1u}]",
    "merge in flow mapping in a sequence [F/Str] => Ok [{\"a\": 1u, \"b\": 2u}, {\"b\": 3u, \"a\": 1u}, {\"b\": 4u, \"c\": 6u, \"d\": 6u, \"a\": 1u}]",
    "merge in flow mapping in a sequence [F/Slice] => Ok [{\"a\": 1u, \"b\": 2u}, {\"b\": 3u, \"a\": 1u}, {\"b\": 4u, \"c\": 6u, \"d\": 6u, \"a\": 1u}]",
    "merge in flow mapping in a sequence [F/Reader] => Ok [{\"a\": 1u, \"b\": 2u}, {\"b\": 3u, \"a\": 1u}, {\"b\": 4u, \"c\": 6u, \"d\": 6u, \"a\": 1u}]",
    "merge in flow mapping in a sequence [L/Str] => Ok [{\"a\": 1u, \"b\": 2u}, {\"b\": 3u, \"a\": 1u}, {\"b\": 4u, \"c\": 6u, \"d\": 6u, \"a\": 1u}]",
    "merge in flow mapping in a sequence [L/Slice] => Ok [{\"a\": 1u, \"b\": 2u}, {\"b\": 3u, \"a\": 1u}, {\"b\": 4u, \"c\": 6u, \"d\": 6u, \"a\": 1u}]",
    "merge in flow mapping in a sequence [L/Reader] => Ok [{\"a\": 1u, \"b\": 2u}, {\"b\": 3u, \"a\": 1u}, {\"b\": 4u, \"c\": 6u, \"d\": 6u, \"a\": 1u}]",
    "merge value is a deep tree [E/Str] => Ok {\"a\": {true: [1u, {\"q\": 2u, \"p\": 1u}], \"x\": 1u}, \"b\": [~, {}]}",
    "multi-document merges keep to their document [E/Str] => Ok {\"d\": {\"a\": 1u}, \"a\": 1u} --- {\"b\": 3u} --- {\"c\": 2u}",
    "multi-document merges keep to their document [F/Str] => Ok {\"d\": {\"a\": 1u}, \"a\": 1u} --- {\"b\": 3u} --- {\"c\": 2u}",
    "multi-document merges keep to their document [L/Str] => Ok {\"d\": {\"a\": 1u}, \"a\": 1u} --- {\"b\": 3u} --- {\"c\": 2u}",
    "greedy reader after merge flush [E/Str] => Ok [Greedy(\"\\\"a\\\"=1u;\\\"b\\\"=2u; again:Some({\\\"c\\\": 3u})\")]",
    "greedy reader after merge flush [F/Str] => Ok [Greedy(\"\\\"a\\\"=1u;\\\"b\\\"=2u; again:Some({\\\"c\\\": 3u})\")]",
    "greedy reader after merge flush [L/Str] => Ok [Greedy(\"\\\"a\\\"=1u;\\\"b\\\"=2u; again:Some({\\\"c\\\": 3u})\")]",
    "greedy reader, merge flush with all-duplicate batch [E/Str] => Ok [Greedy(\"\\\"a\\\"=1u; again:Some({\\\"other\\\": 1u})\")]",
    "greedy reader, merge flush with all-duplicate batch [F/Str] => Ok [Greedy(\"\\\"a\\\"=1u; again:Some({\\\"other\\\": 1u})\")]",
    "greedy reader, merge flush with all-duplicate batch [L/Str] => Ok [Greedy(\"\\\"a\\\"=1u; again:Some({\\\"other\\\": 1u})\")]",
    "spanned: alias merge [E/Str] => Ok a=\"A\"@ref6:5/def3:8 b=\"B\"@ref6:5/def4:8 c=7@ref6:5/def5:8",
    "spanned: sequence merge, per element use-site, own override [E/Str] => Ok a=\"A2\"@ref7:11/def4:8 b=\"Bown\"@ref6:4/def6:4 c=1@ref7:6/def2:20",
    "spanned: sequence merge, per element use-site, own override [F/Str] => Ok a=\"A2\"@ref7:11/def4:8 b=\"Bown\"@ref6:4/def6:4 c=1@ref7:6/def2:20",
    "spanned: sequence merge, per element use-site, own override [L/Str] => Ok a=\"A2\"@ref7:11/def4:8 b=\"Bown\"@ref6:4/def6:4 c=1@ref7:6/def2:20",
    "spanned: nested alias merge inside merged source [E/Str] => Ok a=\"Aout\"@ref6:5/def4:8 b=\"Bdeep\"@ref6:5/def2:13 c=3@ref6:5/def2:23",
    "spanned: nested alias merge inside merged source [E/Slice] => Ok a=\"Aout\"@ref6:5/def4:8 b=\"Bdeep\"@ref6:5/def2:13 c=3@ref6:5/def2:23",
    "spanned: nested alias merge inside merged source [E/Reader] => Ok a=\"Aout\"@ref6:5/def4:8 b=\"Bdeep\"@ref6:5/def2:13 c=3@ref6:5/def2:23",
    "spanned: inline merge and inline sequence [E/Str] => Ok a=\"Ai\"@ref1:5/def1:9 b=\"Bi\"@ref2:6/def2:10 c=5@ref2:15/def2:20",
    "spanned: type error in merged value [E/Str] => Err invalid i32 at line 1, column 27 (defined at line 1, column 27) at line 2, column 5",
    "spanned: type error in merged value [E/StrSnippet] => Err error: line 2 column 5: invalid i32 at line 1, column 27\n --> the value is used here:2:5\n  |\n1 | bases: &m {a: A, b: B, c: notanumber}\n2 | <<: *m\n  |     ^ invalid i32 at line 1, column 27\n  | This value comes indirectly from the anchor at line 1 column 27:\n  |\n1 | bases: &m {a: A, b: B, c: notanumber}\n  |                           ^ defined here\n2 | <<: *m\n3 |\n  |\n",
    "spanned: missing field with merges [E/Str] => Err missing field `b` at line 1, column 12",
    "spanned: missing field with merges [E/StrSnippet] => Err error: line 1 column 12: missing field `b`\n --> <input>:1:12\n  |\n1 | bases: &m {a: A}\n  |            ^ missing field `b`\n2 | <<: *m\n  |",
    "deny_unknown_fields: unknown key from merge [E/Str] => Err unknown field `zzz`, expected one of x, y at line 1, column 13",
    "deny_unknown_fields: unknown key from merge [E/StrSnippet] => Err error: line 1 column 13: unknown field `zzz`, expected one of x, y\n --> <input>:1:13\n  |\n1 | - &m {x: 1, zzz: 2}\n  |             ^ unknown field `zzz`, expected one of x, y\n2 | - <<: *m\n3 |   y: 3\n  |",
    "deny_unknown_fields: merged ok [E/Str] => Ok [Strict { x: 1, y: None }, Strict { x: 1, y: Some(3) }, Strict { x: 5, y: Some(4) }, Strict { x: 0, y: Some(6) }]",
    "deny_unknown_fields: merged ok [F/Str] => Ok [Strict { x: 1, y: None }, Strict { x: 1, y: Some(3) }, Strict { x: 5, y: Some(4) }, Strict { x: 0, y: Some(6) }]",
    "deny_unknown_fields: merged ok [L/Str] => Ok [Strict { x: 1, y: None }, Strict { x: 1, y: Some(3) }, Strict { x: 5, y: Some(4) }, Strict { x: 0, y: Some(6) }]",
    "serde duplicate field from LastWins merges [E/Str] => Err duplicate mapping key: x, set DuplicateKeyPolicy in Options if acceptable at line 2, column 10",
    "serde duplicate field from LastWins merges [F/Str] => Ok [Strict { x: 1, y: Some(3) }, Strict { x: 1, y: None }]",
    "serde duplicate field from LastWins merges [L/Str] => Err duplicate field `x` at line 2, column 3",
    "unterminated flow merge value [E/Str] => Err unclosed bracket '{' at line 1, column 5",
    "unterminated flow merge sequence [E/Str] => Err unclosed bracket '[' at line 2, column 5",
    "unterminated flow merge sequence [E/Slice] => Err unclosed bracket '[' at line 2, column 5",
    "unterminated flow merge sequence [E/Reader] => Err error: line 2 column 5: unclosed bracket '['\n --> <input>:2:5\n  |\n1 | a: 1\n2 | <<: [{a: 1}, \n  |     ^ unclosed bracket '['",
];
//EXPECTED-END
