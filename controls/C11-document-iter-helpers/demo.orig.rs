//! Differential test for the C11 control refactoring (multi-document streams).
//!
//! Every case renders its outcome (values, error texts with locations and snippets,
//! budget reports, iterator item sequences) into one string; the strings are compared
//! with literals captured on the UNMODIFIED tree. Run with `DEMO_PRINT=1` to print the
//! table of actual results instead of asserting (that is how EXPECTED was produced).
//!
//! Uses only the public API of serde-saphyr and its existing dev-dependencies.

use serde::Deserialize;
use serde::de::DeserializeOwned;
use serde_saphyr::budget::BudgetReport;
use serde_saphyr::{Options, RcAnchor};
use std::cell::RefCell;
use std::collections::BTreeMap;
use std::fmt::Debug;
use std::io::{Cursor, Read};
use std::rc::Rc;

#[derive(Debug, Deserialize, PartialEq)]
struct Doc {
    id: i32,
}

#[derive(Debug, Deserialize, PartialEq)]
struct Pair {
    a: Vec<i32>,
    b: Vec<i32>,
}

#[derive(Debug, Deserialize, PartialEq)]
struct Mixed {
    a: Vec<i32>,
    b: Vec<bool>,
}

#[derive(Debug, Deserialize, PartialEq)]
struct AB {
    a: i32,
    b: i32,
}

/// Options without snippets: compact one-line error texts.
fn plain() -> Options {
    serde_saphyr::options! { with_snippet: false, crop_radius: 0 }
}

fn show<T: Debug>(r: Result<T, serde_saphyr::Error>) -> String {
    match r {
        Ok(v) => format!("Ok({v:?})"),
        Err(e) => format!("Err({:?})", e.to_string()),
    }
}

/// Number of extra `next()` calls made after the iterator first returned `None`.
const EXTRA_POLLS: usize = 3;

/// Drain an iterator (bounded, to prove termination), then poll it a few more times.
fn drain<T: Debug>(mut it: impl Iterator<Item = Result<T, serde_saphyr::Error>>) -> String {
    let mut out = Vec::new();
    let mut ended = false;
    for _ in 0..64 {
        match it.next() {
            Some(item) => out.push(show(item)),
            None => {
                ended = true;
                break;
            }
        }
    }
    if !ended {
        out.push("<DID NOT TERMINATE IN 64 STEPS>".to_string());
    }
    for _ in 0..EXTRA_POLLS {
        if let Some(item) = it.next() {
            out.push(format!("<ITEM AFTER END: {}>", show(item)));
        }
    }
    format!("[{}]", out.join(", "))
}

fn batch1<T: DeserializeOwned + Debug>(yaml: &str, opts: Options) -> String {
    show(serde_saphyr::from_multiple_with_options::<T>(yaml, opts))
}

fn stream<T: DeserializeOwned + Debug>(yaml: &str, opts: Options) -> String {
    let mut reader = Cursor::new(yaml.as_bytes().to_vec());
    let it = serde_saphyr::read_with_options::<_, T>(&mut reader, opts);
    drain(it)
}

fn single<T: DeserializeOwned + Debug>(yaml: &str, opts: Options) -> String {
    show(serde_saphyr::from_str_with_options::<T>(yaml, opts))
}

fn single_reader<T: DeserializeOwned + Debug>(yaml: &str, opts: Options) -> String {
    show(serde_saphyr::from_reader_with_options::<_, T>(
        Cursor::new(yaml.as_bytes().to_vec()),
        opts,
    ))
}

/// Both batch and streaming results for the same input.
fn both<T: DeserializeOwned + Debug>(yaml: &str) -> String {
    format!(
        "batch={} | stream={}",
        batch1::<T>(yaml, plain()),
        stream::<T>(yaml, plain())
    )
}

/// A reader that serves `data` and then fails with an I/O error (instead of EOF).
struct FailingReader {
    data: Vec<u8>,
    pos: usize,
    chunk: usize,
}

impl Read for FailingReader {
    fn read(&mut self, buf: &mut [u8]) -> std::io::Result<usize> {
        if self.pos >= self.data.len() {
            return Err(std::io::Error::other("disk on fire"));
        }
        let n = self.chunk.min(buf.len()).min(self.data.len() - self.pos);
        buf[..n].copy_from_slice(&self.data[self.pos..self.pos + n]);
        self.pos += n;
        Ok(n)
    }
}

fn failing(yaml: &str, chunk: usize) -> FailingReader {
    FailingReader {
        data: yaml.as_bytes().to_vec(),
        pos: 0,
        chunk,
    }
}

fn report_line(r: &BudgetReport) -> String {
    format!(
        "breached={:?} events={} aliases={} anchors={} documents={} nodes={} depth={} bytes={} merges={}",
        r.breached,
        r.events,
        r.aliases,
        r.anchors,
        r.documents,
        r.nodes,
        r.max_depth,
        r.total_scalar_bytes,
        r.merge_keys
    )
}

/// Options (no snippets) whose budget report is appended to the returned log.
fn reporting(base: Options) -> (Options, Rc<RefCell<Vec<String>>>) {
    let log = Rc::new(RefCell::new(Vec::new()));
    let sink = log.clone();
    let opts = base.with_budget_report(move |r: BudgetReport| sink.borrow_mut().push(report_line(&r)));
    (opts, log)
}

fn cases() -> Vec<(&'static str, String)> {
    let mut c: Vec<(&'static str, String)> = Vec::new();

    // ---- plain lists of documents -------------------------------------------------------
    c.push(("two_docs", both::<Doc>("id: 1\n---\nid: 2\n")));
    c.push(("empty_input", both::<Doc>("")));
    c.push(("only_separators", both::<Doc>("---\n---\n---\n")));
    c.push(("only_comments", both::<Doc>("# nothing\n---\n# still nothing\n")));
    c.push((
        "null_docs_skipped",
        both::<Doc>("---\n---\nid: 1\n---\n~\n---\nnull\n--- \n...\n---\nNULL\n---\nid: 2\n--- Null\n"),
    ));
    c.push((
        "explicit_ends",
        both::<Doc>("id: 1\n...\n---\nid: 2\n...\n"),
    ));
    c.push((
        "directives",
        both::<Doc>("%YAML 1.2\n---\nid: 1\n...\n%YAML 1.2\n---\nid: 2\n"),
    ));
    c.push(("bom_prefix", both::<Doc>("\u{FEFF}id: 1\n---\nid: 2\n")));
    c.push(("bom_then_null_doc", both::<Doc>("\u{FEFF}---\n~\n---\nid: 9\n")));
    c.push((
        "null_options_are_skipped_too",
        both::<Option<i32>>("1\n---\n~\n---\n3\n---\n"),
    ));
    c.push((
        "quoted_and_tagged_nulls_are_documents",
        both::<String>("''\n---\n\"\"\n---\n!!str null\n---\n!!str\n---\n'~'\n--- |\n--- >\n---\nx\n"),
    ));
    c.push((
        "nullish_but_tagged_null",
        both::<Option<String>>("!!null null\n---\n!!null ''\n---\nz\n"),
    ));
    c.push((
        "scalars_and_flow_docs",
        both::<Vec<i32>>("[1, 2]\n--- [3]\n--- []\n---\n- 4\n- 5\n"),
    ));
    c.push((
        "unit_docs",
        both::<()>("~\n---\nnull\n---\n"),
    ));

    // ---- anchors are per document ---------------------------------------------------------
    c.push((
        "alias_into_previous_doc",
        both::<AB>("a: &x 1\nb: *x\n---\na: 2\nb: *x\n---\na: 3\nb: 3\n"),
    ));
    c.push((
        "anchor_name_reused",
        both::<AB>("a: &x 1\nb: *x\n---\na: &x 2\nb: *x\n---\na: &y 3\nb: *y\n"),
    ));
    c.push((
        "alias_to_container_of_previous_doc",
        both::<Pair>("a: &s [1, 2]\nb: *s\n---\na: [3]\nb: *s\n"),
    ));
    c.push((
        "alias_before_anchor_in_next_doc",
        both::<BTreeMap<String, Vec<i32>>>("k: &k [1]\nl: *k\n---\nl: *k\nk: &k [2]\n---\nm: [7]\n"),
    ));
    {
        // Identity scope: shared inside a document, never across documents.
        let yaml = "- &a x\n- *a\n---\n- &a y\n- *a\n---\n- &b x\n- &c x\n";
        let docs: Vec<Vec<RcAnchor<String>>> = serde_saphyr::from_multiple(yaml).unwrap();
        let mut reader = Cursor::new(yaml.as_bytes().to_vec());
        let streamed: Vec<Vec<RcAnchor<String>>> = serde_saphyr::read::<_, Vec<RcAnchor<String>>>(&mut reader)
            .map(|r| r.unwrap())
            .collect();
        let describe = |docs: &Vec<Vec<RcAnchor<String>>>| {
            let within: Vec<bool> = docs.iter().map(|d| Rc::ptr_eq(&d[0].0, &d[1].0)).collect();
            let across = Rc::ptr_eq(&docs[0][0].0, &docs[1][0].0) || Rc::ptr_eq(&docs[0][0].0, &docs[2][0].0);
            let values: Vec<Vec<&str>> = docs
                .iter()
                .map(|d| d.iter().map(|r| r.0.as_str()).collect())
                .collect();
            format!("values={values:?} within={within:?} across={across}")
        };
        c.push((
            "rc_identity_scope",
            format!("batch: {} | stream: {}", describe(&docs), describe(&streamed)),
        ));
    }

    // ---- alias counters are per document ---------------------------------------------------
    {
        let limits = || {
            let mut o = plain();
            o.alias_limits.max_alias_expansions_per_anchor = 2;
            o
        };
        let ok = "- &a 1\n- *a\n- *a\n---\n- &a 2\n- *a\n- *a\n";
        let bad = "- &a 1\n- *a\n- *a\n---\n- &a 2\n- *a\n- *a\n- *a\n---\n- &a 3\n- *a\n";
        c.push((
            "per_anchor_expansions_reset",
            format!(
                "ok: batch={} stream={} | bad: batch={} stream={}",
                batch1::<Vec<i32>>(ok, limits()),
                stream::<Vec<i32>>(ok, limits()),
                batch1::<Vec<i32>>(bad, limits()),
                stream::<Vec<i32>>(bad, limits()),
            ),
        ));
    }
    {
        let limits = || {
            let mut o = plain();
            o.alias_limits.max_total_replayed_events = 4;
            o
        };
        let ok = "a: &s [1, 2]\nb: *s\n---\na: &s [3, 4]\nb: *s\n---\na: &s [5, 6]\nb: *s\n";
        let bad = "a: &s [1, 2]\nb: *s\n---\na: &s [3, 4, 5]\nb: *s\n---\na: &s [5, 6]\nb: *s\n";
        c.push((
            "total_replayed_events_reset",
            format!(
                "ok: batch={} stream={} | bad: batch={} stream={}",
                batch1::<Pair>(ok, limits()),
                stream::<Pair>(ok, limits()),
                batch1::<Pair>(bad, limits()),
                stream::<Pair>(bad, limits()),
            ),
        ));
    }
    {
        let mut o = plain();
        o.alias_limits.max_replay_stack_depth = 0;
        c.push((
            "replay_stack_depth_zero",
            format!(
                "batch={} stream={}",
                batch1::<AB>("a: 1\nb: 1\n---\na: &x 2\nb: *x\n---\na: 3\nb: 3\n", o.clone()),
                stream::<AB>("a: 1\nb: 1\n---\na: &x 2\nb: *x\n---\na: 3\nb: 3\n", o),
            ),
        ));
    }

    // ---- streaming recovery ----------------------------------------------------------------
    c.push((
        "type_error_in_the_middle",
        both::<Doc>("id: 1\n---\nid: oops\n---\nid: 3\n"),
    ));
    c.push((
        "type_error_in_last_doc",
        both::<Doc>("id: 1\n---\nid: [nested, {deep: 1}]\n"),
    ));
    c.push((
        "type_error_in_first_doc_deep",
        both::<Doc>("id:\n  - a\n  - b: {c: [1, 2, 3]}\nother: 5\n...\n---\nid: 2\n---\nwrong: 1\n---\nid: 4\n"),
    ));
    c.push((
        "two_type_errors_in_a_row",
        both::<Doc>("- 1\n---\n- 2\n---\nid: 3\n"),
    ));
    c.push((
        "type_error_then_null_docs",
        both::<Doc>("id: x\n---\n~\n---\n---\nid: 4\n"),
    ));
    c.push((
        "syntax_error_in_the_middle",
        both::<Doc>("id: 1\n---\nid: [1, 2\n---\nid: 3\n"),
    ));
    c.push((
        "syntax_error_while_skipping",
        both::<Doc>("id: 1\n---\nid: oops\nrest: [1, 2\n---\nid: 3\n"),
    ));
    c.push((
        "syntax_error_at_start",
        both::<Doc>("id: @bad\n---\nid: 3\n"),
    ));
    c.push((
        "tab_indent_error_in_second",
        both::<Doc>("id: 1\n---\nid:\n\t- 3\n---\nid: 5\n"),
    ));
    c.push((
        "error_while_recording_anchor",
        both::<Pair>("a: &x [1, 2, oops, 4]\nb: *x\n---\na: &y [3]\nb: *y\n---\na: [5]\nb: *x\n"),
    ));
    c.push((
        "error_while_replaying_alias",
        both::<Mixed>("a: &x [1, 2]\nb: *x\n---\na: &x [7]\nb: [true]\n---\na: [8]\nb: *x\n"),
    ));
    c.push((
        "error_inside_nested_alias_replay",
        both::<BTreeMap<String, Vec<Vec<i32>>>>(
            "p: &p [[1], [2]]\nq: &q [[3], [x]]\n---\np: &p [[4]]\nq: *p\n",
        ),
    ));
    c.push((
        "missing_field_and_unknown_variant",
        both::<AB>("a: 1\n---\na: 1\nb: 2\n---\nb: 2\n"),
    ));
    c.push((
        "error_before_doc_end_marker_and_garbage_after",
        both::<Doc>("id: no\n...\n---\nid: 2\n...\n"),
    ));

    // ---- single-document entry points --------------------------------------------------------
    for (name, yaml) in [
        ("single/two_docs", "id: 1\n---\nid: 2\n"),
        ("single/two_docs_explicit_end", "id: 1\n...\n---\nid: 2\n"),
        ("single/second_is_null", "id: 1\n---\n~\n"),
        ("single/second_is_empty", "id: 1\n---\n"),
        ("single/end_marker_only", "id: 1\n...\n"),
        ("single/garbage_after_end", "id: 1\n...\n}{ not yaml [\n"),
        ("single/garbage_without_end", "id: 1\n}{ not yaml [\n"),
        ("single/second_doc_bad_syntax", "id: 1\n---\nid: [1\n"),
        ("single/leading_separator", "---\nid: 1\n"),
        ("single/empty", ""),
        ("single/only_comment", "# just a comment\n"),
        ("single/type_error", "id: what\n---\nid: 2\n"),
        ("single/bom_two_docs", "\u{FEFF}id: 1\n---\nid: 2\n"),
        ("single/inline_docs", "--- {id: 1}\n--- {id: 2}\n"),
    ] {
        c.push((
            name,
            format!(
                "str={} | str+snippet={} | reader={} | reader+snippet={}",
                single::<Doc>(yaml, plain()),
                single::<Doc>(yaml, Options::default()),
                single_reader::<Doc>(yaml, plain()),
                single_reader::<Doc>(yaml, Options::default()),
            ),
        ));
    }
    c.push((
        "single/option_and_unit_targets",
        format!(
            "opt_empty={} opt_two={} unit_two={} unit_reader_two={} slice_two={}",
            single::<Option<i32>>("", plain()),
            single::<Option<i32>>("~\n---\n5\n", plain()),
            single::<()>("~\n---\n~\n", plain()),
            single_reader::<()>("---\n---\n", plain()),
            show(serde_saphyr::from_slice_with_options::<Doc>(b"id: 1\n---\nid: 2\n", plain())),
        ),
    ));
    c.push((
        "single/default_entry_points",
        format!(
            "from_str={} from_reader={} from_slice_multiple={}",
            show(serde_saphyr::from_str::<Doc>("id: 1\n--- # second\nid: 2\n")),
            show(serde_saphyr::from_reader::<_, Doc>(Cursor::new(b"id: 1\n--- # second\nid: 2\n".to_vec()))),
            show(serde_saphyr::from_slice_multiple::<Doc>(b"id: 1\n--- # second\nid: 2\n---\n")),
        ),
    ));
    c.push((
        "multiple_with_snippet_error",
        batch1::<Doc>("id: 1\n---\nid: 2\n---\nid: [x]\n---\nid: 4\n", Options::default()),
    ));

    // ---- budgets: whole stream (batch) vs per document (iterator), with reports ---------------
    {
        let yaml = "a: [1, 2]\nb: [3]\n---\na: [4]\nb: [5, 6]\n---\na: []\nb: []\n";
        let mk = || {
            let mut o = plain();
            o.budget = serde_saphyr::budget! { max_nodes: 8 };
            o
        };
        let (ob, log_b) = reporting(mk());
        let b = batch1::<Pair>(yaml, ob);
        let (os, log_s) = reporting(mk());
        let s = stream::<Pair>(yaml, os);
        c.push((
            "budget_nodes_whole_vs_per_document",
            format!(
                "batch={b} reports={:?} | stream={s} reports={:?}",
                log_b.borrow(),
                log_s.borrow()
            ),
        ));
    }
    {
        // A failed document is skipped unobserved; the next one starts with a clean slate.
        let yaml = "a: [1, 2, 3, 4, x, 6, 7, 8, 9]\nb: []\n---\na: [1, 2, 3]\nb: [4]\n---\n~\n---\na: [1]\nb: []\n";
        let mut o = plain();
        o.budget = serde_saphyr::budget! { max_nodes: 9 };
        let (os, log_s) = reporting(o);
        let s = stream::<Pair>(yaml, os);
        c.push((
            "budget_restart_after_skipped_document",
            format!("stream={s} reports={:?}", log_s.borrow()),
        ));
    }
    {
        let yaml = "id: 1\n---\nid: 2\n---\n~\n---\nid: 3\n";
        let mk = || {
            let mut o = plain();
            o.budget = serde_saphyr::budget! { max_documents: 2 };
            o
        };
        let (ob, log_b) = reporting(mk());
        let b = batch1::<Doc>(yaml, ob);
        let (os, log_s) = reporting(mk());
        let s = stream::<Doc>(yaml, os);
        let (o1, log_1) = reporting(mk());
        let one = single::<Doc>(yaml, o1);
        let (o2, log_2) = reporting(mk());
        let one_r = single_reader::<Doc>(yaml, o2);
        c.push((
            "budget_documents",
            format!(
                "batch={b} {:?} | stream={s} {:?} | single={one} {:?} | single_reader={one_r} {:?}",
                log_b.borrow(),
                log_s.borrow(),
                log_1.borrow(),
                log_2.borrow()
            ),
        ));
    }
    {
        let yaml = "id: 1\n---\nid: 2\n";
        let (o1, log_1) = reporting(plain());
        let r1 = single::<Doc>("id: 1\n...\n", o1);
        let (o2, log_2) = reporting(plain());
        let r2 = batch1::<Doc>(yaml, o2);
        let (o3, log_3) = reporting(plain());
        let r3 = stream::<Doc>("id: 1\n---\nid: oops\n---\n~\n", o3);
        c.push((
            "budget_reports_clean_runs",
            format!(
                "single={r1} {:?} | batch={r2} {:?} | stream={r3} {:?}",
                log_1.borrow(),
                log_2.borrow(),
                log_3.borrow()
            ),
        ));
    }
    {
        let yaml = "id: 1\n---\nid: 2\n---\nid: 3\n---\nid: 4\n";
        let mut o = plain();
        o.budget = serde_saphyr::budget! { max_reader_input_bytes: Some(12) };
        let s = stream::<Doc>(yaml, o.clone());
        let typed = stream::<Doc>("id: 1\n---\nid: zz\nmore: 1\nmore2: 2\n---\nid: 3\n", o.clone());
        let r = single_reader::<Doc>(yaml, o);
        c.push((
            "reader_byte_cap",
            format!("stream={s} | type_error_then_cap={typed} | single_reader={r}"),
        ));
    }

    // ---- reader failures ------------------------------------------------------------------------
    {
        let mut r1 = failing("id: 1\n---\nid: 2\n", 4);
        let a = drain(serde_saphyr::read_with_options::<_, Doc>(&mut r1, plain()));
        let mut r2 = failing("id: 1\n---\n~\n---\n", 3);
        let b = drain(serde_saphyr::read_with_options::<_, Doc>(&mut r2, plain()));
        let mut r3 = failing("id: 1\n---\nid: bad\nk: v\n", 5);
        let d = drain(serde_saphyr::read_with_options::<_, Doc>(&mut r3, plain()));
        let mut r4 = failing("", 5);
        let e = drain(serde_saphyr::read::<_, Doc>(&mut r4));
        let f = show(serde_saphyr::from_reader_with_options::<_, Doc>(failing("id: 1\n", 2), plain()));
        c.push((
            "io_errors",
            format!("docs={a} | null_tail={b} | while_skipping={d} | at_once={e} | single={f}"),
        ));
    }

    // ---- default `read` wrapper and bigger mixed stream -----------------------------------------
    {
        let yaml = "# header\n---\nid: 1\n---\n\n---\nid: two\n...\n---\n- not\n- a\n- map\n---\nid: 5\n--- ~\n---\nid: &n 7\n---\nid: *n\n---\nid: 9\n";
        let mut reader = Cursor::new(yaml.as_bytes().to_vec());
        let streamed = drain(serde_saphyr::read::<_, Doc>(&mut reader));
        let batched = show(serde_saphyr::from_multiple::<Doc>(yaml));
        let json = show(serde_saphyr::from_multiple::<serde_json::Value>(yaml).map(|v| {
            v.iter().map(|j| j.to_string()).collect::<Vec<_>>()
        }));
        c.push((
            "mixed_stream",
            format!("stream={streamed} | batch={batched} | json={json}"),
        ));
    }

    // ---- a stream written by the crate reads back as the same list -------------------------------
    {
        let docs = vec![
            BTreeMap::from([("k".to_string(), vec![1, 2])]),
            BTreeMap::new(),
            BTreeMap::from([("z".to_string(), vec![])]),
        ];
        let text = serde_saphyr::to_string_multiple(&docs).unwrap();
        let back = batch1::<BTreeMap<String, Vec<i32>>>(&text, plain());
        let streamed = stream::<BTreeMap<String, Vec<i32>>>(&text, plain());
        c.push((
            "round_trip_multiple",
            format!("text={text:?} | batch={back} | stream={streamed}"),
        ));
    }

    c
}

#[rustfmt::skip]
const EXPECTED: &[(&str, &str)] = &[
//EXPECTED-BEGIN
    ("two_docs", "batch=Ok([Doc { id: 1 }, Doc { id: 2 }]) | stream=[Ok(Doc { id: 1 }), Ok(Doc { id: 2 })]"),
    ("empty_input", "batch=Ok([]) | stream=[]"),
    ("only_separators", "batch=Ok([]) | stream=[]"),
    ("only_comments", "batch=Ok([]) | stream=[]"),
    ("null_docs_skipped", "batch=Ok([Doc { id: 1 }, Doc { id: 2 }]) | stream=[Ok(Doc { id: 1 }), Ok(Doc { id: 2 })]"),
    ("explicit_ends", "batch=Ok([Doc { id: 1 }, Doc { id: 2 }]) | stream=[Ok(Doc { id: 1 }), Ok(Doc { id: 2 })]"),
    ("directives", "batch=Ok([Doc { id: 1 }, Doc { id: 2 }]) | stream=[Ok(Doc { id: 1 }), Ok(Doc { id: 2 })]"),
    ("bom_prefix", "batch=Ok([Doc { id: 1 }, Doc { id: 2 }]) | stream=[Ok(Doc { id: 1 }), Ok(Doc { id: 2 })]"),
    ("bom_then_null_doc", "batch=Ok([Doc { id: 9 }]) | stream=[Ok(Doc { id: 9 })]"),
    ("null_options_are_skipped_too", "batch=Ok([Some(1), Some(3)]) | stream=[Ok(Some(1)), Ok(Some(3))]"),
    ("quoted_and_tagged_nulls_are_documents", "batch=Ok([\"\", \"\", \"null\", \"\", \"~\", \"--- >\\n---\\nx\\n\"]) | stream=[Ok(\"\"), Ok(\"\"), Ok(\"null\"), Ok(\"\"), Ok(\"~\"), Ok(\"--- >\\n---\\nx\\n\")]"),
    ("nullish_but_tagged_null", "batch=Ok([None, Some(\"z\")]) | stream=[Ok(None), Ok(Some(\"z\"))]"),
    ("scalars_and_flow_docs", "batch=Ok([[1, 2], [3], [], [4, 5]]) | stream=[Ok([1, 2]), Ok([3]), Ok([]), Ok([4, 5])]"),
    ("unit_docs", "batch=Ok([]) | stream=[]"),
    ("alias_into_previous_doc", "batch=Err(\"alias references unknown anchor at line 5, column 4\") | stream=[Ok(AB { a: 1, b: 1 }), Err(\"alias references unknown anchor at line 5, column 4\"), Ok(AB { a: 3, b: 3 })]"),
    ("anchor_name_reused", "batch=Ok([AB { a: 1, b: 1 }, AB { a: 2, b: 2 }, AB { a: 3, b: 3 }]) | stream=[Ok(AB { a: 1, b: 1 }), Ok(AB { a: 2, b: 2 }), Ok(AB { a: 3, b: 3 })]"),
    ("alias_to_container_of_previous_doc", "batch=Err(\"alias references unknown anchor at line 5, column 4\") | stream=[Ok(Pair { a: [1, 2], b: [1, 2] }), Err(\"alias references unknown anchor at line 5, column 4\")]"),
    ("alias_before_anchor_in_next_doc", "batch=Err(\"alias references unknown anchor at line 4, column 4\") | stream=[Ok({\"k\": [1], \"l\": [1]}), Err(\"alias references unknown anchor at line 4, column 4\"), Ok({\"m\": [7]})]"),
    ("rc_identity_scope", "batch: values=[[\"x\", \"x\"], [\"y\", \"y\"], [\"x\", \"x\"]] within=[true, true, false] across=false | stream: values=[[\"x\", \"x\"], [\"y\", \"y\"], [\"x\", \"x\"]] within=[true, true, false] across=false"),
    ("per_anchor_expansions_reset", "ok: batch=Ok([[1, 1, 1], [2, 2, 2]]) stream=[Ok([1, 1, 1]), Ok([2, 2, 2])] | bad: batch=Err(\"alias expansion limit exceeded for anchor id 2: 3 > 2 at line 8, column 3\") stream=[Ok([1, 1, 1]), Err(\"alias expansion limit exceeded for anchor id 2: 3 > 2 at line 8, column 3\"), Ok([3, 3])]"),
    ("total_replayed_events_reset", "ok: batch=Ok([Pair { a: [1, 2], b: [1, 2] }, Pair { a: [3, 4], b: [3, 4] }, Pair { a: [5, 6], b: [5, 6] }]) stream=[Ok(Pair { a: [1, 2], b: [1, 2] }), Ok(Pair { a: [3, 4], b: [3, 4] }), Ok(Pair { a: [5, 6], b: [5, 6] })] | bad: batch=Err(\"alias replay limit exceeded: total_replayed_events=5 > 4 at line 4, column 15 (defined at line 4, column 7) at line 5, column 4\") stream=[Ok(Pair { a: [1, 2], b: [1, 2] }), Err(\"alias replay limit exceeded: total_replayed_events=5 > 4 at line 4, column 15 (defined at line 4, column 7) at line 5, column 4\"), Ok(Pair { a: [5, 6], b: [5, 6] })]"),
    ("replay_stack_depth_zero", "batch=Err(\"alias replay stack depth exceeded: depth=1 > 0 at line 5, column 4\") stream=[Ok(AB { a: 1, b: 1 }), Err(\"alias replay stack depth exceeded: depth=1 > 0 at line 5, column 4\"), Ok(AB { a: 3, b: 3 })]"),
    ("type_error_in_the_middle", "batch=Err(\"invalid i32 at line 3, column 5\") | stream=[Ok(Doc { id: 1 }), Err(\"invalid i32 at line 3, column 5\"), Ok(Doc { id: 3 })]"),
    ("type_error_in_last_doc", "batch=Err(\"unexpected event: expected string scalar at line 3, column 5\") | stream=[Ok(Doc { id: 1 }), Err(\"unexpected event: expected string scalar at line 3, column 5\")]"),
    ("type_error_in_first_doc_deep", "batch=Err(\"unexpected event: expected string scalar at line 2, column 3\") | stream=[Err(\"unexpected event: expected string scalar at line 2, column 3\"), Ok(Doc { id: 2 }), Err(\"missing field `id` at line 9, column 1\"), Ok(Doc { id: 4 })]"),
    ("two_type_errors_in_a_row", "batch=Err(\"unexpected event: expected mapping start at line 1, column 1\") | stream=[Err(\"unexpected event: expected mapping start at line 1, column 1\"), Err(\"unexpected event: expected mapping start at line 3, column 1\"), Ok(Doc { id: 3 })]"),
    ("type_error_then_null_docs", "batch=Err(\"invalid i32 at line 1, column 5\") | stream=[Err(\"invalid i32 at line 1, column 5\"), Ok(Doc { id: 4 })]"),
    ("syntax_error_in_the_middle", "batch=Err(\"unexpected event: expected string scalar at line 3, column 5\") | stream=[Ok(Doc { id: 1 }), Err(\"unexpected event: expected string scalar at line 3, column 5\")]"),
    ("syntax_error_while_skipping", "batch=Err(\"invalid i32 at line 3, column 5\") | stream=[Ok(Doc { id: 1 }), Err(\"invalid i32 at line 3, column 5\")]"),
    ("syntax_error_at_start", "batch=Err(\"unexpected character: `@' at line 1, column 5\") | stream=[Err(\"unexpected character: `@' at line 1, column 5\")]"),
    ("tab_indent_error_in_second", "batch=Err(\"tabs disallowed within this context (block indentation) at line 4, column 2\") | stream=[Ok(Doc { id: 1 }), Err(\"tabs disallowed within this context (block indentation) at line 4, column 2\")]"),
    ("error_while_recording_anchor", "batch=Err(\"invalid i32 at line 1, column 14\") | stream=[Err(\"invalid i32 at line 1, column 14\"), Ok(Pair { a: [3], b: [3] }), Err(\"alias references unknown anchor at line 8, column 4\")]"),
    ("error_while_replaying_alias", "batch=Err(\"invalid boolean at line 1, column 8 (defined at line 1, column 8) at line 2, column 4 (defined at line 1, column 7) at line 2, column 4\") | stream=[Err(\"invalid boolean at line 1, column 8 (defined at line 1, column 8) at line 2, column 4 (defined at line 1, column 7) at line 2, column 4\"), Ok(Mixed { a: [7], b: [true] }), Err(\"alias references unknown anchor at line 8, column 4\")]"),
    ("error_inside_nested_alias_replay", "batch=Err(\"invalid i32 at line 2, column 14\") | stream=[Err(\"invalid i32 at line 2, column 14\"), Ok({\"p\": [[4]], \"q\": [[4]]})]"),
    ("missing_field_and_unknown_variant", "batch=Err(\"missing field `b` at line 1, column 1\") | stream=[Err(\"missing field `b` at line 1, column 1\"), Ok(AB { a: 1, b: 2 }), Err(\"missing field `a` at line 6, column 1\")]"),
    ("error_before_doc_end_marker_and_garbage_after", "batch=Err(\"invalid i32 at line 1, column 5\") | stream=[Err(\"invalid i32 at line 1, column 5\"), Ok(Doc { id: 2 })]"),
    ("single/two_docs", "str=Err(\"multiple YAML documents detected; use from_multiple or from_multiple_with_options at line 3, column 1\") | str+snippet=Err(\"error: line 3 column 1: multiple YAML documents detected; use from_multiple or from_multiple_with_options\\n --> <input>:3:1\\n  |\\n1 | id: 1\\n2 | ---\\n3 | id: 2\\n  | ^ multiple YAML documents detected; use from_multiple or from_multiple_with_options\") | reader=Err(\"multiple YAML documents detected; use read or read_with_options to obtain the iterator at line 3, column 1\") | reader+snippet=Err(\"error: line 3 column 1: multiple YAML documents detected; use read or read_with_options to obtain the iterator\\n --> <input>:3:1\\n  |\\n1 | id: 1\\n2 | ---\\n3 | id: 2\\n  | ^ multiple YAML documents detected; use read or read_with_options to obtain the iterator\")"),
    ("single/two_docs_explicit_end", "str=Err(\"multiple YAML documents detected; use from_multiple or from_multiple_with_options at line 4, column 1\") | str+snippet=Err(\"error: line 4 column 1: multiple YAML documents detected; use from_multiple or from_multiple_with_options\\n --> <input>:4:1\\n  |\\n2 | ...\\n3 | ---\\n4 | id: 2\\n  | ^ multiple YAML documents detected; use from_multiple or from_multiple_with_options\") | reader=Err(\"multiple YAML documents detected; use read or read_with_options to obtain the iterator at line 4, column 1\") | reader+snippet=Err(\"error: line 4 column 1: multiple YAML documents detected; use read or read_with_options to obtain the iterator\\n --> <input>:4:1\\n  |\\n2 | ...\\n3 | ---\\n4 | id: 2\\n  | ^ multiple YAML documents detected; use read or read_with_options to obtain the iterator\")"),
    ("single/second_is_null", "str=Err(\"multiple YAML documents detected; use from_multiple or from_multiple_with_options at line 3, column 1\") | str+snippet=Err(\"error: line 3 column 1: multiple YAML documents detected; use from_multiple or from_multiple_with_options\\n --> <input>:3:1\\n  |\\n1 | id: 1\\n2 | ---\\n3 | ~\\n  | ^ multiple YAML documents detected; use from_multiple or from_multiple_with_options\") | reader=Err(\"multiple YAML documents detected; use read or read_with_options to obtain the iterator at line 3, column 1\") | reader+snippet=Err(\"error: line 3 column 1: multiple YAML documents detected; use read or read_with_options to obtain the iterator\\n --> <input>:3:1\\n  |\\n1 | id: 1\\n2 | ---\\n3 | ~\\n  | ^ multiple YAML documents detected; use read or read_with_options to obtain the iterator\")"),
    ("single/second_is_empty", "str=Err(\"multiple YAML documents detected; use from_multiple or from_multiple_with_options at line 3, column 1\") | str+snippet=Err(\"error: line 3 column 1: multiple YAML documents detected; use from_multiple or from_multiple_with_options\\n --> <input>:2:5\\n  |\\n1 | id: 1\\n2 | ---\\n  |    ^ multiple YAML documents detected; use from_multiple or from_multiple_with_options\") | reader=Err(\"multiple YAML documents detected; use read or read_with_options to obtain the iterator at line 3, column 1\") | reader+snippet=Err(\"error: line 3 column 1: multiple YAML documents detected; use read or read_with_options to obtain the iterator\\n --> <input>:2:5\\n  |\\n1 | id: 1\\n2 | ---\\n  |    ^ multiple YAML documents detected; use read or read_with_options to obtain the iterator\")"),
    ("single/end_marker_only", "str=Ok(Doc { id: 1 }) | str+snippet=Ok(Doc { id: 1 }) | reader=Ok(Doc { id: 1 }) | reader+snippet=Ok(Doc { id: 1 })"),
    ("single/garbage_after_end", "str=Ok(Doc { id: 1 }) | str+snippet=Ok(Doc { id: 1 }) | reader=Ok(Doc { id: 1 }) | reader+snippet=Ok(Doc { id: 1 })"),
    ("single/garbage_without_end", "str=Err(\"misplaced bracket at line 2, column 1\") | str+snippet=Err(\"error: line 2 column 1: misplaced bracket\\n --> <input>:2:1\\n  |\\n1 | id: 1\\n2 | }{ not yaml [\\n  | ^ misplaced bracket\") | reader=Err(\"misplaced bracket at line 2, column 1\") | reader+snippet=Err(\"error: line 2 column 1: misplaced bracket\\n --> <input>:2:1\\n  |\\n1 | id: 1\\n2 | }{ not yaml [\\n  | ^ misplaced bracket\")"),
    ("single/second_doc_bad_syntax", "str=Err(\"multiple YAML documents detected; use from_multiple or from_multiple_with_options at line 3, column 1\") | str+snippet=Err(\"error: line 3 column 1: multiple YAML documents detected; use from_multiple or from_multiple_with_options\\n --> <input>:3:1\\n  |\\n1 | id: 1\\n2 | ---\\n3 | id: [1\\n  | ^ multiple YAML documents detected; use from_multiple or from_multiple_with_options\") | reader=Err(\"multiple YAML documents detected; use read or read_with_options to obtain the iterator at line 3, column 1\") | reader+snippet=Err(\"error: line 3 column 1: multiple YAML documents detected; use read or read_with_options to obtain the iterator\\n --> <input>:3:1\\n  |\\n1 | id: 1\\n2 | ---\\n3 | id: [1\\n  | ^ multiple YAML documents detected; use read or read_with_options to obtain the iterator\")"),
    ("single/leading_separator", "str=Ok(Doc { id: 1 }) | str+snippet=Ok(Doc { id: 1 }) | reader=Ok(Doc { id: 1 }) | reader+snippet=Ok(Doc { id: 1 })"),
    ("single/empty", "str=Err(\"unexpected end of input at line 1, column 1\") | str+snippet=Err(\"unexpected end of input at line 1, column 1\") | reader=Err(\"unexpected end of input at line 1, column 1\") | reader+snippet=Err(\"unexpected end of input at line 1, column 1\")"),
    ("single/only_comment", "str=Err(\"unexpected end of input at line 2, column 1\") | str+snippet=Err(\"error: line 2 column 1: unexpected end of input\\n --> <input>:1:18\\n  |\\n1 | # just a comment\\n  |                 ^ unexpected end of input\") | reader=Err(\"unexpected end of input at line 2, column 1\") | reader+snippet=Err(\"error: line 2 column 1: unexpected end of input\\n --> <input>:1:18\\n  |\\n1 | # just a comment\\n  |                 ^ unexpected end of input\")"),
    ("single/type_error", "str=Err(\"invalid i32 at line 1, column 5\") | str+snippet=Err(\"error: line 1 column 5: invalid i32\\n --> <input>:1:5\\n  |\\n1 | id: what\\n  |     ^ invalid i32\\n2 | ---\\n3 | id: 2\\n  |\") | reader=Err(\"invalid i32 at line 1, column 5\") | reader+snippet=Err(\"error: line 1 column 5: invalid i32\\n --> <input>:1:5\\n  |\\n1 | id: what\\n  |     ^ invalid i32\\n2 | ---\\n3 | id: 2\\n  |\")"),
    ("single/bom_two_docs", "str=Err(\"multiple YAML documents detected; use from_multiple or from_multiple_with_options at line 3, column 1\") | str+snippet=Err(\"error: line 3 column 1: multiple YAML documents detected; use from_multiple or from_multiple_with_options\\n --> <input>:3:1\\n  |\\n1 | id: 1\\n2 | ---\\n3 | id: 2\\n  | ^ multiple YAML documents detected; use from_multiple or from_multiple_with_options\") | reader=Err(\"multiple YAML documents detected; use read or read_with_options to obtain the iterator at line 3, column 1\") | reader+snippet=Err(\"error: line 3 column 1: multiple YAML documents detected; use read or read_with_options to obtain the iterator\\n --> <input>:3:1\\n  |\\n1 | id: 1\\n2 | ---\\n3 | id: 2\\n  | ^ multiple YAML documents detected; use read or read_with_options to obtain the iterator\")"),
    ("single/inline_docs", "str=Err(\"multiple YAML documents detected; use from_multiple or from_multiple_with_options at line 2, column 5\") | str+snippet=Err(\"error: line 2 column 5: multiple YAML documents detected; use from_multiple or from_multiple_with_options\\n --> <input>:2:5\\n  |\\n1 | --- {id: 1}\\n2 | --- {id: 2}\\n  |     ^ multiple YAML documents detected; use from_multiple or from_multiple_with_options\") | reader=Err(\"multiple YAML documents detected; use read or read_with_options to obtain the iterator at line 2, column 5\") | reader+snippet=Err(\"error: line 2 column 5: multiple YAML documents detected; use read or read_with_options to obtain the iterator\\n --> <input>:2:5\\n  |\\n1 | --- {id: 1}\\n2 | --- {id: 2}\\n  |     ^ multiple YAML documents detected; use read or read_with_options to obtain the iterator\")"),
    ("single/option_and_unit_targets", "opt_empty=Ok(None) opt_two=Err(\"multiple YAML documents detected; use from_multiple or from_multiple_with_options at line 3, column 1\") unit_two=Err(\"multiple YAML documents detected; use from_multiple or from_multiple_with_options at line 3, column 1\") unit_reader_two=Err(\"multiple YAML documents detected; use read or read_with_options to obtain the iterator at line 3, column 1\") slice_two=Err(\"multiple YAML documents detected; use from_multiple or from_multiple_with_options at line 3, column 1\")"),
    ("single/default_entry_points", "from_str=Err(\"error: line 3 column 1: multiple YAML documents detected; use from_multiple or from_multiple_with_options\\n --> <input>:3:1\\n  |\\n1 | id: 1\\n2 | --- # second\\n3 | id: 2\\n  | ^ multiple YAML documents detected; use from_multiple or from_multiple_with_options\") from_reader=Err(\"error: line 3 column 1: multiple YAML documents detected; use read or read_with_options to obtain the iterator\\n --> <input>:3:1\\n  |\\n1 | id: 1\\n2 | --- # second\\n3 | id: 2\\n  | ^ multiple YAML documents detected; use read or read_with_options to obtain the iterator\") from_slice_multiple=Ok([Doc { id: 1 }, Doc { id: 2 }])"),
    ("multiple_with_snippet_error", "Err(\"error: line 5 column 5: unexpected event: expected string scalar\\n --> <input>:5:5\\n  |\\n3 | id: 2\\n4 | ---\\n5 | id: [x]\\n  |     ^ unexpected event: expected string scalar\\n6 | ---\\n7 | id: 4\\n  |\")"),
    ("budget_nodes_whole_vs_per_document", "batch=Err(\"budget breached: Nodes { nodes: 9 } at line 4, column 1\") reports=[] | stream=[Ok(Pair { a: [1, 2], b: [3] }), Ok(Pair { a: [4], b: [5, 6] }), Ok(Pair { a: [], b: [] })] reports=[\"breached=None events=10 aliases=0 anchors=0 documents=0 nodes=5 depth=2 bytes=2 merges=0\"]"),
    ("budget_restart_after_skipped_document", "stream=[Err(\"invalid i32 at line 1, column 17\"), Ok(Pair { a: [1, 2, 3], b: [4] }), Ok(Pair { a: [1], b: [] })] reports=[\"breached=None events=11 aliases=0 anchors=0 documents=0 nodes=6 depth=2 bytes=3 merges=0\"]"),
    ("budget_documents", "batch=Err(\"budget breached: Documents { documents: 3 } at line 4, column 1\") [] | stream=[Ok(Doc { id: 1 }), Ok(Doc { id: 2 }), Ok(Doc { id: 3 })] [\"breached=None events=6 aliases=0 anchors=0 documents=0 nodes=3 depth=1 bytes=3 merges=0\"] | single=Err(\"multiple YAML documents detected; use from_multiple or from_multiple_with_options at line 3, column 1\") [] | single_reader=Err(\"multiple YAML documents detected; use read or read_with_options to obtain the iterator at line 3, column 1\") []"),
    ("budget_reports_clean_runs", "single=Ok(Doc { id: 1 }) [\"breached=None events=8 aliases=0 anchors=0 documents=1 nodes=3 depth=1 bytes=3 merges=0\"] | batch=Ok([Doc { id: 1 }, Doc { id: 2 }]) [\"breached=None events=14 aliases=0 anchors=0 documents=2 nodes=6 depth=1 bytes=6 merges=0\"] | stream=[Ok(Doc { id: 1 }), Err(\"invalid i32 at line 3, column 5\")] [\"breached=None events=3 aliases=0 anchors=0 documents=0 nodes=1 depth=0 bytes=1 merges=0\"]"),
    ("reader_byte_cap", "stream=[Err(\"IO error: input size limit of 12 bytes exceeded\"), Err(\"IO error: input size limit of 12 bytes exceeded\")] | type_error_then_cap=[Err(\"IO error: input size limit of 12 bytes exceeded\"), Err(\"IO error: input size limit of 12 bytes exceeded\")] | single_reader=Err(\"IO error: input size limit of 12 bytes exceeded\")"),
    ("io_errors", "docs=[Err(\"IO error: disk on fire\"), Err(\"IO error: disk on fire\")] | null_tail=[Err(\"IO error: disk on fire\"), Err(\"IO error: disk on fire\")] | while_skipping=[Ok(Doc { id: 1 }), Err(\"IO error: disk on fire\")] | at_once=[Err(\"IO error: disk on fire\")] | single=Err(\"IO error: disk on fire\")"),
    ("mixed_stream", "stream=[Ok(Doc { id: 1 }), Err(\"invalid i32 at line 7, column 5\"), Err(\"unexpected event: expected mapping start at line 10, column 1\"), Ok(Doc { id: 5 }), Ok(Doc { id: 7 }), Err(\"alias references unknown anchor at line 19, column 5\"), Ok(Doc { id: 9 })] | batch=Err(\"error: line 7 column 5: invalid i32\\n --> <input>:7:5\\n  |\\n5 |\\n6 | ---\\n7 | id: two\\n  |     ^ invalid i32\\n8 | ...\\n9 | ---\\n  |\") | json=Err(\"error: line 19 column 5: alias references unknown anchor\\n  --> <input>:19:5\\n   |\\n17 | id: &n 7\\n18 | ---\\n19 | id: *n\\n   |     ^ alias references unknown anchor\\n20 | ---\\n21 | id: 9\\n   |\")"),
    ("round_trip_multiple", "text=\"k:\\n  - 1\\n  - 2\\n---\\n{}\\n---\\nz: []\\n\" | batch=Ok([{\"k\": [1, 2]}, {}, {\"z\": []}]) | stream=[Ok({\"k\": [1, 2]}), Ok({}), Ok({\"z\": []})]"),
//EXPECTED-END
];

#[test]
fn c11_control_differential() {
    let actual = cases();
    if std::env::var_os("DEMO_PRINT").is_some() {
        for (name, got) in &actual {
            println!("    ({name:?}, {got:?}),");
        }
        return;
    }
    assert!(actual.len() >= 30, "too few cases: {}", actual.len());
    assert_eq!(
        actual.len(),
        EXPECTED.len(),
        "number of cases differs from the recorded table"
    );
    let mut failures = Vec::new();
    for ((name, got), (exp_name, exp)) in actual.iter().zip(EXPECTED.iter()) {
        assert_eq!(name, exp_name, "case order changed");
        if got != exp {
            failures.push(format!("case {name}:\n  expected: {exp}\n  actual:   {got}"));
        }
    }
    assert!(failures.is_empty(), "{} case(s) differ:\n{}", failures.len(), failures.join("\n"));
}
